"""GenRegex.v: the regular expressions (and conversion parse actions) of the built-in expressions of
pyparsing/common.py, and the constant fragments of QuotedString's unquote scanner (pyparsing/core.py), as
Model.Regex.re terms.  Fail-closed `ast` walk of the *current* source:

  * `<name> = Regex(<string constant | concatenation | f-string of constants>)[.set_name(..)][.set_parse_action(A)]`
  * `<name> = Word(<charset names>)[...]`  with the charset names resolved from core.py's module constants
    (`nums`, `hexnums = nums + "ABCDEFabcdef"`; `identchars`/`identbodychars` are computed by unicode.py and are read
    from the imported module of the same tree -- stated in the output)
  * A in { convert_to_integer, convert_to_float, token_map(int, 16) }  (anything else: refused)
  * `number = (a | b | c).set_name(..).streamline()`: the ordered list of alternatives
  * `convert_to_integer = token_map(int)`, `convert_to_float = token_map(float)`
  * QuotedString: `ws_map`, the constant second alternative of `unquote_scan_re` (an rf-string, evaluated the way
    Python evaluates it, i.e. `{3}` is a replacement field)

Every pattern goes through tools/regex_ast.to_coq; a pattern outside the modelled fragment (mac_address: back-reference)
is emitted as `unsupported` and has no `re_` definition.  Theorems of Props/C18.v are stated about these definitions."""
import ast, os, subprocess, sys, json

OUTPUTS = ["GenRegex.v"]

REGEX_EXPRS = ["signed_integer", "real", "sci_real", "fnumber", "ieee_float", "ipv4_address", "_ipv6_part",
               "mac_address", "iso8601_date", "iso8601_datetime", "uuid"]
WORD_EXPRS = ["integer", "hex_integer", "identifier"]
RUNTIME_CHARSETS = ("identchars", "identbodychars")


class Refused(Exception):
    pass


# what the last call of generate() collected: {"regex": {name: pattern}, "word": {name: [charsets]},
# "conv": {name: conv}, "number": [names], "ws_map": [(k, v)], "qs_numeric": pattern}  (used by tools/props/c18.py)
LAST = {}


def _const_str(node, env):
    """evaluate a string expression made of constants, names bound in env, +, and f-strings of constants"""
    if isinstance(node, ast.Constant) and isinstance(node.value, str):
        return node.value
    if isinstance(node, ast.Name) and node.id in env:
        return env[node.id]
    if isinstance(node, ast.BinOp) and isinstance(node.op, ast.Add):
        return _const_str(node.left, env) + _const_str(node.right, env)
    if isinstance(node, ast.JoinedStr):
        out = []
        for v in node.values:
            if isinstance(v, ast.Constant) and isinstance(v.value, str):
                out.append(v.value)
            elif isinstance(v, ast.FormattedValue) and v.conversion == -1 and v.format_spec is None:
                if isinstance(v.value, ast.Constant) and isinstance(v.value.value, (int, str)) \
                        and not isinstance(v.value.value, bool):
                    out.append(format(v.value.value))
                elif isinstance(v.value, ast.Name) and v.value.id in env:
                    out.append(env[v.value.id])
                else:
                    raise Refused("f-string field is not a constant: " + ast.dump(v.value))
            else:
                raise Refused("f-string part: " + ast.dump(v))
        return "".join(out)
    raise Refused("not a constant string expression: " + ast.dump(node)[:200])


def _unchain(node):
    """x.m1(a).m2(b)... -> (base_call, [(method, args)])"""
    chain = []
    while isinstance(node, ast.Call) and isinstance(node.func, ast.Attribute):
        if node.keywords:
            raise Refused("keyword arguments in method chain")
        chain.append((node.func.attr, node.args))
        node = node.func.value
    chain.reverse()
    return node, chain


def _action(args, actions):
    if len(args) != 1:
        raise Refused("set_parse_action with %d arguments" % len(args))
    a = args[0]
    if isinstance(a, ast.Name) and a.id in actions:
        return actions[a.id]
    return _token_map(a)


def _token_map(a):
    if isinstance(a, ast.Call) and isinstance(a.func, ast.Name) and a.func.id == "token_map" and not a.keywords:
        if len(a.args) == 1 and isinstance(a.args[0], ast.Name) and a.args[0].id == "int":
            return "ConvInt 10"
        if len(a.args) == 1 and isinstance(a.args[0], ast.Name) and a.args[0].id == "float":
            return "ConvFloat"
        if len(a.args) == 2 and isinstance(a.args[0], ast.Name) and a.args[0].id == "int" \
                and isinstance(a.args[1], ast.Constant) and isinstance(a.args[1].value, int) \
                and 2 <= a.args[1].value <= 36:
            return "ConvInt %d" % a.args[1].value
    raise Refused("unrecognised parse action: " + ast.dump(a)[:200])


def _chain_action(chain, actions, allowed=("set_name", "set_parse_action", "streamline")):
    conv = "ConvNone"
    for m, args in chain:
        if m not in allowed:
            raise Refused("unexpected method ." + m)
        if m == "set_parse_action":
            conv = _action(args, actions)
    return conv


def _module_consts(tree, names):
    env = {}
    for st in tree.body:
        tgt = val = None
        if isinstance(st, ast.AnnAssign) and isinstance(st.target, ast.Name) and st.value is not None:
            tgt, val = st.target.id, st.value
        elif isinstance(st, ast.Assign) and len(st.targets) == 1 and isinstance(st.targets[0], ast.Name):
            tgt, val = st.targets[0].id, st.value
        if tgt in names:
            try:
                env[tgt] = _const_str(val, env)
            except Refused:
                pass
    return env


def _runtime_charsets(repo):
    code = ("import json, pyparsing as pp; print(json.dumps({'identchars': pp.identchars, "
            "'identbodychars': pp.identbodychars}))")
    env = dict(os.environ, PYTHONPATH=repo, PYTHONDONTWRITEBYTECODE="1")
    p = subprocess.run([sys.executable, "-c", code], env=env, capture_output=True, text=True, timeout=120)
    if p.returncode != 0:
        raise Refused("cannot import pyparsing from %s: %s" % (repo, p.stderr[-300:]))
    return json.loads(p.stdout)


def _set_items(chars):
    """sorted code points -> CI_char / CI_range items (as regex_ast tree items)"""
    cps = sorted(set(ord(c) for c in chars))
    items = []
    i = 0
    while i < len(cps):
        j = i
        while j + 1 < len(cps) and cps[j + 1] == cps[j] + 1:
            j += 1
        if j - i >= 2:
            items.append(("CI_range", cps[i], cps[j]))
        else:
            items.extend(("CI_char", c) for c in cps[i:j + 1])
        i = j + 1
    return items


def _cmt(s):
    """text safe inside a Coq comment"""
    return s.replace("(*", "( *").replace("*)", "* )").replace('"', "'")


def _coq_str(s):
    return "[" + "; ".join("%d" % ord(c) for c in s) + "]%N"


def generate(repo):
    sys.path.insert(0, os.path.dirname(os.path.dirname(os.path.dirname(os.path.abspath(__file__)))))
    from tools import regex_ast
    common = ast.parse(open(repo + "/pyparsing/common.py").read())
    core_src = open(repo + "/pyparsing/core.py").read()
    core = ast.parse(core_src)

    cls = [n for n in common.body if isinstance(n, ast.ClassDef) and n.name == "pyparsing_common"]
    if len(cls) != 1:
        raise Refused("class pyparsing_common not found")
    assigns = {}
    for st in cls[0].body:
        if isinstance(st, ast.Assign) and len(st.targets) == 1 and isinstance(st.targets[0], ast.Name):
            name = st.targets[0].id
            if name in assigns and name in REGEX_EXPRS + WORD_EXPRS + ["number", "convert_to_integer", "convert_to_float"]:
                raise Refused("%s assigned twice" % name)
            assigns.setdefault(name, st.value)

    info = {"regex": {}, "word": {}, "word_tree": {}, "conv": {}, "number": [], "ws_map": [], "qs_numeric": None}
    out = ["(* GENERATED from pyparsing/common.py and pyparsing/core.py by tools/translate/gen_regex.py -- do not edit *)",
           "From Coq Require Import List NArith.",
           "From PP Require Import Model.Str Model.Regex.",
           "Import ListNotations.", "",
           "(* the conversion parse action attached to an expression: none, int(text, base), float(text) *)",
           "Inductive conv := ConvNone | ConvInt (base : nat) | ConvFloat.", ""]

    # the two named actions
    actions = {}
    for nm in ("convert_to_integer", "convert_to_float"):
        if nm not in assigns:
            raise Refused(nm + " not found")
        actions[nm] = _token_map(assigns[nm])
        out.append("Definition %s : conv := %s." % (nm, actions[nm]))
    out.append("")

    # Regex(...) expressions
    for name in REGEX_EXPRS:
        if name not in assigns:
            raise Refused("expression %s not found" % name)
        base, chain = _unchain(assigns[name])
        if not (isinstance(base, ast.Call) and isinstance(base.func, ast.Name) and base.func.id == "Regex"
                and len(base.args) == 1 and not base.keywords):
            raise Refused("%s is not Regex(<pattern>)" % name)
        pat = _const_str(base.args[0], {})
        conv = _chain_action(chain, actions, allowed=("set_name", "set_parse_action"))
        cname = name.lstrip("_")
        info["regex"][cname] = pat
        info["conv"][cname] = conv
        out.append("(* %s : Regex(%s) *)" % (name, _cmt(repr(pat))))
        try:
            term = regex_ast.to_coq(pat)
            out.append("Definition re_%s : re :=\n  %s." % (cname, term))
            out.append("Definition supported_%s : bool := true." % cname)
        except regex_ast.Unsupported as e:
            out.append("(* outside the modelled regex fragment (%s): correspondence only *)" % e)
            out.append("Definition supported_%s : bool := false." % cname)
        out.append("Definition pattern_%s : str := %s." % (cname, _coq_str(pat)))
        out.append("Definition conv_%s : conv := %s." % (cname, conv))
        out.append("")

    # Word(...) expressions
    consts = _module_consts(core, {"nums", "hexnums"})
    runtime = None
    for name in WORD_EXPRS:
        if name not in assigns:
            raise Refused("expression %s not found" % name)
        base, chain = _unchain(assigns[name])
        if not (isinstance(base, ast.Call) and isinstance(base.func, ast.Name) and base.func.id == "Word"
                and 1 <= len(base.args) <= 2 and not base.keywords
                and all(isinstance(a, ast.Name) for a in base.args)):
            raise Refused("%s is not Word(<charset names>)" % name)
        sets = []
        how = []
        for a in base.args:
            if a.id in consts:
                sets.append(consts[a.id])
                how.append("%s: constant of core.py" % a.id)
            elif a.id in RUNTIME_CHARSETS:
                if runtime is None:
                    runtime = _runtime_charsets(repo)
                sets.append(runtime[a.id])
                how.append("%s: value of the imported module (computed by unicode.py)" % a.id)
            else:
                raise Refused("%s: unknown character set %s" % (name, a.id))
        conv = _chain_action(chain, actions, allowed=("set_name", "set_parse_action"))
        out.append("(* %s : Word(%s)   [%s];  Word(init, body) with default min/max = init body* *)"
                   % (name, ", ".join(a.id for a in base.args), "; ".join(how)))
        info["word"][name] = sets
        info["conv"][name] = conv
        init = ("RSet", False, False, _set_items(sets[0]))
        body = ("RSet", False, False, _set_items(sets[-1]))
        if len(sets) == 1:
            tree = ("RRep", "Greedy", 1, None, init)
        else:
            tree = ("RSeq", init, ("RRep", "Greedy", 0, None, body))
        info["word_tree"][name] = tree
        term = regex_ast.tree_to_coq(tree)
        out.append("Definition re_%s : re :=\n  %s." % (name, term))
        out.append("Definition conv_%s : conv := %s." % (name, conv))
        out.append("")

    # number = (sci_real | real | signed_integer).set_name("number").streamline()
    if "number" not in assigns:
        raise Refused("number not found")
    base, chain = _unchain(assigns["number"])
    conv = _chain_action(chain, actions, allowed=("set_name", "streamline"))
    alts = []

    def flat(n):
        if isinstance(n, ast.BinOp) and isinstance(n.op, ast.BitOr):
            flat(n.left)
            flat(n.right)
        elif isinstance(n, ast.Name) and n.id in REGEX_EXPRS + WORD_EXPRS:
            alts.append(n.id)
        else:
            raise Refused("number: unexpected alternative " + ast.dump(n)[:120])
    flat(base)
    if conv != "ConvNone" or len(alts) < 1:
        raise Refused("number: unexpected shape")
    info["number"] = list(alts)
    out.append("(* number = (%s)  -- MatchFirst, in this order *)" % " | ".join(alts))
    out.append("Definition number_alts : list (re * conv) :=\n  [%s]." %
               "; ".join("(re_%s, conv_%s)" % (a, a) for a in alts))
    out.append("")

    # QuotedString constants
    qs = [n for n in core.body if isinstance(n, ast.ClassDef) and n.name == "QuotedString"]
    if len(qs) != 1:
        raise Refused("class QuotedString not found")
    ws_map = None
    for st in qs[0].body:
        if isinstance(st, ast.Assign) and len(st.targets) == 1 and isinstance(st.targets[0], ast.Name) \
                and st.targets[0].id == "ws_map":
            v = st.value
            if not (isinstance(v, ast.Call) and isinstance(v.func, ast.Name) and v.func.id == "dict"
                    and len(v.args) == 1 and isinstance(v.args[0], ast.Tuple)):
                raise Refused("ws_map: unexpected shape")
            ws_map = []
            for el in v.args[0].elts:
                if not (isinstance(el, ast.Tuple) and len(el.elts) == 2):
                    raise Refused("ws_map entry")
                ws_map.append((_const_str(el.elts[0], {}), _const_str(el.elts[1], {})))
    if ws_map is None:
        raise Refused("QuotedString.ws_map not found")
    out.append("(* QuotedString.ws_map : escaped form -> replacement *)")
    out.append("Definition qs_ws_map : list (str * str) :=\n  [%s]." %
               "; ".join("(%s, %s)" % (_coq_str(k), _coq_str(v)) for k, v in ws_map))
    # the constant alternative of unquote_scan_re (convert_whitespace_escapes branch): the one JoinedStr inside
    # QuotedString.__init__ that starts with "|(" and contains "[0-7]"
    init_fn = [n for n in qs[0].body if isinstance(n, ast.FunctionDef) and n.name == "__init__"]
    if len(init_fn) != 1:
        raise Refused("QuotedString.__init__ not found")
    cands = []
    for n in ast.walk(init_fn[0]):
        if isinstance(n, ast.JoinedStr):
            # adjacent rf-strings are one JoinedStr: split it at the non-constant fields
            seg = [""]
            for v in n.values:
                try:
                    seg[-1] += _const_str(ast.JoinedStr(values=[v]), {})
                except Refused:
                    seg.append("")
            cands.extend(x for x in seg if "[0-7]" in x)
    cands = sorted(set(cands))
    if len(cands) != 1 or not (cands[0].startswith(")|(") and cands[0].endswith(")|(")):
        raise Refused("QuotedString numeric-escape alternative of unquote_scan_re not found uniquely: %r" % (cands,))
    num_pat = cands[0][3:-3]
    out.append("(* the numeric-escape alternative of QuotedString.unquote_scan_re, as Python evaluates the rf-string: %s *)" % _cmt(repr(num_pat)))
    out.append("Definition re_qs_numeric : re :=\n  %s." % regex_ast.to_coq(num_pat))
    out.append("Definition pattern_qs_numeric : str := %s." % _coq_str(num_pat))
    out.append("")
    info["ws_map"] = ws_map
    info["qs_numeric"] = num_pat
    LAST.clear()
    LAST.update(info)
    return {"GenRegex.v": "\n".join(out) + "\n"}
