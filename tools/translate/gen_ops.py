"""GenOps.v: for every composition operator / copy method of ParserElement: the statements that write to `self`
(attribute assignment, augmented assignment, subscript store, or a call of a known mutator on an attribute of self)."""
import ast
from .pyexpr import Untranslatable

OUTPUTS = ["GenOps.v"]
METHODS = ["__add__", "__radd__", "__sub__", "__rsub__", "__mul__", "__rmul__", "__or__", "__ror__", "__xor__", "__rxor__",
           "__and__", "__rand__", "__invert__", "__getitem__", "__call__", "set_results_name", "_setResultsName", "copy", "suppress"]
MUTATORS = {"append", "extend", "insert", "pop", "remove", "clear", "update", "add", "discard", "sort", "reverse", "setdefault", "__setitem__"}


def self_writes(fn):
    out = []
    for n in ast.walk(fn):
        targets = []
        if isinstance(n, ast.Assign):
            targets = n.targets
        elif isinstance(n, (ast.AugAssign, ast.AnnAssign)):
            targets = [n.target]
        elif isinstance(n, ast.Delete):
            targets = n.targets
        for t in targets:
            base = t
            while isinstance(base, (ast.Attribute, ast.Subscript)):
                base = base.value
            if isinstance(base, ast.Name) and base.id == "self" and not isinstance(t, ast.Name):
                out.append(ast.unparse(n).split("\n")[0][:60])
        if isinstance(n, ast.Call) and isinstance(n.func, ast.Attribute) and n.func.attr in MUTATORS:
            base = n.func.value
            while isinstance(base, (ast.Attribute, ast.Subscript)):
                base = base.value
            if isinstance(base, ast.Name) and base.id == "self" and not (isinstance(n.func.value, ast.Name)):
                out.append(ast.unparse(n)[:60])
    return out


def generate(repo):
    tree = ast.parse(open(repo + "/pyparsing/core.py").read())
    pe = [n for n in tree.body if isinstance(n, ast.ClassDef) and n.name == "ParserElement"]
    if len(pe) != 1:
        raise Untranslatable("class ParserElement")
    fns = {m.name: m for m in pe[0].body if isinstance(m, ast.FunctionDef)}
    out = ["(* GENERATED from pyparsing/core.py (class ParserElement) by tools/translate/gen_ops.py -- do not edit *)",
           "From Coq Require Import List String.", "Import ListNotations.", "Local Open Scope string_scope.",
           "(* for each operator / copy method: the statements that write to `self` *)",
           "Definition gen_self_writes : list (string * list string) :="]
    rows = []
    for m in METHODS:
        if m not in fns:
            raise Untranslatable("ParserElement.%s not found" % m)
        ws = self_writes(fns[m])
        rows.append('  ("%s", [%s])' % (m, "; ".join('"%s"' % w.replace('"', "'") for w in ws)))
    out.append("  [" + ";\n  ".join(r.strip() for r in rows) + "].")
    # copy(): the statements, to pin what a copy shares with / resets from its original
    cp = fns["copy"]
    body = [ast.unparse(st) for st in cp.body if not (isinstance(st, ast.Expr) and isinstance(st.value, ast.Constant))]
    out.append("Definition gen_copy_body : list string :=\n  [%s]." % ";\n   ".join('"%s"' % b.replace('"', "'").replace("\n", " ") for b in body))
    # ParseExpression.streamline guards
    pex = [n for n in tree.body if isinstance(n, ast.ClassDef) and n.name == "ParseExpression"][0]
    st = [m for m in pex.body if isinstance(m, ast.FunctionDef) and m.name == "streamline"][0]
    guards = sorted({ast.unparse(n.test) for n in ast.walk(st) if isinstance(n, ast.If) and "isinstance(other, self.__class__)" in ast.unparse(n.test)})
    out.append("Definition gen_streamline_guards : list string :=\n  [%s]." % ";\n   ".join('"%s"' % g for g in guards))
    out.append("")
    return {"GenOps.v": "\n".join(out)}
