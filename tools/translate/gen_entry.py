"""GenEntry.v: how the derived entry points are defined in terms of parse_string / scan_string (re-read from core.py)."""
import ast
from .pyexpr import Untranslatable

OUTPUTS = ["GenEntry.v"]


def _method(tree, cls, name):
    for n in tree.body:
        if isinstance(n, ast.ClassDef) and n.name == cls:
            for m in n.body:
                if isinstance(m, ast.FunctionDef) and m.name == name:
                    return m
    raise Untranslatable("%s.%s not found" % (cls, name))


def _calls(fn, attr):
    return [c for c in ast.walk(fn) if isinstance(c, ast.Call) and isinstance(c.func, ast.Attribute) and c.func.attr == attr]


def generate(repo):
    tree = ast.parse(open(repo + "/pyparsing/core.py").read())
    b = lambda x: "true" if x else "false"
    matches = _method(tree, "ParserElement", "matches")
    c = _calls(matches, "parse_string")
    m_ok = len(c) == 1 and ast.unparse(c[0]) == "self.parse_string(str(test_string), parse_all=parseAll)"
    m_handlers = [ast.unparse(h.type) for t in ast.walk(matches) if isinstance(t, ast.Try) for h in t.handlers]
    eq = _method(tree, "ParserElement", "__eq__")
    c = _calls(eq, "matches")
    eq_ok = len(c) == 1 and ast.unparse(c[0]) == "self.matches(other, parse_all=True)"
    search = _method(tree, "ParserElement", "search_string")
    c = _calls(search, "scan_string")
    s_ok = len(c) == 1 and ast.unparse(c[0]) == "self.scan_string(instring, maxMatches, always_skip_whitespace=False, debug=debug)"
    s_comp = any(isinstance(n, ast.ListComp) and ast.unparse(n.elt) == "t" for n in ast.walk(search))
    transform = _method(tree, "ParserElement", "transform_string")
    t_keeptabs = any(isinstance(n, ast.Assign) and ast.unparse(n) == "self.keepTabs = True" for n in ast.walk(transform))
    c = _calls(transform, "scan_string")
    t_ok = len(c) == 1 and ast.unparse(c[0]) == "self.scan_string(instring, debug=debug)"
    t_slices = sorted(ast.unparse(n) for n in ast.walk(transform) if isinstance(n, ast.Subscript) and ast.unparse(n.value) == "instring")
    split = _method(tree, "ParserElement", "split")
    c = _calls(split, "scan_string")
    sp_ok = len(c) == 1 and ast.unparse(c[0]) == "self.scan_string(instring, max_matches=maxsplit)"
    sp_expand = any(isinstance(n, ast.If) and ast.unparse(n.test) == "not self.keepTabs"
                    and [ast.unparse(x) for x in n.body] == ["instring = str(instring).expandtabs()"] for n in split.body)
    sp_yields = [ast.unparse(y.value) for y in ast.walk(split) if isinstance(y, ast.Yield)]
    ps = _method(tree, "ParserElement", "parse_string")
    ps_calls = [ast.unparse(c) for c in ast.walk(ps) if isinstance(c, ast.Call) and isinstance(c.func, ast.Attribute) and c.func.attr in ("_parse", "preParse", "reset_cache", "expandtabs", "streamline")]
    sc = _method(tree, "ParserElement", "scan_string")
    sc_calls = [ast.unparse(c) for c in ast.walk(sc) if isinstance(c, ast.Call) and ast.unparse(c.func) in ("parseFn", "preparseFn")]
    out = ["(* GENERATED from pyparsing/core.py by tools/translate/gen_entry.py -- do not edit *)",
           "From Coq Require Import List Bool String.", "Import ListNotations.", "Local Open Scope string_scope.",
           "Definition gen_matches_calls_parse_string_with_parse_all : bool := %s." % b(m_ok),
           "Definition gen_matches_catches : list string := [%s]." % "; ".join('"%s"' % h for h in m_handlers),
           "Definition gen_eq_str_calls_matches_parse_all_true : bool := %s." % b(eq_ok),
           "Definition gen_search_is_scan_tokens_no_always_skip : bool := %s." % b(s_ok and s_comp),
           "Definition gen_transform_forces_keeptabs : bool := %s." % b(t_keeptabs and t_ok),
           "Definition gen_transform_slices : list string := [%s]." % "; ".join('"%s"' % x for x in t_slices),
           "Definition gen_split_uses_scan_maxsplit : bool := %s." % b(sp_ok),
           "Definition gen_split_expands_tabs_first : bool := %s." % b(sp_expand),
           "Definition gen_split_yields : list string := [%s]." % "; ".join('"%s"' % x for x in sp_yields),
           "Definition gen_parse_string_calls : list string := [%s]." % "; ".join('"%s"' % x for x in ps_calls),
           "Definition gen_scan_string_calls : list string := [%s]." % "; ".join('"%s"' % x for x in sc_calls),
           ""]
    return {"GenEntry.v": "\n".join(out)}
