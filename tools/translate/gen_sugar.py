"""GenSugar.v: the operator methods that coq/Model/Sugar.v transcribes (ParserElement.__mul__, __getitem__, __or__, __add__,
_PendingSkip.__add__, _MultipleMatch.stopOn) and the splice condition of ParseExpression.streamline, as normalised source text
(ast.unparse), so that the transcription is pinned to what the code says now (coq/Proofs/SugarTie.v compares)."""
import ast
from .pyexpr import Untranslatable

OUTPUTS = ["GenSugar.v"]


def _cls(tree, name):
    for n in tree.body:
        if isinstance(n, ast.ClassDef) and n.name == name:
            return n
    raise Untranslatable("class %s not found" % name)


def _meth(c, name):
    for m in c.body:
        if isinstance(m, ast.FunctionDef) and m.name == name:
            return m
    raise Untranslatable("%s.%s not found" % (c.name, name))


def _body_text(fn):
    body = [st for st in fn.body if not (isinstance(st, ast.Expr) and isinstance(st.value, ast.Constant))]
    return " ; ".join(" ".join(ast.unparse(st).split()) for st in body)


def q(s):
    if any(ord(c) > 126 or ord(c) < 32 for c in s):
        raise Untranslatable("non-ASCII source text")
    return '"%s"' % s.replace('"', "'")


def generate(repo):
    core = ast.parse(open(repo + "/pyparsing/core.py").read())
    pe = _cls(core, "ParserElement")
    ps = _cls(core, "_PendingSkip")
    mm = _cls(core, "_MultipleMatch")
    pex = _cls(core, "ParseExpression")
    st = _meth(pex, "streamline")
    splice = [n for n in st.body if isinstance(n, ast.If) and "len(self.exprs)" in ast.unparse(n.test)]
    if len(splice) != 1:
        raise Untranslatable("ParseExpression.streamline: expected exactly one `if len(self.exprs) == ...` block")
    # the statements of the block that assign self.exprs (first position, then last position)
    assigns = [" ".join(ast.unparse(n).split()) for n in ast.walk(splice[0])
               if isinstance(n, ast.Assign) and ast.unparse(n.targets[0]) == "self.exprs"]
    out = ["(* GENERATED from pyparsing/core.py by tools/translate/gen_sugar.py -- do not edit *)",
           "From Coq Require Import List String.", "Import ListNotations.", "Local Open Scope string_scope.",
           "Definition gen_sugar_mul : string := %s." % q(_body_text(_meth(pe, "__mul__"))),
           "Definition gen_sugar_getitem : string := %s." % q(_body_text(_meth(pe, "__getitem__"))),
           "Definition gen_sugar_or : string := %s." % q(_body_text(_meth(pe, "__or__"))),
           "Definition gen_sugar_add : string := %s." % q(_body_text(_meth(pe, "__add__"))),
           "Definition gen_sugar_pending_add : string := %s." % q(_body_text(_meth(ps, "__add__"))),
           "Definition gen_sugar_stopon : string := %s." % q(_body_text(_meth(mm, "stopOn"))),
           "Definition gen_sugar_splice_test : string := %s." % q(" ".join(ast.unparse(splice[0].test).split())),
           "Definition gen_sugar_splice_assigns : list string := [%s]." % "; ".join(q(a) for a in assigns),
           ""]
    return {"GenSugar.v": "\n".join(out)}
