"""GenC17.v: facts about Word / Literal / one_of / the regex-fragment generators that the C17 theorems depend on.

Fail-closed: every modelled function is unparsed (docstring removed, the *extracted* parts replaced by place-holders)
and compared with the fingerprint of the shape the Coq model was written against; any other shape is refused.

Extracted (so the rule, not today's value, reaches Coq):
  gen_word_strict       : does Word.parseImpl contain the clause
                          `elif self.maxSpecified and loc < instrlen and instring[loc] in body_chars` (F-17a)
  gen_word_guard        : is the regex construction of Word.__init__ guarded by `self.initChars and ...` (F-17c)
  gen_collapse_escapes  : the characters escape_re_range_char (inside _collapse_string_to_ranges) escapes
  gen_range_escapes     : the characters _escape_regex_range_chars escapes
"""
import ast, hashlib

OUTPUTS = ["GenC17.v"]


class Refuse(Exception):
    pass


def _find(tree, path):
    node = tree
    for name in path:
        for ch in ast.iter_child_nodes(node) if not isinstance(node, ast.Module) else node.body:
            if isinstance(ch, (ast.FunctionDef, ast.ClassDef)) and ch.name == name:
                node = ch
                break
        else:
            raise Refuse("cannot find %s" % ".".join(path))
    return node


def _strip_doc(fn):
    body = list(fn.body)
    if body and isinstance(body[0], ast.Expr) and isinstance(getattr(body[0], "value", None), ast.Constant) \
            and isinstance(body[0].value.value, str):
        body = body[1:]
    return body


def _fp(nodes):
    text = "\n".join(ast.unparse(n) for n in nodes)
    return hashlib.sha256(text.encode()).hexdigest()[:16], text


def _coq_chars(s):
    return "[" + "; ".join("%d" % ord(c) for c in s) + "]%N"


# fingerprints of the shapes the model was written against (place-holders in; see generate())
EXPECT = {
    "Word.__init__": "fa32513b297eafe2",
    "Word.parseImpl": "c185988136217e6c",
    "Word.parseImpl_regex": "d36df2c21e6341b0",
    "Char.__init__": "9931f10b3367e15f",
    "Literal.__new__": "958d5b53c226e088",
    "Literal.__init__": "8417b90201ce6067",
    "Literal.parseImpl": "6c6f67bdd49e4a93",
    "Empty.parseImpl": "5702f5ff770e9251",
    "_SingleCharLiteral.parseImpl": "2ae4d547e021d4fe",
    "srange": "905c4a33f53ba576",
    "one_of": "28829877b8a85dee",
    "_escape_regex_range_chars": "ed777546506cf86a",
    "_collapse_string_to_ranges": "971c5a9187c3dc0f",
    "_GroupConsecutive.__call__": "8acb794b102655da",
    "_GroupConsecutive.__init__": "9c413f2fe68cb024",
    "make_compressed_re": "411d23a67802c34f",
}

STRICT_CLAUSE = "self.maxSpecified and loc < instrlen and (instring[loc] in body_chars)"
GUARD_PLAIN = "' ' not in self.initChars | self.bodyChars"
GUARD_NONEMPTY = "self.initChars and ' ' not in self.initChars | self.bodyChars"


def _word_parseimpl(fn):
    """remove the strict-max clause if present; returns (strict, nodes)"""
    body = _strip_doc(fn)
    strict = False
    for st in body:
        if isinstance(st, ast.If) and ast.unparse(st.test) == "loc - start < self.minLen":
            # chain: if A / elif B / elif C
            if len(st.orelse) == 1 and isinstance(st.orelse[0], ast.If):
                nxt = st.orelse[0]
                if ast.unparse(nxt.test) == STRICT_CLAUSE:
                    if ast.unparse(nxt.body[0]) != "throw_exception = True" or len(nxt.body) != 1:
                        raise Refuse("Word.parseImpl: unexpected body of the strict-max clause")
                    strict = True
                    st.orelse = nxt.orelse
    return strict, body


def _word_init(fn):
    """normalise the regex guard; returns (guard, nodes)"""
    body = _strip_doc(fn)
    guard = None
    for st in body:
        if isinstance(st, ast.If):
            t = ast.unparse(st.test)
            if t == GUARD_PLAIN:
                guard = False
            elif t == GUARD_NONEMPTY:
                guard = True
                st.test = ast.parse(GUARD_PLAIN, mode="eval").body
    if guard is None:
        raise Refuse("Word.__init__: cannot find the `' ' not in (initChars | bodyChars)` test")
    return guard, body


def _extract_escape_const(fn, where):
    """find the unique string constant used as `c in <const>` / `for c in <const>`; replace it by a place-holder"""
    found = []

    class V(ast.NodeTransformer):
        def visit_Compare(self, node):
            self.generic_visit(node)
            if len(node.ops) == 1 and isinstance(node.ops[0], ast.In) and isinstance(node.comparators[0], ast.Constant) \
                    and isinstance(node.comparators[0].value, str) and isinstance(node.left, ast.Name) and node.left.id == "c":
                found.append(node.comparators[0].value)
                node.comparators[0] = ast.Name("ESCAPED_CHARS", ast.Load())
            return node

        def visit_For(self, node):
            self.generic_visit(node)
            if isinstance(node.iter, ast.Constant) and isinstance(node.iter.value, str):
                found.append(node.iter.value)
                node.iter = ast.Name("ESCAPED_CHARS", ast.Load())
            return node

    V().visit(fn)
    if len(found) != 1:
        raise Refuse("%s: expected exactly one escape-set constant, found %r" % (where, found))
    return found[0]


def fingerprints(repo):
    core = ast.parse(open(repo + "/pyparsing/core.py").read())
    helpers = ast.parse(open(repo + "/pyparsing/helpers.py").read())
    util = ast.parse(open(repo + "/pyparsing/util.py").read())
    fps, facts, texts = {}, {}, {}

    strict, nodes = _word_parseimpl(_find(core, ["Word", "parseImpl"]))
    fps["Word.parseImpl"], texts["Word.parseImpl"] = _fp(nodes)
    facts["strict"] = strict
    guard, nodes = _word_init(_find(core, ["Word", "__init__"]))
    fps["Word.__init__"], texts["Word.__init__"] = _fp(nodes)
    facts["guard"] = guard
    for path in (["Word", "parseImpl_regex"], ["Char", "__init__"], ["Literal", "__new__"], ["Literal", "__init__"],
                 ["Literal", "parseImpl"], ["Empty", "parseImpl"], ["_SingleCharLiteral", "parseImpl"], ["srange"]):
        k = ".".join(path)
        fps[k], texts[k] = _fp(_strip_doc(_find(core, path)))
    fps["one_of"], texts["one_of"] = _fp(_strip_doc(_find(helpers, ["one_of"])))

    fn = _find(util, ["_escape_regex_range_chars"])
    facts["range_escapes"] = _extract_escape_const(fn, "_escape_regex_range_chars")
    fps["_escape_regex_range_chars"], texts["_escape_regex_range_chars"] = _fp(_strip_doc(fn))
    fn = _find(util, ["_collapse_string_to_ranges"])
    facts["collapse_escapes"] = _extract_escape_const(fn, "_collapse_string_to_ranges")
    fps["_collapse_string_to_ranges"], texts["_collapse_string_to_ranges"] = _fp(_strip_doc(fn))
    k = "_GroupConsecutive.__call__"
    fps[k], texts[k] = _fp(_strip_doc(_find(util, ["_GroupConsecutive", "__call__"])))
    k = "_GroupConsecutive.__init__"
    fps[k], texts[k] = _fp(_strip_doc(_find(util, ["_GroupConsecutive", "__init__"])))
    fps["make_compressed_re"], texts["make_compressed_re"] = _fp(_strip_doc(_find(util, ["make_compressed_re"])))
    return fps, facts, texts


def generate(repo):
    fps, facts, _ = fingerprints(repo)
    for k, want in EXPECT.items():
        if fps.get(k) != want:
            raise Refuse("%s is not the shape the model was written against (fingerprint %s, expected %s)" % (k, fps.get(k), want))
    for name in ("range_escapes", "collapse_escapes"):
        if any(ord(c) > 127 for c in facts[name]) or len(facts[name]) > 16:
            raise Refuse("%s: unexpected escape set %r" % (name, facts[name]))
    out = ["(* GENERATED from pyparsing/core.py, helpers.py, util.py by tools/translate/gen_c17.py -- do not edit *)",
           "From Coq Require Import List NArith Bool.",
           "Import ListNotations.",
           "",
           "(* Word.parseImpl contains `elif self.maxSpecified and loc < instrlen and instring[loc] in body_chars` *)",
           "Definition gen_word_strict : bool := %s." % ("true" if facts["strict"] else "false"),
           "(* Word.__init__ builds a regex only `if self.initChars and ...` *)",
           "Definition gen_word_guard : bool := %s." % ("true" if facts["guard"] else "false"),
           "(* escape_re_range_char inside _collapse_string_to_ranges: `c in %r` *)" % facts["collapse_escapes"],
           "Definition gen_collapse_escapes : list N := %s." % _coq_chars(facts["collapse_escapes"]),
           "(* _escape_regex_range_chars: `for c in %r` *)" % facts["range_escapes"],
           "Definition gen_range_escapes : list N := %s." % _coq_chars(facts["range_escapes"]),
           ""]
    out.append("(* fingerprints of the modelled functions (all equal to the expected ones, else this file is not produced):")
    for k in sorted(fps):
        out.append("   %s %s" % (k, fps[k]))
    out.append("*)")
    return {"GenC17.v": "\n".join(out) + "\n"}


if __name__ == "__main__":
    import sys
    fps, facts, texts = fingerprints(sys.argv[1] if len(sys.argv) > 1 else "/repo")
    for k in EXPECT:
        print('    "%s": "%s",' % (k, fps[k]))
    print(facts)
