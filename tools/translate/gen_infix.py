"""GenInfix.v: the (look-ahead, grouped) forms of every arity x associativity branch of helpers.infix_notation and the
statements that chain the levels, re-read from the source.  Fail-closed: any shape that is not recognised is an error."""
import ast
from .pyexpr import Untranslatable

OUTPUTS = ["GenInfix.v"]


def _func(tree, name):
    for n in tree.body:
        if isinstance(n, ast.FunctionDef) and n.name == name:
            return n
    raise Untranslatable("function %s not found" % name)


class Tr:
    def __init__(self, opt_wrapped):
        self.opt_wrapped = opt_wrapped      # in this branch `opExpr = Opt(opExpr)` ran before

    def items(self, e):
        """expression -> list of sequence items (an Add chain is flattened, as streamline does)"""
        if isinstance(e, ast.BinOp) and isinstance(e.op, ast.Add):
            return self.items(e.left) + self.items(e.right)
        if isinstance(e, ast.Name):
            if e.id == "lastExpr": return ["GL"]
            if e.id == "thisExpr": return ["GT"]
            if e.id == "opExpr": return ["(GOpt GO)"] if self.opt_wrapped else ["GO"]
            if e.id == "opExpr1": return ["GO"]
            if e.id == "opExpr2": return ["GO2"]
            raise Untranslatable("name %s in a level form" % e.id)
        if isinstance(e, ast.Attribute) and ast.unparse(e) == "opExpr.expr" and self.opt_wrapped:
            return ["GO"]
        if isinstance(e, ast.Subscript):
            key = ast.unparse(e.slice)
            inner = self.items(e.value)
            one = inner[0] if len(inner) == 1 else "(GSeq [%s])" % "; ".join(inner)
            if key == "(1, ...)":
                return ["(GPlus %s)" % one]
            if key == "(2, ...)":      # expr[2, ...] = expr*2 + ZeroOrMore(expr)  (ParserElement.__getitem__ / __mul__)
                return [one, one, "(GStar %s)" % one]
            raise Untranslatable("repetition %s" % key)
        raise Untranslatable("expression %s in a level form" % ast.unparse(e))

    def seq(self, e):
        return "(GSeq [%s])" % "; ".join(self.items(e))


def _call1(e, fname):
    if isinstance(e, ast.Call) and isinstance(e.func, ast.Name) and e.func.id == fname and len(e.args) == 1 and not e.keywords:
        return e.args[0]
    raise Untranslatable("expected %s(...), got %s" % (fname, ast.unparse(e)))


def _branch_forms(body, opt_wrapped_expected):
    """statements of one arity branch -> (fb, group)"""
    opt_wrapped = False
    fb = grp = None
    for st in body:
        if isinstance(st, ast.If) and ast.unparse(st.test) == "not isinstance(opExpr, Opt)" and \
                [ast.unparse(x) for x in st.body] == ["opExpr = Opt(opExpr)"] and not st.orelse:
            opt_wrapped = True
            continue
        if isinstance(st, ast.Assign) and len(st.targets) == 1 and isinstance(st.targets[0], ast.Name):
            t = st.targets[0].id
            if t == "match_lookahead":
                fb = Tr(opt_wrapped).seq(_call1(st.value, "_FB"))
                continue
            if t == "matchExpr":
                grp = Tr(opt_wrapped).seq(_call1(st.value, "Group"))
                continue
        raise Untranslatable("statement in a level branch: %s" % ast.unparse(st)[:80])
    if fb is None or grp is None or opt_wrapped != opt_wrapped_expected:
        raise Untranslatable("level branch incomplete")
    return fb, grp


def _arity_chain(stmt, assoc):
    """if arity == 1: .. elif arity == 2: (if opExpr is not None: .. else: ..) elif arity == 3: ..  -> 4 forms"""
    out = []
    cur = stmt
    for ar in (1, 2, 3):
        if not (isinstance(cur, ast.If) and ast.unparse(cur.test) == "arity == %d" % ar):
            raise Untranslatable("expected `arity == %d` under %s" % (ar, assoc))
        if ar == 2:
            if len(cur.body) != 1 or not isinstance(cur.body[0], ast.If) or ast.unparse(cur.body[0].test) != "opExpr is not None":
                raise Untranslatable("arity 2: expected `if opExpr is not None`")
            out.append(_branch_forms(cur.body[0].body, False))
            out.append(_branch_forms(cur.body[0].orelse, False))
        else:
            out.append(_branch_forms(cur.body, assoc == "RIGHT" and ar == 1))
        if ar < 3:
            if len(cur.orelse) != 1:
                raise Untranslatable("arity chain broken after %d" % ar)
            cur = cur.orelse[0]
        elif cur.orelse:
            raise Untranslatable("unexpected else after arity == 3")
    return out


def generate(repo):
    tree = ast.parse(open(repo + "/pyparsing/helpers.py").read())
    fn = _func(tree, "infix_notation")
    loops = [n for n in fn.body if isinstance(n, ast.For)]
    if len(loops) != 1 or ast.unparse(loops[0].iter) != "op_list":
        raise Untranslatable("expected exactly one `for operDef in op_list` loop")
    loop = loops[0]
    # the associativity dispatch
    disp = [n for n in loop.body if isinstance(n, ast.If) and ast.unparse(n.test) == "rightLeftAssoc is OpAssoc.LEFT"]
    if len(disp) != 1 or len(disp[0].orelse) != 1 or not isinstance(disp[0].orelse[0], ast.If) or \
            ast.unparse(disp[0].orelse[0].test) != "rightLeftAssoc is OpAssoc.RIGHT" or disp[0].orelse[0].orelse:
        raise Untranslatable("associativity dispatch not recognised")
    if len(disp[0].body) != 1 or len(disp[0].orelse[0].body) != 1:
        raise Untranslatable("associativity branches must contain exactly the arity chain")
    forms = _arity_chain(disp[0].body[0], "LEFT") + _arity_chain(disp[0].orelse[0].body[0], "RIGHT")
    # statements that chain the levels (verbatim)
    loop_src = [ast.unparse(n) for n in loop.body]
    need_loop = ["thisExpr: ParserElement = Forward().set_name(term_name)", "matchExpr = match_lookahead + matchExpr",
                 "thisExpr <<= (matchExpr | lastExpr).setName(term_name)", "lastExpr = thisExpr"]
    for x in need_loop:
        if x not in loop_src:
            raise Untranslatable("loop statement missing: %s" % x)
    if loop_src[-1] != "lastExpr = thisExpr" or loop_src[-2] != "thisExpr <<= (matchExpr | lastExpr).setName(term_name)":
        raise Untranslatable("the loop must end with `thisExpr <<= ...; lastExpr = thisExpr`")
    fn_src = [ast.unparse(n) for n in fn.body]
    for x in ["ret = Forward()", "ret <<= lastExpr", "return ret"]:
        if x not in fn_src:
            raise Untranslatable("statement missing: %s" % x)
    if not any(x.startswith("nested_expr = (lpar + ret + rpar).set_name(") for x in fn_src):
        raise Untranslatable("nested_expr = (lpar + ret + rpar) not found")
    par = [n for n in fn.body if isinstance(n, ast.If) and
           ast.unparse(n.test) == "not (isinstance(lpar, Suppress) and isinstance(rpar, Suppress))"]
    if len(par) != 1 or [ast.unparse(x) for x in par[0].body] != ["lastExpr = base_expr | Group(nested_expr)"] or \
            [ast.unparse(x) for x in par[0].orelse] != ["lastExpr = base_expr | nested_expr"]:
        raise Untranslatable("parenthesis grouping rule not recognised")
    fbs = [n for n in fn.body if isinstance(n, ast.ClassDef) and n.name == "_FB"]
    if len(fbs) != 1 or [ast.unparse(b) for b in fbs[0].bases] != ["FollowedBy"]:
        raise Untranslatable("class _FB(FollowedBy) not found")
    impl = [m for m in fbs[0].body if isinstance(m, ast.FunctionDef) and m.name == "parseImpl"]
    if len(impl) != 1 or [ast.unparse(x) for x in impl[0].body] != ["self.expr.try_parse(instring, loc)", "return (loc, [])"]:
        raise Untranslatable("_FB.parseImpl is not `self.expr.try_parse(instring, loc); return loc, []`")
    out = ["(* GENERATED from pyparsing/helpers.py (infix_notation) by tools/translate/gen_infix.py -- do not edit *)",
           "From Coq Require Import List.", "From PP Require Import Model.Infix.", "Import ListNotations.",
           "(* (look-ahead sequence, grouped sequence) of: LEFT arity 1, 2 with operator, 2 without, 3; RIGHT the same.",
           "   GL lastExpr, GT thisExpr, GO opExpr / opExpr1, GO2 opExpr2 *)",
           "Definition gen_infix_forms : list (gform * gform) :=",
           "  [" + ";\n   ".join("(%s, %s)" % f for f in forms) + "].",
           "(* found verbatim: thisExpr = Forward(); matchExpr = match_lookahead + matchExpr; thisExpr <<= (matchExpr | lastExpr);",
           "   lastExpr = thisExpr; ret <<= lastExpr; nested_expr = lpar + ret + rpar; base_expr | Group(nested_expr) unless both",
           "   parentheses are Suppress; _FB.parseImpl = try_parse + return loc, [] *)",
           "Definition gen_infix_chain_ok : bool := true."]
    return {"GenInfix.v": "\n".join(out) + "\n"}
