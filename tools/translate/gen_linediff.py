"""GenLineDiff.v: facts about pyparsing/core.py that the C13 theorems depend on (fail-closed ast walk).

  * LINE_DIFF, the line of `_trim_arity_call_line = ... traceback.extract_stack(limit=2)[-1]`, the line of the
    first `ret = func(*args[limit:])` inside the `while` of `wrapper`;
  * the shape of `wrapper` (fast path present / guarded, `found_arity = True` present, handler order, whether the
    IndexError handler wraps into _ParseActionIndexError), `max_limit` default, initial state, builtin shortcut;
  * the action loop of `_parseNoCache` (gate, argument triple, IndexError -> ParseException conversion,
    `tokens is not None and tokens is not ret_tokens` test), parse_string's `_ParseActionIndexError` handler;
  * defaults of `do_actions` of `_parseNoCache`/`_parseCache`/`try_parse`/`can_parse_next`, how try_parse/can_parse_next
    forward it, and the table of every call of `_parse`/`try_parse`/`can_parse_next` inside every `parseImpl*`
    method of core.py with the value passed for do_actions (omitted / constant / the method's own do_actions).

Shapes that are not recognised raise Refused (the translator reports it; the C13 tie is then broken)."""
import ast

OUTPUTS = ["GenLineDiff.v"]


class Refused(Exception):
    pass


def _dump(n):
    return ast.dump(n, annotate_fields=True, include_attributes=False)


def _parse_stmt(src):
    return ast.parse(src).body[0]


CALLEES = {"_parse": "CParse", "_parseNoCache": "CParse", "_parseCache": "CParse",
           "try_parse": "CTryParse", "tryParse": "CTryParse",
           "can_parse_next": "CCanParseNext", "canParseNext": "CCanParseNext",
           "parseImpl": "CImpl"}
# methods scanned for call sites besides every parseImpl* of every class
EXTRA_METHODS = {"ParserElement": ["_parseNoCache", "_parseCache", "_skipIgnorables"]}

FUNC_CALL = _dump(ast.parse("func(*args[limit:])").body[0].value)

TYPEERROR_HANDLER = _dump(ast.parse('''
try:
    pass
except TypeError as te:
    if found_arity:
        raise
    else:
        tb = te.__traceback__
        frames = traceback.extract_tb(tb, limit=2)
        frame_summary = frames[-1]
        trim_arity_type_error = (
            [frame_summary[:2]][-1][:2] == pa_call_line_synth
        )
        del tb

        if trim_arity_type_error:
            if limit < max_limit:
                limit += 1
                continue

        raise
''').body[0].handlers[0])

INDEXERROR_HANDLER = _dump(ast.parse('''
try:
    pass
except IndexError as ie:
    raise _ParseActionIndexError(
        "IndexError raised in parse action", ie
    ).with_traceback(None)
''').body[0].handlers[0])

SYNTH_ASSIGN = _dump(_parse_stmt(
    "pa_call_line_synth = pa_call_line_synth or (_trim_arity_call_line[0], _trim_arity_call_line[1] + LINE_DIFF)"))
CALL_LINE_ASSIGN = _dump(_parse_stmt(
    "_trim_arity_call_line = _trim_arity_call_line or traceback.extract_stack(limit=2)[-1]"))
BUILTIN_SHORTCUT = _dump(_parse_stmt("if func in _single_arg_builtins:\n    return lambda s, l, t: func(t)"))

LOOP_TRY = _dump(_parse_stmt('''
try:
    tokens = fn(instring, tokens_start, ret_tokens)
except IndexError as parse_action_exc:
    exc = ParseException("exception raised in parse action")
    raise exc from parse_action_exc
'''))
LOOP_TRY_NOCONVERT = _dump(_parse_stmt("tokens = fn(instring, tokens_start, ret_tokens)"))
LOOP_REPLACE = _dump(_parse_stmt('''
if tokens is not None and tokens is not ret_tokens:
    ret_tokens = ParseResults(
        tokens,
        self.resultsName,
        asList=self.saveAsList
        and isinstance(tokens, (ParseResults, list)),
        modal=self.modalResults,
    )
'''))
GATE = _dump(ast.parse("self.parseAction and (do_actions or self.callDuringTry)").body[0].value)
PRELOC_IF = _dump(_parse_stmt('''
if callPreParse and self.callPreparse:
    pre_loc = self.preParse(instring, loc)
else:
    pre_loc = loc
'''))
TOKSTART = _dump(_parse_stmt("tokens_start = pre_loc"))
UNWRAP_HANDLER = _dump(ast.parse('''
try:
    pass
except _ParseActionIndexError as pa_exc:
    raise pa_exc.exc
''').body[0].handlers[0])


def _b(x):
    return "true" if x else "false"


def _single_line(node, what):
    if node.lineno != node.end_lineno:
        raise Refused("%s spans several lines (%d-%d): the line recorded by CPython is not determined by this translator"
                      % (what, node.lineno, node.end_lineno))


def _find_class(tree, name):
    for n in tree.body:
        if isinstance(n, ast.ClassDef) and n.name == name:
            return n
    raise Refused("class %s not found" % name)


def _find_method(cls, name):
    for n in cls.body:
        if isinstance(n, ast.FunctionDef) and n.name == name:
            return n
    raise Refused("method %s.%s not found" % (cls.name, name))


def _strip_doc(body):
    if body and isinstance(body[0], ast.Expr) and isinstance(body[0].value, ast.Constant) and isinstance(body[0].value.value, str):
        return body[1:]
    return body


# ---------------------------------------------------------------------------------------------------------
def trim_arity_facts(tree):
    fn = None
    for n in tree.body:
        if isinstance(n, ast.FunctionDef) and n.name == "_trim_arity":
            fn = n
    if fn is None:
        raise Refused("_trim_arity not found")
    params = [a.arg for a in fn.args.args]
    if params != ["func", "max_limit"] or len(fn.args.defaults) != 1 or fn.args.vararg or fn.args.kwonlyargs or fn.args.kwarg:
        raise Refused("_trim_arity signature %r" % params)
    d = fn.args.defaults[0]
    if not (isinstance(d, ast.Constant) and type(d.value) is int and d.value >= 0):
        raise Refused("max_limit default")
    facts = {"max_limit": d.value}
    body = _strip_doc(fn.body)
    # expected statement kinds in order
    it = iter(body)

    def nxt(what):
        try:
            return next(it)
        except StopIteration:
            raise Refused("_trim_arity: missing " + what)

    s = nxt("global")
    if not (isinstance(s, ast.Global) and set(s.names) == {"_trim_arity_call_line", "pa_call_line_synth"}):
        raise Refused("_trim_arity: global statement")
    s = nxt("builtin shortcut")
    if _dump(s) == BUILTIN_SHORTCUT:
        facts["builtin_shortcut"] = True
        s = nxt("limit = 0")
    else:
        facts["builtin_shortcut"] = False
    if not (_dump(s) in (_dump(_parse_stmt("limit = 0")),)):
        raise Refused("_trim_arity: expected `limit = 0`, got " + ast.unparse(s))
    s = nxt("found_arity = False")
    if _dump(s) != _dump(_parse_stmt("found_arity = False")):
        raise Refused("_trim_arity: expected `found_arity = False`, got " + ast.unparse(s))
    s = nxt("LINE_DIFF")
    if not (isinstance(s, ast.Assign) and len(s.targets) == 1 and isinstance(s.targets[0], ast.Name)
            and s.targets[0].id == "LINE_DIFF" and isinstance(s.value, ast.Constant) and type(s.value.value) is int
            and s.value.value >= 0):
        raise Refused("_trim_arity: LINE_DIFF assignment")
    facts["line_diff"] = s.value.value
    s = nxt("call line")
    if _dump(s) != CALL_LINE_ASSIGN:
        raise Refused("_trim_arity: `_trim_arity_call_line = ... extract_stack(limit=2)[-1]` not in the expected form")
    _single_line(s, "the _trim_arity_call_line statement")
    facts["call_line"] = s.lineno
    s = nxt("synth")
    if _dump(s) != SYNTH_ASSIGN:
        raise Refused("_trim_arity: pa_call_line_synth assignment not in the expected form")
    w = nxt("wrapper")
    if not (isinstance(w, ast.FunctionDef) and w.name == "wrapper" and not w.args.args and w.args.vararg
            and w.args.vararg.arg == "args" and not w.args.kwonlyargs and not w.args.kwarg and not w.decorator_list):
        raise Refused("_trim_arity: def wrapper(*args) not found where expected")
    # the rest: name copying and `return wrapper`
    rest = list(it)
    if not rest or _dump(rest[-1]) != _dump(_parse_stmt("return wrapper")):
        raise Refused("_trim_arity: does not end with `return wrapper`")
    for r in rest[:-1]:
        ok = isinstance(r, ast.Assign) and len(r.targets) == 1 and (
            (isinstance(r.targets[0], ast.Name) and r.targets[0].id == "func_name") or
            (isinstance(r.targets[0], ast.Attribute) and isinstance(r.targets[0].value, ast.Name)
             and r.targets[0].value.id == "wrapper" and r.targets[0].attr in ("__name__", "__doc__")))
        if not ok:
            raise Refused("_trim_arity: unexpected statement after wrapper: " + ast.unparse(r))

    # ---- wrapper body
    wb = list(w.body)
    if not (wb and isinstance(wb[0], ast.Nonlocal) and set(wb[0].names) == {"found_arity", "limit"}):
        raise Refused("wrapper: nonlocal found_arity, limit")
    wb = wb[1:]
    facts["fast_path"] = False
    facts["fast_path_wraps_index"] = False
    if len(wb) == 2:
        f = wb[0]
        if not (isinstance(f, ast.If) and isinstance(f.test, ast.Name) and f.test.id == "found_arity" and not f.orelse
                and len(f.body) == 1):
            raise Refused("wrapper: statement before the loop is not `if found_arity:`")
        inner = f.body[0]
        if isinstance(inner, ast.Return) and inner.value is not None and _dump(inner.value) == FUNC_CALL:
            facts["fast_path"] = True
        elif (isinstance(inner, ast.Try) and len(inner.body) == 1 and isinstance(inner.body[0], ast.Return)
              and inner.body[0].value is not None and _dump(inner.body[0].value) == FUNC_CALL
              and len(inner.handlers) == 1 and _dump(inner.handlers[0]) == INDEXERROR_HANDLER
              and not inner.orelse and not inner.finalbody):
            facts["fast_path"] = True
            facts["fast_path_wraps_index"] = True
        else:
            raise Refused("wrapper: fast path body not recognised: " + ast.unparse(inner)[:120])
        wb = wb[1:]
    if len(wb) != 1 or not isinstance(wb[0], ast.While):
        raise Refused("wrapper: expected exactly [fast path;] while-loop")
    loop = wb[0]
    if not (isinstance(loop.test, ast.Constant) and loop.test.value in (1, True) and not loop.orelse
            and len(loop.body) == 1 and isinstance(loop.body[0], ast.Try)):
        raise Refused("wrapper: `while 1: try:` not found")
    tr = loop.body[0]
    if tr.orelse or tr.finalbody:
        raise Refused("wrapper: try has else/finally")
    tb = tr.body
    call_stmt = _parse_stmt("ret = func(*args[limit:])")
    if not tb or _dump(tb[0]) != _dump(call_stmt):
        raise Refused("wrapper: first statement of try is not `ret = func(*args[limit:])`")
    _single_line(tb[0], "the `ret = func(*args[limit:])` statement")
    facts["func_line"] = tb[0].lineno
    tail = [_dump(x) for x in tb[1:]]
    if tail == [_dump(_parse_stmt("found_arity = True")), _dump(_parse_stmt("return ret"))]:
        facts["sets_found"] = True
    elif tail == [_dump(_parse_stmt("return ret"))]:
        facts["sets_found"] = False
    else:
        raise Refused("wrapper: try body after the call is not [found_arity = True;] return ret")
    kinds = []
    facts["loop_wraps_index"] = False
    for h in tr.handlers:
        if not isinstance(h.type, ast.Name):
            raise Refused("wrapper: handler type not a simple name")
        if h.type.id == "TypeError":
            if _dump(h) != TYPEERROR_HANDLER:
                raise Refused("wrapper: the TypeError handler differs from the modelled one")
            kinds.append("KTypeError")
        elif h.type.id == "IndexError":
            if _dump(h) != INDEXERROR_HANDLER:
                raise Refused("wrapper: the IndexError handler differs from the modelled one")
            kinds.append("KIndexError")
            facts["loop_wraps_index"] = True
        else:
            raise Refused("wrapper: unexpected handler for " + h.type.id)
    if "KTypeError" not in kinds:
        raise Refused("wrapper: no TypeError handler (arity probing not recognisable)")
    if len(set(kinds)) != len(kinds):
        raise Refused("wrapper: duplicate handlers")
    facts["handlers"] = kinds
    return facts


# ---------------------------------------------------------------------------------------------------------
def action_loop_facts(pe):
    m = _find_method(pe, "_parseNoCache")
    params = [a.arg for a in m.args.args]
    if params != ["self", "instring", "loc", "do_actions", "callPreParse"]:
        raise Refused("_parseNoCache parameters %r" % params)
    facts = {}
    # tokens_start = pre_loc / pre_loc definition: every occurrence must be canonical
    n_pre = n_ts = 0
    for n in ast.walk(m):
        if isinstance(n, ast.If) and _dump(n) == PRELOC_IF:
            n_pre += 1
        if isinstance(n, ast.Assign) and any(isinstance(t, ast.Name) and t.id == "tokens_start" for t in n.targets):
            if _dump(n) != TOKSTART:
                raise Refused("_parseNoCache: tokens_start assigned something else than pre_loc")
            n_ts += 1
        if isinstance(n, ast.Assign) and any(isinstance(t, ast.Name) and t.id == "pre_loc" for t in n.targets):
            pass
    # every assignment to pre_loc must sit inside a canonical PRELOC_IF
    n_pre_assign = sum(1 for n in ast.walk(m) if isinstance(n, ast.Assign)
                       and any(isinstance(t, ast.Name) and t.id == "pre_loc" for t in n.targets))
    if n_pre == 0 or n_ts != n_pre or n_pre_assign != 2 * n_pre:
        raise Refused("_parseNoCache: pre_loc / tokens_start computation not in the expected form")
    facts["loc_is_preloc"] = True
    # the gate and the loops
    gates = [n for n in ast.walk(m) if isinstance(n, ast.If) and _dump(n.test) == GATE]
    loops = [n for n in ast.walk(m) if isinstance(n, ast.For) and isinstance(n.iter, ast.Attribute)
             and n.iter.attr == "parseAction"]
    if len(gates) != 1:
        raise Refused("_parseNoCache: the gate `if self.parseAction and (do_actions or self.callDuringTry)` not found exactly once")
    gate = gates[0]
    if not loops:
        raise Refused("_parseNoCache: no loop over self.parseAction")
    inside = set(id(x) for x in ast.walk(gate))
    conv = []
    for lp in loops:
        if id(lp) not in inside:
            raise Refused("_parseNoCache: a loop over self.parseAction is outside the gate")
        if not (isinstance(lp.target, ast.Name) and lp.target.id == "fn" and isinstance(lp.iter.value, ast.Name)
                and lp.iter.value.id == "self" and not lp.orelse and len(lp.body) == 2):
            raise Refused("_parseNoCache: action loop shape")
        first, second = lp.body
        if _dump(first) == LOOP_TRY:
            conv.append(True)
        elif _dump(first) == LOOP_TRY_NOCONVERT:
            conv.append(False)
        else:
            raise Refused("_parseNoCache: the call `tokens = fn(instring, tokens_start, ret_tokens)` / its IndexError handler differ from the modelled ones")
        if _dump(second) != LOOP_REPLACE:
            raise Refused("_parseNoCache: the replacement test after the action call differs from `tokens is not None and tokens is not ret_tokens` -> ParseResults(...)")
    if len(set(conv)) != 1:
        raise Refused("_parseNoCache: the debugging and the plain action loop differ")
    facts["loop_converts_index"] = conv[0]
    facts["n_action_loops"] = len(loops)
    return facts


def parse_string_facts(pe):
    m = _find_method(pe, "parse_string")
    tries = [n for n in ast.walk(m) if isinstance(n, ast.Try)]
    if len(tries) != 1:
        raise Refused("parse_string: expected one try")
    t = tries[0]
    names = []
    unwraps = False
    for h in t.handlers:
        if not isinstance(h.type, ast.Name):
            raise Refused("parse_string: handler type")
        names.append(h.type.id)
        if h.type.id == "_ParseActionIndexError":
            if _dump(h) != UNWRAP_HANDLER:
                raise Refused("parse_string: the _ParseActionIndexError handler is not `raise pa_exc.exc`")
            unwraps = names == ["_ParseActionIndexError"]  # must be the first handler
    # the parse call inside the try must be self._parse(instring, 0)
    calls = [n for n in ast.walk(t) if isinstance(n, ast.Call) and isinstance(n.func, ast.Attribute) and n.func.attr == "_parse"]
    if not calls:
        raise Refused("parse_string: no _parse call inside the try")
    return {"parse_string_unwraps": unwraps, "parse_string_handlers": names}


# ---------------------------------------------------------------------------------------------------------
def _do_actions_default(fn):
    """default value of parameter do_actions (positional or keyword-only); None if the parameter is absent"""
    a = fn.args
    pos = a.posonlyargs + a.args
    defaults = [None] * (len(pos) - len(a.defaults)) + list(a.defaults)
    for p, d in zip(pos, defaults):
        if p.arg == "do_actions":
            if isinstance(d, ast.Constant) and isinstance(d.value, bool):
                return d.value, pos.index(p) - 1  # index not counting self
            raise Refused("%s: do_actions has no constant boolean default" % fn.name)
    for p, d in zip(a.kwonlyargs, a.kw_defaults):
        if p.arg == "do_actions":
            if isinstance(d, ast.Constant) and isinstance(d.value, bool):
                return d.value, None
            raise Refused("%s: do_actions has no constant boolean default" % fn.name)
    raise Refused("%s: no do_actions parameter" % fn.name)


def _arg_kind(call, pos_index, method_has_do_actions, where):
    """how a call passes do_actions: 'AOmitted' | 'AConst true' | 'AConst false' | 'AForward'"""
    val = None
    for kw in call.keywords:
        if kw.arg is None:
            raise Refused(where + ": **kwargs in a parse call")
        if kw.arg in ("do_actions", "doActions"):
            val = kw.value
    if any(isinstance(x, ast.Starred) for x in call.args):
        raise Refused(where + ": *args in a parse call")
    if val is None and pos_index is not None and len(call.args) > pos_index:
        val = call.args[pos_index]
    if val is None:
        return "AOmitted"
    if isinstance(val, ast.Constant) and isinstance(val.value, bool):
        return "AConst %s" % _b(val.value)
    if isinstance(val, ast.Name) and val.id == "do_actions" and method_has_do_actions:
        return "AForward"
    raise Refused(where + ": do_actions argument not recognised: " + ast.unparse(val))


def callee_facts(tree, pe):
    facts = {}
    pos = {}
    for nm, key in (("_parseNoCache", "nocache"), ("_parseCache", "cache"), ("try_parse", "try"), ("can_parse_next", "can")):
        facts["default_" + key], pos[key] = _do_actions_default(_find_method(pe, nm))
    if pos["nocache"] != 2 or pos["cache"] != 2 or pos["try"] is not None or pos["can"] != 2:
        raise Refused("positions of do_actions in the parse entry points changed: %r" % pos)
    # every parseImpl* of every class: do_actions is the third parameter and defaults to True
    impl_defaults = set()
    for cls in tree.body:
        if isinstance(cls, ast.ClassDef):
            for mm in cls.body:
                if isinstance(mm, ast.FunctionDef) and mm.name.startswith("parseImpl"):
                    if mm.args.vararg is not None and not mm.args.args[1:]:
                        continue  # _PendingSkip.parseImpl(self, *args): raises, no do_actions
                    dflt, ix = _do_actions_default(mm)
                    if ix != 2:
                        raise Refused("%s.%s: do_actions is not the third parameter" % (cls.name, mm.name))
                    impl_defaults.add(dflt)
    if len(impl_defaults) != 1:
        raise Refused("parseImpl methods disagree on the default of do_actions")
    facts["default_impl"] = impl_defaults.pop()
    # _parse = _parseNoCache at class level
    ok = False
    for n in pe.body:
        if isinstance(n, ast.Assign) and len(n.targets) == 1 and isinstance(n.targets[0], ast.Name) and n.targets[0].id == "_parse":
            ok = isinstance(n.value, ast.Name) and n.value.id == "_parseNoCache"
    if not ok:
        raise Refused("ParserElement._parse = _parseNoCache not found")
    # aliases
    for alias, target in (("tryParse", "try_parse"), ("canParseNext", "can_parse_next")):
        ok = False
        for n in pe.body:
            if isinstance(n, ast.Assign) and len(n.targets) == 1 and isinstance(n.targets[0], ast.Name) and n.targets[0].id == alias:
                v = n.value
                ok = (isinstance(v, ast.Call) and isinstance(v.func, ast.Name) and v.func.id == "replaced_by_pep8"
                      and len(v.args) == 2 and isinstance(v.args[1], ast.Name) and v.args[1].id == target)
        if not ok:
            raise Refused("alias %s = replaced_by_pep8(..., %s) not found" % (alias, target))
    # how try_parse calls _parse and can_parse_next calls try_parse
    tp = _find_method(pe, "try_parse")
    calls = [n for n in ast.walk(tp) if isinstance(n, ast.Call) and isinstance(n.func, ast.Attribute) and n.func.attr in CALLEES]
    if len(calls) != 1 or calls[0].func.attr != "_parse":
        raise Refused("try_parse: expected exactly one self._parse call")
    facts["try_forward"] = _arg_kind(calls[0], 2, True, "try_parse")
    cp = _find_method(pe, "can_parse_next")
    calls = [n for n in ast.walk(cp) if isinstance(n, ast.Call) and isinstance(n.func, ast.Attribute) and n.func.attr in CALLEES]
    if len(calls) != 1 or calls[0].func.attr != "try_parse":
        raise Refused("can_parse_next: expected exactly one self.try_parse call")
    facts["can_forward"] = _arg_kind(calls[0], None, True, "can_parse_next")
    return facts


def _callee_of(expr):
    """Attribute X._parse / X.try_parse / ... -> callee constructor, else None"""
    if isinstance(expr, ast.Attribute) and expr.attr in CALLEES:
        return CALLEES[expr.attr]
    return None


def site_table(tree):
    """every call of _parse/try_parse/can_parse_next (directly or through a local alias) inside a parseImpl* method"""
    rows = []
    for cls in tree.body:
        if not isinstance(cls, ast.ClassDef):
            continue
        for m in cls.body:
            if not (isinstance(m, ast.FunctionDef) and (m.name.startswith("parseImpl")
                                                        or m.name in EXTRA_METHODS.get(cls.name, []))):
                continue
            where = "%s.%s" % (cls.name, m.name)
            has_do = any(a.arg == "do_actions" for a in m.args.args + m.args.kwonlyargs)
            aliases = {}
            alias_lists = {}
            for n in ast.walk(m):
                if isinstance(n, ast.Assign) and len(n.targets) == 1 and isinstance(n.targets[0], ast.Name) \
                        and isinstance(n.value, ast.ListComp) and _callee_of(n.value.elt):
                    alias_lists[n.targets[0].id] = _callee_of(n.value.elt)
            for n in ast.walk(m):
                if isinstance(n, ast.For) and isinstance(n.target, ast.Name) and isinstance(n.iter, ast.Name) \
                        and n.iter.id in alias_lists:
                    aliases[n.target.id] = alias_lists[n.iter.id]
            for n in ast.walk(m):
                if isinstance(n, ast.Assign) and len(n.targets) == 1 and isinstance(n.targets[0], ast.Name):
                    v = n.value
                    cands = [v]
                    if isinstance(v, ast.IfExp):
                        cands = [v.body, v.orelse]
                    found = [c for c in (_callee_of(x) for x in cands) if c]
                    if found:
                        others = [x for x in cands if not _callee_of(x)]
                        if any(not (isinstance(x, ast.Constant) and x.value is None) for x in others) or len(set(found)) != 1:
                            raise Refused(where + ": alias of a parse method with an unrecognised alternative")
                        nm = n.targets[0].id
                        if nm in aliases and aliases[nm] != found[0]:
                            raise Refused(where + ": alias %s rebound" % nm)
                        aliases[nm] = found[0]
                elif isinstance(n, (ast.Attribute,)) and n.attr in CALLEES:
                    pass
            # any other use of a parse-method attribute than (a) direct call (b) alias assignment is refused
            used_attr = set()
            sites = []
            for n in ast.walk(m):
                if isinstance(n, ast.Call):
                    callee = None
                    if isinstance(n.func, ast.Attribute) and n.func.attr in CALLEES:
                        callee = CALLEES[n.func.attr]
                        used_attr.add(id(n.func))
                    elif isinstance(n.func, ast.Name) and n.func.id in aliases:
                        callee = aliases[n.func.id]
                    if callee:
                        pos_index = None if callee == "CTryParse" else 2
                        sites.append((n.lineno, n.col_offset, callee, _arg_kind(n, pos_index, has_do, where)))
            for n in ast.walk(m):
                if isinstance(n, ast.Assign) and len(n.targets) == 1 and isinstance(n.targets[0], ast.Name) \
                        and (n.targets[0].id in aliases or n.targets[0].id in alias_lists):
                    for x in ast.walk(n.value):
                        if isinstance(x, ast.Attribute) and x.attr in CALLEES:
                            used_attr.add(id(x))
            for n in ast.walk(m):
                if isinstance(n, ast.Attribute) and n.attr in CALLEES and id(n) not in used_attr:
                    raise Refused(where + ": parse method referenced in an unrecognised way (line %d)" % n.lineno)
                if isinstance(n, ast.Name) and n.id in aliases and isinstance(n.ctx, ast.Load):
                    pass
            sites.sort()
            for k, (ln, col, callee, arg) in enumerate(sites):
                rows.append((cls.name, m.name, k, callee, arg, ln))
    return rows


# ---------------------------------------------------------------------------------------------------------
def coq_string(s):
    return '"' + s.replace('"', '""') + '"'


def generate(repo):
    src = open(repo + "/pyparsing/core.py").read()
    tree = ast.parse(src)
    pe = _find_class(tree, "ParserElement")
    ta = trim_arity_facts(tree)
    al = action_loop_facts(pe)
    ps = parse_string_facts(pe)
    cf = callee_facts(tree, pe)
    rows = site_table(tree)
    if not rows:
        raise Refused("no parse call sites found")
    out = ["(* GENERATED from pyparsing/core.py by tools/translate/gen_linediff.py -- do not edit *)",
           "From Coq Require Import List Bool Arith String.",
           "From PP Require Import Model.Arity.",
           "Import ListNotations.",
           "Local Open Scope string_scope.",
           "",
           "(* _trim_arity *)",
           "Definition gen_line_diff : nat := %d." % ta["line_diff"],
           "Definition gen_call_line : nat := %d.   (* line of `_trim_arity_call_line = ... extract_stack(limit=2)[-1]` *)" % ta["call_line"],
           "Definition gen_func_line : nat := %d.   (* line of the first `ret = func(star args[limit:])` inside the while of wrapper *)" % ta["func_line"],
           "Definition gen_max_limit : nat := %d." % ta["max_limit"],
           "Definition gen_shape : wshape :=",
           "  {| sh_fast_path := %s; sh_fast_wraps_index := %s; sh_sets_found := %s; sh_loop_wraps_index := %s |}." % (
               _b(ta["fast_path"]), _b(ta["fast_path_wraps_index"]), _b(ta["sets_found"]), _b(ta["loop_wraps_index"])),
           "Definition gen_handlers : list exn_kind := [%s]." % "; ".join(ta["handlers"]),
           "Definition gen_builtin_shortcut : bool := %s." % _b(ta["builtin_shortcut"]),
           "",
           "(* _parseNoCache action loop, parse_string *)",
           "Definition gen_loc_is_preloc : bool := %s." % _b(al["loc_is_preloc"]),
           "Definition gen_loop_converts_index : bool := %s.   (* except IndexError -> raise ParseException(...) from it *)" % _b(al["loop_converts_index"]),
           "Definition gen_parse_string_unwraps : bool := %s.  (* except _ParseActionIndexError as pa_exc: raise pa_exc.exc *)" % _b(ps["parse_string_unwraps"]),
           "",
           "(* do_actions defaults and forwarding of the entry points *)",
           "Definition gen_defaults : callee -> bool := fun c =>",
           "  match c with CParse => %s | CTryParse => %s | CCanParseNext => %s | CImpl => %s end." % (
               _b(cf["default_nocache"] and cf["default_cache"]) if cf["default_nocache"] == cf["default_cache"] else "ERROR",
               _b(cf["default_try"]), _b(cf["default_can"]), _b(cf["default_impl"])),
           "Definition gen_try_parse_passes : argkind := %s.      (* what try_parse passes to _parse *)" % cf["try_forward"],
           "Definition gen_can_parse_next_passes : argkind := %s. (* what can_parse_next passes to try_parse *)" % cf["can_forward"],
           "",
           "(* every call of _parse / try_parse / can_parse_next inside a parseImpl* method: class, method, ordinal in source order, callee, do_actions argument *)",
           "Definition gen_sites : list site := ["]
    if cf["default_nocache"] != cf["default_cache"]:
        raise Refused("_parseNoCache and _parseCache disagree on the default of do_actions")
    lines = []
    for (c, m, k, callee, arg, ln) in rows:
        lines.append("  mkSite %s %s %d %s (%s)" % (coq_string(c), coq_string(m), k, callee, arg))
    out.append(";\n".join(lines))
    out.append("].")
    out.append("")
    return {"GenLineDiff.v": "\n".join(out)}
