"""GenHelpers.v: the shape of the expression that DelimitedList.__init__ builds and of the array that
counted_array's count action installs, read from the current source (fail-closed `ast` walk).

DelimitedList.__init__ must contain, in this order (anything else in those statements: refused)
    if min is not None and min < 1: raise ValueError            -> dl_min_lower_bound := 1
    if max is not None and min is not None and max < min: raise -> dl_max_ge_min := true
    self.min = min or 1                                         -> dl_min_default := 1
    delim_list_expr = self.content + (self.delim + self.content) * (<lo>, None if self.max is None else <hi>)
                                                                -> dl_lo mn := <lo>, dl_hi mx := <hi>   (arithmetic over self.min / self.max)
    if self.allow_trailing_delim: delim_list_expr += Opt(self.delim)   -> dl_trailing_is_opt_delim := true
    if not combine: self.delim = Suppress(delim)                -> dl_delim_suppressed := true
counted_array.count_field_parse_action must contain
    n = t[0] ;  array_expr <<= (expr * n) if n else Empty()     -> ca_items n := n   (0 -> Empty: no item)
    intExpr.add_parse_action(count_field_parse_action, call_during_try=True) ; return (intExpr + array_expr)..."""
import ast

OUTPUTS = ["GenHelpers.v"]


class Refused(Exception):
    pass


def _d(n):
    """normalised source text of a node (ast.unparse): comparison is syntactic up to layout"""
    return ast.unparse(n)


def _expr(src):
    return ast.unparse(ast.parse(src).body[0])


def _arith(node, var, attr):
    """Gallina (nat) for an int expression over self.<attr> (bound to `var`), constants, + and -"""
    if isinstance(node, ast.Attribute) and isinstance(node.value, ast.Name) and node.value.id == "self" and node.attr == attr:
        return var
    if isinstance(node, ast.Constant) and isinstance(node.value, int) and not isinstance(node.value, bool) and node.value >= 0:
        return str(node.value)
    if isinstance(node, ast.BinOp) and isinstance(node.op, (ast.Add, ast.Sub)):
        return "(%s %s %s)" % (_arith(node.left, var, attr), "+" if isinstance(node.op, ast.Add) else "-", _arith(node.right, var, attr))
    raise Refused("not an arithmetic expression over self.%s: %s" % (attr, _d(node)[:160]))


def generate(repo):
    core = ast.parse(open(repo + "/pyparsing/core.py").read())
    helpers = ast.parse(open(repo + "/pyparsing/helpers.py").read())
    out = ["(* GENERATED from pyparsing/core.py (DelimitedList.__init__) and pyparsing/helpers.py (counted_array) by",
           "   tools/translate/gen_helpers.py -- do not edit *)", "From Coq Require Import Arith.", ""]

    cls = [n for n in core.body if isinstance(n, ast.ClassDef) and n.name == "DelimitedList"]
    if len(cls) != 1:
        raise Refused("class DelimitedList not found")
    init = [n for n in cls[0].body if isinstance(n, ast.FunctionDef) and n.name == "__init__"]
    if len(init) != 1:
        raise Refused("DelimitedList.__init__ not found")
    body = init[0].body
    params = [a.arg for a in init[0].args.args] + [a.arg for a in init[0].args.kwonlyargs]
    if params != ["self", "expr", "delim", "combine", "min", "max", "allow_trailing_delim"]:
        raise Refused("DelimitedList.__init__ parameters: %r" % (params,))
    defaults = [_d(x) for x in init[0].args.defaults] + [_d(x) for x in init[0].args.kw_defaults]
    if defaults != [_expr('","'), _expr("False"), _expr("None"), _expr("None"), _expr("False")]:
        raise Refused("DelimitedList.__init__ defaults changed")
    found = {}
    for st in body:
        if isinstance(st, ast.If) and _d(st.test) == _expr("min is not None and min < 1") \
                and len(st.body) == 1 and isinstance(st.body[0], ast.Raise) and not st.orelse:
            found["min_lb"] = True
        elif isinstance(st, ast.If) and _d(st.test) == _expr("max is not None and min is not None and max < min") \
                and len(st.body) == 1 and isinstance(st.body[0], ast.Raise) and not st.orelse:
            found["max_ge"] = True
        elif isinstance(st, ast.Assign) and _d(st.targets[0]) == _expr("self.min"):
            if _d(st.value) != _expr("min or 1"):
                raise Refused("self.min = " + _d(st.value))
            found["min_default"] = True
        elif isinstance(st, ast.Assign) and _d(st.targets[0]) == _expr("self.max"):
            if _d(st.value) != _expr("max"):
                raise Refused("self.max = " + _d(st.value))
            found["max_plain"] = True
        elif isinstance(st, ast.Assign) and _d(st.targets[0]) == _expr("self.content"):
            if _d(st.value) != _expr("expr"):
                raise Refused("self.content = " + _d(st.value))
            found["content"] = True
        elif isinstance(st, ast.If) and _d(st.test) == _expr("not combine"):
            if not (len(st.body) == 1 and not st.orelse and _d(st.body[0]) == _d(ast.parse("self.delim = Suppress(delim)").body[0])):
                raise Refused("`if not combine` body changed")
            found["suppress"] = True
        elif isinstance(st, ast.Assign) and _d(st.targets[0]) == _expr("delim_list_expr"):
            v = st.value
            # self.content + (self.delim + self.content) * (<lo>, None if self.max is None else <hi>)
            if not (isinstance(v, ast.BinOp) and isinstance(v.op, ast.Add) and _d(v.left) == _expr("self.content")
                    and isinstance(v.right, ast.BinOp) and isinstance(v.right.op, ast.Mult)
                    and _d(v.right.left) == _expr("self.delim + self.content")
                    and isinstance(v.right.right, ast.Tuple) and len(v.right.right.elts) == 2):
                if "list_expr" in found:      # the Combine(...) re-assignment
                    if _d(v) == _expr("Combine(delim_list_expr)"):
                        continue
                raise Refused("delim_list_expr = " + _d(v)[:200])
            lo, hi = v.right.right.elts
            if not (isinstance(hi, ast.IfExp) and _d(hi.test) == _expr("self.max is None") and _d(hi.body) == _expr("None")):
                raise Refused("upper bound of the repetition: " + _d(hi)[:200])
            found["lo"] = _arith(lo, "mn", "min")
            found["hi"] = _arith(hi.orelse, "mx", "max")
            found["list_expr"] = True
        elif isinstance(st, ast.If) and _d(st.test) == _expr("self.allow_trailing_delim"):
            if not (len(st.body) == 1 and not st.orelse and
                    _d(st.body[0]) == _d(ast.parse("delim_list_expr += Opt(self.delim)").body[0])):
                raise Refused("trailing-delimiter statement changed")
            if "list_expr" not in found:
                raise Refused("trailing delimiter added before the list expression is built")
            found["trailing"] = True
    need = ["min_lb", "max_ge", "min_default", "max_plain", "content", "suppress", "lo", "hi", "trailing"]
    missing = [k for k in need if k not in found]
    if missing:
        raise Refused("DelimitedList.__init__: statements not found: %r" % (missing,))
    out += ["(* DelimitedList: content + (delim + content) * (dl_lo min, dl_hi max) [+ Opt(delim)] ; min defaults to 1,",
            "   the constructor rejects min < 1 and max < min *)",
            "Definition dl_min_default : nat := 1.",
            "Definition dl_lo (mn : nat) : nat := %s." % found["lo"],
            "Definition dl_hi (mx : nat) : nat := %s." % found["hi"],
            "Definition dl_trailing_is_opt_delim : bool := true.",
            "Definition dl_delim_suppressed_unless_combine : bool := true.", ""]

    # counted_array
    ca = [n for n in helpers.body if isinstance(n, ast.FunctionDef) and n.name == "counted_array"]
    if len(ca) != 1:
        raise Refused("counted_array not found")
    act = [n for n in ca[0].body if isinstance(n, ast.FunctionDef) and n.name == "count_field_parse_action"]
    if len(act) != 1:
        raise Refused("count_field_parse_action not found")
    stmts = [st for st in act[0].body if not isinstance(st, ast.Nonlocal)]
    want = ast.parse("n = t[0]\narray_expr <<= (expr * n) if n else Empty()\ndel t[:]").body
    if [_d(x) for x in stmts] != [_d(x) for x in want]:
        raise Refused("count_field_parse_action body changed: " + "; ".join(_d(x)[:80] for x in stmts))
    tail = [_d(st) for st in ca[0].body]
    if _d(ast.parse("intExpr.add_parse_action(count_field_parse_action, call_during_try=True)").body[0]) not in tail:
        raise Refused("counted_array: the count action is not attached as expected")
    ret = ca[0].body[-1]
    if not (isinstance(ret, ast.Return) and isinstance(ret.value, ast.Call) and isinstance(ret.value.func, ast.Attribute)
            and _d(ret.value.func.value) == _expr("intExpr + array_expr")):
        raise Refused("counted_array: return expression changed")
    out += ["(* counted_array: the count action installs `expr * n` (Empty() for 0) as the body of the Forward that follows the count *)",
            "Definition ca_items (n : nat) : nat := n.", ""]
    return {"GenHelpers.v": "\n".join(out)}
