"""Run every generator; write coq/Gen/*.v only when the content changed.
Returns {generator_name: error_text} for generators that refused (fail-closed)."""
import importlib, os, sys, traceback

GENERATORS = ["gen_loc"]


def discover():
    here = os.path.dirname(__file__)
    return sorted(f[:-3] for f in os.listdir(here) if f.startswith("gen_") and f.endswith(".py"))


def run(repo="/repo", verif="/verif", only=None):
    errors = {}
    gendir = os.path.join(verif, "coq", "Gen")
    os.makedirs(gendir, exist_ok=True)
    for g in discover():
        if only and g not in only:
            continue
        try:
            mod = importlib.import_module("tools.translate." + g)
            files = mod.generate(repo)
        except Exception as e:  # fail closed: report, keep the old file out of the build
            errors[g] = "%s: %s" % (type(e).__name__, e)
            for fn in getattr(sys.modules.get("tools.translate." + g), "OUTPUTS", []):
                p = os.path.join(gendir, fn)
                if os.path.exists(p):
                    os.remove(p)
            continue
        for fn, text in files.items():
            p = os.path.join(gendir, fn)
            old = open(p).read() if os.path.exists(p) else None
            if old != text:
                with open(p, "w") as f:
                    f.write(text)
    return errors


if __name__ == "__main__":
    sys.path.insert(0, "/verif")
    errs = run()
    for k, v in errs.items():
        print("TRANSLATOR-ERROR", k, v)
    sys.exit(1 if errs else 0)
