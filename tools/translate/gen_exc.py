"""GenExc.v: the exception class hierarchy of pyparsing/exceptions.py and, for every modelled method, the `except` clauses
(caught classes, whether the handler re-raises) in source order."""
import ast
from .pyexpr import Untranslatable

OUTPUTS = ["GenExc.v"]
KNOWN = ["ParseBaseException", "ParseException", "ParseFatalException", "ParseSyntaxException", "RecursiveGrammarException",
         "IndexError", "TypeError", "KeyError", "Exception", "_ParseActionIndexError", "RecursionError", "AttributeError", "ValueError"]
METHODS = [("ParserElement", "_skipIgnorables"), ("ParserElement", "_parseNoCache"), ("ParserElement", "try_parse"),
           ("ParserElement", "can_parse_next"), ("ParserElement", "_parseCache"), ("ParserElement", "parse_string"),
           ("ParserElement", "scan_string"), ("And", "parseImpl"), ("Or", "parseImpl"), ("MatchFirst", "parseImpl"),
           ("Each", "parseImpl"), ("ParseElementEnhance", "parseImpl"), ("_MultipleMatch", "parseImpl"), ("ZeroOrMore", "parseImpl"),
           ("Opt", "parseImpl"), ("SkipTo", "parseImpl"), ("NotAny", "parseImpl"), ("FollowedBy", "parseImpl"),
           ("Located", "parseImpl"), ("Forward", "parseImpl"), ("PrecededBy", "parseImpl")]


def cname(n):
    return "C_" + n.lstrip("_") if n != "_ParseActionIndexError" else "C_ParseActionIndexError"


def handler_types(h):
    if h.type is None:
        return ["Exception"]
    if isinstance(h.type, ast.Name):
        return [h.type.id]
    if isinstance(h.type, ast.Tuple) and all(isinstance(e, ast.Name) for e in h.type.elts):
        return [e.id for e in h.type.elts]
    raise Untranslatable("except clause " + ast.dump(h.type))


def reraises(h):
    """does every path through the handler end in a raise?  (conservative: last statement is a Raise)"""
    last = h.body[-1]
    return isinstance(last, ast.Raise)


def generate(repo):
    ex = ast.parse(open(repo + "/pyparsing/exceptions.py").read())
    parents = {}
    for n in ex.body:
        if isinstance(n, ast.ClassDef) and n.name.startswith(("Parse", "Recursive")):
            if len(n.bases) != 1 or not isinstance(n.bases[0], ast.Name):
                raise Untranslatable("bases of " + n.name)
            parents[n.name] = n.bases[0].id
    core = ast.parse(open(repo + "/pyparsing/core.py").read())
    for n in core.body:
        if isinstance(n, ast.ClassDef) and n.name == "_ParseActionIndexError":
            if [ast.unparse(b) for b in n.bases] != ["Exception"]:
                raise Untranslatable("_ParseActionIndexError bases")
            parents[n.name] = "Exception"
    builtin = {"IndexError": "Exception", "TypeError": "Exception", "KeyError": "Exception", "RecursionError": "Exception",
               "AttributeError": "Exception", "ValueError": "Exception"}
    parents.update(builtin)
    for c, p in parents.items():
        if c not in KNOWN or p not in KNOWN:
            raise Untranslatable("unknown exception class %s(%s)" % (c, p))
    classes = {}
    for n in core.body:
        if isinstance(n, ast.ClassDef):
            classes[n.name] = n
    out = ["(* GENERATED from pyparsing/exceptions.py and pyparsing/core.py by tools/translate/gen_exc.py -- do not edit *)",
           "From Coq Require Import List Bool.", "Import ListNotations.",
           "Inductive cls := %s." % " | ".join(cname(k) for k in KNOWN),
           "Definition gen_parent (c : cls) : option cls :=\n  match c with\n%s\n  | _ => None\n  end." % "\n".join(
               "  | %s => Some %s" % (cname(c), cname(p)) for c, p in sorted(parents.items())),
           "(* one entry per `except` clause, in source order: (caught classes, handler always ends in raise) *)"]
    for cn, mn in METHODS:
        if cn not in classes:
            raise Untranslatable("class %s not found" % cn)
        m = [x for x in classes[cn].body if isinstance(x, ast.FunctionDef) and x.name == mn]
        if len(m) != 1:
            raise Untranslatable("%s.%s not found" % (cn, mn))
        hs = []
        for node in ast.walk(m[0]):
            if isinstance(node, ast.Try):
                for h in node.handlers:
                    hs.append((h.lineno, handler_types(h), reraises(h)))
        hs.sort()
        items = []
        for _, tys, rr in hs:
            for t in tys:
                if t not in KNOWN:
                    raise Untranslatable("%s.%s catches unknown class %s" % (cn, mn, t))
            items.append("([%s], %s)" % ("; ".join(cname(t) for t in tys), "true" if rr else "false"))
        out.append("Definition gen_catch_%s_%s : list (list cls * bool) :=\n  [%s]." % (cn.lstrip("_"), mn.lstrip("_"), ";\n   ".join(items)))
    out.append("")
    return {"GenExc.v": "\n".join(out)}
