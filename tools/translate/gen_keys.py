"""GenKeys.v: the packrat lookup key and the shape of _parseCache, re-read from pyparsing/core.py."""
import ast
from .pyexpr import Untranslatable

OUTPUTS = ["GenKeys.v"]
PNAMES = {"self": "P_self", "instring": "P_instring", "loc": "P_loc", "do_actions": "P_do_actions", "callPreParse": "P_callPreParse"}


def _method(tree, cls, name):
    for n in tree.body:
        if isinstance(n, ast.ClassDef) and n.name == cls:
            for m in n.body:
                if isinstance(m, ast.FunctionDef) and m.name == name:
                    return m
    raise Untranslatable("%s.%s not found" % (cls, name))


def generate(repo):
    tree = ast.parse(open(repo + "/pyparsing/core.py").read())
    pc = _method(tree, "ParserElement", "_parseCache")
    nc = _method(tree, "ParserElement", "_parseNoCache")
    params_c = [a.arg for a in pc.args.args]
    params_n = [a.arg for a in nc.args.args]
    if params_c != params_n:
        raise Untranslatable("_parseCache and _parseNoCache take different parameters: %r vs %r" % (params_c, params_n))
    for p in params_n:
        if p not in PNAMES:
            raise Untranslatable("unknown parameter %s" % p)
    key = None
    for st in ast.walk(pc):
        if isinstance(st, ast.Assign) and len(st.targets) == 1 and isinstance(st.targets[0], ast.Name) \
                and st.targets[0].id == "lookup":
            if not isinstance(st.value, ast.Tuple) or not all(isinstance(e, ast.Name) for e in st.value.elts):
                raise Untranslatable("lookup is not a tuple of names")
            key = [e.id for e in st.value.elts]
    if key is None:
        raise Untranslatable("no `lookup = (...)` in _parseCache")
    for k in key:
        if k not in PNAMES:
            raise Untranslatable("key component %s is not a parameter" % k)
    src = ast.unparse(pc)
    # the whole body after the two assignments must sit under `with ParserElement.packrat_cache_lock:`
    withs = [st for st in pc.body if isinstance(st, ast.With)]
    lock_held = len(withs) == 1 and ast.unparse(withs[0].items[0].context_expr) == "ParserElement.packrat_cache_lock" \
        and all(isinstance(st, (ast.Assign, ast.With, ast.Expr)) for st in pc.body) \
        and not any(isinstance(st, ast.Expr) and not isinstance(st.value, ast.Constant) for st in pc.body)
    # what is passed to _parseNoCache on a miss: must forward the four arguments unchanged
    fwd = [ast.unparse(c) for c in ast.walk(pc) if isinstance(c, ast.Call) and ast.unparse(c.func) == "self._parseNoCache"]
    if fwd != ["self._parseNoCache(instring, loc, do_actions, callPreParse)"]:
        raise Untranslatable("unexpected miss call: %r" % fwd)
    sets = sorted(ast.unparse(c) for c in ast.walk(pc) if isinstance(c, ast.Call) and ast.unparse(c.func) == "cache.set")
    raises = sorted(ast.unparse(r) for r in ast.walk(pc) if isinstance(r, ast.Raise) and r.exc is not None)
    store_exc_current = "cache.set(lookup, type(pe)._from_exception(pe))" in sets
    store_val_copy = "cache.set(lookup, (value[0], value[1].copy(), loc))" in sets
    hit_raise_copy = raises == ["raise type(value)._from_exception(value)"]
    hit_val_copy = "value[1].copy()" in src and "loc_, result, endloc = (value[0], value[1].copy(), value[2])" in src
    b = lambda x: "true" if x else "false"
    out = ["(* GENERATED from pyparsing/core.py (_parseCache, _parseNoCache) by tools/translate/gen_keys.py -- do not edit *)",
           "From Coq Require Import List Bool.", "Import ListNotations.",
           "Inductive pname := P_self | P_instring | P_loc | P_do_actions | P_callPreParse.",
           "Definition gen_parse_params : list pname := [%s]." % "; ".join(PNAMES[p] for p in params_n),
           "Definition gen_cache_key : list pname := [%s]." % "; ".join(PNAMES[k] for k in key),
           "Definition gen_cache_sets : nat := %d." % len(sets),
           "Definition gen_lock_held_throughout : bool := %s." % b(lock_held),
           "Definition gen_store_exception_current_copy : bool := %s.   (* cache.set(lookup, type(pe)._from_exception(pe)) *)" % b(store_exc_current),
           "Definition gen_store_value_copy : bool := %s.               (* cache.set(lookup, (value[0], value[1].copy(), loc)) *)" % b(store_val_copy),
           "Definition gen_hit_raises_copy : bool := %s.                (* raise type(value)._from_exception(value) *)" % b(hit_raise_copy),
           "Definition gen_hit_value_copy : bool := %s.                 (* value[1].copy() handed out on a hit *)" % b(hit_val_copy),
           ""]
    return {"GenKeys.v": "\n".join(out)}
