"""GenLocks.v: which operations on the process-global parse state happen under which lock (pyparsing/core.py).

Facts extracted (fail-closed: a shape that is not recognised raises):
  * `_parseCache`: the tuple bound to `lookup` (packrat key); whether cache.get / cache.set / self._parseNoCache all lie inside
    the single trailing `with ParserElement.packrat_cache_lock:` block; when cache.set is called;
  * `reset_cache`: the sequence of operations, with the lock(s) around them;
  * `Forward.parseImpl`: whether the `_left_recursion_enabled` guard returns before `with ParserElement.recursion_lock:`,
    whether every `memo[...]` access lies inside that block, the memo key tuple;
  * `parse_string` / `scan_string`: reset_cache() is called before the first `_parse`;
  * every function of core.py that mentions one of the two locks.
Model/Threads.v states what the interleaving model implements (`model_*`); Props/C15.v proves the two equal, so a source
edit that changes the locking makes theorem C15_model_matches_source fail to re-check."""
import ast

OUTPUTS = ["GenLocks.v"]


class Untranslatable(Exception):
    pass


def _attr_chain(node):
    """ParserElement.packrat_cache.clear -> ['ParserElement','packrat_cache','clear']"""
    out = []
    while isinstance(node, ast.Attribute):
        out.append(node.attr)
        node = node.value
    if isinstance(node, ast.Name):
        out.append(node.id)
        return list(reversed(out))
    return None


def _find_class(tree, name):
    for n in tree.body:
        if isinstance(n, ast.ClassDef) and n.name == name:
            return n
    raise Untranslatable("class %s not found" % name)


def _find_method(cls, name):
    for n in cls.body:
        if isinstance(n, ast.FunctionDef) and n.name == name:
            return n
    raise Untranslatable("%s.%s not found" % (cls.name, name))


def _strip_doc(body):
    if body and isinstance(body[0], ast.Expr) and isinstance(body[0].value, ast.Constant) and isinstance(body[0].value.value, str):
        return body[1:]
    return body


def _with_lock(stmt):
    """`with ParserElement.<lock>:` -> lock attribute name, else None"""
    if isinstance(stmt, ast.With) and len(stmt.items) == 1 and stmt.items[0].optional_vars is None:
        ch = _attr_chain(stmt.items[0].context_expr)
        if ch and len(ch) == 2 and ch[0] == "ParserElement" and ch[1] in ("packrat_cache_lock", "recursion_lock"):
            return ch[1]
    return None


KEYFIELD = {"self": "KSelf", "instring": "KInstring", "loc": "KLoc", "callPreParse": "KCallPre", "do_actions": "KDoActions"}
LOCK = {"packrat_cache_lock": "LockP", "recursion_lock": "LockR"}


def _key_fields(tup, what):
    if not isinstance(tup, ast.Tuple):
        raise Untranslatable("%s: key is not a tuple" % what)
    out = []
    for e in tup.elts:
        if isinstance(e, ast.Name) and e.id in KEYFIELD:
            out.append(KEYFIELD[e.id])
        elif isinstance(e, ast.Constant) and isinstance(e.value, bool):
            out.append("KDoActions")       # act_key / peek_key spell the do_actions component as a constant
        else:
            raise Untranslatable("%s: unexpected key component %s" % (what, ast.dump(e)))
    return out


def _calls(node):
    for n in ast.walk(node):
        if isinstance(n, ast.Call):
            ch = _attr_chain(n.func)
            if ch:
                yield n, ch


def _inside(outer, inner):
    return any(n is inner for n in ast.walk(outer))


def parse_cache_facts(pe):
    fn = _find_method(pe, "_parseCache")
    body = _strip_doc(fn.body)
    key = None
    for st in body:
        if isinstance(st, ast.Assign) and len(st.targets) == 1 and isinstance(st.targets[0], ast.Name) and st.targets[0].id == "lookup":
            key = _key_fields(st.value, "_parseCache lookup")
    if key is None:
        raise Untranslatable("_parseCache: no `lookup = (...)`")
    withs = [st for st in body if _with_lock(st) == "packrat_cache_lock"]
    interesting = []
    for call, ch in _calls(fn):
        if ch in (["cache", "get"], ["cache", "set"], ["self", "_parseNoCache"]):
            interesting.append((call, ch))
    kinds = sorted(set(tuple(ch) for _, ch in interesting))
    if kinds != [("cache", "get"), ("cache", "set"), ("self", "_parseNoCache")]:
        raise Untranslatable("_parseCache: expected cache.get, cache.set and self._parseNoCache calls, found %r" % (kinds,))
    all_under = bool(withs) and len(withs) == 1 and body[-1] is withs[0] and all(_inside(withs[0], c) for c, _ in interesting)
    # when is cache.set called: in `except ParseBaseException` and in the `else` of the try around _parseNoCache
    set_sites = []
    for n in ast.walk(fn):
        if isinstance(n, ast.Try):
            for h in n.handlers:
                if any(ch == ["cache", "set"] for _, ch in _calls(h)):
                    nm = h.type.id if isinstance(h.type, ast.Name) else None
                    if nm is None:
                        raise Untranslatable("_parseCache: except clause with cache.set is not a plain class name")
                    set_sites.append("SetOnExc_" + nm)
            for st in n.orelse:
                if any(ch == ["cache", "set"] for _, ch in _calls(st)):
                    set_sites.append("SetOnValue")
    return key, all_under, sorted(set(set_sites))


def reset_cache_ops(pe):
    fn = _find_method(pe, "reset_cache")
    ops = []

    def walk(stmts):
        for st in stmts:
            lk = _with_lock(st)
            if lk:
                ops.append("RAcq " + LOCK[lk])
                walk(st.body)
                ops.append("RRel " + LOCK[lk])
                continue
            if isinstance(st, ast.Expr) and isinstance(st.value, ast.Call):
                ch = _attr_chain(st.value.func)
                if ch == ["ParserElement", "packrat_cache", "clear"]:
                    ops.append("RClearCache")
                    continue
                if ch == ["ParserElement", "recursion_memos", "clear"]:
                    ops.append("RClearMemo")
                    continue
            if isinstance(st, ast.Assign) and len(st.targets) == 1:
                t = st.targets[0]
                base = t.value if isinstance(t, ast.Subscript) else t
                if _attr_chain(base) == ["ParserElement", "packrat_cache_stats"]:
                    ops.append("RStats")
                    continue
            raise Untranslatable("reset_cache: unrecognised statement at line %d" % st.lineno)
    walk(_strip_doc(fn.body))
    return ops


def forward_facts(tree):
    fw = _find_class(tree, "Forward")
    fn = _find_method(fw, "parseImpl")
    body = _strip_doc(fn.body)
    guard_idx = with_idx = None
    for i, st in enumerate(body):
        if isinstance(st, ast.If) and isinstance(st.test, ast.UnaryOp) and isinstance(st.test.op, ast.Not) and \
                _attr_chain(st.test.operand) == ["ParserElement", "_left_recursion_enabled"] and \
                len(st.body) == 1 and isinstance(st.body[0], ast.Return) and not st.orelse:
            guard_idx = i
        if _with_lock(st) == "recursion_lock":
            with_idx = i
    guard_first = guard_idx is not None and with_idx is not None and guard_idx < with_idx and with_idx == len(body) - 1
    # the statements before the guard must not touch the memo or a lock
    for st in body[:with_idx if with_idx is not None else len(body)]:
        for n in ast.walk(st):
            if isinstance(n, ast.Attribute) and n.attr in ("recursion_memos", "recursion_lock", "packrat_cache_lock"):
                guard_first = False
    subs = [n for n in ast.walk(fn) if isinstance(n, ast.Subscript) and isinstance(n.value, ast.Name) and n.value.id == "memo"]
    if not subs:
        raise Untranslatable("Forward.parseImpl: no memo[...] access")
    under = with_idx is not None and all(_inside(body[with_idx], s) for s in subs)
    keys = set()
    names = {}
    for n in ast.walk(fn):
        if isinstance(n, ast.Assign) and len(n.targets) == 1 and isinstance(n.targets[0], ast.Name) and \
                n.targets[0].id in ("act_key", "peek_key"):
            names[n.targets[0].id] = tuple(_key_fields(n.value, n.targets[0].id))
    for s in subs:
        sl = s.slice
        if isinstance(sl, ast.Tuple):
            keys.add(tuple(_key_fields(sl, "memo[...]")))
        elif isinstance(sl, ast.Name) and sl.id in names:
            keys.add(names[sl.id])
        else:
            raise Untranslatable("Forward.parseImpl: unrecognised memo subscript at line %d" % s.lineno)
    if len(keys) != 1:
        raise Untranslatable("Forward.parseImpl: memo keys of different shapes %r" % (keys,))
    return guard_first, under, list(keys.pop())


def entry_resets_first(pe, name, reset_names):
    fn = _find_method(pe, name)
    reset_line = parse_line = None
    for call, ch in _calls(fn):
        if len(ch) == 2 and ch[0] == "ParserElement" and ch[1] in reset_names:
            reset_line = call.lineno if reset_line is None else min(reset_line, call.lineno)
        if ch == ["self", "_parse"] or ch == ["parseFn"]:
            parse_line = call.lineno if parse_line is None else min(parse_line, call.lineno)
    for n in ast.walk(fn):     # scan_string calls the bound method through a local name
        if isinstance(n, ast.Call) and isinstance(n.func, ast.Name) and n.func.id == "parseFn":
            parse_line = n.lineno if parse_line is None else min(parse_line, n.lineno)
    if parse_line is None:
        raise Untranslatable("%s: no _parse call found" % name)
    # the reset must not sit inside a with-block of its own
    for n in ast.walk(fn):
        if isinstance(n, ast.With) and _with_lock(n):
            return False
    return reset_line is not None and reset_line < parse_line


def lock_users(tree):
    users = {"packrat_cache_lock": [], "recursion_lock": []}

    def visit(node, prefix):
        for n in node.body:
            if isinstance(n, ast.ClassDef):
                visit(n, prefix + n.name + ".")
            elif isinstance(n, (ast.FunctionDef, ast.AsyncFunctionDef)):
                for m in ast.walk(n):
                    if isinstance(m, ast.Attribute) and m.attr in users:
                        nm = prefix + n.name
                        if nm not in users[m.attr]:
                            users[m.attr].append(nm)
    visit(tree, "")
    return users


def coq_list(xs):
    return "[" + "; ".join(xs) + "]"


def generate(repo):
    src = open(repo + "/pyparsing/core.py").read()
    tree = ast.parse(src)
    pe = _find_class(tree, "ParserElement")
    key, all_under, set_sites = parse_cache_facts(pe)
    rops = reset_cache_ops(pe)
    guard_first, memo_under, mkey = forward_facts(tree)
    # resetCache must be the pep8 alias of reset_cache
    alias_ok = False
    for n in pe.body:
        if isinstance(n, ast.Assign) and len(n.targets) == 1 and isinstance(n.targets[0], ast.Name) and n.targets[0].id == "resetCache":
            alias_ok = any(isinstance(m, ast.Name) and m.id == "reset_cache" for m in ast.walk(n.value))
    if not alias_ok:
        raise Untranslatable("resetCache is not an alias of reset_cache")
    e1 = entry_resets_first(pe, "parse_string", ("reset_cache", "resetCache"))
    e2 = entry_resets_first(pe, "scan_string", ("reset_cache", "resetCache"))
    users = lock_users(tree)
    b = lambda x: "true" if x else "false"
    out = ["(* GENERATED from pyparsing/core.py by tools/translate/gen_locks.py -- do not edit *)",
           "From Coq Require Import List String Bool.",
           "From PP Require Import Model.Threads.",
           "Import ListNotations.",
           "Local Open Scope string_scope.", "",
           "Definition src_packrat_key : list keyfield := %s." % coq_list(key),
           "Definition src_parsecache_all_under_lock : bool := %s." % b(all_under),
           "Definition src_parsecache_set_sites : list string := %s." % coq_list('"%s"' % s for s in set_sites),
           "Definition src_reset_cache_ops : list rop := %s." % coq_list(rops),
           "Definition src_forward_guard_before_lock : bool := %s." % b(guard_first),
           "Definition src_forward_memo_under_lock : bool := %s." % b(memo_under),
           "Definition src_memo_key : list keyfield := %s." % coq_list(mkey),
           "Definition src_parse_string_resets_first : bool := %s." % b(e1),
           "Definition src_scan_string_resets_first : bool := %s." % b(e2),
           "Definition src_packrat_lock_users : list string := %s." % coq_list('"%s"' % s for s in users["packrat_cache_lock"]),
           "Definition src_recursion_lock_users : list string := %s." % coq_list('"%s"' % s for s in users["recursion_lock"]),
           ""]
    return {"GenLocks.v": "\n".join(out)}
