"""Fail-closed translator for small straight-line Python functions over (int, str, bool) into Gallina
over the primitives of Model/Str.v.  Any AST shape not listed here raises Untranslatable."""
import ast


class Untranslatable(Exception):
    pass


def _chr_lit(node):
    if isinstance(node, ast.Constant) and isinstance(node.value, str) and len(node.value) == 1:
        return "%d%%N" % ord(node.value)
    raise Untranslatable("expected 1-char string literal: " + ast.dump(node))


class FnTranslator:
    """types: 'Z', 'str', 'bool'"""

    def __init__(self, params):
        self.env = dict(params)  # name -> type

    def expr(self, n):
        """returns (coq_text, type)"""
        if isinstance(n, ast.Constant):
            if isinstance(n.value, bool):
                return ("true" if n.value else "false"), "bool"
            if isinstance(n.value, int):
                return "(%d)" % n.value, "Z"
            raise Untranslatable("constant " + repr(n.value))
        if isinstance(n, ast.Name):
            if n.id not in self.env:
                raise Untranslatable("unknown name " + n.id)
            return n.id, self.env[n.id]
        if isinstance(n, ast.IfExp):
            c, ct = self.expr(n.test)
            a, at = self.expr(n.body)
            b, bt = self.expr(n.orelse)
            if ct != "bool" or at != bt:
                raise Untranslatable("ifexp types")
            return "(if %s then %s else %s)" % (c, a, b), at
        if isinstance(n, ast.BoolOp):
            parts = [self.expr(v) for v in n.values]
            if any(t != "bool" for _, t in parts):
                raise Untranslatable("boolop over non-bool")
            op = " && " if isinstance(n.op, ast.And) else " || "
            return "(" + op.join(p for p, _ in parts) + ")", "bool"
        if isinstance(n, ast.Compare):
            operands = [n.left] + list(n.comparators)
            out = []
            for (l, op, r) in zip(operands, n.ops, operands[1:]):
                out.append(self.compare(l, op, r))
            return "(" + " && ".join(out) + ")", "bool"
        if isinstance(n, ast.BinOp) and isinstance(n.op, (ast.Add, ast.Sub)):
            a, at = self.expr(n.left)
            b, bt = self.expr(n.right)
            if at != "Z" or bt != "Z":
                raise Untranslatable("arith over non-int")
            return "(%s %s %s)" % (a, "+" if isinstance(n.op, ast.Add) else "-", b), "Z"
        if isinstance(n, ast.Call):
            return self.call(n)
        if isinstance(n, ast.Subscript):
            v, vt = self.expr(n.value)
            if vt != "str":
                raise Untranslatable("subscript of non-str")
            sl = n.slice
            if isinstance(sl, ast.Slice):
                if sl.step is not None:
                    raise Untranslatable("slice step")
                if sl.lower is None:
                    raise Untranslatable("slice without lower bound")
                lo, lt = self.expr(sl.lower)
                if lt != "Z":
                    raise Untranslatable("slice bound type")
                if sl.upper is None:
                    return "(py_slice_from %s %s)" % (v, lo), "str"
                hi, ht = self.expr(sl.upper)
                if ht != "Z":
                    raise Untranslatable("slice bound type")
                return "(py_slice %s %s %s)" % (v, lo, hi), "str"
            raise Untranslatable("bare index only allowed inside == comparison")
        raise Untranslatable(ast.dump(n))

    def compare(self, l, op, r):
        # s[i] == "c"
        if isinstance(op, ast.Eq) and isinstance(l, ast.Subscript) and not isinstance(l.slice, ast.Slice):
            v, vt = self.expr(l.value)
            i, it = self.expr(l.slice)
            if vt != "str" or it != "Z":
                raise Untranslatable("index types")
            return "(opt_char_eqb (py_idx %s %s) %s)" % (v, i, _chr_lit(r))
        a, at = self.expr(l)
        b, bt = self.expr(r)
        if at != "Z" or bt != "Z":
            raise Untranslatable("comparison over non-int")
        sym = {ast.Lt: "<?", ast.LtE: "<=?", ast.Gt: ">?", ast.GtE: ">=?", ast.Eq: "=?"}.get(type(op))
        if sym is None:
            raise Untranslatable("comparison operator " + type(op).__name__)
        return "(%s %s %s)" % (a, sym, b)

    def call(self, n):
        if n.keywords:
            raise Untranslatable("keyword args")
        if isinstance(n.func, ast.Name) and n.func.id == "len" and len(n.args) == 1:
            v, vt = self.expr(n.args[0])
            if vt != "str":
                raise Untranslatable("len of non-str")
            return "(zlen %s)" % v, "Z"
        if isinstance(n.func, ast.Attribute):
            v, vt = self.expr(n.func.value)
            if vt != "str":
                raise Untranslatable("method of non-str")
            m = n.func.attr
            args = n.args
            if m == "rfind" and len(args) == 3:
                lo, _ = self.expr(args[1]); hi, _ = self.expr(args[2])
                return "(py_rfind %s %s %s %s)" % (v, _chr_lit(args[0]), lo, hi), "Z"
            if m == "find" and len(args) == 2:
                lo, _ = self.expr(args[1])
                return "(py_find %s %s %s)" % (v, _chr_lit(args[0]), lo), "Z"
            if m == "count" and len(args) == 3:
                lo, _ = self.expr(args[1]); hi, _ = self.expr(args[2])
                return "(py_count %s %s %s %s)" % (v, _chr_lit(args[0]), lo, hi), "Z"
        raise Untranslatable("call " + ast.dump(n))

    def body(self, stmts):
        """sequence of simple assignments followed by a return -> nested lets"""
        stmts = list(stmts)
        if stmts and isinstance(stmts[0], ast.Expr) and isinstance(stmts[0].value, ast.Constant) \
                and isinstance(stmts[0].value.value, str):
            stmts = stmts[1:]  # docstring
        out = []
        for st in stmts[:-1]:
            if not (isinstance(st, ast.Assign) and len(st.targets) == 1 and isinstance(st.targets[0], ast.Name)):
                raise Untranslatable("statement " + ast.dump(st))
            e, t = self.expr(st.value)
            self.env[st.targets[0].id] = t
            out.append("let %s := %s in" % (st.targets[0].id, e))
        last = stmts[-1]
        if not isinstance(last, ast.Return) or last.value is None:
            raise Untranslatable("function must end in return")
        e, t = self.expr(last.value)
        return "\n  ".join(out + [e]), t


def find_function(tree, name):
    for n in tree.body:
        if isinstance(n, ast.FunctionDef) and n.name == name:
            return n
    raise Untranslatable("function %s not found" % name)
