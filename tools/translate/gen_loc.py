"""GenLoc.v: util.col / util.lineno / util.line translated expression by expression."""
import ast
from .pyexpr import FnTranslator, find_function, Untranslatable

COQ_TY = {"Z": "Z", "str": "str", "bool": "bool"}


def generate(repo):
    src = open(repo + "/pyparsing/util.py").read()
    tree = ast.parse(src)
    out = ["(* GENERATED from pyparsing/util.py by tools/translate/gen_loc.py -- do not edit *)",
           "From Coq Require Import List ZArith NArith Bool.",
           "From PP Require Import Model.Str.",
           "Local Open Scope Z_scope.", ""]
    for fname in ("col", "lineno", "line"):
        fn = find_function(tree, fname)
        params = [a.arg for a in fn.args.args]
        if params != ["loc", "strg"]:
            raise Untranslatable("%s: unexpected parameters %r" % (fname, params))
        tr = FnTranslator({"loc": "Z", "strg": "str"})
        body, ty = tr.body(fn.body)
        out.append("Definition gen_%s (loc : Z) (strg : str) : %s :=\n  %s." % (fname, COQ_TY[ty], body))
        out.append("")
    return {"GenLoc.v": "\n".join(out)}
