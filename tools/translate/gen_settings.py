"""GenSettings.v: the process-wide settings of pyparsing as a Gallina record, and `save`, `restore`, every setter,
`ParserElement.__init__/copy/set_whitespace_chars` (whitespace attributes only) translated statement by statement
from the *current* source of pyparsing/util.py, core.py, testing.py.

Fail-closed: every AST shape that is not listed here raises Untranslatable (the tie is then reported broken).

What is emitted (all names used by Model/SettingsRun.v, Proofs/SettingsProofs.v, Props/C19.v):
  flagname, flag_eqb, flag_in, flag_key, diag_all_names, diag_fixed_names, diag_warning_names, compat_all_names,
  compat_fixed_names, diagnostics_members
  state (record: one field per global), set_<field>, initial_state, observe, setattr_diag/compat, getattr_diag/compat
  gen_diag_set / gen_compat_set (= __config_flags._set specialised to the two classes), gen_*_enable / gen_*_disable,
  gen_diag_enable_all_warnings, gen_enable_diag, gen_disable_diag, gen_enable_all_warnings,
  gen_set_default_whitespace_chars, gen_inline_literals_using, gen_set_default_keyword_chars, gen_reset_cache,
  gen_disable_memoization, gen_enable_left_recursion, gen_enable_packrat
  gen_new_expr, gen_copy_expr, gen_set_whitespace_chars                      (expression objects)
  ctx (record: one field per key of _save_context), gen_save, gen_restore, gen_ctx_copy
  old_ctx, old_save, old_restore : the same translation applied to the frozen pre-fix text of save/restore
  (tools/translate/c19_prefix_testing.txt) -- used only for the refutation witnesses F-19a/b/c.

Modelling decisions taken by the translator (documented in notes/C19.md):
  * `set(chars)` is translated to `chars` (a whiteChars set is represented by the string it was built from);
  * `with <lock>:` is transparent; `cache.clear()`, `recursion_memos.clear()`, `packrat_cache_stats[:] = ...` and
    `warnings.warn(...)` do not touch a setting and are translated to nothing (each is matched explicitly);
  * `ParserElement.packrat_cache.size` is a partial read (AttributeError on NullCache).
"""
import ast
import os
import string

OUTPUTS = ["GenSettings.v"]
HERE = os.path.dirname(os.path.abspath(__file__))


class Untranslatable(Exception):
    pass


def bad(msg, node=None):
    where = ""
    if node is not None and hasattr(node, "lineno"):
        where = " (line %d: %s)" % (node.lineno, ast.unparse(node)[:120].replace("\n", " "))
    raise Untranslatable(msg + where)


# ------------------------------------------------------------------------------------------------------
# tables: which globals exist and how they are typed.  Every entry is checked against the source.
# ------------------------------------------------------------------------------------------------------
GLOBALS = [  # (class, attribute, coq field, type)
    ("ParserElement", "DEFAULT_WHITE_CHARS", "s_ws", "str"),
    ("Keyword", "DEFAULT_KEYWORD_CHARS", "s_kw", "str"),
    ("ParserElement", "_literalStringClass", "s_lit", "litclass"),
    ("ParserElement", "verbose_stacktrace", "s_verbose", "bool"),
    ("ParserElement", "_packratEnabled", "s_packrat", "bool"),
    ("ParserElement", "packrat_cache", "s_pcache", "pcache"),
    ("ParserElement", "_parse", "s_parse", "parsefn"),
    ("ParserElement", "_left_recursion_enabled", "s_lr", "bool"),
    ("ParserElement", "recursion_memos", "s_memo", "memo"),
]
COQTYPE = {"str": "str", "bool": "bool", "litclass": "litclass", "pcache": "pcache", "parsefn": "parsefn",
           "memo": "memo", "pyval": "pyval", "optZ": "option Z", "Z": "Z", "flagname": "flagname"}
PARAM_TYPES = {"chars": "str", "cls": "litclass", "cache_size_limit": "optZ", "force": "bool", "dname": "flagname",
               "value": "bool", "name": "flagname", "diag_enum": "flagname", "copy_defaults": "bool"}
# constructors of util.py as imported into core.py (alias checked against the import statement)
CTORS = {"_UnboundedMemo": ("UnboundedMemo", "MUnbounded", "memo", 0),
         "_LRUMemo": ("LRUMemo", "MLRU", "memo", 1),
         "_UnboundedCache": ("_UnboundedCache", "PUnbounded", "pcache", 0),
         "_FifoCache": ("_FifoCache", "PFifo", "pcache", 1)}
EXN = {"RuntimeError", "NotImplementedError", "ValueError"}
OBJ_ATTRS = {"whiteChars": ("e_white", "str"), "copyDefaultWhiteChars": ("e_copydef", "bool")}
# attributes of ParserElement objects that exist but are not modelled (assignments to them are skipped)
OBJ_UNMODELLED = {"parseAction", "failAction", "customName", "_defaultName", "resultsName", "saveAsList", "skipWhitespace",
                  "_may_return_empty", "keepTabs", "ignoreExprs", "debug", "streamlined", "mayIndexError", "errmsg",
                  "modalResults", "debugActions", "callPreparse", "callDuringTry", "suppress_warnings_", "show_in_diagram"}


def ident(s):
    return "".join(ch if ch.isalnum() else "_" for ch in s).strip("_")


def coq_str(s):
    return "[" + "; ".join("%d" % ord(c) for c in s) + "]%N"


# ------------------------------------------------------------------------------------------------------
# source access helpers
# ------------------------------------------------------------------------------------------------------
def find_class(body, name):
    for n in body:
        if isinstance(n, ast.ClassDef) and n.name == name:
            return n
    bad("class %s not found" % name)


def find_def(body, name):
    for n in body:
        if isinstance(n, ast.FunctionDef) and n.name == name:
            return n
    bad("function %s not found" % name)


def strip_doc(stmts):
    stmts = list(stmts)
    if stmts and isinstance(stmts[0], ast.Expr) and isinstance(stmts[0].value, ast.Constant) \
            and isinstance(stmts[0].value.value, str):
        stmts = stmts[1:]
    return stmts


def same_ast(node, text, mode="eval"):
    ref = ast.parse(text, mode=mode)
    ref = ref.body if mode == "eval" else ref.body[0]
    return ast.dump(node) == ast.dump(ref)


def class_assign(cls, name):
    """value node of the (last) plain assignment `name = ...` / `name: T = ...` in a class body, or None"""
    val = None
    for n in cls.body:
        if isinstance(n, ast.Assign) and len(n.targets) == 1 and isinstance(n.targets[0], ast.Name) and n.targets[0].id == name:
            val = n.value
        if isinstance(n, ast.AnnAssign) and isinstance(n.target, ast.Name) and n.target.id == name and n.value is not None:
            val = n.value
    return val


def is_attr(node, base, attr=None):
    return isinstance(node, ast.Attribute) and isinstance(node.value, ast.Name) and node.value.id == base and \
        (attr is None or node.attr == attr)


# ------------------------------------------------------------------------------------------------------
class Source:
    """everything read from the three files, checked shape by shape"""

    def __init__(self, repo):
        rd = lambda f: ast.parse(open(os.path.join(repo, "pyparsing", f)).read())
        self.util, self.core, self.testing = rd("util.py"), rd("core.py"), rd("testing.py")
        self.read_config_flags()
        self.read_core_classes()
        self.read_testing()

    # -- util.__config_flags and its two subclasses ----------------------------------------------------
    def read_config_flags(self):
        base = find_class(self.util.body, "__config_flags")
        for nm in ("_all_names", "_fixed_names"):
            v = class_assign(base, nm)
            if not (isinstance(v, ast.List) and not v.elts):
                bad("__config_flags.%s default is not []" % nm, v)
        self.set_fn = find_def(base.body, "_set")
        if [a.arg for a in self.set_fn.args.args] != ["cls", "dname", "value"]:
            bad("__config_flags._set parameters", self.set_fn)
        self.toggles = {}
        for nm, const in (("enable", True), ("disable", False)):
            v = class_assign(base, nm)
            if v is None or not same_ast(v, "classmethod(lambda cls, name: cls._set(name, %s))" % const):
                bad("__config_flags.%s is not classmethod(lambda cls, name: cls._set(name, %s))" % (nm, const), v)
            self.toggles[nm] = v.args[0]  # the Lambda
        # imports of util names into core under aliases
        self.aliases = {}
        for n in self.core.body:
            if isinstance(n, ast.ImportFrom) and n.module == "util" and n.level == 1:
                for a in n.names:
                    self.aliases[a.asname or a.name] = a.name
        for alias, (orig, _, _, _) in CTORS.items():
            if self.aliases.get(alias) != orig:
                bad("core.py does not import util.%s as %s" % (orig, alias))
        if self.aliases.get("__config_flags") != "__config_flags":
            bad("core.py does not import util.__config_flags")
        self.flagclasses = {}
        for cname in ("__diag__", "__compat__"):
            c = find_class(self.core.body, cname)
            if not (len(c.bases) == 1 and isinstance(c.bases[0], ast.Name) and c.bases[0].id == "__config_flags"):
                bad("%s is not a direct subclass of __config_flags" % cname, c)
            info = {"flags": [], "init": {}, "fixed": [], "all": None, "warning": None, "methods": {}}
            seen_all = False
            for st in strip_doc(c.body):
                if isinstance(st, ast.Assign) and len(st.targets) == 1 and isinstance(st.targets[0], ast.Name):
                    nm = st.targets[0].id
                    if nm == "_all_names":
                        if not same_ast(st.value, '[__ for __ in locals() if not __.startswith("_")]'):
                            bad("%s._all_names has an unexpected definition" % cname, st)
                        info["all"] = list(info["flags"])
                        seen_all = True
                    elif nm == "_fixed_names":
                        v = st.value
                        if not (isinstance(v, ast.Call) and not v.args and not v.keywords and isinstance(v.func, ast.Attribute)
                                and v.func.attr == "split" and isinstance(v.func.value, ast.Constant)
                                and isinstance(v.func.value.value, str)):
                            bad("%s._fixed_names is not '<literal>'.split()" % cname, st)
                        info["fixed"] = v.func.value.value.split()
                    elif nm == "_warning_names":
                        if not same_ast(st.value, '[name for name in _all_names if name.startswith("warn")]'):
                            bad("%s._warning_names has an unexpected definition" % cname, st)
                        if info["all"] is None:
                            bad("_warning_names before _all_names", st)
                        info["warning"] = [f for f in info["all"] if f.startswith("warn")]
                    elif nm == "_debug_names":
                        pass  # not read by any modelled function
                    elif nm == "_type_desc":
                        pass
                    elif not nm.startswith("_"):
                        if not (isinstance(st.value, ast.Constant) and isinstance(st.value.value, bool)):
                            bad("%s.%s: initial value is not a bool literal" % (cname, nm), st)
                        if seen_all:
                            bad("%s.%s is defined after _all_names (would not be listed)" % (cname, nm), st)
                        info["flags"].append(nm)
                        info["init"][nm] = st.value.value
                    else:
                        bad("unexpected private attribute in %s" % cname, st)
                elif isinstance(st, ast.FunctionDef):
                    info["methods"][st.name] = st
                else:
                    bad("unexpected statement in class %s" % cname, st)
            if info["all"] is None:
                bad("%s has no _all_names" % cname)
            for f in info["fixed"]:
                if f not in info["all"]:
                    bad("%s._fixed_names lists unknown flag %s" % (cname, f))
            self.flagclasses[cname] = info
        # Diagnostics enum
        en = find_class(self.core.body, "Diagnostics")
        self.diag_members = []
        for st in strip_doc(en.body):
            if isinstance(st, ast.Assign) and len(st.targets) == 1 and isinstance(st.targets[0], ast.Name) \
                    and isinstance(st.value, ast.Constant) and isinstance(st.value.value, int):
                self.diag_members.append(st.targets[0].id)
            else:
                bad("unexpected statement in enum Diagnostics", st)
        for m in self.diag_members:
            if m not in self.flagclasses["__diag__"]["all"]:
                bad("Diagnostics.%s is not a __diag__ flag" % m)
        self.module_fns = {nm: find_def(self.core.body, nm) for nm in ("enable_diag", "disable_diag", "enable_all_warnings")}

    # -- ParserElement / Keyword -----------------------------------------------------------------------
    def const_str(self, node):
        """evaluate a module-level string constant expression of core.py"""
        if isinstance(node, ast.Constant) and isinstance(node.value, str):
            return node.value
        if isinstance(node, ast.BinOp) and isinstance(node.op, ast.Add):
            return self.const_str(node.left) + self.const_str(node.right)
        if isinstance(node, ast.Name):
            for n in self.core.body:
                tgt, val = None, None
                if isinstance(n, ast.Assign) and len(n.targets) == 1:
                    tgt, val = n.targets[0], n.value
                elif isinstance(n, ast.AnnAssign):
                    tgt, val = n.target, n.value
                if isinstance(tgt, ast.Name) and tgt.id == node.id and val is not None:
                    return self.const_str(val)
            bad("module constant %s not found" % node.id)
        if is_attr(node, "string") and node.attr in ("ascii_uppercase", "ascii_lowercase", "digits"):
            return getattr(string, node.attr)
        bad("not a constant string expression", node)

    def read_core_classes(self):
        pe = find_class(self.core.body, "ParserElement")
        kw = find_class(self.core.body, "Keyword")
        self.pe, self.kw = pe, kw
        init = {}
        v = class_assign(pe, "DEFAULT_WHITE_CHARS")
        init["s_ws"] = coq_str(self.const_str(v))
        v = class_assign(kw, "DEFAULT_KEYWORD_CHARS")
        init["s_kw"] = coq_str(self.const_str(v))
        # _literalStringClass = None in the class, ParserElement._literalStringClass = Literal at module level
        v = class_assign(pe, "_literalStringClass")
        if not (isinstance(v, ast.Constant) and v.value is None):
            bad("ParserElement._literalStringClass class-level value is not None", v)
        lit = None
        for n in self.core.body:
            if isinstance(n, ast.Assign) and len(n.targets) == 1 and is_attr(n.targets[0], "ParserElement", "_literalStringClass"):
                if not isinstance(n.value, ast.Name):
                    bad("module-level _literalStringClass assignment", n)
                lit = n.value.id
        if lit != "Literal":
            bad("ParserElement._literalStringClass is not initialised to Literal")
        init["s_lit"] = "0%N"
        for attr, fld in (("verbose_stacktrace", "s_verbose"), ("_packratEnabled", "s_packrat"),
                          ("_left_recursion_enabled", "s_lr")):
            v = class_assign(pe, attr)
            if not (isinstance(v, ast.Constant) and isinstance(v.value, bool)):
                bad("ParserElement.%s initial value is not a bool literal" % attr, v)
            init[fld] = "true" if v.value else "false"
        v = class_assign(pe, "packrat_cache")
        if not same_ast(v, "NullCache()"):
            bad("ParserElement.packrat_cache is not initialised to NullCache()", v)
        init["s_pcache"] = "PNull"
        v = class_assign(pe, "_parse")
        if not (isinstance(v, ast.Name) and v.id == "_parseNoCache"):
            bad("ParserElement._parse is not initialised to _parseNoCache", v)
        init["s_parse"] = "ParseNoCache"
        v = class_assign(pe, "recursion_memos")
        if not (isinstance(v, ast.Dict) and not v.keys):
            bad("ParserElement.recursion_memos is not initialised to {}", v)
        init["s_memo"] = "MDict"
        self.init = init
        # compat synonyms  X = staticmethod(replaced_by_pep8("X", y))
        self.synonyms = {}
        for c in (pe, kw):
            for n in c.body:
                if isinstance(n, ast.Assign) and len(n.targets) == 1 and isinstance(n.targets[0], ast.Name) \
                        and isinstance(n.value, ast.Call) and isinstance(n.value.func, ast.Name) and n.value.func.id == "staticmethod" \
                        and len(n.value.args) == 1 and isinstance(n.value.args[0], ast.Call) \
                        and isinstance(n.value.args[0].func, ast.Name) and n.value.args[0].func.id == "replaced_by_pep8":
                    a = n.value.args[0].args
                    if len(a) == 2 and isinstance(a[1], ast.Name) and isinstance(a[0], ast.Constant) and a[0].value == n.targets[0].id:
                        self.synonyms[(c.name, n.targets[0].id)] = a[1].id
        self.fns = {}
        for nm in ("set_default_whitespace_chars", "inline_literals_using", "reset_cache", "disable_memoization",
                   "enable_left_recursion", "enable_packrat"):
            f = find_def(pe.body, nm)
            if not any(isinstance(d, ast.Name) and d.id == "staticmethod" for d in f.decorator_list):
                bad("ParserElement.%s is not a staticmethod" % nm, f)
            self.fns[("ParserElement", nm)] = f
        f = find_def(kw.body, "set_default_keyword_chars")
        if not any(isinstance(d, ast.Name) and d.id == "staticmethod" for d in f.decorator_list):
            bad("Keyword.set_default_keyword_chars is not a staticmethod", f)
        self.fns[("Keyword", "set_default_keyword_chars")] = f
        self.obj_fns = {nm: find_def(pe.body, nm) for nm in ("__init__", "copy", "set_whitespace_chars")}

    def read_testing(self):
        outer = find_class(self.testing.body, "pyparsing_test")
        c = find_class(outer.body, "reset_pyparsing_context")
        self.ctx_methods = {nm: find_def(c.body, nm) for nm in ("__init__", "save", "restore", "copy", "__enter__", "__exit__")}
        m = self.ctx_methods
        if not (len(m["__init__"].body) == 1 and same_ast(m["__init__"].body[0], "self._save_context = {}", "exec")):
            bad("reset_pyparsing_context.__init__ is not `self._save_context = {}`", m["__init__"])
        cp = strip_doc(m["copy"].body)
        if not (len(cp) == 3 and same_ast(cp[0], "ret = type(self)()", "exec")
                and same_ast(cp[1], "ret._save_context.update(self._save_context)", "exec") and same_ast(cp[2], "return ret", "exec")):
            bad("reset_pyparsing_context.copy has an unexpected body", m["copy"])
        if not (len(m["__enter__"].body) == 1 and same_ast(m["__enter__"].body[0], "return self.save()", "exec")):
            bad("__enter__ is not `return self.save()`", m["__enter__"])
        if not (len(m["__exit__"].body) == 1 and same_ast(m["__exit__"].body[0], "self.restore()", "exec")):
            bad("__exit__ is not `self.restore()`", m["__exit__"])
        # names imported into testing.py must be the core objects
        need = {"ParserElement", "Keyword", "__diag__", "__compat__"}
        got = set()
        for n in self.testing.body:
            if isinstance(n, ast.ImportFrom) and n.module == "core" and n.level == 1:
                got |= {a.name for a in n.names if a.asname in (None, a.name)}
        if not need <= got:
            bad("testing.py does not import %s from .core" % sorted(need - got))


# ------------------------------------------------------------------------------------------------------
# the translator proper
# ------------------------------------------------------------------------------------------------------
class Tr:
    def __init__(self, src):
        self.src = src
        self.fields = {}  # (class, attr) -> (coq field, type)
        for c, a, f, t in GLOBALS:
            self.fields[(c, a)] = (f, t)
        for nm in src.flagclasses["__diag__"]["all"]:
            self.fields[("__diag__", nm)] = ("d_" + nm, "bool")
        for nm in src.flagclasses["__compat__"]["all"]:
            self.fields[("__compat__", nm)] = ("c_" + nm, "pyval")
        self.allflags = src.flagclasses["__diag__"]["all"] + src.flagclasses["__compat__"]["all"]
        if len(set(self.allflags)) != len(self.allflags):
            bad("a flag name occurs in both __diag__ and __compat__")
        self.state_fields = [(f, t) for (_, _, f, t) in GLOBALS] + \
                            [("d_" + n, "bool") for n in src.flagclasses["__diag__"]["all"]] + \
                            [("c_" + n, "pyval") for n in src.flagclasses["__compat__"]["all"]]
        self.gensym = 0
        # callable table: python callee -> (coq function, [param names], {param: default node})
        self.callables = {}

    # ---- expressions -------------------------------------------------------------------------------
    def fresh(self, base):
        self.gensym += 1
        return "%s%d" % (base, self.gensym)

    def coerce(self, term, ty, want, node=None):
        if ty == want:
            return term
        if ty == "bool" and want == "pyval":
            return "(PVBool %s)" % term
        if ty == "NoneType" and want == "optZ":
            return "None"
        if ty == "Z" and want == "optZ":
            return "(Some %s)" % term
        if isinstance(ty, tuple) and ty[0] == "dict" and want == "pyval":
            return self.dict_as_pyval(ty)
        bad("cannot use a value of type %s where %s is expected" % (ty if not isinstance(ty, tuple) else "dict", want), node)

    def dict_as_pyval(self, ty):
        items = []
        for k, (term, t) in ty[1].items():
            items.append("(%s, %s)" % (coq_str(k), self.coerce(term, t, "pyval")))
        return "(PVDict [%s])" % "; ".join(items)

    def expr(self, n, env, guards):
        """-> (coq term, type).  env: {local name: (term, type)}; env['$cls'] = flag class inside _set & co;
        env['$ctx'] = ctx key table when self._save_context may be read; guards: list collecting partial reads"""
        if isinstance(n, ast.Constant):
            if n.value is True or n.value is False:
                return ("true" if n.value else "false"), "bool"
            if n.value is None:
                return "None", "NoneType"
            if isinstance(n.value, int):
                return "(%d)%%Z" % n.value, "Z"
            if isinstance(n.value, str):
                return coq_str(n.value), "str"
            bad("constant", n)
        if isinstance(n, ast.Name):
            if n.id in env:
                return env[n.id]
            bad("unknown name %s" % n.id, n)
        if isinstance(n, ast.Attribute):
            # diag_enum.name : the member's name is the flag name
            if isinstance(n.value, ast.Name) and n.value.id in env and env[n.value.id][1] == "flagname" and n.attr == "name" \
                    and n.value.id == "diag_enum":
                return env[n.value.id]
            # object attribute read
            if isinstance(n.value, ast.Name) and n.value.id in env and env[n.value.id][1] == "expr_obj":
                if n.attr not in OBJ_ATTRS:
                    bad("read of unmodelled object attribute", n)
                f, t = OBJ_ATTRS[n.attr]
                return "(%s %s)" % (f, env[n.value.id][0]), t
            # ParserElement.packrat_cache.size
            if n.attr == "size" and is_attr(n.value, "ParserElement", "packrat_cache"):
                v = self.fresh("size")
                guards.append((v, "pcache_size (s_pcache s)", "AttributeError"))
                return v, "optZ"
            if isinstance(n.value, ast.Name):
                base = n.value.id
                if base == "cls" and "$cls" in env:
                    base = env["$cls"]
                if base == "ParserElement" and n.attr in ("_parseNoCache", "_parseCache"):
                    return ("ParseNoCache" if n.attr == "_parseNoCache" else "ParseCache"), "parsefn"
                if base in ("__diag__", "__compat__") and n.attr in ("_all_names", "_fixed_names", "_warning_names"):
                    return "%s%s" % (base.strip("_"), n.attr), "flaglist"
                if (base, n.attr) in self.fields:
                    f, t = self.fields[(base, n.attr)]
                    return "(%s s)" % f, t
            bad("attribute read", n)
        if isinstance(n, ast.Subscript):
            # self._save_context["k"]  and  self._save_context["k"]["sub"]
            if "$ctx" in env and isinstance(n.slice, ast.Constant) and isinstance(n.slice.value, str):
                if is_attr(n.value, "self", "_save_context"):
                    k = n.slice.value
                    if k not in env["$ctx"]:
                        bad("restore reads key %r that save does not store (KeyError)" % k, n)
                    return env["$ctx"][k]
                if isinstance(n.value, ast.Subscript):
                    inner, ity = self.expr(n.value, env, guards)
                    if isinstance(ity, tuple) and ity[0] == "dict":
                        if n.slice.value not in ity[1]:
                            bad("lookup of a key the saved dict does not have (KeyError)", n)
                        return ity[1][n.slice.value]
                    bad("subscript of a non-dict saved value", n)
            bad("subscript", n)
        if isinstance(n, ast.Compare) and len(n.ops) == 1:
            op, l, r = n.ops[0], n.left, n.comparators[0]
            a, at = self.expr(l, env, guards)
            b, bt = self.expr(r, env, guards)
            if isinstance(op, (ast.NotEq, ast.Eq)) and at == "str" and bt == "str":
                e = "(str_eqb %s %s)" % (a, b)
                return ("(negb %s)" % e if isinstance(op, ast.NotEq) else e), "bool"
            if isinstance(op, ast.Gt) and at == "Z" and bt == "Z":
                return "(%s >? %s)%%Z" % (a, b), "bool"
            if isinstance(op, ast.In) and at == "flagname" and bt == "flaglist":
                return "(flag_in %s %s)" % (a, b), "bool"
            bad("comparison", n)
        if isinstance(n, ast.Call):
            if isinstance(n.func, ast.Name) and n.func.id in CTORS:
                _, ctor, ty, arity = CTORS[n.func.id]
                args = list(n.args) + [k.value for k in n.keywords]
                if any(k.arg not in ("capacity", "size") for k in n.keywords) or len(args) != arity:
                    bad("constructor call", n)
                if arity == 0:
                    return ctor, ty
                a, at = self.expr(args[0], env, guards)
                if at != "Z":
                    bad("cache size argument is not known to be an int here", n)
                return "(%s %s)" % (ctor, a), ty
            if isinstance(n.func, ast.Name) and n.func.id == "set" and len(n.args) == 1 and not n.keywords:
                a, at = self.expr(n.args[0], env, guards)
                if at != "str":
                    bad("set() of a non-string", n)
                return a, "str"  # modelling decision: a whiteChars set is represented by its generating string
            bad("call in expression", n)
        if isinstance(n, ast.Dict):
            d = {}
            for k, v in zip(n.keys, n.values):
                if not (isinstance(k, ast.Constant) and isinstance(k.value, str)):
                    bad("dict key is not a string literal", n)
                d[k.value] = self.expr(v, env, guards)
            return None, ("dict", d)
        if isinstance(n, ast.DictComp):
            if not same_ast(n, "{name: getattr(__diag__, name) for name in __diag__._all_names}"):
                bad("dict comprehension", n)
            d = {}
            for nm in self.src.flagclasses["__diag__"]["all"]:
                d[nm] = ("(d_%s s)" % nm, "bool")
            return None, ("dict", d)
        bad("expression", n)

    def cond(self, n, env, guards):
        t, ty = self.expr(n, env, guards)
        if ty == "bool":
            return t
        if ty == "pyval":
            return "(truthy %s)" % t
        bad("condition of type %s" % (ty,), n)

    # ---- calls to translated functions -------------------------------------------------------------
    def resolve_callee(self, f, env):
        """-> key into self.callables, or None"""
        if isinstance(f, ast.Attribute) and isinstance(f.value, ast.Name):
            base, attr = f.value.id, f.attr
            if base == "cls" and "$cls" in env:
                base = env["$cls"]
            attr = self.src.synonyms.get((base, attr), attr)
            if (base, attr) in self.callables:
                return (base, attr)
        return None

    def call_term(self, n, env, guards):
        """a Call node to a translated function -> coq term of type `result state` (applied to s)"""
        key = self.resolve_callee(n.func, env)
        if key is None:
            bad("call to an untranslated function", n)
        coqname, params, defaults = self.callables[key]
        bound = {}
        if len(n.args) > len(params):
            bad("too many arguments", n)
        for p, a in zip(params, n.args):
            bound[p] = a
        for k in n.keywords:
            if k.arg not in params or k.arg in bound:
                bad("keyword argument", n)
            bound[k.arg] = k.value
        args = []
        for p in params:
            node = bound.get(p, defaults.get(p))
            if node is None:
                bad("missing argument %s" % p, n)
            t, ty = self.expr(node, env, guards)
            args.append(self.coerce(t, ty, PARAM_TYPES[p], n))
        return "(%s %s s)" % (coqname, " ".join(args)) if args else "(%s s)" % coqname

    # ---- statements over the global state ----------------------------------------------------------
    def with_guards(self, guards, term, raise_fmt="Raise %s s"):
        for v, partial, exn in reversed(guards):
            term = "(match %s with Some %s => %s | None => %s end)" % (partial, v, term, raise_fmt % exn)
        return term

    def noop_call(self, n):
        return (same_ast(n, "ParserElement.packrat_cache.clear()") or same_ast(n, "ParserElement.recursion_memos.clear()")
                or (isinstance(n, ast.Call) and is_attr(n.func, "warnings", "warn")))

    def stmt(self, st, env):
        """-> coq term : flow state, mentioning the current state as `s`"""
        guards = []
        if isinstance(st, ast.Expr) and isinstance(st.value, ast.Constant) and isinstance(st.value.value, str):
            return "(Next s)"
        if isinstance(st, ast.Pass):
            return "(Next s)"
        if isinstance(st, ast.With):
            if not (len(st.items) == 1 and st.items[0].optional_vars is None
                    and is_attr(st.items[0].context_expr, "ParserElement", "packrat_cache_lock")):
                bad("with-statement other than `with ParserElement.packrat_cache_lock:`", st)
            return self.block(st.body, env)
        if isinstance(st, ast.Assign) and len(st.targets) == 1:
            tgt = st.targets[0]
            if same_ast(st, "ParserElement.packrat_cache_stats[:] = [0] * len(ParserElement.packrat_cache_stats)", "exec"):
                return "(Next s)"
            if isinstance(tgt, ast.Attribute) and isinstance(tgt.value, ast.Name):
                base = tgt.value.id
                if (base, tgt.attr) in self.fields:
                    f, t = self.fields[(base, tgt.attr)]
                    v, vt = self.expr(st.value, env, guards)
                    return self.with_guards(guards, "(Next (set_%s %s s))" % (f, self.coerce(v, vt, t, st)))
            bad("assignment target", st)
        if isinstance(st, ast.Raise):
            e = st.exc
            if isinstance(e, ast.Call) and isinstance(e.func, ast.Name) and e.func.id in EXN:
                return "(Raise %s s)" % e.func.id
            bad("raise", st)
        if isinstance(st, ast.Return):
            if st.value is None or (isinstance(st.value, ast.Name) and st.value.id == "self"):
                return "(Return s)"
            bad("return with a value", st)
        if isinstance(st, ast.Expr) and isinstance(st.value, ast.Call):
            c = st.value
            if self.noop_call(c):
                return "(Next s)"
            # setattr(cls, dname, value)
            if isinstance(c.func, ast.Name) and c.func.id == "setattr" and "$cls" in env and len(c.args) == 3 \
                    and isinstance(c.args[0], ast.Name) and c.args[0].id == "cls":
                a, at = self.expr(c.args[1], env, guards)
                v, vt = self.expr(c.args[2], env, guards)
                if at != "flagname" or vt != "bool":
                    bad("setattr argument types", st)
                return "(Next (setattr_%s %s %s s))" % (env["$cls"].strip("_"), a, v)
            # (__diag__.enable if value else __diag__.disable)(name)
            if isinstance(c.func, ast.IfExp):
                t = self.cond(c.func.test, env, guards)
                a = self.call_term(ast.Call(func=c.func.body, args=c.args, keywords=c.keywords), env, guards)
                b = self.call_term(ast.Call(func=c.func.orelse, args=c.args, keywords=c.keywords), env, guards)
                return self.with_guards(guards, "(call (if %s then %s else %s) Next)" % (t, a, b))
            return self.with_guards(guards, "(call %s Next)" % self.call_term(c, env, guards))
        if isinstance(st, ast.If):
            return self.if_stmt(st, env)
        if isinstance(st, ast.For):
            return self.for_stmt(st, env)
        bad("statement", st)

    def if_stmt(self, st, env):
        t = st.test
        # `x is None` on an optional int: refine the type in the branches
        if isinstance(t, ast.Compare) and len(t.ops) == 1 and isinstance(t.ops[0], ast.Is) and isinstance(t.left, ast.Name) \
                and isinstance(t.comparators[0], ast.Constant) and t.comparators[0].value is None \
                and t.left.id in env and env[t.left.id][1] == "optZ":
            x = t.left.id
            env_some = dict(env)
            env_some[x] = (env[x][0] + "'", "Z")
            return "(match %s with None => %s | Some %s' => %s end)" % (
                env[x][0], self.block(st.body, env), env[x][0], self.block(st.orelse, env_some))
        guards = []
        c = self.cond(t, env, guards)
        return self.with_guards(guards, "(if %s then %s else %s)" % (c, self.block(st.body, env), self.block(st.orelse, env)))

    def for_stmt(self, st, env):
        if st.orelse:
            bad("for-else", st)
        # for expr in _builtin_exprs: <object statements>
        if isinstance(st.iter, ast.Name) and st.iter.id == "_builtin_exprs" and isinstance(st.target, ast.Name):
            v = st.target.id
            oenv = dict(env)
            oenv[v] = (v, "expr_obj")
            body = self.obj_block(st.body, oenv, v)
            return "(Next (set_s_builtins (map (fun %s => %s) (s_builtins s)) s))" % (v, body)
        # for name, value in self._save_context["k"].items(): ...   (unrolled over the saved dict's keys)
        if isinstance(st.target, ast.Tuple) and len(st.target.elts) == 2 and all(isinstance(e, ast.Name) for e in st.target.elts) \
                and isinstance(st.iter, ast.Call) and not st.iter.args and isinstance(st.iter.func, ast.Attribute) \
                and st.iter.func.attr == "items":
            g = []
            _, dty = self.expr(st.iter.func.value, env, g)
            if g or not (isinstance(dty, tuple) and dty[0] == "dict"):
                bad("items() of something that is not a saved dict", st)
            kname, vname = st.target.elts[0].id, st.target.elts[1].id
            terms = []
            for k, (term, ty) in dty[1].items():
                if k not in self.allflags:
                    bad("saved dict key %r is not a flag name" % k, st)
                e2 = dict(env)
                e2[kname] = ("F_" + k, "flagname")
                e2[vname] = (term, ty)
                terms.append(self.block(st.body, e2))
            return self.chain(terms)
        # for name in cls._warning_names: ...
        if isinstance(st.target, ast.Name) and is_attr(st.iter, "cls", "_warning_names") and "$cls" in env:
            names = self.src.flagclasses[env["$cls"]]["warning"]
            if names is None:
                bad("class has no _warning_names", st)
            terms = []
            for k in names:
                e2 = dict(env)
                e2[st.target.id] = ("F_" + k, "flagname")
                terms.append(self.block(st.body, e2))
            return self.chain(terms)
        bad("for-loop", st)

    def chain(self, terms):
        if not terms:
            return "(Next s)"
        out = terms[-1]
        for t in reversed(terms[:-1]):
            out = "(seq %s (fun s =>\n    %s))" % (t, out)
        return out

    def block(self, stmts, env):
        return self.chain([self.stmt(st, env) for st in strip_doc(stmts)])

    # ---- statements over one expression object -----------------------------------------------------
    def obj_block(self, stmts, env, result_var):
        """straight-line code assigning attributes of local object variables; -> coq term : expr_obj"""
        lets = []
        env = dict(env)
        for st in strip_doc(stmts):
            g = []
            if isinstance(st, ast.Return):
                if not (isinstance(st.value, ast.Name) and st.value.id in env and env[st.value.id][1] == "expr_obj"):
                    bad("return of something that is not the object", st)
                result_var = st.value.id
                continue
            if isinstance(st, (ast.Assign, ast.AnnAssign)):
                tgt = st.targets[0] if isinstance(st, ast.Assign) and len(st.targets) == 1 else getattr(st, "target", None)
                if isinstance(tgt, ast.Name) and same_ast(st.value, "copy.copy(self)") and "self" in env:
                    lets.append("let %s := self in" % tgt.id)
                    env[tgt.id] = (tgt.id, "expr_obj")
                    continue
                if isinstance(tgt, ast.Attribute) and isinstance(tgt.value, ast.Name) and tgt.value.id in env \
                        and env[tgt.value.id][1] == "expr_obj":
                    o = tgt.value.id
                    if tgt.attr in OBJ_UNMODELLED:
                        continue
                    if tgt.attr not in OBJ_ATTRS:
                        bad("assignment to an unknown object attribute", st)
                    f, t = OBJ_ATTRS[tgt.attr]
                    v, vt = self.expr(st.value, env, g)
                    if g:
                        bad("partial read in object code", st)
                    lets.append("let %s := set_%s %s %s in" % (o, f, self.coerce(v, vt, t, st), o))
                    continue
                bad("object statement", st)
            if isinstance(st, ast.If) and not st.orelse:
                c = self.cond(st.test, env, g)
                if g:
                    bad("partial read in object code", st)
                targets = {s2.targets[0].value.id for s2 in st.body
                           if isinstance(s2, ast.Assign) and len(s2.targets) == 1 and isinstance(s2.targets[0], ast.Attribute)
                           and isinstance(s2.targets[0].value, ast.Name)}
                if len(targets) != 1 or len(st.body) != len([1 for s2 in st.body if isinstance(s2, ast.Assign)]):
                    bad("if-body in object code must assign attributes of one object", st)
                o = targets.pop()
                lets.append("let %s := if %s then %s else %s in" % (o, c, self.obj_block(st.body, env, o), o))
                continue
            bad("object statement", st)
        return "(" + " ".join(lets + [result_var]) + ")"

    # ---- save(): builds the context ----------------------------------------------------------------
    def ctx_key_target(self, st):
        if isinstance(st, ast.Assign) and len(st.targets) == 1 and isinstance(st.targets[0], ast.Subscript) \
                and is_attr(st.targets[0].value, "self", "_save_context") and isinstance(st.targets[0].slice, ast.Constant) \
                and isinstance(st.targets[0].slice.value, str):
            return st.targets[0].slice.value
        return None

    def assigned_keys(self, stmts):
        out = []
        for st in stmts:
            k = self.ctx_key_target(st)
            if k is None:
                bad("branch of save() contains something other than a store into _save_context", st)
            out.append(k)
        return out

    def save_block(self, stmts, tail, keys, prefix):
        """CPS translation.  keys: {key: type-or-dict} filled in first-assignment order; -> coq term : cresult ctx"""
        stmts = strip_doc(stmts)
        if not stmts:
            return tail
        st, rest = stmts[0], stmts[1:]
        if isinstance(st, ast.Return):
            if rest or not (isinstance(st.value, ast.Name) and st.value.id == "self"):
                bad("save(): return", st)
            return tail
        k = self.ctx_key_target(st)
        if k is not None:
            g = []
            v, vt = self.expr(st.value, {}, g)
            lets = []
            if isinstance(vt, tuple):
                sub = {}
                for kk, (term, t) in vt[1].items():
                    sub[kk] = t
                    lets.append("let %s := %s in" % (self.kname(prefix, k, kk), term))
                self.note_key(keys, k, ("dict", sub), st)
            else:
                if vt == "NoneType":
                    vt, v = "optZ", "(@None Z)"
                self.note_key(keys, k, vt, st)
                lets.append("let %s := %s in" % (self.kname(prefix, k), v))
            body = "\n  ".join(lets) + "\n  " + self.save_block(rest, tail, keys, prefix)
            return self.with_guards(g, body, "CRaised %s")
        if isinstance(st, ast.If):
            ka, kb = self.assigned_keys(st.body), self.assigned_keys(st.orelse)
            if ka != kb or not ka:
                bad("save(): the two branches of an if store different keys", st)
            g = []
            c = self.cond(st.test, {}, g)
            if g:
                bad("partial read in a condition of save()", st)
            knames = " ".join(self.kname(prefix, k) for k in ka)
            kont = self.fresh("K")
            br = []
            for branch in (st.body, st.orelse):
                tmp = {}
                br.append(self.save_block(branch, "%s %s" % (kont, knames), tmp, prefix))
                for k2, t2 in tmp.items():
                    if isinstance(t2, tuple):
                        bad("dict stored under a condition", st)
                    self.note_key(keys, k2, t2, st)
            restterm = self.save_block(rest, tail, keys, prefix)
            return "let %s := (fun %s => %s) in\n  if %s then (%s) else (%s)" % (kont, knames, restterm, c, br[0], br[1])
        bad("statement in save()", st)

    def note_key(self, keys, k, ty, node):
        if k in keys and keys[k] != ty:
            bad("key %r stored with two different types" % k, node)
        keys[k] = ty

    @staticmethod
    def kname(prefix, k, sub=None):
        return prefix + ident(k) + ("_" + ident(sub) if sub else "")


# ------------------------------------------------------------------------------------------------------
def params_of(fn, drop_first=False):
    a = fn.args
    if a.vararg or a.kwarg or a.posonlyargs:
        bad("*args/**kwargs in a translated function", fn)
    pos = [x.arg for x in a.args]
    defaults = {}
    for name, d in zip(pos[len(pos) - len(a.defaults):], a.defaults):
        defaults[name] = d
    for x, d in zip(a.kwonlyargs, a.kw_defaults):
        pos.append(x.arg)
        if d is not None:
            defaults[x.arg] = d
    if drop_first:
        pos = pos[1:]
    for p in pos:
        if p not in PARAM_TYPES:
            bad("parameter %s has no modelled type" % p, fn)
    return pos, defaults


def emit_fn(tr, coqname, fn, env, drop_first=False, body=None):
    params, defaults = params_of(fn, drop_first)
    e = dict(env)
    for p in params:
        e[p] = (p, PARAM_TYPES[p])
    term = tr.block(fn.body if body is None else body, e)
    sig = " ".join("(%s : %s)" % (p, COQTYPE[PARAM_TYPES[p]]) for p in params)
    return "Definition %s %s(s : state) : result state :=\n  finish %s.\n" % (coqname, sig + " " if sig else "", term), params, defaults


def translate_ctx(tr, save_fn, restore_fn, prefix, recname, mk, save_name, restore_name):
    keys = {}
    # first pass to learn the keys (and their order), second pass with the real tail
    tr.save_block(save_fn.body, "TAIL", keys, prefix)
    flat = []
    for k, t in keys.items():
        if isinstance(t, tuple):
            for kk, tt in t[1].items():
                flat.append((tr.kname(prefix, k, kk), tt))
        else:
            flat.append((tr.kname(prefix, k), t))
    out = ["Record %s := %s { %s }." % (recname, mk, "; ".join("%s : %s" % (n, COQTYPE[t]) for n, t in flat)), ""]
    tail = "COk (%s %s)" % (mk, " ".join(n for n, _ in flat))
    keys2 = {}
    body = tr.save_block(save_fn.body, tail, keys2, prefix)
    if [a.arg for a in save_fn.args.args] != ["self"]:
        bad("save() parameters", save_fn)
    out.append("Definition %s (s : state) : cresult %s :=\n  %s.\n" % (save_name, recname, body))
    # restore
    if [a.arg for a in restore_fn.args.args] != ["self"]:
        bad("restore() parameters", restore_fn)
    ctxenv = {}
    for k, t in keys.items():
        if isinstance(t, tuple):
            ctxenv[k] = (None, ("dict", {kk: ("(%s c)" % tr.kname(prefix, k, kk), tt) for kk, tt in t[1].items()}))
        else:
            ctxenv[k] = ("(%s c)" % tr.kname(prefix, k), t)
    term = tr.block(restore_fn.body, {"$ctx": ctxenv})
    out.append("Definition %s (c : %s) (s : state) : result state :=\n  finish %s.\n" % (restore_name, recname, term))
    return "\n".join(out)


def generate(repo):
    src = Source(repo)
    tr = Tr(src)
    D, C = src.flagclasses["__diag__"], src.flagclasses["__compat__"]
    o = ["(* GENERATED from pyparsing/util.py, core.py, testing.py by tools/translate/gen_settings.py -- do not edit *)",
         "From Coq Require Import List ZArith NArith Bool.",
         "From PP Require Import Model.Str Model.Settings.",
         "Import ListNotations.", ""]
    flags = tr.allflags
    o.append("(* names accepted by __diag__ / __compat__ ; F_other stands for any other string *)")
    o.append("Inductive flagname := " + " | ".join("F_" + f for f in flags) + " | F_other.")
    o.append("Definition flag_eqb (a b : flagname) : bool :=\n  match a, b with\n" +
             "".join("  | F_%s, F_%s => true\n" % (f, f) for f in flags + ["other"]) + "  | _, _ => false\n  end.")
    o.append("Definition flag_in (a : flagname) (l : list flagname) : bool := existsb (flag_eqb a) l.")
    o.append("Definition flag_key (f : flagname) : str :=\n  match f with\n" +
             "".join("  | F_%s => %s\n" % (f, coq_str(f)) for f in flags) +
             "  | F_other => %s\n  end." % coq_str("no_such_flag"))
    lst = lambda names: "[" + "; ".join("F_" + n for n in names) + "]"
    o.append("Definition diag_all_names : list flagname := %s." % lst(D["all"]))
    o.append("Definition diag_fixed_names : list flagname := %s." % lst(D["fixed"]))
    o.append("Definition diag_warning_names : list flagname := %s." % lst(D["warning"] or []))
    o.append("Definition compat_all_names : list flagname := %s." % lst(C["all"]))
    o.append("Definition compat_fixed_names : list flagname := %s." % lst(C["fixed"]))
    o.append("Definition diagnostics_members : list flagname := %s." % lst(src.diag_members))
    o.append("")
    # state record
    sf = tr.state_fields + [("s_builtins", "list expr_obj"), ("s_users", "list expr_obj")]
    cty = lambda t: COQTYPE.get(t, t)
    o.append("(* every process-wide setting named by C19, plus the expression objects that exist *)")
    o.append("Record state := mkState {\n" + ";\n".join("  %s : %s" % (f, cty(t)) for f, t in sf) + " }.")
    for i, (f, t) in enumerate(sf):
        args = " ".join("v" if j == i else "(%s s)" % g for j, (g, _) in enumerate(sf))
        o.append("Definition set_%s (v : %s) (s : state) : state := mkState %s." % (f, cty(t), args))
    init = dict(src.init)
    for n in D["all"]:
        init["d_" + n] = "true" if D["init"][n] else "false"
    for n in C["all"]:
        init["c_" + n] = "(PVBool %s)" % ("true" if C["init"][n] else "false")
    o.append("(* the values the class bodies assign at import time *)")
    o.append("Definition initial_state (builtins : list expr_obj) : state :=\n  mkState %s builtins []." %
             " ".join(init[f] for f, _ in tr.state_fields))
    o.append("(* what the correspondence harness reads off a state: every field, in declaration order *)")
    o.append("Definition observe (s : state) :=\n  (%s,\n   [%s],\n   [%s],\n   map (fun e => (e_white e, e_copydef e)) (s_builtins s),\n"
             "   map (fun e => (e_white e, e_copydef e)) (s_users s))." % (
                 ", ".join("%s s" % f for _, _, f, _ in GLOBALS),
                 "; ".join("d_%s s" % n for n in D["all"]), "; ".join("c_%s s" % n for n in C["all"])))
    o.append("")
    for cname, info in (("diag", D), ("compat", C)):
        rows = []
        for n in info["all"]:
            f, t = tr.fields[("__%s__" % cname, n)]
            rows.append("  | F_%s => set_%s %s s\n" % (n, f, tr.coerce("v", "bool", t)))
        o.append("(* setattr(__%s__, name, v) *)" % cname)
        o.append("Definition setattr_%s (n : flagname) (v : bool) (s : state) : state :=\n  match n with\n%s  | _ => s\n  end." %
                 (cname, "".join(rows)))
        o.append("Definition getattr_%s (n : flagname) (s : state) : %s :=\n  match n with\n%s  | _ => %s\n  end." % (
            cname, "bool" if cname == "diag" else "pyval",
            "".join("  | F_%s => %s s\n" % (n, tr.fields[("__%s__" % cname, n)][0]) for n in info["all"]),
            "false" if cname == "diag" else "PVBool false"))
    o.append("")
    # __config_flags._set, enable, disable per class
    for cname in ("__diag__", "__compat__"):
        short = cname.strip("_")
        env = {"$cls": cname}
        text, params, defaults = emit_fn(tr, "gen_%s_set" % short, src.set_fn, env, drop_first=True)
        o.append("(* __config_flags._set with cls = %s *)" % cname)
        o.append(text)
        tr.callables[(cname, "_set")] = ("gen_%s_set" % short, params, defaults)
        for nm in ("enable", "disable"):
            lam = src.toggles[nm]
            fake = ast.FunctionDef(name=nm, args=lam.args, body=[ast.Expr(value=lam.body)], decorator_list=[], lineno=0)
            text, params, defaults = emit_fn(tr, "gen_%s_%s" % (short, nm), fake, env, drop_first=True)
            o.append(text)
            tr.callables[(cname, nm)] = ("gen_%s_%s" % (short, nm), params, defaults)
        for mname, m in src.flagclasses[cname]["methods"].items():
            if not any(isinstance(d, ast.Name) and d.id == "classmethod" for d in m.decorator_list):
                bad("%s.%s is not a classmethod" % (cname, mname), m)
            text, params, defaults = emit_fn(tr, "gen_%s_%s" % (short, mname), m, env, drop_first=True)
            o.append(text)
            tr.callables[(cname, mname)] = ("gen_%s_%s" % (short, mname), params, defaults)
    for nm in ("enable_diag", "disable_diag", "enable_all_warnings"):
        text, params, defaults = emit_fn(tr, "gen_" + nm, src.module_fns[nm], {})
        o.append(text)
    # ParserElement / Keyword setters, in dependency order
    for cls, nm in (("ParserElement", "set_default_whitespace_chars"), ("ParserElement", "inline_literals_using"),
                    ("Keyword", "set_default_keyword_chars"), ("ParserElement", "reset_cache"),
                    ("ParserElement", "disable_memoization"), ("ParserElement", "enable_left_recursion"),
                    ("ParserElement", "enable_packrat")):
        text, params, defaults = emit_fn(tr, "gen_" + nm, src.fns[(cls, nm)], {})
        o.append(text)
        tr.callables[(cls, nm)] = ("gen_" + nm, params, defaults)
    # expression objects
    init_fn = src.obj_fns["__init__"]
    body = [st for st in strip_doc(init_fn.body)]
    assigned = [st.targets[0].attr if isinstance(st, ast.Assign) else st.target.attr for st in body
                if isinstance(st, (ast.Assign, ast.AnnAssign))
                and isinstance(st.targets[0] if isinstance(st, ast.Assign) else st.target, ast.Attribute)]
    for a in OBJ_ATTRS:
        if assigned.count(a) != 1:
            bad("ParserElement.__init__ does not assign self.%s exactly once" % a, init_fn)
    o.append("(* ParserElement.__init__ : the two whitespace attributes of a newly created expression *)")
    o.append("Definition gen_new_expr (s : state) : expr_obj :=\n  let self := mkExpr [] false in\n  %s.\n" %
             tr.obj_block(body, {"self": ("self", "expr_obj")}, "self"))
    cp = src.obj_fns["copy"]
    if [a.arg for a in cp.args.args] != ["self"]:
        bad("ParserElement.copy parameters", cp)
    o.append("Definition gen_copy_expr (self : expr_obj) (s : state) : expr_obj :=\n  %s.\n" %
             tr.obj_block(cp.body, {"self": ("self", "expr_obj")}, None))
    sw = src.obj_fns["set_whitespace_chars"]
    if [a.arg for a in sw.args.args] != ["self", "chars", "copy_defaults"]:
        bad("set_whitespace_chars parameters", sw)
    d = sw.args.defaults
    if not (len(d) == 1 and isinstance(d[0], ast.Constant) and d[0].value is False):
        bad("set_whitespace_chars: default of copy_defaults is not False", sw)
    o.append("Definition gen_set_whitespace_chars (chars : str) (copy_defaults : bool) (self : expr_obj) : expr_obj :=\n  %s.\n" %
             tr.obj_block(sw.body, {"self": ("self", "expr_obj"), "chars": ("chars", "str"),
                                    "copy_defaults": ("copy_defaults", "bool")}, None))
    # save / restore of the current source
    o.append("(* reset_pyparsing_context: _save_context as a record (one field per stored key), save, restore *)")
    o.append(translate_ctx(tr, src.ctx_methods["save"], src.ctx_methods["restore"], "k_", "ctx", "mkCtx", "gen_save", "gen_restore"))
    o.append("(* copy(): a new context object holding the same saved values *)")
    o.append("Definition gen_ctx_copy (c : ctx) : ctx := c.\n")
    # the frozen pre-fix text (only for the refutation witnesses)
    old = os.path.join(HERE, "c19_prefix_testing.txt")
    if os.path.exists(old):
        t = ast.parse(open(old).read())
        o.append("(* the same translation applied to the save/restore of the pinned, unrepaired pyparsing 3.2.4\n"
                 "   (frozen copy in tools/translate/c19_prefix_testing.txt) *)")
        o.append(translate_ctx(tr, find_def(t.body, "save"), find_def(t.body, "restore"), "o_", "old_ctx", "mkOldCtx",
                               "old_save", "old_restore"))
    return {"GenSettings.v": "\n".join(o) + "\n"}
