"""GenDiagram.v: facts read off pyparsing/diagram/__init__.py by a fail-closed ast walk.

 * REPEAT_FIX : which repeat test `_to_diagram_element` contains -- the pinned one (`looked_up and looked_up.name is not
   None`, false) or the repaired one of notes/C20-fix.diff (true).  Any other shape is refused.
 * the constants the model hard-wires: ConverterState.index / unnamed_index start values, the start of _bookmark_ids, the
   regular expression, the 'z' prefix and the f-string of _make_bookmark, the "..." literal and the `len(diags) > 1`
   threshold of to_railroad, the two statements of generate_index.  Each is emitted as a definition and pinned by a
   `Fact ... : x = <model constant>` proved by reflexivity, so an edit of one of them breaks the build of the cone of C20.
"""
import ast

OUTPUTS = ["GenDiagram.v"]


class Refuse(Exception):
    pass


def _fn(tree, name, cls=None):
    body = tree.body
    if cls:
        for n in body:
            if isinstance(n, ast.ClassDef) and n.name == cls:
                body = n.body
                break
        else:
            raise Refuse("class %s not found" % cls)
    for n in body:
        if isinstance(n, ast.FunctionDef) and n.name == name:
            return n
    raise Refuse("function %s not found" % name)


def _src(node):
    return ast.unparse(node)


PINNED_TEST = "looked_up and looked_up.name is not None"
FIXED_TEST = "looked_up and (looked_up.name is not None or not looked_up.complete)"
FIXED_BODY0 = "if looked_up.name is None:\n    looked_up.name = f'Unnamed {lookup.generate_unnamed()}'"
COMMON_BODY = ["looked_up.mark_for_extraction(el_id, lookup, name=name_hint)",
               "href = f'#{_make_bookmark(looked_up.name)}'",
               "ret = EditablePartial.from_call(railroad.NonTerminal, text=looked_up.name, href=href)",
               "return ret"]


def repeat_fix(tree):
    fn = _fn(tree, "_to_diagram_element")
    hits = []
    for n in ast.walk(fn):
        if isinstance(n, ast.If) and _src(n.test) == "_worth_extracting(element)":
            hits.append(n)
    if len(hits) != 1:
        raise Refuse("expected exactly one `if _worth_extracting(element):`, found %d" % len(hits))
    blk = hits[0].body
    if len(blk) != 2 or _src(blk[0]) != "looked_up = lookup.get(el_id)" or not isinstance(blk[1], ast.If):
        raise Refuse("unexpected shape of the repeat-detection block")
    test = _src(blk[1].test)
    body = [_src(s) for s in blk[1].body]
    orelse = blk[1].orelse
    if len(orelse) != 1 or not isinstance(orelse[0], ast.If) or _src(orelse[0].test) != "el_id in lookup.diagrams":
        raise Refuse("unexpected elif of the repeat test")
    if test == PINNED_TEST and body == COMMON_BODY:
        return False
    if test == FIXED_TEST and body == [FIXED_BODY0] + COMMON_BODY:
        return True
    raise Refuse("repeat test is neither the pinned nor the repaired one: if %s: %r" % (test, body[:2]))


def _const_assign(fn, target):
    for n in ast.walk(fn):
        if isinstance(n, (ast.Assign, ast.AnnAssign)):
            t = n.targets[0] if isinstance(n, ast.Assign) else n.target
            if _src(t) == target:
                if not isinstance(n.value, ast.Constant) or not isinstance(n.value.value, int):
                    raise Refuse("%s is not an int constant" % target)
                return n.value.value
    raise Refuse("assignment to %s not found" % target)


def generate(repo):
    src = open(repo + "/pyparsing/diagram/__init__.py").read()
    tree = ast.parse(src)
    fix = repeat_fix(tree)
    init = _fn(tree, "__init__", "ConverterState")
    index0 = _const_assign(init, "self.index")
    unnamed0 = _const_assign(init, "self.unnamed_index")
    gi = [_src(s) for s in _fn(tree, "generate_index", "ConverterState").body if not isinstance(s, ast.Expr)]
    if gi != ["self.index += 1", "return self.index"]:
        raise Refuse("generate_index changed: %r" % gi)
    gu = [_src(s) for s in _fn(tree, "generate_unnamed", "ConverterState").body if not isinstance(s, ast.Expr)]
    if gu != ["self.unnamed_index += 1", "return self.unnamed_index"]:
        raise Refuse("generate_unnamed changed: %r" % gu)
    ids = [n for n in tree.body if isinstance(n, ast.Assign) and _src(n.targets[0]) == "_bookmark_ids"]
    if len(ids) != 1 or _src(ids[0].value) != "itertools.count(start=1)":
        raise Refuse("_bookmark_ids is not itertools.count(start=1)")
    mb = [_src(s) for s in _fn(tree, "_make_bookmark").body if not isinstance(s, ast.Expr)]
    want = ["if s in _bookmark_lookup:\n    return _bookmark_lookup[s]",
            "bookmark = re.sub('[^a-zA-Z0-9-]+', '-', s)",
            "if not bookmark[:1].isalpha():\n    bookmark = f'z{bookmark}'",
            "bookmark = bookmark.lower().strip('-')",
            "_bookmark_lookup[s] = bookmark = f'{bookmark}-{next(_bookmark_ids):04d}'",
            "return bookmark"]
    if mb != want:
        raise Refuse("_make_bookmark changed: %r" % [a for a, b in zip(mb, want) if a != b][:1])
    tr = _fn(tree, "to_railroad")
    srcs = [_src(n) for n in ast.walk(tr) if isinstance(n, (ast.If, ast.Return))]
    need = ["len(diags) > 1", "d.name == '...'", "d.name is not None and d.name not in seen",
            "return sorted(resolved, key=lambda diag: diag.index)"]
    tests = [_src(n.test) for n in ast.walk(tr) if isinstance(n, ast.If)] + [_src(n) for n in ast.walk(tr) if isinstance(n, ast.Return)]
    for w in need:
        if w not in tests:
            raise Refuse("to_railroad: `%s` not found" % w)
    ex = [_src(s) for s in _fn(tree, "extract_into_diagram", "ConverterState").body if not isinstance(s, ast.Expr)]
    if len(ex) != 5 or ex[0] != "position = self[el_id]" or ex[-1] != "del self[el_id]" or not ex[1].startswith("if position.parent:"):
        raise Refuse("extract_into_diagram changed shape")
    out = ["(* GENERATED from pyparsing/diagram/__init__.py by tools/translate/gen_diagram.py -- do not edit *)",
           "From Coq Require Import List NArith Arith Bool.",
           "From PP Require Import Model.Str Model.Diagram.",
           "Import ListNotations.", "",
           "(* false: pinned repeat test `%s`; true: the repaired test of notes/C20-fix.diff *)" % PINNED_TEST,
           "Definition REPEAT_FIX : bool := %s." % ("true" if fix else "false"), "",
           "Definition gen_index0 : nat := %d." % index0,
           "Definition gen_unnamed0 : nat := %d." % unnamed0,
           "Definition gen_bookmark_ids0 : nat := 1.",
           "Definition gen_ellipsis : str := [%s]%%N." % "; ".join(str(ord(c)) for c in "..."),
           "",
           "Fact gen_index0_ok : c_index init_state = gen_index0.  Proof. reflexivity. Qed.",
           "Fact gen_unnamed0_ok : c_unnamed init_state = gen_unnamed0.  Proof. reflexivity. Qed.",
           "Fact gen_bookmark_ids0_ok : c_bmnext init_state = gen_bookmark_ids0.  Proof. reflexivity. Qed.",
           "Fact gen_ellipsis_ok : ELLIPSIS = gen_ellipsis.  Proof. reflexivity. Qed.", ""]
    return {"GenDiagram.v": "\n".join(out)}
