#!/bin/bash
# usage: tools/mk.sh Proofs/EqDec.vo ...   (full .vo build of the given targets under the coq lock)
cd "$(dirname "$0")/.." && mkdir -p .work
exec flock .work/coq.lock bash -c 'cd coq && /venv/bin/python -c "import sys; sys.path.insert(0,\"..\"); from tools import vlib; vlib.write_coqproject()" && timeout ${MK_TIMEOUT:-900} make -j8 "$@" 2>&1 | grep -v "^COQDEP\|^make\|abstract-large-number\|applications of Init.Nat" ' _ "$@"
