"""Assemble MANIFEST.json from manifest.d/*.json (one fragment per property) so that properties can be added independently."""
import json, os, sys
V = os.path.dirname(os.path.dirname(os.path.abspath(__file__)))

def main():
    head = json.load(open(os.path.join(V, "manifest.d", "_head.json")))
    checks, na = [], []
    props = [json.loads(l)["id"] for l in open(os.path.join(V, "properties.jsonl"))]
    for pid in props:
        p = os.path.join(V, "manifest.d", pid + ".json")
        if os.path.exists(p):
            frag = json.load(open(p))
            if "not_applicable" in frag:
                na.append({"property_id": pid, "reason": frag["not_applicable"]})
                continue
            c = {"property_id": pid,
                 "quick_cmd": "./check %s --tier quick" % pid,
                 "thorough_cmd": "./check %s --tier thorough" % pid,
                 "evidence_file": "/verif/evidence/%s.json" % pid,
                 "replay_cmd_template": "./check %s --replay {path}" % pid,
                 "engine": "coq-model+correspondence"}
            c.update(frag)
            checks.append(c)
        else:
            na.append({"property_id": pid, "reason": "not yet claimed: the check for this property is still being built (see DESIGN.md section 8)"})
    head["checks"] = checks
    head["not_applicable"] = na
    with open(os.path.join(V, "MANIFEST.json"), "w") as f:
        json.dump(head, f, indent=1)
        f.write("\n")

if __name__ == "__main__":
    main()
