"""setup_cmd: regenerate Gen/*.v from /repo, build every .vo (full build), assemble MANIFEST.json."""
import os, sys
sys.path.insert(0, os.path.dirname(os.path.dirname(os.path.abspath(__file__))))
from tools import vlib
from tools.translate import run as trun

def main():
    os.makedirs(vlib.WORK, exist_ok=True)
    errs = trun.run(vlib.REPO, vlib.VERIF)
    for k, v in errs.items():
        print("translator refused:", k, v)
    with vlib.Lock("coq"):
        vlib.write_coqproject()
        rc, out = vlib.sh("make -k -j16", cwd=vlib.COQ, timeout=3000)
    print(out[-3000:])
    if os.path.exists(os.path.join(vlib.VERIF, "ocaml", "build.sh")):
        rc2, out2 = vlib.sh("bash ocaml/build.sh", cwd=vlib.VERIF, timeout=900)
        print(out2[-2000:])
        rc = rc or rc2
    import tools.mkmanifest as mk
    mk.main()
    if rc != 0:
        print("NOTE: some files failed to build; the checks whose cone contains them will report it")
    return 0

if __name__ == "__main__":
    sys.exit(main())
