(* C16 — infix_notation honours precedence, associativity and arity.  Statements only.

   Model/Infix.v: `infix_elab dw ids base table lpar rpar : env * expr` is what `helpers.infix_notation` builds (the
   correspondence check compares it node by node, flag by flag, with the dumped real object graph for every generated
   table); `infix_ref` is the documented reading: the same stratified grammar WITHOUT the `_FB` look-aheads
   (`Group(last + (op + last)[1, ...]) | last`, prefix `Group(op + this) | last`, ...): tighter levels inside looser ones,
   a left-associative level is ONE flat group, a right-associative level recurses into itself on the right, parentheses
   re-enter the whole grammar.  `pegR G s e loc r` : the reference PEG reading (Model/Peg.v) of e at loc terminates with r
   (r = POk end tokens | PFail | PDiv), for some fuel.  `mk_level la ...` is one pass of the loop of infix_notation
   (la = true: with look-ahead, la = false: reference); its second component is the body `(_FB(p) + Group(q)) | last`
   resp. `Group(q') | last` given to `thisExpr <<=`.

   Side conditions (decidable; they hold for Literal / Keyword / Word / MatchFirst-of-Literal operators):
   `is_plain_and op = false` (an operator that is itself an unnamed action-free And would be spliced by streamline),
   `absorb_okb dw op = true` (skipping the whitespace that And(op + ..) skips does not change what op matches),
   `and_items last = [last]` (lastExpr is never a bare And: it is a MatchFirst or a Forward). *)
From Coq Require Import List ZArith NArith Bool.
From PP Require Import Model.Str Model.Results Model.Prog Model.Core Model.Peg Model.Infix Model.Climb.
From PP Require Import Proofs.PegEquiv Proofs.EqDec Proofs.InfixProofs Proofs.ClimbProofs Gen.GenInfix.
Import ListNotations.

(* ---- tie to the source: the (look-ahead sequence, grouped sequence) pair of each of the eight arity x associativity
        branches, re-read from helpers.infix_notation on every run (Gen/GenInfix.v), is the pair that `mk_level` builds
        (computed by running mk_level on marker elements); the generator also insists on finding, verbatim, the
        statements that chain the levels (thisExpr <<= (matchExpr | lastExpr); lastExpr = thisExpr; ret <<= lastExpr;
        the parenthesis rule; _FB.parseImpl) ---- *)
Theorem C16_source_forms : gen_infix_forms = model_forms /\ gen_infix_chain_ok = true.
Proof. vm_compute. split; reflexivity. Qed.

(* ---- the six arity x associativity cases: for ALL inputs, locations, environments the look-ahead form equals the
        documented form of that level, whatever `last` means ---- *)
Theorem C16_level_equiv_1_left : forall s dw ids k idx last lsk,
  and_items last = [last] -> forall op pa, is_plain_and op = false ->
  forall G loc r, pegR G s (snd (mk_level true dw ids k idx last lsk (LPostfix op pa))) loc r <->
                  pegR G s (snd (mk_level false dw ids k idx last lsk (LPostfix op pa))) loc r.
Proof. exact case_1_left. Qed.

(* prefix operator: `_FB(op + this) + Group(Opt(op) + this)` equals `Group(op + this)`: the look-ahead is what makes the
   Opt always match, i.e. what keeps `Opt(op) + this` from re-entering `this` without consuming *)
Theorem C16_level_equiv_1_right : forall s dw ids k idx last lsk,
  and_items last = [last] -> forall op pa, is_plain_and op = false -> is_white_tok op = false ->
  forall G loc r, pegR G s (snd (mk_level true dw ids k idx last lsk (LPrefix op pa))) loc r <->
                  pegR G s (snd (mk_level false dw ids k idx last lsk (LPrefix op pa))) loc r.
Proof. exact case_1_right. Qed.

Theorem C16_level_equiv_2_left : forall s dw ids k idx last lsk,
  and_items last = [last] -> forall op pa, is_plain_and op = false -> absorb_okb dw op = true ->
  forall G loc r, pegR G s (snd (mk_level true dw ids k idx last lsk (LBinL op pa))) loc r <->
                  pegR G s (snd (mk_level false dw ids k idx last lsk (LBinL op pa))) loc r.
Proof. exact case_2_left. Qed.

Theorem C16_level_equiv_2_right : forall s dw ids k idx last lsk,
  and_items last = [last] -> forall op pa, is_plain_and op = false -> absorb_okb dw op = true ->
  forall G loc r, pegR G s (snd (mk_level true dw ids k idx last lsk (LBinR op pa))) loc r <->
                  pegR G s (snd (mk_level false dw ids k idx last lsk (LBinR op pa))) loc r.
Proof. exact case_2_right. Qed.

Theorem C16_level_equiv_3_left : forall s dw ids k idx last lsk,
  and_items last = [last] -> forall o1 o2 pa, is_plain_and o1 = false -> is_plain_and o2 = false -> absorb_okb dw o1 = true ->
  forall G loc r, pegR G s (snd (mk_level true dw ids k idx last lsk (LTernL o1 o2 pa))) loc r <->
                  pegR G s (snd (mk_level false dw ids k idx last lsk (LTernL o1 o2 pa))) loc r.
Proof. exact case_3_left. Qed.

Theorem C16_level_equiv_3_right : forall s dw ids k idx last lsk,
  and_items last = [last] -> forall o1 o2 pa, is_plain_and o1 = false -> is_plain_and o2 = false ->
  forall G loc r, pegR G s (snd (mk_level true dw ids k idx last lsk (LTernR o1 o2 pa))) loc r <->
                  pegR G s (snd (mk_level false dw ids k idx last lsk (LTernR o1 o2 pa))) loc r.
Proof. exact case_3_right. Qed.

(* operator None (juxtaposition): lastExpr[2, ...] and lastExpr + thisExpr[1, ...] *)
Theorem C16_level_equiv_2_left_juxt : forall s dw ids k idx last lsk,
  and_items last = [last] -> forall pa,
  forall G loc r, pegR G s (snd (mk_level true dw ids k idx last lsk (LJuxL pa))) loc r <->
                  pegR G s (snd (mk_level false dw ids k idx last lsk (LJuxL pa))) loc r.
Proof. exact case_2_left_juxt. Qed.

Theorem C16_level_equiv_2_right_juxt : forall s dw ids k idx last lsk,
  and_items last = [last] -> forall pa, lsk = true ->
  forall G loc r, pegR G s (snd (mk_level true dw ids k idx last lsk (LJuxR pa))) loc r <->
                  pegR G s (snd (mk_level false dw ids k idx last lsk (LJuxR pa))) loc r.
Proof. exact case_2_right_juxt. Qed.

(* the reading is a function: at most one terminating result *)
Theorem C16_reading_deterministic : forall G s e loc r1 r2, pegR G s e loc r1 -> pegR G s e loc r2 -> r1 = r2.
Proof. exact pegR_fun. Qed.

(* ---- every table (any number of levels, any mix of the eight forms), every base / parentheses / whitespace default /
        object identities, every input, every location, every expression evaluated in the two environments (in particular
        the root): what infix_notation builds reads exactly as the reference grammar ---- *)
Theorem C16_table_equiv : forall s dw ids base table lpar rpar,
  table_okb dw (start_skip base lpar) table = true ->
  snd (infix_elab dw ids base table lpar rpar) = snd (infix_ref dw ids base table lpar rpar) /\
  forall e loc r, pegR (fst (infix_elab dw ids base table lpar rpar)) s e loc r <->
                  pegR (fst (infix_ref dw ids base table lpar rpar)) s e loc r.
Proof. exact table_equiv_b. Qed.

(* ---- transfer to the parser model (`_parse` of Model/Core.v, through C01's peg_equiv) and to packrat (C02), for
        generated grammars in the proved class.  `_partial`: membership of the generated grammar in `in_class` is a
        hypothesis here (decidable; evaluated for every table by the correspondence check, see C16_instance), it is not
        proved for all tables. ---- *)
Theorem C16_table_parse_partial : forall s dw ids base table lpar rpar,
  table_okb dw (start_skip base lpar) table = true ->
  env_in_class (fst (infix_elab dw ids base table lpar rpar)) = true ->
  in_class (fst (infix_elab dw ids base table lpar rpar)) (snd (infix_elab dw ids base table lpar rpar)) = true ->
  forall fuel loc d r,
  proj (parse (step (fst (infix_elab dw ids base table lpar rpar))) fuel
          (mkargs (snd (infix_elab dw ids base table lpar rpar)) s loc d true)) = Some r ->
  r <> POut ->
  pegR (fst (infix_ref dw ids base table lpar rpar)) s (snd (infix_ref dw ids base table lpar rpar)) loc r.
Proof. exact table_parse_sound. Qed.

Theorem C16_table_parse_complete_partial : forall s dw ids base table lpar rpar,
  table_okb dw (start_skip base lpar) table = true ->
  env_in_class (fst (infix_elab dw ids base table lpar rpar)) = true ->
  in_class (fst (infix_elab dw ids base table lpar rpar)) (snd (infix_elab dw ids base table lpar rpar)) = true ->
  forall loc r,
  pegR (fst (infix_ref dw ids base table lpar rpar)) s (snd (infix_ref dw ids base table lpar rpar)) loc r ->
  exists fuel, forall d,
  proj (parse (step (fst (infix_elab dw ids base table lpar rpar))) fuel
          (mkargs (snd (infix_elab dw ids base table lpar rpar)) s loc d true)) = Some r.
Proof. exact table_parse_complete. Qed.

Theorem C16_table_packrat_partial : forall s dw ids base table lpar rpar,
  table_okb dw (start_skip base lpar) table = true ->
  env_in_class (fst (infix_elab dw ids base table lpar rpar)) = true ->
  in_class (fst (infix_elab dw ids base table lpar rpar)) (snd (infix_elab dw ids base table lpar rpar)) = true ->
  forall (size : option nat) fuel loc d o r,
  snd (parsec (step (fst (infix_elab dw ids base table lpar rpar))) args_eqb size fuel []
         (mkargs (snd (infix_elab dw ids base table lpar rpar)) s loc d true)) = Some o ->
  proj (Some o) = Some r ->
  pegR (fst (infix_ref dw ids base table lpar rpar)) s (snd (infix_ref dw ids base table lpar rpar)) loc r.
Proof. exact table_packrat_sound. Qed.

(* ------------------------------------------------------------------------------------------------------------- *)
(* non-vacuity: four-level arithmetic  [('-',1,RIGHT), ('**',2,RIGHT), ('*',2,LEFT), ('+',2,LEFT)] over Word(nums)   *)
(* ------------------------------------------------------------------------------------------------------------- *)
Definition dws : list char := [9; 10; 13; 32]%N.
Definition ua (id : nat) (hm : bool) : attrs :=
  {| nid := id; rsname := None; modalr := true; aslist := false; skipws := true; white := dws; callpre := true;
     mayidx := false; custom := false; hasmsg := hm; acts := []; calltry := false; slen := 3 |}.
Definition digits : list char := [48;49;50;51;52;53;54;55;56;57]%N.
Definition ex_base : expr := Tok (ua 100 true) [] (KWord digits digits 1 None false false true).
Definition lit (id : nat) (m : str) : expr := Tok (ua id true) [] (KLit m).
Definition ex_lpar := Enh (ua 101 false) [] ESuppress (lit 102 [40%N]).
Definition ex_rpar := Enh (ua 103 false) [] ESuppress (lit 104 [41%N]).
Definition ex_table : list level :=
  [LPrefix (lit 110 [45%N]) []; LBinR (lit 111 [42;42]%N) []; LBinL (lit 112 [42%N]) []; LBinL (lit 113 [43%N]) []].
Definition ex_ids (c : nat) : nat * nat := (200 + c, 5).
Definition ex_g := infix_elab dws ex_ids ex_base ex_table ex_lpar ex_rpar.
Definition ex_r := infix_ref dws ex_ids ex_base ex_table ex_lpar ex_rpar.
Definition ex_itable : itable := [(IPrefix, [45%N]); (IBinR, [42;42]%N); (IBinL, [42%N]); (IBinL, [43%N])].
Definition n_ (c : N) := INum [c].

(* "-2 ** 2 * 3 + 4 + (1 + 1) * 2" *)
Definition ex_s : str := [45;50;32;42;42;32;50;32;42;32;51;32;43;32;52;32;43;32;40;49;32;43;32;49;41;32;42;32;50]%N.
Definition ex_toks : list itok :=
  [IOp [45%N]; n_ 50; IOp [42;42]%N; n_ 50; IOp [42%N]; n_ 51; IOp [43%N]; n_ 52; IOp [43%N]; ILpar; n_ 49; IOp [43%N]; n_ 49;
   IRpar; IOp [42%N]; n_ 50]%N.
Definition ex_tree : tok :=
  TList [TList [TList [TList [TStr [45%N]; TStr [50%N]]; TStr [42%N; 42%N]; TStr [50%N]]; TStr [42%N]; TStr [51%N]];
         TStr [43%N]; TStr [52%N]; TStr [43%N];
         TList [TList [TStr [49%N]; TStr [43%N]; TStr [49%N]]; TStr [42%N]; TStr [50%N]]].

(* the table meets every hypothesis of the theorems above; generated and reference grammar read the input as the same
   nested tree; the parser model agrees; the tree is the one precedence climbing over the tokens gives; its value is 20 *)
Example C16_instance :
  table_okb dws (start_skip ex_base ex_lpar) ex_table = true /\
  env_in_class (fst ex_g) = true /\ in_class (fst ex_g) (snd ex_g) = true /\
  peg (fst ex_g) ex_s 60 (snd ex_g) 0 = POk 29 [ex_tree] /\
  peg (fst ex_r) ex_s 60 (snd ex_r) 0 = POk 29 [ex_tree] /\
  proj (parse (step (fst ex_g)) 60 (mkargs (snd ex_g) ex_s 0 true true)) = Some (POk 29 [ex_tree]) /\
  Infix.climb_all ex_itable ex_toks = Some ex_tree /\
  eval_tree 20 ex_tree = Some 20%Z.
Proof. vm_compute. repeat split. Qed.

(* shape: a left-associative chain is ONE flat group  "1 + 2+3"  ->  [[1, +, 2, +, 3]] *)
Example C16_left_flat_instance :
  peg (fst ex_g) [49;32;43;32;50;43;51]%N 60 (snd ex_g) 0 =
  POk 7 [TList [TStr [49%N]; TStr [43%N]; TStr [50%N]; TStr [43%N]; TStr [51%N]]].
Proof. vm_compute. reflexivity. Qed.

(* shape: a right-associative chain nests to the right  "2**3 ** 2"  ->  [[2, **, [3, **, 2]]] *)
Example C16_right_nested_instance :
  peg (fst ex_g) [50;42;42;51;32;42;42;32;50]%N 60 (snd ex_g) 0 =
  POk 9 [TList [TStr [50%N]; TStr [42%N; 42%N]; TList [TStr [51%N]; TStr [42%N; 42%N]; TStr [50%N]]]].
Proof. vm_compute. reflexivity. Qed.

(* shape: parentheses override precedence  "(1+2)*3"  ->  [[[1, +, 2], *, 3]] *)
Example C16_parens_override_instance :
  peg (fst ex_g) [40;49;43;50;41;42;51]%N 60 (snd ex_g) 0 =
  POk 7 [TList [TList [TStr [49%N]; TStr [43%N]; TStr [50%N]]; TStr [42%N]; TStr [51%N]]].
Proof. vm_compute. reflexivity. Qed.

(* ------------------------------------------------------------------------------------------------------------- *)
(* REFUTED for overlapping operator spellings: the generated grammar is scannerless and its repetitions are greedy.     *)
(* Table [('!', 1, LEFT), ('!=', 2, LEFT)], input "1 != 2": the tokens 1 != 2 have exactly one reading, [1, '!=', 2]     *)
(* (precedence climbing over the tokens), but the postfix level eats the '!' of '!=': the grammar (which is in the      *)
(* proved class and meets all side conditions) matches only "1 !" = [[1, '!']] and stops at 3, so parse_all fails.      *)
(* ------------------------------------------------------------------------------------------------------------- *)
Definition bad_table : list level := [LPostfix (lit 110 [33%N]) []; LBinL (lit 111 [33;61]%N) []].
Theorem C16_climb_overlap_refuted :
  exists (table : list level) (itab : itable) (s : str) (ts : list itok),
    let g := infix_elab dws ex_ids ex_base table ex_lpar ex_rpar in
    table_okb dws (start_skip ex_base ex_lpar) table = true /\ env_in_class (fst g) = true /\ in_class (fst g) (snd g) = true /\
    Infix.climb_all itab ts = Some (TList [TStr [49%N]; TStr [33%N; 61%N]; TStr [50%N]]) /\
    peg (fst g) s 60 (snd g) 0 = POk 3 [TList [TStr [49%N]; TStr [33%N]]] /\ length s = 6.
Proof.
  exists bad_table, [(IPostfix, [33%N]); (IBinL, [33;61]%N)], [49;32;33;61;32;50]%N, [n_ 49; IOp [33;61]%N; n_ 50].
  vm_compute. repeat split.
Qed.

(* ------------------------------------------------------------------------------------------------------------- *)
(* PRECEDENCE CLIMBING.  Model/Climb.v: `Climb.climb ctab ts` is precedence climbing over an already TOKENIZED input     *)
(* (tokens TOperand x | TOp o; the table `ctab` lists, per level, the kind and the operator spellings; the precedence     *)
(* parameter is the list of levels still usable: `prec + 1` for the operands of a left-associative operator, `prec` on   *)
(* the right of a right-associative one); result = (tree in pyparsing's convention, remaining tokens).  `render ts` is    *)
(* the input string (tokens joined by single spaces).  `ctable_of dw table = Some ctab` reads the element table as a      *)
(* token table (operators: Literal or MatchFirst of Literals; levels: unary prefix / postfix, binary left / right,        *)
(* juxtaposition right, TERNARY left / right - two operator positions `a ? b : c`, both spellings lists enter             *)
(* `no_overlapb` / `token_okb` through `level_ops`); `base_chars dw base = Some cs`: the operand is Word(cs); `par_spelling`: a Literal or *)
(* Suppress(Literal) parenthesis.  `no_overlapb dw cs lp ctab`: the space is a white character, no operand character is;  *)
(* every spelling is non-empty, white-free and does not start with an operand character; the opening parenthesis is not  *)
(* a prefix of an operator; NO OPERATOR SPELLING IS A PROPER PREFIX OF ANOTHER (the F-16 family).                         *)
(* `_partial`: LJuxL is not covered (ctable_of = None; the end position of C16_climb_partial is false for it, see         *)
(* C16_climb_juxl_end_position_computed); Keyword operators are not covered; the tokens contain no parentheses.           *)
(* ------------------------------------------------------------------------------------------------------------- *)
Theorem C16_climb_partial : forall dw ids base table lpar rpar cs ctab lp ts,
  base_chars dw base = Some cs -> ctable_of dw table = Some ctab -> par_spelling dw lpar = Some lp ->
  not_plain_and rpar = true -> no_overlapb dw cs lp ctab = true -> forallb (token_okb cs ctab) ts = true ->
  let G := fst (infix_ref dw ids base table lpar rpar) in
  let root := snd (infix_ref dw ids base table lpar rpar) in
  match Climb.climb ctab ts with
  | Some (t, r) => pegR G (render ts) root 0 (POk (length (render (firstn (length ts - length r) ts))) [t])
  | None => pegR G (render ts) root 0 PFail
  end.
Proof. exact climb_partial. Qed.

(* the whole input is read, with tree t, iff climbing uses every token and builds t *)
Theorem C16_climb_all_partial : forall dw ids base table lpar rpar cs ctab lp ts,
  base_chars dw base = Some cs -> ctable_of dw table = Some ctab -> par_spelling dw lpar = Some lp ->
  not_plain_and rpar = true -> no_overlapb dw cs lp ctab = true -> forallb (token_okb cs ctab) ts = true ->
  forall t, pegR (fst (infix_ref dw ids base table lpar rpar)) (render ts) (snd (infix_ref dw ids base table lpar rpar)) 0
                 (POk (length (render ts)) [t]) <->
            Climb.climb_all ctab ts = Some t.
Proof. exact climb_all_partial. Qed.

(* the same for the grammar that infix_notation BUILDS (through C16_table_equiv) *)
Theorem C16_climb_elab_partial : forall dw ids base table lpar rpar cs ctab lp ts,
  table_okb dw (start_skip base lpar) table = true ->
  base_chars dw base = Some cs -> ctable_of dw table = Some ctab -> par_spelling dw lpar = Some lp ->
  not_plain_and rpar = true -> no_overlapb dw cs lp ctab = true -> forallb (token_okb cs ctab) ts = true ->
  let G := fst (infix_elab dw ids base table lpar rpar) in
  let root := snd (infix_elab dw ids base table lpar rpar) in
  match Climb.climb ctab ts with
  | Some (t, r) => pegR G (render ts) root 0 (POk (length (render (firstn (length ts - length r) ts))) [t])
  | None => pegR G (render ts) root 0 PFail
  end.
Proof. exact climb_partial_elab. Qed.

(* the binary-only statement asked for first (a special case: every level binary) *)
Definition binary_level (lv : level) : bool := match lv with LBinL _ _ | LBinR _ _ => true | _ => false end.
Theorem C16_climb_binary_partial : forall dw ids base table lpar rpar cs ctab lp ts,
  forallb binary_level table = true ->
  base_chars dw base = Some cs -> ctable_of dw table = Some ctab -> par_spelling dw lpar = Some lp ->
  not_plain_and rpar = true -> no_overlapb dw cs lp ctab = true -> forallb (token_okb cs ctab) ts = true ->
  match Climb.climb ctab ts with
  | Some (t, r) => pegR (fst (infix_ref dw ids base table lpar rpar)) (render ts) (snd (infix_ref dw ids base table lpar rpar)) 0
                        (POk (length (render (firstn (length ts - length r) ts))) [t])
  | None => pegR (fst (infix_ref dw ids base table lpar rpar)) (render ts) (snd (infix_ref dw ids base table lpar rpar)) 0 PFail
  end.
Proof. exact (fun dw ids base table lpar rpar cs ctab lp ts _ => climb_partial dw ids base table lpar rpar cs ctab lp ts). Qed.

(* the fuel of `climb` suffices: it never answers None for lack of fuel *)
Theorem C16_climb_total : forall f lv ts, length lv + length ts < f -> climb_f f lv ts <> COut.
Proof. exact climb_total. Qed.

(* ---- instance THROUGH the theorem: 4-level arithmetic, `^` right, unary `-`, `* /` left, `+ -` left, on
        "1 + 2 * - 3 ^ 2 ^ 2 - 4".  (With the spelling `**` for the power operator the table is OUTSIDE no_overlapb: `*` is
        a proper prefix of `**`; that table is only checked by computation below.) ---- *)
Definition ma (id : nat) : attrs :=
  {| nid := id; rsname := None; modalr := true; aslist := false; skipws := true; white := dws; callpre := false;
     mayidx := true; custom := false; hasmsg := true; acts := []; calltry := false; slen := 3 |}.
Definition mfop (id : nat) (es : list expr) : expr := Nary (ma id) [] NMatchFirst es.
Definition ar_table (pow : str) : list level :=
  [LBinR (lit 110 pow) []; LPrefix (lit 111 [45%N]) [];
   LBinL (mfop 112 [lit 113 [42%N]; lit 114 [47%N]]) []; LBinL (mfop 115 [lit 116 [43%N]; lit 117 [45%N]]) []].
Definition ar_ctab (pow : str) : ctable := [CBinR [pow]; CPrefix [[45%N]]; CBinL [[42%N]; [47%N]]; CBinL [[43%N]; [45%N]]].
Definition d_ (c : N) := TOperand [c].
Definition ar_toks (pow : str) : list token :=
  [d_ 49; TOp [43%N]; d_ 50; TOp [42%N]; TOp [45%N]; d_ 51; TOp pow; d_ 50; TOp pow; d_ 50; TOp [45%N]; d_ 52]%N.
Definition ar_tree (pow : str) : tok :=
  TList [TStr [49%N]; TStr [43%N];
         TList [TStr [50%N]; TStr [42%N];
                TList [TStr [45%N]; TList [TStr [51%N]; TStr pow; TList [TStr [50%N]; TStr pow; TStr [50%N]]]]];
         TStr [45%N]; TStr [52%N]].
Definition caret : str := [94%N].
Definition starstar : str := [42%N; 42%N].

Example C16_climb_arith_hyps :
  table_okb dws (start_skip ex_base ex_lpar) (ar_table caret) = true /\
  base_chars dws ex_base = Some digits /\ ctable_of dws (ar_table caret) = Some (ar_ctab caret) /\
  par_spelling dws ex_lpar = Some [40%N] /\ not_plain_and ex_rpar = true /\
  no_overlapb dws digits [40%N] (ar_ctab caret) = true /\ forallb (token_okb digits (ar_ctab caret)) (ar_toks caret) = true /\
  Climb.climb_all (ar_ctab caret) (ar_toks caret) = Some (ar_tree caret) /\
  Climb.climb (ar_ctab caret) (ar_toks caret) = Some (ar_tree caret, []).
Proof. vm_compute. repeat split. Qed.

(* reference grammar, by the theorem *)
Example C16_climb_arith_ref :
  pegR (fst (infix_ref dws ex_ids ex_base (ar_table caret) ex_lpar ex_rpar)) (render (ar_toks caret))
       (snd (infix_ref dws ex_ids ex_base (ar_table caret) ex_lpar ex_rpar)) 0
       (POk (length (render (ar_toks caret))) [ar_tree caret]).
Proof.
  destruct C16_climb_arith_hyps as (_ & Hb & Ht & Hp & Hr & Hno & Htk & Hall & _).
  exact (proj2 (C16_climb_all_partial dws ex_ids ex_base (ar_table caret) ex_lpar ex_rpar digits (ar_ctab caret) [40%N]
                  (ar_toks caret) Hb Ht Hp Hr Hno Htk (ar_tree caret)) Hall).
Qed.

(* the grammar infix_notation builds, by the theorem composed with C16_table_equiv *)
Example C16_climb_arith_elab :
  pegR (fst (infix_elab dws ex_ids ex_base (ar_table caret) ex_lpar ex_rpar)) (render (ar_toks caret))
       (snd (infix_elab dws ex_ids ex_base (ar_table caret) ex_lpar ex_rpar)) 0
       (POk (length (render (ar_toks caret))) [ar_tree caret]).
Proof.
  destruct C16_climb_arith_hyps as (Hok & Hb & Ht & Hp & Hr & Hno & Htk & _ & Hc).
  pose proof (C16_climb_elab_partial dws ex_ids ex_base (ar_table caret) ex_lpar ex_rpar digits (ar_ctab caret) [40%N]
                (ar_toks caret) Hok Hb Ht Hp Hr Hno Htk) as H.
  cbv zeta in H. rewrite Hc in H. exact H.
Qed.

(* `**` instead of `^`: outside the hypothesis (`*` is a proper prefix of `**`), agreement on this input BY COMPUTATION only *)
Example C16_climb_arith_starstar_computed :
  no_overlapb dws digits [40%N] (ar_ctab starstar) = false /\
  Climb.climb_all (ar_ctab starstar) (ar_toks starstar) = Some (ar_tree starstar) /\
  peg (fst (infix_ref dws ex_ids ex_base (ar_table starstar) ex_lpar ex_rpar)) (render (ar_toks starstar)) 60
      (snd (infix_ref dws ex_ids ex_base (ar_table starstar) ex_lpar ex_rpar)) 0
    = POk (length (render (ar_toks starstar))) [ar_tree starstar].
Proof. vm_compute. repeat split. Qed.

(* ---- instances THROUGH the theorem with TERNARY levels.  `? :` right-associative listed ABOVE (tighter than) a binary `+`,
        on "1 ? 2 : 3 ? 4 : 5 + 6": the conditional nests to the right and is the left operand of `+`
        [[1, ?, 2, :, [3, ?, 4, :, 5]], +, 6];  the same operators in the C order (`+` tighter): [1, ?, 2, :, [3, ?, 4, :, [5, +, 6]]];
        `? :` LEFT-associative above `+`: one flat group [[1, ?, 2, :, 3, ?, 4, :, 5], +, 6]. ---- *)
Definition q_ : str := [63%N].      (* ? *)
Definition c_ : str := [58%N].      (* : *)
Definition p_ : str := [43%N].      (* + *)
Definition tn_toks : list token :=
  [d_ 49; TOp q_; d_ 50; TOp c_; d_ 51; TOp q_; d_ 52; TOp c_; d_ 53; TOp p_; d_ 54]%N.
Definition s_ (c : N) : tok := TStr [c].
Definition tr_table : list level := [LTernR (lit 110 q_) (lit 111 c_) []; LBinL (lit 112 p_) []].
Definition tr_ctab : ctable := [CTernR [q_] [c_]; CBinL [p_]].
Definition tr_tree : tok :=
  TList [TList [s_ 49; TStr q_; s_ 50; TStr c_; TList [s_ 51; TStr q_; s_ 52; TStr c_; s_ 53]]; TStr p_; s_ 54]%N.
Definition tc_table : list level := [LBinL (lit 112 p_) []; LTernR (lit 110 q_) (lit 111 c_) []].
Definition tc_ctab : ctable := [CBinL [p_]; CTernR [q_] [c_]].
Definition tc_tree : tok :=
  TList [s_ 49; TStr q_; s_ 50; TStr c_; TList [s_ 51; TStr q_; s_ 52; TStr c_; TList [s_ 53; TStr p_; s_ 54]]]%N.
Definition tl_table : list level := [LTernL (lit 110 q_) (lit 111 c_) []; LBinL (lit 112 p_) []].
Definition tl_ctab : ctable := [CTernL [q_] [c_]; CBinL [p_]].
Definition tl_tree : tok :=
  TList [TList [s_ 49; TStr q_; s_ 50; TStr c_; s_ 51; TStr q_; s_ 52; TStr c_; s_ 53]; TStr p_; s_ 54]%N.

Definition tern_hyps (table : list level) (ctab : ctable) (tree : tok) : Prop :=
  table_okb dws (start_skip ex_base ex_lpar) table = true /\
  base_chars dws ex_base = Some digits /\ ctable_of dws table = Some ctab /\
  par_spelling dws ex_lpar = Some [40%N] /\ not_plain_and ex_rpar = true /\
  no_overlapb dws digits [40%N] ctab = true /\ forallb (token_okb digits ctab) tn_toks = true /\
  Climb.climb_all ctab tn_toks = Some tree /\
  Climb.climb ctab tn_toks = Some (tree, []).

Example C16_climb_ternr_hyps :
  render tn_toks = [49;32;63;32;50;32;58;32;51;32;63;32;52;32;58;32;53;32;43;32;54]%N /\
  tern_hyps tr_table tr_ctab tr_tree.
Proof. vm_compute. repeat split. Qed.
Example C16_climb_ternr_c_order_hyps : tern_hyps tc_table tc_ctab tc_tree.
Proof. vm_compute. repeat split. Qed.
Example C16_climb_ternl_hyps : tern_hyps tl_table tl_ctab tl_tree.
Proof. vm_compute. repeat split. Qed.

(* reference grammar, by the theorem *)
Example C16_climb_ternr_ref :
  pegR (fst (infix_ref dws ex_ids ex_base tr_table ex_lpar ex_rpar)) (render tn_toks)
       (snd (infix_ref dws ex_ids ex_base tr_table ex_lpar ex_rpar)) 0 (POk (length (render tn_toks)) [tr_tree]).
Proof.
  destruct C16_climb_ternr_hyps as (_ & _ & Hb & Ht & Hp & Hr & Hno & Htk & Hall & _).
  exact (proj2 (C16_climb_all_partial dws ex_ids ex_base tr_table ex_lpar ex_rpar digits tr_ctab [40%N]
                  tn_toks Hb Ht Hp Hr Hno Htk tr_tree) Hall).
Qed.

(* the grammar infix_notation builds, by the theorem composed with C16_table_equiv *)
Example C16_climb_ternr_elab :
  pegR (fst (infix_elab dws ex_ids ex_base tr_table ex_lpar ex_rpar)) (render tn_toks)
       (snd (infix_elab dws ex_ids ex_base tr_table ex_lpar ex_rpar)) 0 (POk (length (render tn_toks)) [tr_tree]).
Proof.
  destruct C16_climb_ternr_hyps as (_ & Hok & Hb & Ht & Hp & Hr & Hno & Htk & _ & Hc).
  pose proof (C16_climb_elab_partial dws ex_ids ex_base tr_table ex_lpar ex_rpar digits tr_ctab [40%N]
                tn_toks Hok Hb Ht Hp Hr Hno Htk) as H.
  cbv zeta in H. rewrite Hc in H. exact H.
Qed.

Example C16_climb_ternr_c_order_elab :
  pegR (fst (infix_elab dws ex_ids ex_base tc_table ex_lpar ex_rpar)) (render tn_toks)
       (snd (infix_elab dws ex_ids ex_base tc_table ex_lpar ex_rpar)) 0 (POk (length (render tn_toks)) [tc_tree]).
Proof.
  destruct C16_climb_ternr_c_order_hyps as (Hok & Hb & Ht & Hp & Hr & Hno & Htk & _ & Hc).
  pose proof (C16_climb_elab_partial dws ex_ids ex_base tc_table ex_lpar ex_rpar digits tc_ctab [40%N]
                tn_toks Hok Hb Ht Hp Hr Hno Htk) as H.
  cbv zeta in H. rewrite Hc in H. exact H.
Qed.

Example C16_climb_ternl_elab :
  pegR (fst (infix_elab dws ex_ids ex_base tl_table ex_lpar ex_rpar)) (render tn_toks)
       (snd (infix_elab dws ex_ids ex_base tl_table ex_lpar ex_rpar)) 0 (POk (length (render tn_toks)) [tl_tree]).
Proof.
  destruct C16_climb_ternl_hyps as (Hok & Hb & Ht & Hp & Hr & Hno & Htk & _ & Hc).
  pose proof (C16_climb_elab_partial dws ex_ids ex_base tl_table ex_lpar ex_rpar digits tl_ctab [40%N]
                tn_toks Hok Hb Ht Hp Hr Hno Htk) as H.
  cbv zeta in H. rewrite Hc in H. exact H.
Qed.

(* LJuxL stays outside `ctable_of`, necessarily for the statement as it is: `Group(last + last + last[...])` ends with a
   ZeroOrMore(last), which, when it matches nothing, stops AFTER the whitespace it skipped as soon as `last` is a Forward
   (callPreparse is copied from it; for the tightest level `last` is the operand MatchFirst and nothing is skipped).
   Table [('!', 1, LEFT), (None, 2, LEFT), ('+', 2, LEFT)] on the tokens 1 2 + ("1 2 +"): climbing reads [1, 2] and leaves
   the token +, so the end position C16_climb_partial would claim is 3 (the end of the token 2); the reference grammar reads
   [[1, 2]] up to 4.  (Computation only; on WHOLE inputs, C16_climb_all_partial, the two agree in every case the check compared.) *)
Example C16_climb_juxl_end_position_computed :
  let table := [LPostfix (lit 113 [33%N]) []; LJuxL []; LBinL (lit 112 p_) []] in
  let ts := [d_ 49; d_ 50; TOp p_]%N in
  Climb.climb [CPostfix [[33%N]]; CJuxL; CBinL [p_]] ts = Some (TList [s_ 49; s_ 50]%N, [TOp p_]) /\
  length (render (firstn (length ts - 1) ts)) = 3 /\
  peg (fst (infix_ref dws ex_ids ex_base table ex_lpar ex_rpar)) (render ts) 60
      (snd (infix_ref dws ex_ids ex_base table ex_lpar ex_rpar)) 0 = POk 4 [TList [s_ 49; s_ 50]%N].
Proof. vm_compute. repeat split. Qed.
