(* C10 — ParseResults behaves as a list plus an ordered multimap of names.
   Statements only; every proof is `exact <lemma>` (or vm_compute on a closed witness).
   `apply_op`/`run_ops` (Model/ResultsAPI.v + Model/Results.v) mirror results.py statement by statement, stored
   positions included; `spec_op`/`spec_run` (Model/ResultsSpec.v) are the same operations on a plain Python list and an
   ordered multimap (name -> values, plus the set of list-all names); `view` forgets positions, `_name`, `_modal`. *)
From Coq Require Import List ZArith NArith Bool.
From PP Require Import Model.Str Model.Results Model.ResultsAPI Model.ResultsSpec Proofs.ResultsProofs.
Import ListNotations.
Local Open Scope Z_scope.

(* every public operation (all but get_name(), see below) acts on the views exactly as the list / multimap
   operation does, and returns the corresponding result or raises the same exception class *)
Theorem C10_op_refines : forall r o, observes_views o = true ->
  spec_op (view r) o = (view (fst (apply_op r o)), result_view (snd (apply_op r o))).
Proof. exact op_refines. Qed.

(* ... hence after ANY finite history the list view equals the Python list put through the same history, the name view
   the multimap put through it, and every intermediate result agrees *)
Theorem C10_history : forall ops r, forallb observes_views ops = true ->
  spec_run (view r) ops = (map result_view (fst (run_ops r ops)), view (snd (run_ops r ops))).
Proof. exact history_refines. Qed.

(* non-vacuity: a history mixing list and name operations on a result with a list-all name *)
Example C10_history_instance :
  let r := pr_iadd (pr_init (RList [TStr [97%N]; TStr [98%N]]) (Some [120%N]) false false)
                   (pr_init (RList [TStr [99%N]]) (Some [120%N]) false false) in
  let ops := [OInsert 0 (TInt 7); ODelInt (-1); OGetName [120%N]; OPop (Some (PKName [120%N])) [] None false; OGetAttr [120%N]] in
  forallb observes_views ops = true /\
  map result_view (fst (run_ops r ops)) =
    [VRNone; VRNone; VRTok (VPR [VStr [97%N]; VStr [99%N]] [] []); VRTok (VPR [VStr [97%N]; VStr [99%N]] [] []); VRTok (VStr [])] /\
  av_list (view (snd (run_ops r ops))) = [VInt 7; VStr [97%N]; VStr [98%N]].
Proof. vm_compute. repeat split. Qed.

(* stored positions are invisible: two results with the same views cannot be told apart by any history of
   view-observing operations *)
Theorem C10_positions_invisible : forall r1 r2 ops, view r1 = view r2 -> forallb observes_views ops = true ->
  map result_view (fst (run_ops r1 ops)) = map result_view (fst (run_ops r2 ops)) /\
  view (snd (run_ops r1 ops)) = view (snd (run_ops r2 ops)).
Proof. exact positions_invisible. Qed.

Example C10_positions_invisible_instance : view gn_r1 = view gn_r2 /\ gn_r1 <> gn_r2.
Proof. split; [reflexivity|discriminate]. Qed.

(* deleting / inserting / replacing list items never removes or alters named values (nor the list-all flags) *)
Theorem C10_list_ops_keep_names : forall r o, list_item_op o = true ->
  av_map (view (fst (apply_op r o))) = av_map (view r) /\ av_all (view (fst (apply_op r o))) = av_all (view r).
Proof. exact list_item_op_keeps_names. Qed.

(* the exception: get_name() falls back on the first stored position, so it can distinguish results with equal
   views (both states are reachable through the public API) *)
Theorem C10_get_name_reads_positions_refuted :
  view gn_r1 = view gn_r2 /\ rname gn_r1 = rname gn_r2 /\ get_name gn_r1 <> get_name gn_r2.
Proof. exact get_name_reads_positions. Qed.

(* attribute access to an unknown name returns '' (names starting with "__" raise AttributeError instead) *)
Theorem C10_unknown_attr : forall r k, contains r k = false -> starts_dunder k = false ->
  apply_op r (OGetAttr k) = (r, RTok (TStr [])).
Proof. exact unknown_attr. Qed.

Example C10_unknown_attr_instance :
  apply_op (pr_of_list [TStr [97%N]]) (OGetAttr [110%N; 111%N]) = (pr_of_list [TStr [97%N]], RTok (TStr [])).
Proof. reflexivity. Qed.

(* the lookup forms agree: r[name], r.name and r.get(name, d) return the same value for a present name ... *)
Theorem C10_lookup_forms_agree : forall r k, contains r k = true ->
  exists v, getitem_name r k = Some v /\ getattr r k = RTok v /\ (forall d, get r k d = v) \/ pr_getname r k = None.
Proof. exact lookup_forms_agree. Qed.

(* ... and as_dict() holds, under each key, that same multimap lookup (converted by to_item) *)
Theorem C10_as_dict_entry : forall r k, In k (keys r) ->
  In (k, v_to_item (mm_lookup_present (view r) k)) (spec_as_dict (view r)) \/ mm_lookup (view r) k = None.
Proof. exact as_dict_entry. Qed.

(* the well-formedness invariant of reachable results (distinct keys, no empty occurrence list): it holds for every
   constructor call and is preserved by every operation, hence along every history *)
Theorem C10_wf_init : forall x name asList modal_, (forall r, x = RPR r -> wf r) -> wf (pr_init x name asList modal_).
Proof. exact (pr_init_gen_wf true). Qed.
Theorem C10_wf_preserved : forall ops r, wf r -> wf (snd (run_ops r ops)).
Proof. exact run_ops_wf. Qed.
Example C10_wf_instance : wf (pr_init (RList [TStr [97%N]]) (Some [107%N]) true false) /\ wf pr_empty.
Proof. split; apply C10_wf_init || (split; constructor); discriminate. Qed.

(* for a well-formed result a present name always has a value, and the three lookup forms return it *)
Theorem C10_lookup_forms_agree_wf : forall r k, wf r -> contains r k = true ->
  exists v, getitem_name r k = Some v /\ getattr r k = RTok v /\ forall d, get r k d = v.
Proof. exact lookup_forms_agree_wf. Qed.

Example C10_list_ops_keep_names_instance :
  let r := pr_init (RList [TStr [97%N]; TStr [98%N]]) (Some [107%N]) false false in
  list_item_op (ODelSlice (Slice None None (Some (-1)))) = true /\
  av_map (view (fst (apply_op r (ODelSlice (Slice None None (Some (-1))))))) = [([107%N], [VStr [97%N]])] /\
  av_list (view (fst (apply_op r (ODelSlice (Slice None None (Some (-1))))))) = [].
Proof. vm_compute. repeat split. Qed.

Example C10_lookup_forms_agree_wf_instance :
  let r := pr_iadd (pr_init (RList [TStr [97%N]]) (Some [107%N]) false false) (pr_init (RList [TStr [98%N]]) (Some [107%N]) false false) in
  contains r [107%N] = true /\
  getitem_name r [107%N] = Some (TPR (pr_of_list [TStr [97%N]; TStr [98%N]])) /\
  get r [107%N] TNone = TPR (pr_of_list [TStr [97%N]; TStr [98%N]]).
Proof. vm_compute. repeat split. Qed.
