(* C10 — ParseResults behaves as a list plus an ordered multimap of names.  Statements only. *)
From Coq Require Import List ZArith NArith Bool.
From PP Require Import Model.Str Model.Results Model.ResultsAPI Model.ResultsSpec Proofs.ResultsProofs.
Import ListNotations.
Local Open Scope Z_scope.

(* attribute access to an unknown name returns '' (names starting with "__" raise AttributeError instead) *)
Theorem C10_unknown_attr : forall r k, contains r k = false -> starts_dunder k = false ->
  apply_op r (OGetAttr k) = (r, RTok (TStr [])).
Proof. exact unknown_attr. Qed.
