(* C09 — results are insensitive to inter-token whitespace and ignored comments.  Statements only.
   PARTIAL.  Proved (on the reference reading `peg`, which C01_peg_equiv ties to the parser on `in_class`), for grammars whose
   tokens only look forward (`fwd_class`: Literal, CaselessLiteral, Word without as_keyword, CharsNotIn, White, Empty, NoMatch,
   LineEnd, StringEnd — Keyword, WordStart/End, LineStart, StringStart, GoToColumn are adjacency/position sensitive: F-09),
   recursion through Forward, ZeroOrMore / OneOrMore (with or without stop_on), DelimitedList and Each with repeatable
   operands INCLUDED (Proofs/Insens2.v; the first version, Proofs/Insens.v, excluded every repetition: `norep`):
     * suffix locality (C09_suffix_local) and absorption of whitespace inserted where a whitespace-skipping element starts
       (C09_insert_leading, C09_insert_at_start_of_element; C09_parser_* for the parser on C01's class);
     * the INTERIOR statement for a sequence (C09_interior_sequence_partial, C09_insert_interior_partial,
       C09_remove_interior_partial): two texts that differ only in the whitespace standing at a token boundary of an And - the
       position where the derivation of a prefix es1 of its elements ends and a whitespace-skipping element e2 starts - are read
       with the same tokens, the end moved by the difference.  PARTIAL: "the derivation of es1 is the same on both texts" is a
       HYPOTHESIS (it is exactly what fails in F-09 and F-09b, C09_*_refuted below), and only the top-level boundaries of one
       And are covered (a boundary inside a nested element is reached by applying the theorem to that element);
       C09_insert_interior_literal_prefix_partial discharges the hypothesis for prefixes built from Literals / Words / And /
       Group / Suppress whose last token is a Literal (C09_literal_prefix_determined: such a derivation inspects nothing at or
       behind its end), leaving only "the prefix derivation of the ACCEPTED text ends at the insertion point";
     * comments (C09_comment_preparse_partial, C09_comment_lands_partial), on the element semantics `pre_parse` itself run by
       ANY handler of the `_parse` calls (the reference reading has no ignore expressions): a text that the ignore expression
       matches completely, inserted where an element carrying that ONE ignore expression starts, is absorbed by its pre-parse.
       PARTIAL: one ignore expression; the handler is assumed to answer the ignore expression behind the insertion as on the
       original text (suffix locality of the parser WITH ignore expressions is not proved) and its matches to consume input;
       the statement stops at the position where parseImpl starts.
   Refuted on the faithful model (closed witnesses): C09_or_longest_refuted (F-09b), C09_keyword_adjacency_refuted (F-09).
   Not proved: the Combine converse beyond C09_no_skip_in_leave_whitespace, several ignore expressions, named results (the
   reading compares token lists).  These are decided by the metamorphic oracle of tools/props/c09.py on the implementation and
   by the model-vs-implementation correspondence. *)
From Coq Require Import List ZArith NArith Bool.
From PP Require Import Model.Str Model.Results Model.Prog Model.Core Model.Peg Proofs.PegEquiv Proofs.Insens Proofs.Insens2.
Import ListNotations.

(* every whitespace-skipping element, started where extra whitespace was inserted, consumes it: its pre-parse lands at the
   same character as without the insertion *)
Theorem C09_skip_absorbs : forall w s ws, (forall c, In c w -> mem_char c ws = true) ->
  skip_white (w ++ s) 0 ws = length w + skip_white s 0 ws.
Proof. exact skip_white_absorb. Qed.

(* ------------------------------------------------------------------------------------------------------------------ *)
(* first version: no repetition construct (`norep`); subsumed by the theorems of the next block (norep -> fwd_class)   *)
(* ------------------------------------------------------------------------------------------------------------------ *)
(* the parse from a position on depends only on the text from that position on: prefixing any text x shifts every
   result by |x| and changes nothing else *)
Theorem C09_suffix_local_partial : forall (G : env), forallb norep G = true ->
  forall x s f e k, norep e = true ->
  peg G (x ++ s) f e (length x + k) = shift (length x) (peg G s f e k).
Proof. exact peg_shift. Qed.

(* inserting whitespace (any string over the element's whitespace characters) in front of a whitespace-skipping element
   leaves the token list unchanged and moves the end by the inserted length *)
Theorem C09_insert_leading_partial : forall (G : env), forallb norep G = true ->
  forall w s f e, norep e = true -> callpre (attrs_of e) && skipws (attrs_of e) = true ->
  (forall c, In c w -> mem_char c (white (attrs_of e)) = true) ->
  peg G (w ++ s) f e 0 = shift (length w) (peg G s f e 0).
Proof. exact peg_absorb. Qed.

(* ... and hence, combined with suffix locality, at ANY position p = |x| at which such an element is started *)
Theorem C09_insert_at_start_of_element_partial : forall (G : env), forallb norep G = true ->
  forall x w s f e, norep e = true -> callpre (attrs_of e) && skipws (attrs_of e) = true ->
  (forall c, In c w -> mem_char c (white (attrs_of e)) = true) ->
  peg G (x ++ w ++ s) f e (length x) = shift (length x + length w) (peg G s f e 0).
Proof.
  intros G HG x w s f e He Hp Hw.
  replace (length x) with (length x + 0) at 1 by apply PeanoNat.Nat.add_0_r.
  rewrite (peg_shift G HG x (w ++ s) f e 0 He). rewrite (peg_absorb G HG w s f e He Hp Hw).
  destruct (peg G s f e 0); simpl; try reflexivity. f_equal. apply PeanoNat.Nat.add_assoc.
Qed.

(* the same for the parser itself, on the proved class of C01 *)
Theorem C09_parser_insert_leading_partial : forall (G : env), env_in_class G = true -> forallb norep G = true ->
  forall w s f e d, in_class G e = true -> norep e = true -> callpre (attrs_of e) && skipws (attrs_of e) = true ->
  (forall c, In c w -> mem_char c (white (attrs_of e)) = true) ->
  proj (parse (step G) f (mkargs e (w ++ s) 0 d true)) =
  option_map (shift (length w)) (proj (parse (step G) f (mkargs e s 0 d true))).
Proof.
  intros G HC HG w s f e d Hc He Hp Hw.
  rewrite (proj1 (peg_equiv G (w ++ s) HC f e Hc 0 d)).
  rewrite (proj1 (peg_equiv G s HC f e Hc 0 d)). simpl. f_equal. apply peg_absorb; assumption.
Qed.

(* a Combine(adjacent=True) / leave_whitespace region does not skip: its elements have skipWhitespace = False, so their
   pre-parse is the identity and inserted whitespace is met by the tokens themselves *)
Theorem C09_no_skip_in_leave_whitespace : forall s e loc, skipws (attrs_of e) = false -> eff s e loc = loc.
Proof. intros s e loc H. unfold eff. rewrite H, Bool.andb_false_r. reflexivity. Qed.

(* non-vacuity: 'a' + ('b' | 'c') with default whitespace, on "a b" and on "  a b" *)
Example C09_instance :
  let at_ id cp asl := {| nid := id; rsname := None; modalr := true; aslist := asl; skipws := true; white := [32; 10; 9; 13]%N; callpre := cp;
                          mayidx := false; custom := false; hasmsg := true; acts := []; calltry := false; slen := 3 |} in
  let lit c id := Tok (at_ id true false) [] (KLit [c]) in
  let g := Nary (at_ 10 true true) [] NAnd [lit 97%N 1; Nary (at_ 11 false false) [] NMatchFirst [lit 98%N 2; lit 99%N 3]] in
  norep g = true /\ in_class [] g = true /\
  peg [] [97; 32; 98]%N 5 g 0 = POk 3 [TStr [97%N]; TStr [98%N]] /\
  peg [] ([32; 10]%N ++ [97; 32; 98]%N) 5 g 0 = POk 5 [TStr [97%N]; TStr [98%N]].
Proof. vm_compute. repeat split. Qed.

(* ------------------------------------------------------------------------------------------------------------------ *)
(* (1) with repetitions: every grammar of forward-looking tokens (`fwd_class` has ZeroOrMore / OneOrMore, stop_on,        *)
(*     DelimitedList's wrapper, Each with repeatable operands)                                                        *)
(* ------------------------------------------------------------------------------------------------------------------ *)
Theorem C09_norep_in_fwd_class : forall e, norep e = true -> fwd_class e = true.
Proof. exact norep_fwd. Qed.

(* what makes the length-derived loop bounds harmless: a successful reading never moves backwards and, when it advances,
   ends at most one position behind the text (LineEnd / StringEnd at the end return len + 1) *)
Theorem C09_reading_end_bounds : forall (G : env), forallb fwd_class G = true ->
  forall s f e loc l ts, fwd_class e = true -> peg G s f e loc = POk l ts ->
  loc <= l /\ l <= Nat.max loc (length s + 1).
Proof. exact peg_end_bounds. Qed.

Theorem C09_suffix_local : forall (G : env), forallb fwd_class G = true ->
  forall x s f e k, fwd_class e = true ->
  peg G (x ++ s) f e (length x + k) = shift (length x) (peg G s f e k).
Proof. exact peg_shift2. Qed.

Theorem C09_insert_leading : forall (G : env), forallb fwd_class G = true ->
  forall w s f e, fwd_class e = true -> callpre (attrs_of e) && skipws (attrs_of e) = true ->
  (forall c, In c w -> mem_char c (white (attrs_of e)) = true) ->
  peg G (w ++ s) f e 0 = shift (length w) (peg G s f e 0).
Proof. exact peg_absorb2. Qed.

Theorem C09_insert_at_start_of_element : forall (G : env), forallb fwd_class G = true ->
  forall x w s f e, fwd_class e = true -> callpre (attrs_of e) && skipws (attrs_of e) = true ->
  (forall c, In c w -> mem_char c (white (attrs_of e)) = true) ->
  peg G (x ++ w ++ s) f e (length x) = shift (length x + length w) (peg G s f e 0).
Proof. exact peg_absorb_at. Qed.

(* the same for the parser itself, on the proved class of C01 (ZeroOrMore / OneOrMore without stop_on are in it) *)
Theorem C09_parser_insert_leading : forall (G : env), env_in_class G = true -> forallb fwd_class G = true ->
  forall w s f e d, in_class G e = true -> fwd_class e = true -> callpre (attrs_of e) && skipws (attrs_of e) = true ->
  (forall c, In c w -> mem_char c (white (attrs_of e)) = true) ->
  proj (parse (step G) f (mkargs e (w ++ s) 0 d true)) =
  option_map (shift (length w)) (proj (parse (step G) f (mkargs e s 0 d true))).
Proof. exact parser_absorb2. Qed.

Theorem C09_parser_insert_at_start_of_element : forall (G : env), env_in_class G = true -> forallb fwd_class G = true ->
  forall x w s f e d, in_class G e = true -> fwd_class e = true -> callpre (attrs_of e) && skipws (attrs_of e) = true ->
  (forall c, In c w -> mem_char c (white (attrs_of e)) = true) ->
  proj (parse (step G) f (mkargs e (x ++ w ++ s) (length x) d true)) =
  option_map (shift (length x + length w)) (proj (parse (step G) f (mkargs e s 0 d true))).
Proof. exact parser_absorb_at. Qed.

(* non-vacuity: DelimitedList(Word('ab')) = Word + ZeroOrMore(Suppress(',') + Word), outside `norep` *)
Example C09_repetition_instance :
  norep ydl = false /\ fwd_class ydl = true /\ in_class [] ydl = true /\
  peg [] [97; 98; 44; 97; 98]%N 8 ydl 0 = POk 5 [TStr yab; TStr yab] /\
  peg [] ([32; 10]%N ++ [97; 98; 44; 97; 98]%N) 8 ydl 0 = POk 7 [TStr yab; TStr yab].
Proof. exact rep_instance. Qed.

(* ------------------------------------------------------------------------------------------------------------------ *)
(* (2) whitespace at an interior token boundary of a sequence                                                         *)
(* ------------------------------------------------------------------------------------------------------------------ *)
(* The And  es1 ++ e2 :: es2  is read on  u ++ w1 ++ v  and on  u ++ w2 ++ v  (w1, w2 over the whitespace set of e2).  If on
   both texts the derivation of es1 ends at |u| with the same tokens ts1 (hypothesis: the prefix does not see the
   difference), both readings are the reading of  e2 :: es2  on v alone, moved by |u| + |w1| resp. |u| + |w2| : same
   tokens, same success/failure, ends differing by |w2| - |w1|. *)
Theorem C09_interior_sequence_partial : forall (G : env), forallb fwd_class G = true ->
  forall u w1 w2 v f a i es1 e2 es2 loc0 ts1,
  fwd_class e2 = true -> Forall fwdP es2 ->
  callpre (attrs_of e2) && skipws (attrs_of e2) = true ->
  (forall c, In c w1 -> mem_char c (white (attrs_of e2)) = true) ->
  (forall c, In c w2 -> mem_char c (white (attrs_of e2)) = true) ->
  let e := Nary a i NAnd (es1 ++ e2 :: es2) in
  peg_seq (peg G (u ++ w1 ++ v) f) es1 (eff (u ++ w1 ++ v) e loc0) [] = POk (length u) ts1 ->
  peg_seq (peg G (u ++ w2 ++ v) f) es1 (eff (u ++ w2 ++ v) e loc0) [] = POk (length u) ts1 ->
  peg G (u ++ w1 ++ v) (S f) e loc0 = shift (length u + length w1) (peg_seq (peg G v f) (e2 :: es2) 0 ts1) /\
  peg G (u ++ w2 ++ v) (S f) e loc0 = shift (length u + length w2) (peg_seq (peg G v f) (e2 :: es2) 0 ts1).
Proof. exact and_interior. Qed.

(* insertion into an accepted text *)
Theorem C09_insert_interior_partial : forall (G : env), forallb fwd_class G = true ->
  forall u w v f a i es1 e2 es2 loc0 ts1 l ts,
  fwd_class e2 = true -> Forall fwdP es2 ->
  callpre (attrs_of e2) && skipws (attrs_of e2) = true ->
  (forall c, In c w -> mem_char c (white (attrs_of e2)) = true) ->
  let e := Nary a i NAnd (es1 ++ e2 :: es2) in
  peg G (u ++ v) (S f) e loc0 = POk l ts ->
  peg_seq (peg G (u ++ v) f) es1 (eff (u ++ v) e loc0) [] = POk (length u) ts1 ->
  peg_seq (peg G (u ++ w ++ v) f) es1 (eff (u ++ w ++ v) e loc0) [] = POk (length u) ts1 ->
  peg G (u ++ w ++ v) (S f) e loc0 = POk (length w + l) ts.
Proof. exact and_insert_interior. Qed.

(* removal from an accepted text *)
Theorem C09_remove_interior_partial : forall (G : env), forallb fwd_class G = true ->
  forall u w v f a i es1 e2 es2 loc0 ts1 l ts,
  fwd_class e2 = true -> Forall fwdP es2 ->
  callpre (attrs_of e2) && skipws (attrs_of e2) = true ->
  (forall c, In c w -> mem_char c (white (attrs_of e2)) = true) ->
  let e := Nary a i NAnd (es1 ++ e2 :: es2) in
  peg G (u ++ w ++ v) (S f) e loc0 = POk (length w + l) ts ->
  peg_seq (peg G (u ++ w ++ v) f) es1 (eff (u ++ w ++ v) e loc0) [] = POk (length u) ts1 ->
  peg_seq (peg G (u ++ v) f) es1 (eff (u ++ v) e loc0) [] = POk (length u) ts1 ->
  peg G (u ++ v) (S f) e loc0 = POk l ts.
Proof. exact and_remove_interior. Qed.

(* The prefix hypothesis discharged for a syntactic class of prefixes (`lf_seq true es1`, Proofs/Insens2.v): es1 is built
   from non-empty Literals, Words (no as_keyword, no max), And, Group, Suppress, pass-through wrappers, and its LAST token
   is a Literal - such a derivation inspects no character at or behind its end.  What remains assumed is a fact about the
   ACCEPTED text only: the derivation of es1 ends at |u| (the definition of the token boundary). *)
Theorem C09_insert_interior_literal_prefix_partial : forall (G : env), forallb fwd_class G = true ->
  forall u w v f a i es1 e2 es2 loc0 ts1 l ts,
  lf_seq true es1 = true ->
  fwd_class e2 = true -> Forall fwdP es2 ->
  callpre (attrs_of e2) && skipws (attrs_of e2) = true ->
  (forall c, In c w -> mem_char c (white (attrs_of e2)) = true) ->
  let e := Nary a i NAnd (es1 ++ e2 :: es2) in
  peg G (u ++ v) (S f) e loc0 = POk l ts ->
  peg_seq (peg G (u ++ v) f) es1 (eff (u ++ v) e loc0) [] = POk (length u) ts1 ->
  peg G (u ++ w ++ v) (S f) e loc0 = POk (length w + l) ts.
Proof. exact and_insert_interior_lf. Qed.

(* the prefix-determinacy behind it: a successful reading of an element of the class is the same on every text that has
   the same characters before its end (st = true) resp. up to and including its end (st = false: a Word looks at the
   character that stops it) *)
Theorem C09_literal_prefix_determined : forall (G : env) u t1 t2 f st e loc l ts, lf st e = true ->
  peg G (u ++ t1) f e loc = POk l ts -> l + slack st <= length u ->
  eff (u ++ t1) e loc < l /\ peg G (u ++ t2) f e loc = POk l ts.
Proof. exact lf_ok. Qed.

(* a JSON-like instance: obj = '{' + Word + ':' + val + '}', val = Word(digits) | Group('[' + val + ZeroOrMore(',' + val) + ']')
   (val a Forward), text '{k:[1,2]}', blank + newline inserted between ':' and the value.  The second reading is obtained
   by APPLYING C09_insert_interior_partial (Proofs/Insens2.v json_instance), its hypotheses hold of the instance. *)
Example C09_json_instance :
  (env_in_class xG = true /\ in_class xG xobj = true /\ forallb fwd_class xG = true /\ fwd_class xobj = true) /\
  peg xG (xu ++ xv) 12 xobj 0 = POk 9 xresult /\
  peg xG (xu ++ xw ++ xv) 12 xobj 0 = POk 11 xresult.
Proof. exact (conj json_class json_instance). Qed.

(* the same instance through C09_insert_interior_literal_prefix_partial: the prefix '{' Word ':' is of the class, nothing is
   computed on the new text *)
Example C09_json_instance_literal_prefix :
  lf_seq true xpre = true /\ peg xG (xu ++ xw ++ xv) 12 xobj 0 = POk 11 xresult.
Proof. exact json_instance_lf. Qed.

(* Without the hypothesis on the prefix the interior statement is FALSE on the faithful model (and on the implementation):
   F-09b.  (Suppress('ab') ^ DelimitedList(Word('ab'))) + ')' : a blank inserted at the token boundary in front of ')' in the
   accepted text 'ab)' changes the token list from [')'] to ['ab', ')'].  Forward-looking tokens only, inside C01's class;
   stated for the reading and for the parser. *)
Theorem C09_or_longest_refuted :
  exists (e : expr) (u w v : str) l1 ts1 l2 ts2,
    fwd_class e = true /\ in_class [] e = true /\
    (forall c, In c w -> mem_char c [32; 10; 9; 13]%N = true) /\
    peg [] (u ++ v) 8 e 0 = POk l1 ts1 /\ peg [] (u ++ w ++ v) 8 e 0 = POk l2 ts2 /\
    proj (parse (step []) 8 (mkargs e (u ++ v) 0 true true)) = Some (POk l1 ts1) /\
    proj (parse (step []) 8 (mkargs e (u ++ w ++ v) 0 true true)) = Some (POk l2 ts2) /\
    peg [] (u ++ v) 8 (xlit 41%N 43) (length u) = POk (S (length u)) [TStr [41%N]] /\
    ts1 <> ts2.
Proof. exact or_longest_refuted. Qed.

(* F-09: outside the forward-looking tokens the property is false.  Group(Keyword('a') + 'b') | Literal('a') + 'b' :
   removing the blank of the accepted text 'a b' changes [['a','b']] into ['a','b']. *)
Theorem C09_keyword_adjacency_refuted :
  exists (e : expr) (u w v : str) l1 ts1 l2 ts2,
    in_class [] e = true /\ fwd_class e = false /\
    (forall c, In c w -> mem_char c [32; 10; 9; 13]%N = true) /\
    peg [] (u ++ w ++ v) 8 e 0 = POk l1 ts1 /\ peg [] (u ++ v) 8 e 0 = POk l2 ts2 /\
    proj (parse (step []) 8 (mkargs e (u ++ w ++ v) 0 true true)) = Some (POk l1 ts1) /\
    proj (parse (step []) 8 (mkargs e (u ++ v) 0 true true)) = Some (POk l2 ts2) /\
    ts1 <> ts2.
Proof. exact keyword_refuted. Qed.

(* ------------------------------------------------------------------------------------------------------------------ *)
(* (3) comments: expr.ignore(comment)                                                                                 *)
(* ------------------------------------------------------------------------------------------------------------------ *)
(* `pre_parse` (Model/Core.v: _skipIgnorables, then the element's own whitespace) of an element e with the single ignore
   expression ig, run by ANY handler `rec` of the `_parse` calls, on  x ++ s  and on  x ++ c ++ s  from |x| : if `rec` answers
   the call of ig at |x| on the new text by a match of exactly c, answers ig behind the insertion as on the original text
   (osim) and lets every match of ig consume input within the text (advances), then whatever is done at the position reached
   (k1 / k2, related by Q) is done at the same character on both texts. *)
Theorem C09_comment_preparse_partial :
  forall (rec : args -> option outcome) (Q : option outcome -> option outcome -> Prop) e ig x c s fail1 fail2 k1 k2,
  ign_of e = [ig] -> plain_pre e -> c <> [] ->
  (exists r, rec (mkargs ig (x ++ c ++ s) (length x) true true) = Some (Ok (length c + length x) r)) ->
  (forall l, length x <= l -> l <= length (x ++ s) + 1 ->
     osim (length c) (rec (mkargs ig (x ++ s) l true true)) (rec (mkargs ig (x ++ c ++ s) (length c + l) true true)) = true) ->
  (forall l, length x <= l -> l <= length (x ++ s) + 1 ->
     advances (length (x ++ s)) l (rec (mkargs ig (x ++ s) l true true)) = true) ->
  Q None None -> Q (Some Div) (Some Div) ->
  (forall p, length x <= p -> Q (run rec (k1 p)) (run rec (k2 (length c + p)))) ->
  Q (run rec (pre_parse fail1 e (x ++ s) (length x) k1)) (run rec (pre_parse fail2 e (x ++ c ++ s) (length x) k2)).
Proof. exact pre_parse_absorbs_comment. Qed.

(* with the position observed: the pre-parse lands |c| further *)
Theorem C09_comment_lands_partial : forall (rec : args -> option outcome) e ig x c s p,
  ign_of e = [ig] -> plain_pre e -> c <> [] ->
  (exists r, rec (mkargs ig (x ++ c ++ s) (length x) true true) = Some (Ok (length c + length x) r)) ->
  forallb (fun l => osim (length c) (rec (mkargs ig (x ++ s) l true true)) (rec (mkargs ig (x ++ c ++ s) (length c + l) true true))
                    && advances (length (x ++ s)) l (rec (mkargs ig (x ++ s) l true true)))
          (seq (length x) (length s + 2)) = true ->
  run rec (pre_parse escape e (x ++ s) (length x) obs) = Some (Ok p pr_empty) ->
  run rec (pre_parse escape e (x ++ c ++ s) (length x) obs) = Some (Ok (length c + p) pr_empty).
Proof. exact pre_parse_comment_lands. Qed.

(* instance: Literal('b').ignore('#' + CharsNotIn('\n')) started at 1 on 'a\nb' and on 'a #hi\nb', the handler being the
   parser `parse (step [])` itself; obtained by APPLYING C09_comment_lands_partial (Proofs/Insens2.v comment_instance) *)
Example C09_comment_instance :
  run (parse (step []) 6) (pre_parse escape celt ([97%N] ++ [10; 98]%N) 1 obs) = Some (Ok 2 pr_empty) /\
  run (parse (step []) 6) (pre_parse escape celt ([97%N] ++ [32; 35; 104; 105]%N ++ [10; 98]%N) 1 obs) = Some (Ok 6 pr_empty).
Proof. exact comment_instance. Qed.
