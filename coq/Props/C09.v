(* C09 — results are insensitive to inter-token whitespace and ignored comments.  Statements only.
   PARTIAL.  Proved (on the reference reading `peg`, which C01_peg_equiv ties to the parser on `in_class`):
   suffix locality and absorption of leading whitespace, for grammars whose tokens only look forward (Literal, CaselessLiteral,
   Word without as_keyword, CharsNotIn, White, Empty, NoMatch, LineEnd, StringEnd — Keyword, WordStart/End, LineStart,
   StringStart, GoToColumn are adjacency/position sensitive: F-09) and that contain no repetition construct (recursion through
   Forward is allowed; ZeroOrMore/OneOrMore use a length-derived loop bound that the shift argument does not cover yet).
   Not proved: that the part of the derivation BEFORE an interior insertion point is unaffected, comments via ignore(), and
   the Combine converse — these are decided by the metamorphic oracle of tools/props/c09.py on the implementation and by
   the model-vs-implementation correspondence. *)
From Coq Require Import List ZArith NArith Bool.
From PP Require Import Model.Str Model.Results Model.Prog Model.Core Model.Peg Proofs.PegEquiv Proofs.Insens.
Import ListNotations.

(* every whitespace-skipping element, started where extra whitespace was inserted, consumes it: its pre-parse lands at the
   same character as without the insertion *)
Theorem C09_skip_absorbs : forall w s ws, (forall c, In c w -> mem_char c ws = true) ->
  skip_white (w ++ s) 0 ws = length w + skip_white s 0 ws.
Proof. exact skip_white_absorb. Qed.

(* the parse from a position on depends only on the text from that position on: prefixing any text x shifts every
   result by |x| and changes nothing else *)
Theorem C09_suffix_local_partial : forall (G : env), forallb norep G = true ->
  forall x s f e k, norep e = true ->
  peg G (x ++ s) f e (length x + k) = shift (length x) (peg G s f e k).
Proof. exact peg_shift. Qed.

(* inserting whitespace (any string over the element's whitespace characters) in front of a whitespace-skipping element
   leaves the token list unchanged and moves the end by the inserted length *)
Theorem C09_insert_leading_partial : forall (G : env), forallb norep G = true ->
  forall w s f e, norep e = true -> callpre (attrs_of e) && skipws (attrs_of e) = true ->
  (forall c, In c w -> mem_char c (white (attrs_of e)) = true) ->
  peg G (w ++ s) f e 0 = shift (length w) (peg G s f e 0).
Proof. exact peg_absorb. Qed.

(* ... and hence, combined with suffix locality, at ANY position p = |x| at which such an element is started *)
Theorem C09_insert_at_start_of_element_partial : forall (G : env), forallb norep G = true ->
  forall x w s f e, norep e = true -> callpre (attrs_of e) && skipws (attrs_of e) = true ->
  (forall c, In c w -> mem_char c (white (attrs_of e)) = true) ->
  peg G (x ++ w ++ s) f e (length x) = shift (length x + length w) (peg G s f e 0).
Proof.
  intros G HG x w s f e He Hp Hw.
  replace (length x) with (length x + 0) at 1 by apply PeanoNat.Nat.add_0_r.
  rewrite (peg_shift G HG x (w ++ s) f e 0 He). rewrite (peg_absorb G HG w s f e He Hp Hw).
  destruct (peg G s f e 0); simpl; try reflexivity. f_equal. apply PeanoNat.Nat.add_assoc.
Qed.

(* the same for the parser itself, on the proved class of C01 *)
Theorem C09_parser_insert_leading_partial : forall (G : env), env_in_class G = true -> forallb norep G = true ->
  forall w s f e d, in_class G e = true -> norep e = true -> callpre (attrs_of e) && skipws (attrs_of e) = true ->
  (forall c, In c w -> mem_char c (white (attrs_of e)) = true) ->
  proj (parse (step G) f (mkargs e (w ++ s) 0 d true)) =
  option_map (shift (length w)) (proj (parse (step G) f (mkargs e s 0 d true))).
Proof.
  intros G HC HG w s f e d Hc He Hp Hw.
  rewrite (proj1 (peg_equiv G (w ++ s) HC f e Hc 0 d)).
  rewrite (proj1 (peg_equiv G s HC f e Hc 0 d)). simpl. f_equal. apply peg_absorb; assumption.
Qed.

(* a Combine(adjacent=True) / leave_whitespace region does not skip: its elements have skipWhitespace = False, so their
   pre-parse is the identity and inserted whitespace is met by the tokens themselves *)
Theorem C09_no_skip_in_leave_whitespace : forall s e loc, skipws (attrs_of e) = false -> eff s e loc = loc.
Proof. intros s e loc H. unfold eff. rewrite H, Bool.andb_false_r. reflexivity. Qed.

(* non-vacuity: 'a' + ('b' | 'c') with default whitespace, on "a b" and on "  a b" *)
Example C09_instance :
  let at_ id cp asl := {| nid := id; rsname := None; modalr := true; aslist := asl; skipws := true; white := [32; 10; 9; 13]%N; callpre := cp;
                          mayidx := false; custom := false; hasmsg := true; acts := []; calltry := false; slen := 3 |} in
  let lit c id := Tok (at_ id true false) [] (KLit [c]) in
  let g := Nary (at_ 10 true true) [] NAnd [lit 97%N 1; Nary (at_ 11 false false) [] NMatchFirst [lit 98%N 2; lit 99%N 3]] in
  norep g = true /\ in_class [] g = true /\
  peg [] [97; 32; 98]%N 5 g 0 = POk 3 [TStr [97%N]; TStr [98%N]] /\
  peg [] ([32; 10]%N ++ [97; 32; 98]%N) 5 g 0 = POk 5 [TStr [97%N]; TStr [98%N]].
Proof. vm_compute. repeat split. Qed.
