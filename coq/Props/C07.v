(* C07 — error stops and fatal exceptions are never backtracked over.  Statements only. *)
From Coq Require Import List ZArith NArith Bool.
From PP Require Import Model.Str Model.Results Model.Prog Model.Core Proofs.Walk Proofs.Fatal Gen.GenExc.
From PP Require Import Model.Entry Model.LR Proofs.LRFatal Proofs.LRTie.
Import ListNotations.

(* ---- the tie to the code: class hierarchy and `except` clauses, regenerated on every run ---- *)
Fixpoint is_sub_fuel (n : nat) (c d : cls) : bool :=
  match n with
  | 0 => false
  | S m => (match c, d with
            | C_ParseBaseException, C_ParseBaseException | C_ParseException, C_ParseException
            | C_ParseFatalException, C_ParseFatalException | C_ParseSyntaxException, C_ParseSyntaxException
            | C_IndexError, C_IndexError | C_Exception, C_Exception | C_ParseActionIndexError, C_ParseActionIndexError
            | C_TypeError, C_TypeError | C_KeyError, C_KeyError => true
            | _, _ => false end)
           || match gen_parent c with Some p => is_sub_fuel m p d | None => false end
  end.
Definition is_sub := is_sub_fuel 6.
Definition cls_of (k : xkind) : cls :=
  match k with
  | XParse => C_ParseException | XFatal => C_ParseFatalException | XSyntax => C_ParseSyntaxException
  | XIndex => C_IndexError | XActIndex => C_ParseActionIndexError | XType => C_TypeError | XKey => C_KeyError
  | XValue => C_ValueError | XAttr => C_AttributeError | XOther => C_Exception
  end.
Definition catches (h : list cls * bool) (k : xkind) : bool := existsb (is_sub (cls_of k)) (fst h).
(* a handler that may swallow (does not end in `raise`) must not catch a fatal exception *)
Definition no_swallow (hs : list (list cls * bool)) : bool :=
  forallb (fun h => snd h || negb (catches h XFatal || catches h XSyntax)) hs.

Theorem C07_tables :
  (* the model's predicates are isinstance tests against the real hierarchy *)
  (forall k, is_pe k = is_sub (cls_of k) C_ParseException) /\
  (forall k, is_fatal k = is_sub (cls_of k) C_ParseFatalException) /\
  (forall k, is_pbe k = is_sub (cls_of k) C_ParseBaseException) /\
  is_sub C_ParseFatalException C_ParseException = false /\
  is_sub C_ParseActionIndexError C_IndexError = false /\
  (* no transparent container has a swallowing handler for a fatal exception *)
  no_swallow gen_catch_MatchFirst_parseImpl = true /\
  no_swallow gen_catch_And_parseImpl = true /\
  no_swallow gen_catch_Opt_parseImpl = true /\
  no_swallow gen_catch_MultipleMatch_parseImpl = true /\
  no_swallow gen_catch_ZeroOrMore_parseImpl = true /\
  no_swallow gen_catch_ParseElementEnhance_parseImpl = true /\
  no_swallow gen_catch_FollowedBy_parseImpl = true /\
  no_swallow gen_catch_Located_parseImpl = true /\
  no_swallow gen_catch_ParserElement_skipIgnorables = true /\
  no_swallow gen_catch_ParserElement_parseNoCache = true /\
  no_swallow gen_catch_ParserElement_scan_string = true /\
  no_swallow gen_catch_ParserElement_parse_string = true /\
  (* ... and the handlers are exactly those the model's `step` implements *)
  gen_catch_MatchFirst_parseImpl = [([C_ParseFatalException], true); ([C_ParseException], false); ([C_IndexError], false)] /\
  gen_catch_And_parseImpl = [([C_ParseSyntaxException], true); ([C_ParseBaseException], true); ([C_IndexError], true)] /\
  gen_catch_Opt_parseImpl = [([C_ParseException; C_IndexError], false)] /\
  gen_catch_MultipleMatch_parseImpl = [([C_ParseException; C_IndexError], false)] /\
  gen_catch_ZeroOrMore_parseImpl = [([C_ParseException; C_IndexError], false)] /\
  gen_catch_ParseElementEnhance_parseImpl = [([C_ParseSyntaxException], true); ([C_ParseBaseException], true)] /\
  gen_catch_ParserElement_skipIgnorables = [([C_ParseException], false)] /\
  gen_catch_ParserElement_try_parse = [([C_ParseFatalException], true)] /\
  gen_catch_ParserElement_can_parse_next = [([C_ParseException; C_IndexError], false)] /\
  gen_catch_Or_parseImpl = [([C_ParseFatalException], false); ([C_ParseException], false); ([C_IndexError], false); ([C_ParseException], false)] /\
  gen_catch_SkipTo_parseImpl = [([C_ParseBaseException], false); ([C_ParseException; C_IndexError], false)].
Proof. repeat split; try (intros k; destruct k; reflexivity); reflexivity. Qed.

(* ---- never swallowed: for EVERY handler `rec` (i.e. whatever the sub-expressions are), every environment, every
   argument tuple whose element is one of the transparent containers (tokens with ignorables, And, MatchFirst, Opt,
   ZeroOrMore/OneOrMore without stop_on, Group, Suppress, Combine, Dict, Located, FollowedBy, AtStringStart, AtLineStart,
   exact PrecededBy, DelimitedList, Forward): if some `_parse` call made while executing the element — a child, or an
   ignore expression during pre-parse — answered with a ParseFatalException / ParseSyntaxException, then the element's
   own answer is a fatal exception (no other alternative is tried, no repetition ends quietly). *)
Theorem C07_never_swallowed : forall (G : env) rec a o,
  transparent1 (a_e a) = true ->
  run_seen rec (step G a) false = Some (true, o) ->
  fatal_out o = true.
Proof. exact never_swallowed. Qed.

(* ---- error stop ('-'): inside And.parseImpl, after the first element *)
(* an _ErrorStop element switches the flag on and is otherwise skipped *)
Theorem C07_error_stop_marks : forall k a s d ac ic rest loc acc estop,
  and_go k a s d (Tok ac ic KErrorStop :: rest) loc acc estop = and_go k a s d rest loc acc true.
Proof. exact and_go_errorstop. Qed.

(* an element that matches leaves the flag as it is *)
Theorem C07_error_stop_keeps : forall rec k a s d c rest loc acc estop l r,
  (match c with Tok _ _ KErrorStop => False | _ => True end) ->
  rec (mkargs c s loc d true) = Some (Ok l r) ->
  run rec (and_go k a s d (c :: rest) loc acc estop) = run rec (and_go k a s d rest l (pr_iadd acc r) estop).
Proof. exact and_go_success. Qed.

(* once the flag is on, failure of an element with any ParseBaseException (or an IndexError) makes the whole And raise
   ParseSyntaxException — at the failing location for a ParseBaseException, at end of text for an IndexError *)
Theorem C07_error_stop : forall rec e s d pl a c rest loc acc x,
  (match c with Tok _ _ KErrorStop => False | _ => True end) ->
  rec (mkargs c s loc d true) = Some (Err x) ->
  is_pbe (xk x) = true \/ xk x = XIndex ->
  run rec (and_go (step_k e s d pl) a s d (c :: rest) loc acc true) = Some (Err (to_syntax s a x)) /\
  xk (to_syntax s a x) = XSyntax /\
  (is_pbe (xk x) = true -> xloc (to_syntax s a x) = xloc x).
Proof.
  intros rec e s d pl a c rest loc acc x Hc Hr Hx. split; [apply and_go_failure_after_stop; assumption|].
  unfold to_syntax. destruct Hx as [Hx|Hx]; destruct (xk x) eqn:E; simpl in *; try discriminate; rewrite ?E; split; auto; intros; try discriminate.
Qed.

(* ---- only negative lookahead treats a fatal exception as a non-match: NotAny continues as if its expression failed *)
Theorem C07_negative_lookahead : forall (G : env) rec a i c s pl d x,
  rec (mkargs c s pl d true) = Some (Err x) -> is_fatal (xk x) = true ->
  run rec (impl G (Enh a i ENot c) s pl d (step_k (Enh a i ENot c) s d pl)) =
  run rec (finish (Enh a i ENot c) d pl pl (RList [])).
Proof. exact notany_swallows. Qed.

(* non-vacuity: ('a' - 'b') | 'a'  on "ac": the error stop makes the MatchFirst raise ParseSyntaxException at 1
   instead of trying the second alternative *)
Example C07_instance :
  let at_ id cp asl := {| nid := id; rsname := None; modalr := true; aslist := asl; skipws := true; white := [32%N]; callpre := cp;
                          mayidx := false; custom := false; hasmsg := true; acts := []; calltry := false; slen := 3 |} in
  let lit c id := Tok (at_ id true false) [] (KLit [c]) in
  let g := Nary (at_ 10 false false) [] NMatchFirst
             [Nary (at_ 11 true true) [] NAnd [lit 97%N 1; Tok (at_ 2 true false) [] KErrorStop; lit 98%N 3]; lit 97%N 1] in
  exists m el, parse (step []) 10 (mkargs g [97; 99]%N 0 true true) = Some (Err (mkx XSyntax 1 m el))
  /\ transparent1 g = true.
Proof. vm_compute. eexists. eexists. split; reflexivity. Qed.

(* ---- Forward under enable_left_recursion(): the growth loop of Forward.parseImpl (Model/LR.v lr_loop) catches ParseException only.
   Whatever the memo holds, however far the seed has grown, and for every semantics `rec` of the body: an exception of the body
   that is not a ParseException - ParseFatalException, ParseSyntaxException - leaves the loop at once, unchanged, *)
(* ... from the look-ahead evaluation (do_actions=False) of any round *)
Theorem C07_lr_peek_escapes : forall rec f a body s loc d prev_loc prev_peek m x m1,
  super_impl rec a body s loc false m = Some (Err x, m1) -> is_pe (xk x) = false ->
  lr_loop rec (S f) a body s loc d prev_loc prev_peek m = Some (Err x, m1).
Proof. exact lr_loop_peek_escapes. Qed.

(* ... and from the action evaluation (do_actions=True) of a round that grew *)
Theorem C07_lr_act_escapes : forall rec f a body s loc prev_loc prev_peek m l r m1 x m2,
  super_impl rec a body s loc false m = Some (Ok l r, m1) -> (prev_loc < Z.of_nat l)%Z ->
  super_impl rec a body s loc true m1 = Some (Err x, m2) -> is_pe (xk x) = false ->
  lr_loop rec (S f) a body s loc true prev_loc prev_peek m = Some (Err x, m2).
Proof. exact lr_loop_act_escapes. Qed.

(* Forward.parseImpl itself: a fatal exception of the body's first evaluation leaves the Forward with its class unchanged
   (the exception's location/element may be filled in by ParseElementEnhance.parseImpl), for every memo without an entry here *)
Theorem C07_lr_forward_fatal : forall rec a body s loc d m x0 m1,
  memo_get m (loc, nid a, d) = None ->
  (forall m', rec m' (mkargs body s loc false false) = Some (Err x0, m1)) ->
  is_fatal (xk x0) = true ->
  exists x, lr_forward rec a body s loc d m = Some (Err x, m1) /\ xk x = xk x0.
Proof. exact lr_forward_fatal_escapes. Qed.

(* the `except ParseException:` clauses of that loop, as the source has them now (Gen/GenMemo.v is regenerated from /repo) *)
Theorem C07_lr_source_pinned : lr_source_text.
Proof. exact lr_source_pinned. Qed.
