(* C07 — error stops and fatal exceptions are never backtracked over.  Statements only. *)
From Coq Require Import List ZArith NArith Bool.
From PP Require Import Model.Str Model.Results Model.Prog Model.Core Proofs.Walk Proofs.Fatal Proofs.FatalAlt Gen.GenExc.
From PP Require Import Model.Entry Model.LR Proofs.LRFatal Proofs.LRTie.
Import ListNotations.

(* ---- the tie to the code: class hierarchy and `except` clauses, regenerated on every run ---- *)
Fixpoint is_sub_fuel (n : nat) (c d : cls) : bool :=
  match n with
  | 0 => false
  | S m => (match c, d with
            | C_ParseBaseException, C_ParseBaseException | C_ParseException, C_ParseException
            | C_ParseFatalException, C_ParseFatalException | C_ParseSyntaxException, C_ParseSyntaxException
            | C_IndexError, C_IndexError | C_Exception, C_Exception | C_ParseActionIndexError, C_ParseActionIndexError
            | C_TypeError, C_TypeError | C_KeyError, C_KeyError => true
            | _, _ => false end)
           || match gen_parent c with Some p => is_sub_fuel m p d | None => false end
  end.
Definition is_sub := is_sub_fuel 6.
Definition cls_of (k : xkind) : cls :=
  match k with
  | XParse => C_ParseException | XFatal => C_ParseFatalException | XSyntax => C_ParseSyntaxException
  | XIndex => C_IndexError | XActIndex => C_ParseActionIndexError | XType => C_TypeError | XKey => C_KeyError
  | XValue => C_ValueError | XAttr => C_AttributeError | XOther => C_Exception
  end.
Definition catches (h : list cls * bool) (k : xkind) : bool := existsb (is_sub (cls_of k)) (fst h).
(* a handler that may swallow (does not end in `raise`) must not catch a fatal exception *)
Definition no_swallow (hs : list (list cls * bool)) : bool :=
  forallb (fun h => snd h || negb (catches h XFatal || catches h XSyntax)) hs.

Theorem C07_tables :
  (* the model's predicates are isinstance tests against the real hierarchy *)
  (forall k, is_pe k = is_sub (cls_of k) C_ParseException) /\
  (forall k, is_fatal k = is_sub (cls_of k) C_ParseFatalException) /\
  (forall k, is_pbe k = is_sub (cls_of k) C_ParseBaseException) /\
  is_sub C_ParseFatalException C_ParseException = false /\
  is_sub C_ParseActionIndexError C_IndexError = false /\
  (* no transparent container has a swallowing handler for a fatal exception *)
  no_swallow gen_catch_MatchFirst_parseImpl = true /\
  no_swallow gen_catch_And_parseImpl = true /\
  no_swallow gen_catch_Opt_parseImpl = true /\
  no_swallow gen_catch_MultipleMatch_parseImpl = true /\
  no_swallow gen_catch_ZeroOrMore_parseImpl = true /\
  no_swallow gen_catch_ParseElementEnhance_parseImpl = true /\
  no_swallow gen_catch_FollowedBy_parseImpl = true /\
  no_swallow gen_catch_Located_parseImpl = true /\
  no_swallow gen_catch_ParserElement_skipIgnorables = true /\
  no_swallow gen_catch_ParserElement_parseNoCache = true /\
  no_swallow gen_catch_ParserElement_scan_string = true /\
  no_swallow gen_catch_ParserElement_parse_string = true /\
  (* ... and the handlers are exactly those the model's `step` implements *)
  gen_catch_MatchFirst_parseImpl = [([C_ParseFatalException], true); ([C_ParseException], false); ([C_IndexError], false)] /\
  gen_catch_And_parseImpl = [([C_ParseSyntaxException], true); ([C_ParseBaseException], true); ([C_IndexError], true)] /\
  gen_catch_Opt_parseImpl = [([C_ParseException; C_IndexError], false)] /\
  gen_catch_MultipleMatch_parseImpl = [([C_ParseException; C_IndexError], false)] /\
  gen_catch_ZeroOrMore_parseImpl = [([C_ParseException; C_IndexError], false)] /\
  gen_catch_ParseElementEnhance_parseImpl = [([C_ParseSyntaxException], true); ([C_ParseBaseException], true)] /\
  gen_catch_ParserElement_skipIgnorables = [([C_ParseException], false)] /\
  gen_catch_ParserElement_try_parse = [([C_ParseFatalException], true)] /\
  gen_catch_ParserElement_can_parse_next = [([C_ParseException; C_IndexError], false)] /\
  gen_catch_Or_parseImpl = [([C_ParseFatalException], false); ([C_ParseException], false); ([C_IndexError], false); ([C_ParseException], false)] /\
  gen_catch_SkipTo_parseImpl = [([C_ParseBaseException], false); ([C_ParseException; C_IndexError], false)].
Proof. repeat split; try (intros k; destruct k; reflexivity); reflexivity. Qed.

(* ---- never swallowed: for EVERY handler `rec` (i.e. whatever the sub-expressions are), every environment, every
   argument tuple whose element is one of the transparent containers (tokens with ignorables, And, MatchFirst, Opt,
   ZeroOrMore/OneOrMore without stop_on, Group, Suppress, Combine, Dict, Located, FollowedBy, AtStringStart, AtLineStart,
   exact PrecededBy, DelimitedList, Forward): if some `_parse` call made while executing the element — a child, or an
   ignore expression during pre-parse — answered with a ParseFatalException / ParseSyntaxException, then the element's
   own answer is a fatal exception (no other alternative is tried, no repetition ends quietly). *)
Theorem C07_never_swallowed : forall (G : env) rec a o,
  transparent1 (a_e a) = true ->
  run_seen rec (step G a) false = Some (true, o) ->
  fatal_out o = true.
Proof. exact never_swallowed. Qed.

(* ---- error stop ('-'): inside And.parseImpl, after the first element *)
(* an _ErrorStop element switches the flag on and is otherwise skipped *)
Theorem C07_error_stop_marks : forall k a s d ac ic rest loc acc estop,
  and_go k a s d (Tok ac ic KErrorStop :: rest) loc acc estop = and_go k a s d rest loc acc true.
Proof. exact and_go_errorstop. Qed.

(* an element that matches leaves the flag as it is *)
Theorem C07_error_stop_keeps : forall rec k a s d c rest loc acc estop l r,
  (match c with Tok _ _ KErrorStop => False | _ => True end) ->
  rec (mkargs c s loc d true) = Some (Ok l r) ->
  run rec (and_go k a s d (c :: rest) loc acc estop) = run rec (and_go k a s d rest l (pr_iadd acc r) estop).
Proof. exact and_go_success. Qed.

(* once the flag is on, failure of an element with any ParseBaseException (or an IndexError) makes the whole And raise
   ParseSyntaxException — at the failing location for a ParseBaseException, at end of text for an IndexError *)
Theorem C07_error_stop : forall rec e s d pl a c rest loc acc x,
  (match c with Tok _ _ KErrorStop => False | _ => True end) ->
  rec (mkargs c s loc d true) = Some (Err x) ->
  is_pbe (xk x) = true \/ xk x = XIndex ->
  run rec (and_go (step_k e s d pl) a s d (c :: rest) loc acc true) = Some (Err (to_syntax s a x)) /\
  xk (to_syntax s a x) = XSyntax /\
  (is_pbe (xk x) = true -> xloc (to_syntax s a x) = xloc x).
Proof.
  intros rec e s d pl a c rest loc acc x Hc Hr Hx. split; [apply and_go_failure_after_stop; assumption|].
  unfold to_syntax. destruct Hx as [Hx|Hx]; destruct (xk x) eqn:E; simpl in *; try discriminate; rewrite ?E; split; auto; intros; try discriminate.
Qed.

(* ---- only negative lookahead treats a fatal exception as a non-match: NotAny continues as if its expression failed *)
Theorem C07_negative_lookahead : forall (G : env) rec a i c s pl d x,
  rec (mkargs c s pl d true) = Some (Err x) -> is_fatal (xk x) = true ->
  run rec (impl G (Enh a i ENot c) s pl d (step_k (Enh a i ENot c) s d pl)) =
  run rec (finish (Enh a i ENot c) d pl pl (RList [])).
Proof. exact notany_swallows. Qed.

(* non-vacuity: ('a' - 'b') | 'a'  on "ac": the error stop makes the MatchFirst raise ParseSyntaxException at 1
   instead of trying the second alternative *)
Example C07_instance :
  let at_ id cp asl := {| nid := id; rsname := None; modalr := true; aslist := asl; skipws := true; white := [32%N]; callpre := cp;
                          mayidx := false; custom := false; hasmsg := true; acts := []; calltry := false; slen := 3 |} in
  let lit c id := Tok (at_ id true false) [] (KLit [c]) in
  let g := Nary (at_ 10 false false) [] NMatchFirst
             [Nary (at_ 11 true true) [] NAnd [lit 97%N 1; Tok (at_ 2 true false) [] KErrorStop; lit 98%N 3]; lit 97%N 1] in
  exists m el, parse (step []) 10 (mkargs g [97; 99]%N 0 true true) = Some (Err (mkx XSyntax 1 m el))
  /\ transparent1 g = true.
Proof. vm_compute. eexists. eexists. split; reflexivity. Qed.

(* ---- Forward under enable_left_recursion(): the growth loop of Forward.parseImpl (Model/LR.v lr_loop) catches ParseException only.
   Whatever the memo holds, however far the seed has grown, and for every semantics `rec` of the body: an exception of the body
   that is not a ParseException - ParseFatalException, ParseSyntaxException - leaves the loop at once, unchanged, *)
(* ... from the look-ahead evaluation (do_actions=False) of any round *)
Theorem C07_lr_peek_escapes : forall rec f a body s loc d prev_loc prev_peek m x m1,
  super_impl rec a body s loc false m = Some (Err x, m1) -> is_pe (xk x) = false ->
  lr_loop rec (S f) a body s loc d prev_loc prev_peek m = Some (Err x, m1).
Proof. exact lr_loop_peek_escapes. Qed.

(* ... and from the action evaluation (do_actions=True) of a round that grew *)
Theorem C07_lr_act_escapes : forall rec f a body s loc prev_loc prev_peek m l r m1 x m2,
  super_impl rec a body s loc false m = Some (Ok l r, m1) -> (prev_loc < Z.of_nat l)%Z ->
  super_impl rec a body s loc true m1 = Some (Err x, m2) -> is_pe (xk x) = false ->
  lr_loop rec (S f) a body s loc true prev_loc prev_peek m = Some (Err x, m2).
Proof. exact lr_loop_act_escapes. Qed.

(* Forward.parseImpl itself: a fatal exception of the body's first evaluation leaves the Forward with its class unchanged
   (the exception's location/element may be filled in by ParseElementEnhance.parseImpl), for every memo without an entry here *)
Theorem C07_lr_forward_fatal : forall rec a body s loc d m x0 m1,
  memo_get m (loc, nid a, d) = None ->
  (forall m', rec m' (mkargs body s loc false false) = Some (Err x0, m1)) ->
  is_fatal (xk x0) = true ->
  exists x, lr_forward rec a body s loc d m = Some (Err x, m1) /\ xk x = xk x0.
Proof. exact lr_forward_fatal_escapes. Qed.

(* the `except ParseException:` clauses of that loop, as the source has them now (Gen/GenMemo.v is regenerated from /repo) *)
Theorem C07_lr_source_pinned : lr_source_text.
Proof. exact lr_source_pinned. Qed.

(* ============================================================================================================= *)
(* Or, Each, stop_on, SkipTo: the elements that do not simply let a fatal exception through (Proofs/FatalAlt.v).    *)
(* One-level statements: for EVERY handler `rec` (whatever the sub-expressions do), every input, every continuation *)
(* `k` of parseImpl (with k := step_k e s d pl, `k (inl (IExc x))` is `Ret (Err x)`: the element raises x).         *)
(* ============================================================================================================= *)

(* ---- which of several collected fatal exceptions is raised (Or and Each share the code): the one with the greatest
   location; among those the one whose element has the longest str(); among those the first in source order
   (entries are (exception, len(str(parser_element))); the model's combined sort key needs len(str(..)) < 10^6) *)
Theorem C07_pick_fatal : forall fatals fx,
  Forall short_name fatals -> pick_fatal fatals = Some fx ->
  exists l1 n l2, fatals = l1 ++ (fx, n) :: l2 /\
    (forall y m, In (y, m) l1 -> (xloc y < xloc fx)%Z \/ (xloc y = xloc fx /\ m < n)) /\
    (forall y m, In (y, m) l2 -> (xloc y < xloc fx)%Z \/ (xloc y = xloc fx /\ m <= n)).
Proof. exact pick_fatal_spec. Qed.

(* ---- Or.parseImpl = optional preParse, then `or_body` (first pass over all alternatives with do_actions=False and
   raise_fatal=True, then `or_select`: re-parse of the matches longest first, or the collected fatal exception, or the
   ParseException with the greatest location) *)
Theorem C07_or_unfold : forall G a i es s pl d k,
  impl G (Nary a i NOr es) s pl d k =
  if forallb (fun c => callpre (attrs_of c)) es
  then pre_parse (fail_of k) (Nary a i NOr es) s pl (or_body k (Nary a i NOr es) es s d)
  else or_body k (Nary a i NOr es) es s d pl.
Proof. exact impl_or. Qed.

(* (1) every alternative fails in the first pass (ParseException, fatal, or IndexError) and at least one of them with a
   fatal exception: the Or raises a fatal exception - the one pick_fatal chooses among those collected (each with its
   parser_element set to the alternative) - never a ParseException, never a success *)
Theorem C07_or_no_match : forall rec k e es s d loc os,
  pass1_answers rec s loc es os ->
  or_matches es os = [] ->
  existsb fatal_out os = true ->
  exists fx, pick_fatal (or_fatals es os) = Some fx /\ is_fatal (xk fx) = true /\
             run rec (or_body k e es s d loc) = run rec (k (inl (IExc fx))).
Proof. exact or_no_match. Qed.

(* ('a' - 'b') ^ 'b' on "ac": ParseSyntaxException at 1 *)
Example C07_or_no_match_instance :
  let at_ id cp asl mi sw sl := {| nid := id; rsname := None; modalr := true; aslist := asl; skipws := sw; white := [9; 10; 13; 32]%N;
                                   callpre := cp; mayidx := mi; custom := false; hasmsg := true; acts := []; calltry := false; slen := sl |} in
  let lit c id := Tok (at_ id true false false true 3) [] (KLit [c]) in
  let es := [Nary (at_ 2 true true true true 11) [] NAnd [lit 97%N 3; Tok (at_ 4 true false false false 1) [] KErrorStop; lit 98%N 5]; lit 98%N 5] in
  let g := Nary (at_ 1 false true true true 19) [] NOr es in
  let s := [97; 99]%N in
  let rec := parse (step []) 10 in
  exists os, pass1_answers rec s 0 es os /\ or_matches es os = [] /\ existsb fatal_out os = true /\
             rec (mkargs g s 0 true true) = Some (Err (mkx XSyntax 1 (MNode 5 0) (Some 2))).
Proof.
  cbv zeta. eexists. split.
  { repeat (apply Forall2_cons; [split; [vm_compute; reflexivity|reflexivity]|]). apply Forall2_nil. }
  vm_compute. repeat split; reflexivity.
Qed.

(* two fatal exceptions: ('a' - 'b') ^ ('a' + 'c' - 'd') on "acx": the one with the greater location (2, of the second
   alternative) is raised *)
Example C07_or_no_match_two_fatals_instance :
  let at_ id cp asl mi sw sl := {| nid := id; rsname := None; modalr := true; aslist := asl; skipws := sw; white := [9; 10; 13; 32]%N;
                                   callpre := cp; mayidx := mi; custom := false; hasmsg := true; acts := []; calltry := false; slen := sl |} in
  let lit c id := Tok (at_ id true false false true 3) [] (KLit [c]) in
  let es := [Nary (at_ 2 true true true true 11) [] NAnd [lit 97%N 3; Tok (at_ 4 true false false false 1) [] KErrorStop; lit 98%N 5];
             Nary (at_ 6 true true true true 15) [] NAnd [lit 97%N 3; lit 99%N 7; Tok (at_ 8 true false false false 1) [] KErrorStop; lit 100%N 9]] in
  let g := Nary (at_ 1 false true true true 31) [] NOr es in
  let s := [97; 99; 120]%N in
  let rec := parse (step []) 10 in
  exists os, pass1_answers rec s 0 es os /\ or_matches es os = [] /\ existsb fatal_out os = true /\
             length (or_fatals es os) = 2 /\
             rec (mkargs g s 0 true true) = Some (Err (mkx XSyntax 2 (MNode 9 0) (Some 6))).
Proof.
  cbv zeta. eexists. split.
  { repeat (apply Forall2_cons; [split; [vm_compute; reflexivity|reflexivity]|]). apply Forall2_nil. }
  vm_compute. repeat split; reflexivity.
Qed.

(* (2a) some alternative matches in the first pass, do_actions = False: the fatal exceptions raised by OTHER alternatives
   are dropped (the documented exception to "never swallowed") - the Or answers with the longest match, the first of the
   longest in source order *)
Theorem C07_or_some_match_noact : forall rec k e es s loc os,
  pass1_answers rec s loc es os ->
  or_matches es os <> [] ->
  exists c l r, In c es /\ rec (mkargs c s loc false true) = Some (Ok l r) /\
    (forall l' c', In (l', c') (or_matches es os) -> l' <= l) /\
    run rec (or_body k e es s false loc) = run rec (k (inr (l, RPR r))).
Proof. exact or_some_match_noact. Qed.

(* (2b) the same with do_actions = True.  Let c be the longest match of the first pass (first of the longest), ending at l1.
   - c matches again (now with actions) at least as far: that is the Or's answer; the fatal exceptions are dropped;
   - c now raises something that is not a ParseException - a fatal condition, a fatal parse action: the Or raises it at
     once, whatever the other alternatives would do (a fatal exception of the second pass propagates);
   - every match of the first pass fails with a ParseException when re-parsed with actions, so that no alternative matches
     after all: the fatal exception collected in the first pass is raised now *)
Theorem C07_or_some_match : forall rec k e es s loc os,
  pass1_answers rec s loc es os ->
  or_matches es os <> [] ->
  exists c l1, In c es /\ (exists r, rec (mkargs c s loc false true) = Some (Ok l1 r)) /\
    (forall l' c', In (l', c') (or_matches es os) -> l' <= l1) /\
    (forall l2 r2, rec (mkargs c s loc true true) = Some (Ok l2 r2) -> l1 <= l2 ->
       run rec (or_body k e es s true loc) = run rec (k (inr (l2, RPR r2)))) /\
    (forall x, rec (mkargs c s loc true true) = Some (Err x) -> is_pe (xk x) = false ->
       run rec (or_body k e es s true loc) = run rec (fail_of k x)) /\
    (Forall (fun lc => exists x, rec (mkargs (snd lc) s loc true true) = Some (Err x) /\ is_pe (xk x) = true) (or_matches es os) ->
       forall fx, pick_fatal (or_fatals es os) = Some fx ->
       is_fatal (xk fx) = true /\ run rec (or_body k e es s true loc) = run rec (k (inl (IExc fx)))).
Proof. exact or_pass2. Qed.

(* the second pass as a whole: a fatal answer to ANY call made with do_actions = True (a re-parse of the second pass, an
   ignore expression during preParse) makes the Or's answer fatal *)
Theorem C07_or_pass2_never_swallowed : forall (G : env) rec a i es s pl d o,
  run_seen_w a_do rec (impl G (Nary a i NOr es) s pl d (step_k (Nary a i NOr es) s d pl)) false = Some (true, o) ->
  fatal_out o = true.
Proof. exact or_pass2_never_swallowed. Qed.

(* ('a' - 'b') ^ 'a' on "ac": the first alternative raises ParseSyntaxException at 1, the second matches: the Or returns
   ['a'];  ('a' - 'b') ^ ('a' + 'c') on "ac": returns ['a', 'c'] *)
Example C07_or_some_match_instance :
  let at_ id cp asl mi sw sl := {| nid := id; rsname := None; modalr := true; aslist := asl; skipws := sw; white := [9; 10; 13; 32]%N;
                                   callpre := cp; mayidx := mi; custom := false; hasmsg := true; acts := []; calltry := false; slen := sl |} in
  let lit c id := Tok (at_ id true false false true 3) [] (KLit [c]) in
  let stop_ab := Nary (at_ 2 true true true true 11) [] NAnd [lit 97%N 3; Tok (at_ 4 true false false false 1) [] KErrorStop; lit 98%N 5] in
  let es1 := [stop_ab; lit 97%N 3] in
  let es2 := [stop_ab; Nary (at_ 6 true true true true 9) [] NAnd [lit 97%N 3; lit 99%N 7]] in
  let s := [97; 99]%N in
  let rec := parse (step []) 10 in
  (exists os, pass1_answers rec s 0 es1 os /\ or_matches es1 os <> [] /\ existsb fatal_out os = true /\
     exists r, rec (mkargs (Nary (at_ 1 false true true true 19) [] NOr es1) s 0 true true) = Some (Ok 1 r) /\ pr_as_list r = [TStr [97%N]]) /\
  (exists os, pass1_answers rec s 0 es2 os /\ or_matches es2 os <> [] /\ existsb fatal_out os = true /\
     exists r, rec (mkargs (Nary (at_ 1 false true true true 25) [] NOr es2) s 0 true true) = Some (Ok 2 r) /\
               pr_as_list r = [TStr [97%N]; TStr [99%N]]).
Proof.
  cbv zeta. split; eexists; (split;
    [repeat (apply Forall2_cons; [split; [vm_compute; reflexivity|reflexivity]|]); apply Forall2_nil|]);
  (split; [vm_compute; discriminate|]); (split; [vm_compute; reflexivity|]); eexists; vm_compute; split; reflexivity.
Qed.

(* a fatal exception of the second pass: Word("ab").add_condition(len >= 3, fatal=True) ^ 'a' on "ab": both alternatives
   match in the first pass (no actions there); the re-parse of the longer one raises ParseFatalException, and that is the
   Or's answer although 'a' matches *)
Example C07_or_pass2_fatal_instance :
  let at_ id cp asl mi sw sl ac := {| nid := id; rsname := None; modalr := true; aslist := asl; skipws := sw; white := [9; 10; 13; 32]%N;
                                   callpre := cp; mayidx := mi; custom := false; hasmsg := true; acts := ac; calltry := false; slen := sl |} in
  let es := [Tok (at_ 2 true false false true 6 [ACond 3 true 7]) [] (KWord [97; 98]%N [97; 98]%N 1 None false false true);
             Tok (at_ 3 true false false true 3 []) [] (KLit [97%N])] in
  let g := Nary (at_ 1 false false true true 14 []) [] NOr es in
  let s := [97; 98]%N in
  let rec := parse (step []) 10 in
  exists os x, pass1_answers rec s 0 es os /\ length (or_matches es os) = 2 /\
    rec (mkargs (hd g es) s 0 true true) = Some (Err x) /\ is_fatal (xk x) = true /\
    rec (mkargs g s 0 true true) = Some (Err x).
Proof.
  cbv zeta. eexists. eexists. split.
  { repeat (apply Forall2_cons; [split; [vm_compute; reflexivity|reflexivity]|]). apply Forall2_nil. }
  split; [vm_compute; reflexivity|]. split; [vm_compute; reflexivity|]. split; vm_compute; reflexivity.
Qed.

(* the match of the first pass is lost in the second: ('a' - 'b') ^ Word("ab").add_condition(len >= 3) on "ac": the Word
   matches "a" without actions, its condition fails with them; nothing matches and the ParseSyntaxException is raised *)
Example C07_or_match_lost_instance :
  let at_ id cp asl mi sw sl ac := {| nid := id; rsname := None; modalr := true; aslist := asl; skipws := sw; white := [9; 10; 13; 32]%N;
                                   callpre := cp; mayidx := mi; custom := false; hasmsg := true; acts := ac; calltry := false; slen := sl |} in
  let lit c id := Tok (at_ id true false false true 3 []) [] (KLit [c]) in
  let es := [Nary (at_ 2 true true true true 11 []) [] NAnd [lit 97%N 3; Tok (at_ 4 true false false false 1 []) [] KErrorStop; lit 98%N 5];
             Tok (at_ 6 true false false true 6 [ACond 3 false 7]) [] (KWord [97; 98]%N [97; 98]%N 1 None false false true)] in
  let g := Nary (at_ 1 false true true true 22 []) [] NOr es in
  let s := [97; 99]%N in
  let rec := parse (step []) 10 in
  exists os, pass1_answers rec s 0 es os /\ or_matches es os <> [] /\
    Forall (fun lc => exists x, rec (mkargs (snd lc) s 0 true true) = Some (Err x) /\ is_pe (xk x) = true) (or_matches es os) /\
    rec (mkargs g s 0 true true) = Some (Err (mkx XSyntax 1 (MNode 5 0) (Some 2))).
Proof.
  cbv zeta. eexists. split.
  { repeat (apply Forall2_cons; [split; [vm_compute; reflexivity|reflexivity]|]). apply Forall2_nil. }
  split; [vm_compute; discriminate|]. split; [|vm_compute; reflexivity].
  match goal with |- Forall _ ?l => let l' := eval vm_compute in l in change l with l' end.
  apply Forall_cons; [|apply Forall_nil]. eexists. split; [vm_compute; reflexivity|reflexivity].
Qed.

(* ---- Each.parseImpl = the `while keepMatching` loop (each_loop: one each_round per turn) followed by each_final
   (raise the collected fatal exception / "Missing one or more required elements" / the second pass each_go2) *)
Theorem C07_each_unfold : forall G a i info es s pl d k,
  impl G (Nary a i (NEach info) es) s pl d k =
  each_loop (fail_of k) es s (each_fuel (length s) (each_reqd es info) (each_opts es info) (each_multis es info)) pl
            (each_reqd es info) (each_opts es info) (each_multis es info) [] (each_final k es info s pl d).
Proof. exact impl_each. Qed.

(* (3a) a round (at any stage of the loop: tl, the operands still required / optional, the repeatable ones) in which no operand
   matches - each fails with a ParseException or a fatal exception - and at least one raised a fatal exception: the loop
   ends and Each raises the fatal exception pick_fatal chooses among those of THIS round *)
Theorem C07_each_no_match : forall rec k es info s loc d f tl reqd opt multis mo os,
  round_ans rec s (reqd ++ opt ++ multis) tl os ->
  existsb is_ok os = false ->
  existsb fatal_out os = true ->
  exists fx, pick_fatal (or_fatals (map ee_e (reqd ++ opt ++ multis)) os) = Some fx /\ is_fatal (xk fx) = true /\
    run rec (each_loop (fail_of k) es s (S f) tl reqd opt multis mo (each_final k es info s loc d)) = run rec (k (inl (IExc fx))).
Proof. exact each_no_match. Qed.

(* (3b) a round in which some operand matches: the loop goes round again (or spins, when nothing changed) from the state
   each_round_sum computes from the END POSITIONS OF THE MATCHES alone (`map ok_end os`): the fatal exceptions collected in
   this round are dropped by `fatals.clear()`, and a fatal failure is treated exactly like a ParseException *)
Theorem C07_each_some_match : forall rec fail es s f tl reqd opt multis mo K os tl' reqd' opt' mo',
  round_ans rec s (reqd ++ opt ++ multis) tl os ->
  existsb is_ok os = true ->
  each_round_sum es (reqd ++ opt ++ multis) (map ok_end os) tl reqd opt mo = (tl', reqd', opt', mo') ->
  run rec (each_loop fail es s (S f) tl reqd opt multis mo K) =
  if Nat.eqb tl' tl && Nat.eqb (length reqd') (length reqd) && Nat.eqb (length opt') (length opt)
  then Some Div
  else run rec (each_loop fail es s f tl' reqd' opt' multis mo' K).
Proof. exact each_round_with_match. Qed.

(* the second pass of Each (and the ignore expressions): a fatal answer to any call made with do_actions = True propagates;
   and whatever do_actions is, a fatal answer to any call of the second pass `for e in matchOrder` does *)
Theorem C07_each_pass2_never_swallowed : forall (G : env) rec a i info es s pl d o,
  run_seen_w a_do rec (impl G (Nary a i (NEach info) es) s pl d (step_k (Nary a i (NEach info) es) s d pl)) false = Some (true, o) ->
  fatal_out o = true.
Proof. exact each_pass2_never_swallowed. Qed.

Theorem C07_each_go2_never_swallowed : forall rec e s d pl dd mo loc acc o,
  run_seen rec (each_go2 (step_k e s d pl) s dd mo loc acc) false = Some (true, o) -> fatal_out o = true.
Proof. exact each_go2_never_swallowed. Qed.

(* ('a' - 'b') & 'c' on "ad": first round, nothing matches, the first operand raised ParseSyntaxException at 1: raised.
   ('a' - 'b') & ('a' + 'c') on "ac ab": in the first round the first operand raises ParseSyntaxException at 1 and the second
   matches "ac"; the exception is dropped, the second round matches "ab": the parse succeeds *)
Example C07_each_instance :
  let at_ id cp asl mi sw sl := {| nid := id; rsname := None; modalr := true; aslist := asl; skipws := sw; white := [9; 10; 13; 32]%N;
                                   callpre := cp; mayidx := mi; custom := false; hasmsg := true; acts := []; calltry := false; slen := sl |} in
  let lit c id := Tok (at_ id true false false true 3) [] (KLit [c]) in
  let stop_ab := Nary (at_ 2 true true true true 11) [] NAnd [lit 97%N 3; Tok (at_ 4 true false false false 1) [] KErrorStop; lit 98%N 5] in
  let info := [(false, (0, 0)); (false, (2, 2))] in
  let es1 := [stop_ab; lit 99%N 6] in
  let es2 := [stop_ab; Nary (at_ 6 true true true true 9) [] NAnd [lit 97%N 3; lit 99%N 7]] in
  let rec := parse (step []) 10 in
  (exists os, round_ans rec [97; 100]%N (each_reqd es1 info ++ each_opts es1 info ++ each_multis es1 info) 0 os /\
     existsb is_ok os = false /\ existsb fatal_out os = true /\
     rec (mkargs (Nary (at_ 1 false true true true 19) [] (NEach info) es1) [97; 100]%N 0 true true) = Some (Err (mkx XSyntax 1 (MNode 5 0) (Some 2)))) /\
  (exists os, round_ans rec [97; 99; 32; 97; 98]%N (each_reqd es2 info ++ each_opts es2 info ++ each_multis es2 info) 0 os /\
     existsb is_ok os = true /\ existsb fatal_out os = true /\
     exists r, rec (mkargs (Nary (at_ 1 false true true true 25) [] (NEach info) es2) [97; 99; 32; 97; 98]%N 0 true true) = Some (Ok 5 r) /\
               pr_as_list r = [TStr [97%N]; TStr [99%N]; TStr [97%N]; TStr [98%N]]).
Proof.
  cbv zeta. split.
  - eexists. split.
    { match goal with |- round_ans _ _ ?l _ _ => let l1 := eval vm_compute in l in change l with l1 end. eapply RA_err; [vm_compute; reflexivity|reflexivity|]. eapply RA_err; [vm_compute; reflexivity|reflexivity|]. apply RA_nil. }
    vm_compute. repeat split; reflexivity.
  - eexists. split.
    { match goal with |- round_ans _ _ ?l _ _ => let l1 := eval vm_compute in l in change l with l1 end. eapply RA_err; [vm_compute; reflexivity|reflexivity|]. eapply RA_ok; [vm_compute; reflexivity|]. apply RA_nil. }
    split; [reflexivity|]. split; [reflexivity|]. eexists. vm_compute. split; reflexivity.
Qed.

(* ---- stop_on.  _MultipleMatch.parseImpl's loop `rep_go` = skip the ignorables, then the sentinel check behind them
   (rep_check: not_ender.try_parse(instring, preloc)), then, unless that raised, rep_body: parse the body, go round again *)
Theorem C07_rep_go_unfold : forall k foe e body ne s d f loc acc,
  rep_go k foe e body ne s d (S f) loc acc =
  skip_ignorables (fun x => rep_stop k foe loc acc (Err x)) (length s + 2) (ign_of e) s loc
                  (rep_check k foe e body ne s d f loc acc).
Proof. exact rep_go_unfold. Qed.

Theorem C07_rep_check_unfold : forall k foe e body ne s d f loc acc preloc,
  rep_check k foe e body ne s d f loc acc preloc =
  check_ender ne s preloc (fun r => match r with
                                    | Some o => rep_stop k foe loc acc o
                                    | None => rep_body k foe e body ne s d f loc acc preloc
                                    end).
Proof. reflexivity. Qed.

(* (4a) the sentinel c (not_ender = ~c, a NotAny without ignore expressions or parse actions, evaluated by the handler according
   to its own `step`) raises a fatal exception where the check is made: "the sentinel is not here" - the repetition goes on and
   tries its body; only negative lookahead treats a fatal exception as a non-match *)
Theorem C07_stop_on : forall (G : env) rec k foe e body an c s d f loc acc x,
  acts an = [] ->
  rec (mkargs (Enh an [] ENot c) s loc false true) = run rec (step G (mkargs (Enh an [] ENot c) s loc false true)) ->
  rec (mkargs c s (ender_loc an s loc) false true) = Some (Err x) -> is_fatal (xk x) = true ->
  forall loc0,
  run rec (rep_check k foe e body (Some (Enh an [] ENot c)) s d f loc0 acc loc) =
  run rec (rep_body k foe e body (Some (Enh an [] ENot c)) s d f loc0 acc loc).
Proof. exact stop_on_fatal_sentinel. Qed.

(* (4b) nor can the check itself let one out: a fatal answer of `not_ender.try_parse(instring, preloc)` (raise_fatal defaults to
   False) arrives as a ParseException, i.e. "the sentinel is here": the loop ends with what it has *)
Theorem C07_stop_on_check_never_fatal : forall rec k foe e body ne s d f loc acc x,
  rec (mkargs ne s loc false true) = Some (Err x) -> is_fatal (xk x) = true ->
  forall loc0,
  run rec (rep_check k foe e body (Some ne) s d f loc0 acc loc) = run rec (k (inr (loc0, RPR acc))).
Proof. exact stop_on_check_never_fatal. Qed.

(* (4c) everything else a repetition with stop_on calls - its body, its ignore expressions - is transparent: whatever set of
   calls is watched, provided no sentinel check is in it, a fatal answer to a watched call makes the repetition's answer fatal *)
Theorem C07_stop_on_body_never_swallowed : forall (G : env) watch rec a i z body ne s pl d o,
  (forall l, watch (mkargs ne s l false true) = false) ->
  run_seen_w watch rec (impl G (Rep a i z body (Some ne)) s pl d (step_k (Rep a i z body (Some ne)) s d pl)) false = Some (true, o) ->
  fatal_out o = true.
Proof. exact rep_stop_on_never_swallowed. Qed.

(* OneOrMore(Word("ab"), stop_on = 'b' - 'c') on "a b x": after "a" the sentinel check at 1 runs into the error stop
   ('b' found, 'c' missing: ParseSyntaxException at 4); the repetition continues and also takes "b": ['a', 'b'], end 3.
   (With "a b c" the sentinel matches and the result is ['a'].)  And with the error stop in the BODY, OneOrMore('a' - 'b',
   stop_on = 'c') on "ab ax": ParseSyntaxException at 4. *)
Example C07_stop_on_instance :
  let at_ id cp asl mi sw sl hm := {| nid := id; rsname := None; modalr := true; aslist := asl; skipws := sw; white := [9; 10; 13; 32]%N;
                                   callpre := cp; mayidx := mi; custom := false; hasmsg := hm; acts := []; calltry := false; slen := sl |} in
  let lit c id := Tok (at_ id true false false true 3 true) [] (KLit [c]) in
  let sentinel := Nary (at_ 3 true true true true 13 true) [] NAnd [lit 98%N 5; Tok (at_ 6 true false false false 1 true) [] KErrorStop; lit 99%N 7] in
  let an := at_ 2 true true true false 16 true in
  let body := Tok (at_ 8 true false false true 6 true) [] (KWord [97; 98]%N [97; 98]%N 1 None false false true) in
  let g := Rep (at_ 1 true true false true 11 false) [] false body (Some (Enh an [] ENot sentinel)) in
  let s := [97; 32; 98; 32; 120]%N in
  let rec := parse (step []) 10 in
  acts an = [] /\
  rec (mkargs (Enh an [] ENot sentinel) s 1 false true) = run rec (step [] (mkargs (Enh an [] ENot sentinel) s 1 false true)) /\
  (exists x, rec (mkargs sentinel s (ender_loc an s 1) false true) = Some (Err x) /\ is_fatal (xk x) = true /\ xloc x = 4%Z) /\
  (exists r, rec (mkargs g s 0 true true) = Some (Ok 3 r) /\ pr_as_list r = [TStr [97%N]; TStr [98%N]]) /\
  (exists r, rec (mkargs g [97; 32; 98; 32; 99]%N 0 true true) = Some (Ok 1 r) /\ pr_as_list r = [TStr [97%N]]) /\
  (let stop_ab := Nary (at_ 12 true true true true 11 true) [] NAnd [lit 97%N 13; Tok (at_ 14 true false false false 1 true) [] KErrorStop; lit 98%N 15] in
   let g2 := Rep (at_ 1 true true true true 11 false) [] false stop_ab (Some (Enh an [] ENot (lit 99%N 7))) in
   exists m el, rec (mkargs g2 [97; 98; 32; 97; 120]%N 0 true true) = Some (Err (mkx XSyntax 4 m el))).
Proof.
  cbv zeta. split; [reflexivity|]. split; [vm_compute; reflexivity|].
  split; [eexists; vm_compute; repeat split; reflexivity|].
  split; [eexists; vm_compute; split; reflexivity|].
  split; [eexists; vm_compute; split; reflexivity|].
  eexists. eexists. vm_compute. reflexivity.
Qed.

(* ---- SkipTo.  One position of the scan = the fail_on test, then skipto_try: the ignorer, then the target *)
Theorem C07_skipto_scan_unfold : forall fail f e target ignorer failon s loc0 tmploc K,
  skipto_scan fail (S f) e target ignorer failon s loc0 tmploc K =
  if Nat.ltb (length s) tmploc then fail (mkx XParse (Z.of_nat loc0) (MNode (nid (attrs_of e)) 0) (Some (nid (attrs_of e))))
  else match failon with
       | Some fo => can_parse_next fail fo s tmploc false
                      (fun b => if b then fail (mkx XParse (Z.of_nat loc0) (MNode (nid (attrs_of e)) 0) (Some (nid (attrs_of e))))
                                else skipto_try fail f e target ignorer failon s loc0 tmploc K)
       | None => skipto_try fail f e target ignorer failon s loc0 tmploc K
       end.
Proof. exact skipto_scan_unfold. Qed.

(* (5a) fail_on is a negative lookahead: raising a fatal exception = not matching here; the scan goes on with this position *)
Theorem C07_skipto_fail_on : forall rec fail f e target ignorer fo s loc0 tmploc K x,
  tmploc <= length s ->
  rec (mkargs fo s tmploc false true) = Some (Err x) -> is_fatal (xk x) = true ->
  run rec (skipto_scan fail (S f) e target ignorer (Some fo) s loc0 tmploc K) =
  run rec (skipto_try fail f e target ignorer (Some fo) s loc0 tmploc K).
Proof. exact skipto_failon_fatal. Qed.

(* (5b) so is the ignorer (`except ParseBaseException: break`): a fatal exception ends the skipping of ignorables here *)
Theorem C07_skipto_ignorer : forall rec fail f ig s tl K x,
  rec (mkargs ig s tl false true) = Some (Err x) -> is_fatal (xk x) = true ->
  run rec (skipto_ign fail (S f) ig s tl K) = run rec (K tl).
Proof. exact skipto_ign_fatal. Qed.

(* (5c) the target is not: parsed with callPreParse = False in the scan and (include=True) once more at the end, a fatal
   answer to any of these calls makes SkipTo's answer fatal *)
Theorem C07_skipto_target_never_swallowed : forall (G : env) rec a i target incl igs failon s pl d o,
  run_seen_w (fun ar => negb (a_pre ar)) rec
             (impl G (Skip a i target incl igs failon) s pl d (step_k (Skip a i target incl igs failon) s d pl)) false = Some (true, o) ->
  fatal_out o = true.
Proof. exact skipto_target_never_swallowed. Qed.

(* SkipTo('x', fail_on = 'a' - 'b') on "ac x": fail_on raises ParseSyntaxException at 1 when tried at 0; the scan goes on
   and returns ['ac '].  SkipTo('a' - 'b') on "x ac": ParseSyntaxException at 3. *)
Example C07_skipto_instance :
  let at_ id cp asl mi sw sl := {| nid := id; rsname := None; modalr := true; aslist := asl; skipws := sw; white := [9; 10; 13; 32]%N;
                                   callpre := cp; mayidx := mi; custom := false; hasmsg := true; acts := []; calltry := false; slen := sl |} in
  let lit c id := Tok (at_ id true false false true 3) [] (KLit [c]) in
  let stop_ab := Nary (at_ 2 true true true true 11) [] NAnd [lit 97%N 4; Tok (at_ 5 true false false false 1) [] KErrorStop; lit 98%N 6] in
  let g := Skip (at_ 1 true false false true 12) [] (lit 120%N 7) false [] (Some stop_ab) in
  let s := [97; 99; 32; 120]%N in
  let rec := parse (step []) 10 in
  (exists x, rec (mkargs stop_ab s 0 false true) = Some (Err x) /\ is_fatal (xk x) = true) /\
  (exists r, rec (mkargs g s 0 true true) = Some (Ok 3 r) /\ pr_as_list r = [TStr [97; 99; 32]%N]) /\
  (exists m el, rec (mkargs (Skip (at_ 1 true false false true 12) [] stop_ab false [] None) [120; 32; 97; 99]%N 0 true true)
                = Some (Err (mkx XSyntax 3 m el))).
Proof.
  cbv zeta. split; [eexists; vm_compute; split; reflexivity|].
  split; [eexists; vm_compute; split; reflexivity|]. eexists. eexists. vm_compute. reflexivity.
Qed.
