(* C11 — ParseResults copies, pickles and concatenations preserve both views.
   Statements only.  Value level: Model/Results.v + Model/ResultsAPI.v (views: Model/ResultsSpec.v).
   Heap level (object identity, sharing, in-place mutation): Model/ResultsHeap.v.
   State of the code these statements are about: the tree repaired by notes/C11-fix.diff
   (`__getstate__` returns a copy of the token list; `__init__` adds a list-all name instead of replacing the set).
   The behaviour of the pinned 3.2.4 tree is kept as explicit "old" functions with their refutations. *)
From Coq Require Import List ZArith NArith Bool.
From PP Require Import Model.Str Model.Results Model.ResultsAPI Model.ResultsSpec Model.ResultsHeap
                       Proofs.ResultsProofs Proofs.ResultsHeapProofs Proofs.FromDictProofs.
Import ListNotations.

(* ------------------------------------------------------------------------------------------------------ *)
(* value level                                                                                               *)
(* ------------------------------------------------------------------------------------------------------ *)
(* `observations` = (as_list(), as_dict(), keys, len, dump(), str(), repr()) ; all are functions of the views *)
Theorem C11_observations_of_view : forall r, observations r = spec_observations (view r).
Proof. exact observations_of_view. Qed.

Theorem C11_copy_view : forall r, view (copy r) = view r /\ observations (copy r) = observations r /\ rname (copy r) = rname r.
Proof. intros r. split; [apply copy_same_view|split; [apply same_view_same_observations, copy_same_view|reflexivity]]. Qed.

Theorem C11_deepcopy_view : forall r, view (deepcopy r) = view r /\ observations (deepcopy r) = observations r.
Proof. intros r. split; [apply deepcopy_same_view|apply same_view_same_observations, deepcopy_same_view]. Qed.

(* pickle / copy.copy / copy.deepcopy all go through __getstate__ / __setstate__ *)
Theorem C11_pickle_roundtrip : forall r,
  view (pickle_roundtrip r) = view r /\ observations (pickle_roundtrip r) = observations r /\
  rname (pickle_roundtrip r) = rname r /\ getstate (pickle_roundtrip r) = getstate r.
Proof. intros r. repeat split. Qed.

Example C11_copies_instance :
  let r := pr_iadd (pr_init (RList [TPR (pr_of_list [TStr [97%N]]); TInt 3%Z]) (Some [103%N]) true true)
                   (pr_init (RList [TStr [99%N]]) (Some [120%N]) false false) in
  observations (deepcopy r) = observations r /\ keys r = [[103%N]; [120%N]] /\ len r = 3%Z /\ pr_dump r <> [].
Proof. vm_compute. repeat split. discriminate. Qed.

(* concatenation: +, += and sum() append the token lists in order and merge the names exactly as the list+multimap
   specification says; the list view is a monoid; the empty result is a right identity on all views *)
Theorem C11_monoid_partial :
  (forall a b, view (add a b) = spec_add (view a) (view b)) /\
  (forall a b, view (iadd a b) = spec_iadd (view a) (view b)) /\
  (forall a b, av_list (view (add a b)) = av_list (view a) ++ av_list (view b)) /\
  (forall a b c, av_list (view (add (add a b) c)) = av_list (view (add a (add b c)))) /\
  (forall r, view (add r pr_empty) = view r) /\
  (forall r0 l, pr_sum (r0 :: l) = Some (fold_left add l (copy r0)) /\
                av_list (view (fold_left add l (copy r0))) = av_list (view r0) ++ flat_map (fun r => av_list (view r)) l).
  (* missing for the full statement: associativity and left identity on the NAME view; both FAIL on the list-all
     flags (next theorem); on the multimap itself they are checked by correspondence only *)
Proof.
  repeat split.
  - exact add_view.
  - exact iadd_view.
  - intros a b. rewrite add_view. apply spec_add_list.
  - exact add_assoc_list.
  - exact add_empty_r.
  - rewrite sum_list_view. unfold copy. now rewrite copy_view, spec_copy_id.
Qed.

(* associativity FAILS on the name view: `if not other: return self` skips a falsy operand together with its
   `_all_names`, so ((a + b) + c)['x'] is the last value while (a + (b + c))['x'] is the list of all values,
   for a = PR(['u'],'x',asList=False), b = PR([],'x',modal=False) (e.g. a ZeroOrMore(...)("x*") that matched nothing),
   c = PR(['v'],'x',asList=False) *)
Theorem C11_monoid_assoc_refuted :
  getitem_name (add (add mono_a mono_b) mono_c) [120%N] = Some (TStr [118%N]) /\
  getitem_name (add mono_a (add mono_b mono_c)) [120%N] = Some (TPR (pr_of_list [TStr [117%N]; TStr [118%N]])).
Proof. exact add_assoc_refuted. Qed.

(* F-05 on the pinned tree (kept as an explicit old function): wrapping a result that carries the list-all name x
   under its own list-all name y forgets x *)
Example C11_init_old_forgets_listall :
  let inner := pr_iadd (pr_init_old (RList [TStr [97%N]]) (Some [120%N]) false false)
                       (pr_init_old (RList [TStr [98%N]]) (Some [120%N]) false false) in
  allnames (pr_init_old (RPR inner) (Some [121%N]) true false) = [[121%N]] /\
  allnames (pr_init (RPR inner) (Some [121%N]) true false) = [[120%N]; [121%N]].
Proof. vm_compute. split; reflexivity. Qed.

(* ------------------------------------------------------------------------------------------------------ *)
(* heap level                                                                                                *)
(* ------------------------------------------------------------------------------------------------------ *)
(* after c = r.copy(), NO sequence of own-token / own-name mutations of c (append, extend, insert, del, item
   assignment, c[k] = v, del c[k], clear, c += other) changes the views of r — although `del`/`insert` do rewrite, in
   place, the occurrence lists that c shares with r (only stored positions change, which no view reads) *)
Theorem C11_copy_independent : forall h r h1 c ms fuel,
  closed (length h) h -> r < length h -> h_copy h r = Some (h1, c) ->
  viewH fuel (fold_left (fun hh m => mstep hh c m) ms h1) r = viewH fuel h r.
Proof. exact copy_independent. Qed.

Example C11_copy_independent_instance :
  let h := dm_heap in
  closed (length h) h /\ exists h1 c, h_copy h 4 = Some (h1, c) /\
  (* the shared occurrence list (address 3) really is rewritten by `c.insert(0, ..)` *)
  nth_error (mstep h1 c (MInsert (-1)%Z (VS (TStr [90%N])))) 3 = Some (OOcc [(VRef 1, 1%Z)]) /\
  viewH 3 (mstep h1 c (MInsert (-1)%Z (VS (TStr [90%N])))) 4 = viewH 3 h 4 /\ viewH 3 h 4 <> HBad.
Proof.
  split.
  - exact dm_heap_closed.
  - eexists. eexists. split; [vm_compute; reflexivity|]. vm_compute. repeat split. discriminate.
Qed.

(* copy.copy(r) on the repaired tree *)
Theorem C11_copycopy_independent : forall h r h1 c ms fuel,
  closed (length h) h -> r < length h -> h_copycopy false h r = Some (h1, c) ->
  viewH fuel (fold_left (fun hh m => mstep hh c m) ms h1) r = viewH fuel h r.
Proof. exact copycopy_fixed_independent. Qed.

(* ... and on the pinned tree (`__getstate__` hands out the live list): one append to the copy shows up in r *)
Theorem C11_copycopy_old_refuted : exists h r h1 c m fuel,
  closed (length h) h /\ r < length h /\ h_copycopy true h r = Some (h1, c) /\
  viewH fuel (mstep h1 c m) r <> viewH fuel h r.
Proof. exact copycopy_live_refuted. Qed.

(* copy.deepcopy(r) / pickle round trip: mutations of the copy and of ANY nested result reached from it (by list
   index or by name) leave r unchanged.  Values brought in must be scalars or results owned by the copy. *)
Theorem C11_deepcopy_independent : forall h r pms fuel,
  closed (length h) h -> r < length h ->
  let '(h1, c) := h_deepcopy h r in
  Forall (pm_ok (length h)) pms ->
  viewH fuel (fold_left (fun hh pm => mstep_at hh c pm) pms h1) r = viewH fuel h r.
Proof. exact deepcopy_independent. Qed.

Example C11_deepcopy_independent_instance :
  let h := dm_heap in
  let '(h1, c) := h_deepcopy h 4 in
  let pms := [([PName [103%N] 0], MAppend (VS (TStr [90%N]))); ([PIdx 0], MDelItem 0%Z)] in
  Forall (pm_ok (length h)) pms /\
  viewH 3 (fold_left (fun hh pm => mstep_at hh c pm) pms h1) c <> viewH 3 h1 c /\
  viewH 3 (fold_left (fun hh pm => mstep_at hh c pm) pms h1) 4 = viewH 3 h 4.
Proof. split; [repeat constructor|]. vm_compute. split; [discriminate|reflexivity]. Qed.

(* the deepcopy() METHOD is not deep for named values (F-11b): d['g'] is the original group, not d[0] *)
Theorem C11_deepcopy_method_refuted : exists h r fuelc h1 d path t m fuel,
  closed (length h) h /\ r < length h /\ h_deepcopy_method fuelc h r = Some (h1, d) /\
  resolve h1 d path = Some t /\ t < length h /\ resolve h1 d [PIdx 0] <> Some t /\
  viewH fuel (mstep h1 t m) r <> viewH fuel h r.
Proof. exact deepcopy_method_refuted. Qed.

(* ------------------------------------------------------------------------------------------------------ *)
(* from_dict: "ParseResults.from_dict(d).as_dict() == d for nested dicts (non-empty) of scalars and lists"        *)
(* ------------------------------------------------------------------------------------------------------ *)
(* The round trip for ALL dictionaries of the decidable class `dict_ok` (Proofs/FromDictProofs.v):
     keys      non-empty strings, pairwise distinct at every level.  Distinctness is a hypothesis only because the model writes a
               dict as the association list that `other.items()` yields; every real Python dict satisfies it;
     values    str / int / bool / None (`PV (TStr _ | TInt _ | TBool _ | TNone)`), a list (`PV (TList l)`, empty included) whose
               elements are anything but a ParseResults (nested plain lists are fine: `to_item` returns them as they are), or a
               NON-EMPTY nested dict (`PD d`, d <> [], recursively in the class);
     top level the dict itself may be empty.
   `ddict_of d` is d written as a value of as_dict(): a list is `DList` of its elements, a dict `DDict` of its values.
   _partial: EXCLUDED from the statement (each with a witness in `C11_from_dict_boundary_refuted` /
   `C11_from_dict_outside_class_refuted` below) are a nested EMPTY dict (comes back as []), an empty key (dropped), a list with a
   ParseResults element (comes back as a list / dict); NOT REPRESENTABLE in `pyval` at all: non-str keys (int keys become str),
   tuples / other iterables as values (a tuple (1,2) comes back as [(1,2)]), dicts inside lists (come back equal, by identity). *)
Theorem C11_from_dict_partial : forall d, dict_ok d = true -> as_dict (from_dict d) = ddict_of d.
Proof. exact from_dict_roundtrip. Qed.

(* the result itself, in closed form (needs only the key conditions and no ParseResults value at the top level): one token per
   item, every key with a single occurrence at the position of its token, no list-all names, no name *)
Theorem C11_from_dict_shape : forall d,
  keys_ok (map fst d) = true -> forallb (fun kv => not_pr (snd kv)) d = true ->
  from_dict d = PR (map (fun kv => item_tok (fst kv) (snd kv)) d) (named_items 0 d) [] None true.
Proof. exact from_dict_concrete. Qed.

(* the keys come back in the order of the dict *)
Theorem C11_from_dict_keys : forall d, dict_ok d = true -> keys (from_dict d) = map fst d.
Proof. exact from_dict_keys. Qed.

(* the instance below is in the class, and the theorem gives its round trip *)
Example C11_from_dict_partial_instance :
  let d := [([97%N], PV (TStr [118%N]));
            ([98%N], PD [([99%N], PV (TInt 3%Z)); ([100%N], PV (TList [TStr [112%N]; TInt 1%Z]))]);
            ([101%N], PV TNone); ([102%N], PV (TList []))] in
  dict_ok d = true /\
  as_dict (from_dict d) = ddict_of d /\
  ddict_of d = [([97%N], DTok (TStr [118%N]));
                ([98%N], DDict [([99%N], DTok (TInt 3%Z)); ([100%N], DList [DTok (TStr [112%N]); DTok (TInt 1%Z)])]);
                ([101%N], DTok TNone); ([102%N], DList [])].
Proof.
  cbv zeta. split; [vm_compute; reflexivity|]. split; [apply C11_from_dict_partial; vm_compute; reflexivity|vm_compute; reflexivity].
Qed.

(* outside the class the round trip fails: each condition of `dict_ok` is needed *)
Theorem C11_from_dict_outside_class_refuted :
  (* a nested empty dict *)
  (let d := [([97%N], PD [])] in dict_ok d = false /\ as_dict (from_dict d) <> ddict_of d) /\
  (* an empty key *)
  (let d := [([], PV (TInt 1%Z))] in dict_ok d = false /\ as_dict (from_dict d) <> ddict_of d) /\
  (* a ParseResults inside a list value *)
  (let d := [([97%N], PV (TList [TPR (pr_of_list [TInt 1%Z])]))] in dict_ok d = false /\ as_dict (from_dict d) <> ddict_of d) /\
  (* a repeated key: possible in an association list only, never in a Python dict *)
  (let d := [([97%N], PV (TInt 1%Z)); ([97%N], PV (TInt 2%Z))] in dict_ok d = false /\ as_dict (from_dict d) <> ddict_of d).
Proof. repeat split; vm_compute; try reflexivity; discriminate. Qed.

(* {'a': 'v', 'b': {'c': 3, 'd': ['p', 1]}, 'e': None, 'f': []}  round-trips (a list value comes back as the list of its items) *)
Example C11_from_dict_instance :
  as_dict (from_dict [([97%N], PV (TStr [118%N]));
                      ([98%N], PD [([99%N], PV (TInt 3%Z)); ([100%N], PV (TList [TStr [112%N]; TInt 1%Z]))]);
                      ([101%N], PV TNone); ([102%N], PV (TList []))])
  = [([97%N], DTok (TStr [118%N]));
     ([98%N], DDict [([99%N], DTok (TInt 3%Z)); ([100%N], DList [DTok (TStr [112%N]); DTok (TInt 1%Z)])]);
     ([101%N], DTok TNone); ([102%N], DList [])].
Proof. vm_compute. reflexivity. Qed.
(* a nested EMPTY dict comes back as [] ; an empty key is dropped *)
Theorem C11_from_dict_boundary_refuted :
  as_dict (from_dict [([97%N], PD [])]) = [([97%N], DList [])] /\
  as_dict (from_dict [([], PV (TInt 1%Z))]) = [].
Proof. split; vm_compute; reflexivity. Qed.

Example C11_copycopy_independent_instance :
  exists h1 c, h_copycopy false dm_heap 4 = Some (h1, c) /\
  same_toklist h1 4 c = Some false /\
  viewH 3 (mstep (mstep h1 c (MAppend (VS (TStr [90%N])))) c (MDelItem 0%Z)) 4 = viewH 3 dm_heap 4 /\
  viewH 3 (mstep (mstep h1 c (MAppend (VS (TStr [90%N])))) c (MDelItem 0%Z)) c <> viewH 3 h1 c.
Proof. eexists. eexists. split; [vm_compute; reflexivity|]. vm_compute. repeat split. discriminate. Qed.
