(* C17 — alternative matching strategies for the same element are equivalent.
   Statements only; every proof is `exact <lemma>` (or vm_compute on a closed witness).

   gen_word_strict / gen_word_guard / gen_collapse_escapes / gen_range_escapes are regenerated from
   pyparsing/core.py and util.py on every run (Gen/GenC17.v).  This file is in the state of the REPAIRED tree
   (notes/C17-fix.diff applied: the strict-max clause of Word.parseImpl removed — F-17a — and the regex construction
   guarded by a non-empty initChars — F-17c); on the unrepaired tree C17_word_source_facts fails to re-check and the
   check reports the F-17a / F-17c inputs. *)
From Coq Require Import List NArith Arith Bool.
From PP Require Import Model.Str Model.Regex Gen.GenC17 Model.ReGen Model.WordModel Model.OneOf Model.CompRe.
From PP Require Import Proofs.RegexProofs Proofs.ReGenProofs Proofs.WordProofs Proofs.OneOfProofs Proofs.CompReProofs Proofs.CompReProofs2.
Import ListNotations.

(* ================================================================== Word *)

(* what the source says today (regenerated): no strict-max clause in the loop, regex only for a non-empty init set *)
Theorem C17_word_source_facts : gen_word_strict = false /\ gen_word_guard = true.
Proof. split; reflexivity. Qed.

(* The two implementations and the property's reading ("the longest run of an initial character followed by body
   characters, capped at max and failing below min") coincide for ALL constructor arguments the constructor accepts,
   all strings and all positions — whichever implementation __init__ selects — when as_keyword is off.
   _partial: as_keyword=True is excluded (F-17b, C17_word_keyword_refuted). *)
Theorem C17_word_paths_partial : forall (a : wargs) (s : str) (loc : nat),
  w_valid a = true -> w_kw a = false ->
  word_loop gen_word_strict a s loc = word_spec a s loc /\
  (forall r, word_regex gen_word_guard a = Some r -> word_regex_path r s loc = word_spec a s loc) /\
  word_parse gen_word_strict gen_word_guard a s loc = word_spec a s loc.
Proof. exact word_paths_repaired. Qed.

(* the matched text is the slice in both implementations, so equal ends give equal tokens; instance: *)
Example C17_word_paths_instance :
  let a := Build_wargs [97; 98]%N [98; 45]%N 2 3 0 false [] in       (* Word("ab", "b-", min=2, max=3) *)
  let s := [120; 97; 98; 45; 98; 98]%N in                            (* "xab-bb" *)
  w_valid a = true /\ word_spec a s 1 = Some 4 /\ word_loop gen_word_strict a s 1 = Some 4 /\
  (exists r, word_regex gen_word_guard a = Some r /\ word_regex_path r s 1 = Some 4) /\
  substr s 1 4 = [97; 98; 45]%N.
Proof. vm_compute. repeat split. eexists. split; reflexivity. Qed.

(* The same statement for the code as it was (any value of the two source facts): the paths agree with the
   reading provided max is not given when the strict clause is present, and some init character survives
   exclude_chars when the guard is absent. *)
Theorem C17_word_paths_any_tree_partial : forall (strict guard : bool) (a : wargs) (s : str) (loc : nat),
  w_valid a = true -> w_kw a = false ->
  (strict = false \/ max_specified a = false) -> (guard = true \/ init_set a <> []) ->
  word_loop strict a s loc = word_spec a s loc /\
  (forall r, word_regex guard a = Some r -> word_regex_path r s loc = word_spec a s loc).
Proof. exact word_paths_any_tree. Qed.

(* F-17a (what the removed clause did): with the strict-max clause the loop fails where the regex caps.
   Word("ab", max=2) on "aba" at 0. *)
Theorem C17_word_max_strict_refuted : exists (a : wargs) (s : str) (loc : nat) (r : re),
  w_valid a = true /\ w_kw a = false /\ word_regex true a = Some r /\
  word_loop true a s loc = None /\ word_regex_path r s loc = Some 2 /\ word_spec a s loc = Some 2.
Proof.
  exists (Build_wargs [97; 98]%N [] 1 2 0 false []), [97; 98; 97]%N, 0.
  eexists. vm_compute. repeat split.
Qed.

(* F-17c (what the missing guard did): exclude_chars empties the init set, "[]" + "[b]" + "*" is one class:
   Word("a", "ab", exclude_chars="a") matches "]" and the empty string on the regex path, never on the loop path. *)
Theorem C17_word_empty_init_refuted : exists (a : wargs) (s : str) (r : re),
  w_valid a = true /\ w_kw a = false /\ word_regex false a = Some r /\
  word_regex_path r s 0 = Some 1 /\ word_regex_path r [] 0 = Some 0 /\
  word_loop false a s 0 = None /\ word_spec a s 0 = None.
Proof.
  exists (Build_wargs [97]%N [97; 98]%N 1 0 0 false [97]%N), [93]%N.
  eexists. vm_compute. repeat split.
Qed.

(* F-17b: as_keyword — the regex path uses \b (word characters), the loop the body characters.
   Word("ab", as_keyword=True): on "ab1" the loop matches "ab", the regex does not; on "a-b" with body "ab-"
   the regex backtracks to "a" while the loop takes "a-b". *)
Theorem C17_word_keyword_refuted :
  (exists (a : wargs) (s : str) (r : re),
     w_valid a = true /\ word_regex gen_word_guard a = Some r /\
     word_loop gen_word_strict a s 0 = Some 2 /\ word_regex_path r s 0 = None) /\
  (exists (a : wargs) (s : str) (r : re),
     w_valid a = true /\ word_regex gen_word_guard a = Some r /\
     word_loop gen_word_strict a s 0 = Some 2 /\ word_regex_path r s 0 = Some 1).
Proof.
  split.
  - exists (Build_wargs [97; 98]%N [] 1 0 0 true []), [97; 98; 49]%N. eexists. vm_compute. repeat split.
  - exists (Build_wargs [97; 45]%N [] 1 0 0 true []), [97; 45]%N. eexists. vm_compute. repeat split.
Qed.

(* ================================================================== Literal *)

(* Literal / _SingleCharLiteral / Empty: whichever class __new__ selects, the element matches exactly when the
   string starts with the literal at loc, and ends at loc + len *)
Theorem C17_literal : forall (w s : str) (loc : nat),
  literal_parse w s loc =
  if starts_at s loc w && (match w with [] => true | _ => loc <? length s end) then Some (loc + length w) else None.
Proof. exact literal_parse_spec. Qed.

Example C17_literal_instance :
  literal_parse [97]%N [98; 97]%N 1 = Some 2 /\ literal_parse [97; 98]%N [97; 98]%N 0 = Some 2 /\
  literal_parse [] [97]%N 1 = Some 1 /\ literal_parse [97; 98]%N [97; 99]%N 0 = None.
Proof. vm_compute. repeat split. Qed.

(* ================================================================== one_of *)

(* the reordering loop terminates on every symbol list (the fuel reorder_fuel always suffices) *)
Theorem C17_oneof_terminates : forall (cl : bool) (syms : list str), exists l, reorder cl syms = Some l.
Proof. exact reorder_terminates. Qed.

(* after the loop: no symbol stands before an equal one or before one of which it is a proper prefix
   (after case folding when caseless); the result consists of given symbols; every given symbol is represented *)
Theorem C17_oneof_no_masking : forall (cl : bool) (syms l : list str),
  reorder cl syms = Some l ->
  ordered cl l /\ (forall x, In x l -> In x syms) /\ covers cl l syms.
Proof. exact reorder_spec. Qed.

(* for exact-case matching this is: the result is duplicate-free and a permutation of the distinct symbols *)
Theorem C17_oneof_permutation : forall (syms l : list str),
  reorder false syms = Some l -> NoDup l /\ (forall x, In x l <-> In x syms).
Proof. exact reorder_nodup. Qed.

(* hence first-match over the reordered list returns a longest listed symbol that matches at the position,
   for every input order, caseless or not; and fails only when no listed symbol matches *)
Theorem C17_oneof_longest : forall (cl : bool) (syms l : list str) (s : str) (loc : nat),
  reorder cl syms = Some l ->
  (forall r, match_first cl l s loc = Some r -> is_longest_match cl syms s loc r) /\
  (match_first cl l s loc = None -> forall w, In w syms -> sym_match cl s loc w = false).
Proof. exact first_match_longest. Qed.

Example C17_oneof_instance :
  reorder false [[60]; [61]; [60; 61]; [60]; [60; 61; 62]]%N = Some [[60; 61; 62]; [60; 61]; [60]; [61]]%N /\
  match_first false [[60; 61; 62]; [60; 61]; [60]; [61]]%N [60; 61; 120]%N 0 = Some [60; 61]%N /\
  reorder true [[97]; [65; 66]; [97; 98]]%N = Some [[65; 66]; [97]]%N.
Proof. vm_compute. repeat split. Qed.

(* the loop exactly as helpers.py writes it (an index i into the list, `del symbols[i + j + 1]`, `symbols.insert(i, other)`)
   computes what the split-level `reorder` of the theorems above computes, with the same fuel *)
Theorem C17_oneof_index_loop : forall (cl : bool) (syms : list str),
  reorder_ix cl (reorder_fuel syms) syms 0 = reorder cl syms.
Proof. exact reorder_ix_eq. Qed.

Example C17_oneof_index_loop_instance :
  reorder_ix false (reorder_fuel [[60]; [61]; [60; 61]; [60]; [60; 61; 62]]%N) [[60]; [61]; [60; 61]; [60]; [60; 61; 62]]%N 0 =
    Some [[60; 61; 62]; [60; 61]; [60]; [61]]%N /\
  reorder_ix true (reorder_fuel [[97]; [65; 66]; [97; 98]]%N) [[97]; [65; 66]; [97; 98]]%N 0 = Some [[65; 66]; [97]]%N.
Proof. vm_compute. split; reflexivity. Qed.

(* use_regex=True (alternation of escaped literals, or the character class when all symbols are single characters,
   IGNORECASE when caseless) finds exactly the first listed symbol that matches: same end, same symbol.
   _partial: as_keyword=True is excluded (\b vs Keyword's identifier characters, C17_oneof_keyword_refuted). *)
Theorem C17_oneof_regex_partial : forall (cl : bool) (syms : list str) (s : str) (loc : nat),
  oneof_regex_path cl false syms s loc =
  match match_first cl syms s loc with Some w => Some (loc + length w) | None => None end.
Proof. exact oneof_regex_agrees. Qed.

(* caseless=True instance: one_of(["abc", "ab", "A"], caseless=True) on "xABc" at 1 and on "xaB" at 1 (IGNORECASE regex) *)
Example C17_oneof_regex_caseless_instance :
  oneof_regex_path true false [[97; 98; 99]; [97; 98]; [65]]%N [120; 65; 66; 99]%N 1 = Some 4 /\
  match_first true [[97; 98; 99]; [97; 98]; [65]]%N [120; 65; 66; 99]%N 1 = Some [97; 98; 99]%N /\
  oneof_regex_path true false [[97; 98; 99]; [97; 98]; [65]]%N [120; 97; 66]%N 1 = Some 3 /\
  oneof_regex_path true false [[97]; [66]]%N [98]%N 0 = Some 1.
Proof. vm_compute. repeat split. Qed.

(* as_keyword: one_of("a", as_keyword=True) on "a$": the regex \b(?:a)\b matches, Keyword("a") does not ($ is an
   identifier character for Keyword, not a word character for \b) *)
Theorem C17_oneof_keyword_refuted : exists (syms : list str) (s : str),
  oneof_regex_path false true syms s 0 = Some 1 /\ match_first_kw false syms s 0 = None.
Proof. exists [[97]]%N, [97; 36]%N. vm_compute. split; reflexivity. Qed.

(* ================================================================== generated character classes *)

(* _collapse_string_to_ranges: the class denotes exactly the given characters *)
Theorem C17_collapse_ranges : forall (cs : list char) (x : char),
  cset_mem false false (collapse_items cs) x = mem_char x cs.
Proof. exact collapse_class. Qed.

Example C17_collapse_instance :
  collapse_items [93; 97; 99; 98; 45; 97]%N = [CI_char 45; CI_char 93; CI_range 97 99]%N /\
  collapse_str [93; 97; 99; 98; 45; 97]%N = [92; 45; 92; 93; 97; 45; 99]%N.
Proof. vm_compute. split; reflexivity. Qed.

(* srange: expanding range notation lists exactly the denoted characters; in particular it inverts the notation
   that _collapse_string_to_ranges writes *)
Theorem C17_srange_expand : forall (items : list citem) (x : char),
  forallb no_cat items = true -> mem_char x (expand_items items) = items_mem items x.
Proof. exact expand_items_mem. Qed.

Theorem C17_srange_inverse : forall (cs : list char) (x : char),
  mem_char x (expand_items (collapse_items cs)) = mem_char x cs.
Proof. exact srange_inverse. Qed.

(* ================================================================== make_compressed_re *)

(* make_compressed_re(words, max_level=0) (the non-recursive fallback: alternation of the escaped words, longest
   escaped text first, or one class when all words are single characters) fullmatches exactly the given words.
   _partial: max_level = 0 only; every level is C17_compressed_re_partial below. *)
Theorem C17_compressed_re_level0_partial : forall (words : list str) (s : str),
  (forall w, In w words -> w <> []) ->
  (re_fullmatch (compressed0 words) s = true <-> In s words).
Proof. exact compressed0_fullmatch. Qed.

Example C17_compressed_re_instance :
  compressed0 [[97]; [97; 46; 98]; [97; 98; 99]; [97]]%N = ralt (map rlit [[97; 46; 98]; [97; 98; 99]; [97]]%N) /\
  re_fullmatch (compressed0 [[97]; [97; 46; 98]; [97; 98; 99]; [97]]%N) [97; 46; 98]%N = true /\
  re_fullmatch (compressed0 [[97]; [97; 46; 98]; [97; 98; 99]; [97]]%N) [97; 98]%N = false.
Proof. vm_compute. repeat split. Qed.

(* make_compressed_re(words, max_level) for EVERY max_level (0: the fallback above; >= 1: words grouped by first
   character, the suffixes of a group sorted longest first, an empty suffix turned into a trailing `?`, single-character
   suffixes into a class, otherwise a non-capturing group holding the recursive result while _level < max_level and the
   flat alternation of the escaped suffixes at the last level): for every non-empty list of non-empty words
   (duplicates, words that are prefixes of other words, any characters) the function returns a pattern (no ValueError)
   whose AST is in the class of rm_correct, whose denotation from any position is exactly "one of the words stands
   here", and which fullmatches exactly the given words.
   _partial: the pattern is modelled as the AST that sre_parse gives for the emitted text (escaping at the text level
   is C17_escape_literal plus correspondence), non_capturing_groups=False and one-shot iterators (F-17f) are outside. *)
Theorem C17_compressed_re_partial : forall (words : list str) (max_level : nat),
  words <> [] -> (forall w, In w words -> w <> []) ->
  exists r, compressed_re words max_level = Some r /\ rep_ok r = true /\
    (forall s i j, den r s i j <-> exists w, In w words /\ starts_at s i w = true /\ j = i + length w) /\
    (forall s, re_fullmatch r s = true <-> In s words).
Proof. exact compressed_re_correct. Qed.

(* the other lists: ValueError exactly for no words / a list containing the empty word *)
Theorem C17_compressed_re_raises : forall (words : list str) (max_level : nat),
  compressed_re words max_level = None <-> words = [] \/ In [] words.
Proof. exact compressed_re_none. Qed.

(* ["if","ifdef","ifndef","in","int","else"]: level 2 gives else|i(?:f(?:ndef|def)?|nt?), level 1 gives
   else|i(?:fndef|fdef|nt|f|n), level 3 sorts the innermost pair the other way round (def before ndef) *)
Example C17_compressed_re_levels_instance :
  let ws := [[105; 102]; [105; 102; 100; 101; 102]; [105; 102; 110; 100; 101; 102]; [105; 110]; [105; 110; 116];
             [101; 108; 115; 101]]%N in
  let r2 := RAlt (RSeq (RChr 101%N) (rlit [108; 115; 101]%N))
                 (RSeq (RChr 105%N) (RGroup None
                    (RAlt (RSeq (RChr 102%N) (ROpt Greedy (RGroup None (RAlt (rlit [110; 100; 101; 102]%N) (rlit [100; 101; 102]%N)))))
                          (RSeq (RChr 110%N) (ROpt Greedy (RChr 116%N)))))) in
  ws <> [] /\ has_empty ws = false /\
  compressed_re ws 2 = Some r2 /\
  compressed_re ws 1 = Some (RAlt (RSeq (RChr 101%N) (rlit [108; 115; 101]%N))
                                  (RSeq (RChr 105%N) (RGroup None (ralt (map rlit
                                     [[102; 110; 100; 101; 102]; [102; 100; 101; 102]; [110; 116]; [102]; [110]]%N))))) /\
  (exists r3, compressed_re ws 3 = Some r3 /\ r3 <> r2 /\ map (re_fullmatch r3) ws = map (re_fullmatch r2) ws) /\
  map (re_fullmatch r2) ws = [true; true; true; true; true; true] /\
  map (re_fullmatch r2) [[105]; [105; 102; 100]; [105; 102; 110; 100; 101; 102; 102]; [101; 108; 115]; [105; 110; 116; 116]; []]%N =
    [false; false; false; false; false; false] /\
  compressed_re [[97; 46]; [97]; [97; 46]]%N 1 = Some (RSeq (RChr 97%N) (ROpt Greedy (RGroup None (RChr 46%N)))) /\
  compressed_re [[97]; []]%N 2 = None.
Proof.
  cbv zeta. split; [discriminate|]. split; [reflexivity|]. split; [vm_compute; reflexivity|]. split; [vm_compute; reflexivity|].
  split; [eexists; split; [vm_compute; reflexivity|split; [discriminate|vm_compute; reflexivity]]|].
  vm_compute. repeat split.
Qed.

(* text level: re.escape(w) (a backslash before each character of re._special_chars_map) read back by the regex
   parser's literal rules (`\c` for a non-alphanumeric c is the literal c, an unescaped non-metacharacter is itself,
   anything else refused) is the word itself, for every word over all code points; and the sort key of the level-0
   alternation is the length of that text *)
Theorem C17_escape_literal : forall w : str, read_lit (re_escape w) = Some w.
Proof. exact read_lit_escape. Qed.

Theorem C17_escape_length : forall w : str, escaped_len w = length (re_escape w).
Proof. exact escaped_len_spec. Qed.

Example C17_escape_instance :
  re_escape [97; 46; 98; 45; 32; 92]%N = [97; 92; 46; 98; 92; 45; 92; 32; 92; 92]%N /\
  read_lit [97; 92; 46; 98; 92; 45; 92; 32; 92; 92]%N = Some [97; 46; 98; 45; 32; 92]%N /\
  read_lit [97; 46]%N = None /\ read_lit [92; 100]%N = None.
Proof. vm_compute. repeat split. Qed.
