(* C12 — grammar objects have value semantics; operator sugar means what is documented.  Statements only.
   PARTIAL: (i) the composition operators and copy()/expr()/expr('name')/set_results_name never write to their operands —
   read off the source on every run (GenOps: no statement of those methods assigns to an attribute of `self` or calls a
   mutator on one); (ii) what streamline() does to operands and composites when a composite is first used — splicing an
   action-free unnamed inner And (first position) / MatchFirst (either position) into the enclosing one — preserves the
   reading (proved below on `peg`, tied to the parser by C01); (iii) the sugar equivalences are equalities of the constructed
   object graphs: checked by the correspondence of tools/props/c12.py (real objects of both sides dumped and compared, and
   parsed on the same inputs), not proved; last-position And flattening and Or/Each flattening: correspondence only. *)
From Coq Require Import List ZArith NArith Bool String.
From PP Require Import Model.Str Model.Results Model.Prog Model.Core Model.Peg Proofs.PegEquiv Proofs.Flatten Gen.GenOps.
Import ListNotations.

Theorem C12_operators_do_not_write_operands :
  forallb (fun mw => match snd mw with [] => true | _ => false end) gen_self_writes = true /\
  map fst gen_self_writes =
    ["__add__"; "__radd__"; "__sub__"; "__rsub__"; "__mul__"; "__rmul__"; "__or__"; "__ror__"; "__xor__"; "__rxor__";
     "__and__"; "__rand__"; "__invert__"; "__getitem__"; "__call__"; "set_results_name"; "_setResultsName"; "copy"; "suppress"]%string.
Proof. split; reflexivity. Qed.

(* copy() is copy.copy + fresh action/ignore lists (+ the default-whitespace reset); streamline flattens only under its guards *)
Theorem C12_copy_and_streamline_shape :
  gen_copy_body = ["cpy = copy.copy(self)"; "cpy.parseAction = self.parseAction[:]"; "cpy.ignoreExprs = self.ignoreExprs[:]";
                   "if self.copyDefaultWhiteChars:     cpy.whiteChars = set(ParserElement.DEFAULT_WHITE_CHARS)"; "return cpy"]%string /\
  gen_streamline_guards =
    ["isinstance(other, self.__class__) and (not other.parseAction) and (other.resultsName is None) and (not other.debug)"]%string.
Proof. split; reflexivity. Qed.

(* (a + b) + c  reads as  And([a, b, c])  [any number of elements in the inner And] *)
Theorem C12_and_assoc_first : forall (G : env) s f ao ai es1 c loc r,
  child_ok ao (Nary ai [] NAnd es1) = true ->
  peg G s (S (S f)) (Nary ao [] NAnd [Nary ai [] NAnd es1; c]) loc = r -> r <> POut ->
  peg G s (S (S f)) (Nary ao [] NAnd (es1 ++ [c])) loc = r.
Proof. exact and_flatten_first. Qed.

(* (a | b) | c  and  a | (b | c)  read as  MatchFirst([a, b, c]) *)
Theorem C12_matchfirst_assoc_first : forall (G : env) s f ao ai es1 c loc r,
  callpre ai = false ->
  peg G s (S (S f)) (Nary ao [] NMatchFirst [Nary ai [] NMatchFirst es1; c]) loc = r -> r <> POut ->
  peg G s (S (S f)) (Nary ao [] NMatchFirst (es1 ++ [c])) loc = r.
Proof. exact mf_flatten_first. Qed.

Theorem C12_matchfirst_assoc_last : forall (G : env) s f ao ai a0 es2 loc r,
  callpre ai = false ->
  peg G s (S (S f)) (Nary ao [] NMatchFirst [a0; Nary ai [] NMatchFirst es2]) loc = r -> r <> POut ->
  peg G s (S (S f)) (Nary ao [] NMatchFirst (a0 :: es2)) loc = r.
Proof. exact mf_flatten_last. Qed.

(* non-vacuity *)
Example C12_instance :
  let at_ id cp asl := {| nid := id; rsname := None; modalr := true; aslist := asl; skipws := true; white := [32%N]; callpre := cp;
                          mayidx := false; custom := false; hasmsg := true; acts := []; calltry := false; slen := 3 |} in
  let lit c id := Tok (at_ id true false) [] (KLit [c]) in
  let nested := Nary (at_ 10 true true) [] NAnd [Nary (at_ 11 true true) [] NAnd [lit 97%N 1; lit 98%N 2]; lit 99%N 3] in
  let flat := Nary (at_ 10 true true) [] NAnd [lit 97%N 1; lit 98%N 2; lit 99%N 3] in
  peg [] [97; 32; 98; 99]%N 4 nested 0 = POk 4 [TStr [97%N]; TStr [98%N]; TStr [99%N]] /\
  peg [] [97; 32; 98; 99]%N 4 flat 0 = peg [] [97; 32; 98; 99]%N 4 nested 0.
Proof. vm_compute. split; reflexivity. Qed.
