(* C12 — grammar objects have value semantics; operator sugar means what is documented.  Statements only.
   PARTIAL: (i) the composition operators and copy()/expr()/expr('name')/set_results_name never write to their operands —
   read off the source on every run (GenOps: no statement of those methods assigns to an attribute of `self` or calls a
   mutator on one); (ii) what streamline() does to operands and composites when a composite is first used — splicing an
   action-free unnamed inner And (first position) / MatchFirst (either position) into the enclosing one — preserves the
   reading (proved below on `peg`, tied to the parser by C01); (iii) the operator sugar is INSIDE the model (Model/Sugar.v:
   transcriptions of __mul__ / __getitem__ / __or__ / _PendingSkip.__add__ producing the streamlined graph, source text pinned
   by Proofs/SugarTie.v, elaboration compared node by node with dumps of the real objects by tools/props/c12.py) and the
   documented equivalences are theorems about the elaboration (names C12_sugar_...): equal TERMS for expr[...], expr[0,...],
   expr[1,...], expr[n,...], expr[...:stop], expr|'', expr[n] / expr*n, expr[m,n] (nested Opt), (a+b)+c = a+(b+c); equal READINGS
   (every fuel, every numbering of nodes) for expr*n = expr+...+expr and And([a,b,c]) = (a+b)+c, with transfer to `_parse` for
   operands of the proved class; closed counter-examples (_refuted) where an equivalence fails for operands with whitespace
   settings of their own, and for expr*0.  Still by correspondence only: the flat reading of expr[m,n] ("m copies plus up to
   n-m Opt(expr)" as a flat sequence), Or/Each flattening, `a | ...`, `... + a`. *)
From Coq Require Import List ZArith NArith Bool String.
From PP Require Import Model.Str Model.Results Model.Prog Model.Core Model.Peg Model.Infix Model.Sugar
                       Proofs.PegEquiv Proofs.InfixProofs Proofs.Flatten Proofs.SugarProofs Proofs.SugarTie Gen.GenOps Gen.GenSugar.
Import ListNotations.

Theorem C12_operators_do_not_write_operands :
  forallb (fun mw => match snd mw with [] => true | _ => false end) gen_self_writes = true /\
  map fst gen_self_writes =
    ["__add__"; "__radd__"; "__sub__"; "__rsub__"; "__mul__"; "__rmul__"; "__or__"; "__ror__"; "__xor__"; "__rxor__";
     "__and__"; "__rand__"; "__invert__"; "__getitem__"; "__call__"; "set_results_name"; "_setResultsName"; "copy"; "suppress"]%string.
Proof. split; reflexivity. Qed.

(* copy() is copy.copy + fresh action/ignore lists (+ the default-whitespace reset); streamline flattens only under its guards *)
Theorem C12_copy_and_streamline_shape :
  gen_copy_body = ["cpy = copy.copy(self)"; "cpy.parseAction = self.parseAction[:]"; "cpy.ignoreExprs = self.ignoreExprs[:]";
                   "if self.copyDefaultWhiteChars:     cpy.whiteChars = set(ParserElement.DEFAULT_WHITE_CHARS)"; "return cpy"]%string /\
  gen_streamline_guards =
    ["isinstance(other, self.__class__) and (not other.parseAction) and (other.resultsName is None) and (not other.debug)"]%string.
Proof. split; reflexivity. Qed.

(* (a + b) + c  reads as  And([a, b, c])  [any number of elements in the inner And] *)
Theorem C12_and_assoc_first : forall (G : env) s f ao ai es1 c loc r,
  child_ok ao (Nary ai [] NAnd es1) = true ->
  peg G s (S (S f)) (Nary ao [] NAnd [Nary ai [] NAnd es1; c]) loc = r -> r <> POut ->
  peg G s (S (S f)) (Nary ao [] NAnd (es1 ++ [c])) loc = r.
Proof. exact and_flatten_first. Qed.

(* (a | b) | c  and  a | (b | c)  read as  MatchFirst([a, b, c]) *)
Theorem C12_matchfirst_assoc_first : forall (G : env) s f ao ai es1 c loc r,
  callpre ai = false ->
  peg G s (S (S f)) (Nary ao [] NMatchFirst [Nary ai [] NMatchFirst es1; c]) loc = r -> r <> POut ->
  peg G s (S (S f)) (Nary ao [] NMatchFirst (es1 ++ [c])) loc = r.
Proof. exact mf_flatten_first. Qed.

Theorem C12_matchfirst_assoc_last : forall (G : env) s f ao ai a0 es2 loc r,
  callpre ai = false ->
  peg G s (S (S f)) (Nary ao [] NMatchFirst [a0; Nary ai [] NMatchFirst es2]) loc = r -> r <> POut ->
  peg G s (S (S f)) (Nary ao [] NMatchFirst (a0 :: es2)) loc = r.
Proof. exact mf_flatten_last. Qed.

(* ================================================================================================================= *)
(* The operator sugar, inside the model (Model/Sugar.v: transcriptions of __mul__ / __getitem__ / __or__ /              *)
(* _PendingSkip.__add__, producing the streamlined object graph; tied to the code by Proofs/SugarTie.v (source text) and *)
(* by the node-by-node comparison with dumps of the real objects in tools/props/c12.py sugar_elab_checks).              *)
(* `ids` numbers the nodes an operator creates; it is universally quantified everywhere.                                 *)
(* ================================================================================================================= *)

(* the transcribed methods are the ones in the source now *)
Theorem C12_sugar_source_pinned :
  gen_sugar_splice_test = "len(self.exprs) == 2"%string /\
  gen_sugar_splice_assigns = ["self.exprs = other.exprs[:] + [self.exprs[1]]"; "self.exprs = self.exprs[:-1] + other.exprs[:]"]%string /\
  gen_sugar_stopon = "if isinstance(ender, str_type): ender = self._literalStringClass(ender) ; self.not_ender = ~ender if ender is not None else None ; return self"%string /\
  gen_sugar_add = "if other is Ellipsis: return _PendingSkip(self) ; if isinstance(other, str_type): other = self._literalStringClass(other) ; if not isinstance(other, ParserElement): return NotImplemented ; return And([self, other])"%string.
Proof. exact (conj tie_splice_test (conj tie_splice_assigns (conj tie_stopon tie_add))). Qed.

(* ---- equalities of the elaborated TERMS (same nodes, flags, children, sharing): stronger than equal readings ---- *)
(* expr[...] == expr[0, ...] == ZeroOrMore(expr) *)
Theorem C12_sugar_star : forall dw ids e, sg_star dw ids e = c_zom ids cREP e /\ sg_star0 dw ids e = c_zom ids cREP e.
Proof. exact (fun dw ids e => conj (star_eq dw ids e) (star0_eq dw ids e)). Qed.

(* expr[1, ...] == OneOrMore(expr) *)
Theorem C12_sugar_plus : forall dw ids e, sg_plus dw ids e = c_oom ids cREP e.
Proof. exact plus_eq. Qed.

(* expr[n, ...] == expr*n + ZeroOrMore(expr) *)
Theorem C12_sugar_atleast : forall dw ids n e, 2 <= n -> sg_atleast dw ids n e = x_atleast dw ids n e.
Proof. exact atleast_eq. Qed.

(* expr[...:stop] == ZeroOrMore(expr, stop_on=stop) *)
Theorem C12_sugar_until : forall dw ids e stop, sg_until dw ids e stop = c_zom_stop ids cREP cNOT e stop.
Proof. exact until_eq. Qed.

(* expr | '' == Opt(expr) *)
Theorem C12_sugar_or_empty : forall dw ids e, sg_or_empty dw ids e = c_opt ids (cOPT 0) e.
Proof. exact or_empty_eq. Qed.

(* expr[n] == expr*n ;  expr*n == And([expr]*n)  (n >= 2),  expr*1 == expr *)
Theorem C12_sugar_mul_node : forall dw ids n e,
  sg_item dw ids (KN n) None e = sg_mul dw ids n e /\ (2 <= n -> sg_mul dw ids n e = c_and dw ids cMUL (repeat e n)) /\ sg_mul dw ids 1 e = e.
Proof. exact (fun dw ids n e => conj (item_n_eq dw ids n e) (conj (mul_eq dw ids n e) (mul_1_eq dw ids e))). Qed.

(* expr[m, n] == m copies plus n - m nested optional ones:  And([expr]*m) + Opt(expr + Opt(expr + ... Opt(expr))) *)
Theorem C12_sugar_range : forall dw ids m k e, 2 <= m ->
  sg_range dw ids m (m + S k) e = c_add dw ids cSUM (c_and dw ids cMUL (repeat e m)) (sg_optlist dw ids k e) /\
  sg_optlist dw ids (S k) e = c_opt ids (cOPT (S k)) (c_add dw ids (cOAND (S k)) e (sg_optlist dw ids k e)) /\
  sg_optlist dw ids 0 e = c_opt ids (cOPT 0) e.
Proof. exact (fun dw ids m k e H => conj (range_eq dw ids m k e H) (conj (optlist_S dw ids k e) eq_refl)). Qed.

(* a + ... + b == a + SkipTo(b)("_skipped*") + b  up to the `custom` flag of the SkipTo node (set_name("...") on the sugar side
   changes the text of its error message only).  PARTIAL: equality of the graphs modulo that flag; that `_parse` does not read
   the flag of a SkipTo node is visible in Model/Core.v (`impl`, Skip case) but not stated as a theorem about `parse`. *)
Theorem C12_sugar_skip_partial : forall dw ids cdw a b,
  Forall (fun x => clear_custom_skip x = x) (and_items a ++ and_items b) ->
  map_children clear_custom_skip (sg_skip dw ids cdw a b) = x_skip dw ids cdw a b.
Proof. exact skip_eq. Qed.

(* (a + b) + c == a + (b + c): the SAME term for all operands; == And([a, b, c]) as a term when no operand is itself an
   unnamed action-free And (such an operand is spliced by the binary forms and kept by And([...]): see _refuted below) *)
Theorem C12_sugar_and_assoc : forall dw ids a b c, sg_and_left dw ids a b c = sg_and_right dw ids a b c.
Proof. exact and_left_right_eq. Qed.
Theorem C12_sugar_and_assoc_flat_partial : forall dw ids a b c,
  and_items a = [a] -> and_items b = [b] -> and_items c = [c] -> sg_and_left dw ids a b c = sg_and_flat dw ids [a; b; c].
Proof. exact and_left_flat_eq. Qed.
Theorem C12_sugar_mf_assoc : forall dw ids a b c, sg_mf_left dw ids a b c = sg_mf_right dw ids a b c.
Proof. exact mf_left_right_eq. Qed.
Theorem C12_sugar_mf_assoc_flat_partial : forall dw ids a b c,
  mf_items a = [a] -> mf_items b = [b] -> mf_items c = [c] -> sg_mf_left dw ids a b c = sg_mf_flat dw ids [a; b; c].
Proof. exact mf_left_flat_eq. Qed.

(* ---- equalities of READINGS ---- *)
(* expr*n == expr + expr + ... + expr (n operands): the streamlined chain IS the node of expr*n up to its identity, hence the
   same reading at every fuel, for any two numberings.  PARTIAL: for operands that are not themselves an unnamed action-free And
   (the chain splices such an operand, expr*n for n >= 3 does not: _refuted below). *)
Theorem C12_sugar_mul_chain_partial : forall dw ids ids' n e, and_items e = [e] -> 2 <= n ->
  x_chain dw ids n e = sg_mul dw (fun _ => ids (20 + n)) n e /\
  forall G s f loc, peg G s f (sg_mul dw ids n e) loc = peg G s f (x_chain dw ids' n e) loc.
Proof. exact (fun dw ids ids' n e He Hn => conj (chain_eq dw ids n e He Hn) (mul_chain_peg dw ids ids' n e He Hn)). Qed.

(* expr*n reads as the n-fold sequence of expr; expr[n, ...] as n copies followed by ZeroOrMore(expr) *)
Theorem C12_sugar_mul_reading : forall dw ids n e, 3 <= n \/ (n = 2 /\ and_items e = [e]) ->
  forall G s f loc, peg G s (S f) (sg_mul dw ids n e) loc = peg_seq (peg G s f) (repeat e n) (eff s (sg_mul dw ids n e) loc) [].
Proof. exact mul_reading. Qed.
Theorem C12_sugar_atleast_reading_partial : forall dw ids n e, 2 <= n -> and_items e = [e] ->
  forall G s f loc, peg G s (S f) (sg_atleast dw ids n e) loc =
                    peg_seq (peg G s f) (repeat e n ++ [c_zom ids cREP e]) (eff s (sg_atleast dw ids n e) loc) [].
Proof. exact atleast_reading. Qed.

(* And([a, b, c]) reads as (a + b) + c (= a + (b + c), the same term) also when operands ARE unnamed action-free sequences,
   which the binary forms splice (at any position: extends Flatten.v's first-position lemma).  PARTIAL: under `splice_ok` for
   each operand - it is no such sequence, or it is a non-empty one whose own whitespace skipping is absorbed by its first
   element (holds for every sequence led by an element that pre-parses itself: C12_splice_ok_add); the operand of
   C12_sugar_and_assoc_flat_refuted is exactly one that violates it. *)
Theorem C12_sugar_and_assoc_flat_reading_partial : forall dw ids a b c G s,
  splice_ok s a -> splice_ok s b -> splice_ok s c ->
  forall loc r, pegR G s (sg_and_flat dw ids [a; b; c]) loc r <-> pegR G s (sg_and_left dw ids a b c) loc r.
Proof. exact and_flat_left_pegR. Qed.
Theorem C12_splice_ok_add : forall s dw ids c a b, and_items a = [a] -> absorb_okb dw a = true -> splice_ok s (c_add dw ids c a b).
Proof. exact splice_ok_add. Qed.
(* splicing a nested sequence at any position of any sequence *)
Theorem C12_and_splice_anywhere : forall G s a a' ax i i' ix c0 rest pre post, wspec a = wspec a' -> absorbs s (wspec ax) c0 ->
  forall loc r, pegR G s (Nary a i NAnd (pre ++ Nary ax ix NAnd (c0 :: rest) :: post)) loc r <->
                pegR G s (Nary a' i' NAnd (pre ++ (c0 :: rest) ++ post)) loc r.
Proof. exact splice_pegR. Qed.

(* ---- the parser: for an operand of the proved class, `_parse` of expr*n and of the chain answer alike (C01's peg_equiv) ---- *)
Theorem C12_sugar_mul_in_class : forall dw G ids n e,
  in_class G e = true -> is_white_tok e = false -> and_items e = [e] -> 1 <= n -> in_class G (sg_mul dw ids n e) = true.
Proof. exact mul_in_class. Qed.
Theorem C12_sugar_mul_chain_parse_partial : forall dw ids ids' n e G s, env_in_class G = true -> in_class G e = true ->
  is_white_tok e = false -> and_items e = [e] -> 2 <= n ->
  forall fuel loc d,
  proj (parse (step G) fuel (mkargs (sg_mul dw ids n e) s loc d true)) =
  proj (parse (step G) fuel (mkargs (x_chain dw ids' n e) s loc d true)).
Proof. exact mul_chain_parse. Qed.
(* generic: equal readings of two expressions of the class are equal answers of `_parse` *)
Theorem C12_reading_to_parser : forall G s e1 e2, env_in_class G = true -> in_class G e1 = true -> in_class G e2 = true ->
  (forall f loc, peg G s f e1 loc = peg G s f e2 loc) ->
  forall fuel loc d, proj (parse (step G) fuel (mkargs e1 s loc d true)) = proj (parse (step G) fuel (mkargs e2 s loc d true)).
Proof. exact parse_of_peg_eq. Qed.
(* ... and equivalent fuel-free readings give the same terminating answers *)
Theorem C12_reading_to_parser_pegR : forall G s e1 e2, env_in_class G = true -> in_class G e1 = true -> in_class G e2 = true ->
  (forall loc r, pegR G s e1 loc r <-> pegR G s e2 loc r) ->
  forall fuel loc d r, proj (parse (step G) fuel (mkargs e1 s loc d true)) = Some r -> r <> POut ->
  exists fuel', forall d', proj (parse (step G) fuel' (mkargs e2 s loc d' true)) = Some r.
Proof. exact parse_of_pegR_equiv. Qed.

(* ---- where the documented equivalence is FALSE on the faithful model (and on the real code) ---- *)
(* e = (x | y) + 'z' where x, y skip no whitespace of their own (set_whitespace_chars("")): the MatchFirst keeps the default
   whitespace set and skipWhitespace = True, the And copies both; a parser that holds e as ONE element skips blanks before it,
   a parser into which e has been spliced does not.  streamline splices only two-element sequences: e*3 keeps e, e+e+e splices. *)
Definition wx_dw : list char := [9; 10; 13; 32]%N.
Definition wx_at (id : nat) (asl : bool) (wh : list char) (cp : bool) : attrs :=
  {| nid := id; rsname := None; modalr := true; aslist := asl; skipws := true; white := wh; callpre := cp; mayidx := false;
     custom := false; hasmsg := true; acts := []; calltry := false; slen := 3 |}.
Definition wx_e : expr :=
  Nary (wx_at 1 true wx_dw true) [] NAnd
    [Nary (wx_at 2 false wx_dw false) [] NMatchFirst [Tok (wx_at 3 false [] true) [] (KLit [120%N]); Tok (wx_at 4 false [] true) [] (KLit [121%N])];
     Tok (wx_at 5 false wx_dw true) [] (KLit [122%N])].
Definition wx_ids (c : nat) : nat * nat := (100 + c, 9).
Definition wx_s : str := [120; 122; 32; 120; 122; 32; 120; 122]%N.          (* "xz xz xz" *)
Definition wx_a : expr := Tok (wx_at 6 false wx_dw true) [] (KLit [97%N]).
Definition wx_as : str := [97; 32; 97; 32; 120; 122]%N.                     (* "a a xz" *)

Theorem C12_sugar_mul_chain_refuted : exists dw ids e n s f loc,
  in_class [] e = true /\ peg [] s f (sg_mul dw ids n e) loc <> peg [] s f (x_chain dw ids n e) loc /\
  peg [] s f (sg_mul dw ids n e) loc <> POut /\ peg [] s f (x_chain dw ids n e) loc <> POut.
Proof.
  exists wx_dw, wx_ids, wx_e, 3, wx_s, 8, 0. vm_compute. repeat split; discriminate.
Qed.
(* the same operand in last position: And([a, a, e]) keeps e, (a + a) + e splices it *)
Theorem C12_sugar_and_assoc_flat_refuted : exists dw ids a b c s f loc,
  in_class [] c = true /\ peg [] s f (sg_and_flat dw ids [a; b; c]) loc <> peg [] s f (sg_and_left dw ids a b c) loc /\
  peg [] s f (sg_and_flat dw ids [a; b; c]) loc <> POut /\ peg [] s f (sg_and_left dw ids a b c) loc <> POut.
Proof.
  exists wx_dw, wx_ids, wx_a, wx_a, wx_e, wx_as, 8, 0. vm_compute. repeat split; discriminate.
Qed.
(* expr*0 (also expr[0], expr[0, 0]) is And([]): as a parser of its own it never matches (IndexError on self.exprs[0], turned
   into a ParseException), although the empty sequence reads as "matches the empty string" and is spliced away (= matches)
   as soon as it is an operand of a two-element sequence *)
Theorem C12_sugar_mul_zero_refuted : exists dw ids e s,
  peg [] s 3 (sg_mul dw ids 0 e) 0 = POk 0 [] /\
  (forall f, proj (parse (step []) (S f) (mkargs (sg_mul dw ids 0 e) s 0 true true)) = Some PFail) /\
  sg_and_left dw ids wx_a wx_a (sg_mul dw ids 0 e) = c_and dw ids cOUT [wx_a; wx_a].
Proof.
  exists wx_dw, wx_ids, wx_a, []. split; [reflexivity|]. split; [intros f; reflexivity|reflexivity].
Qed.

(* non-vacuity of the hypotheses above: Word-like operands satisfy them; the elaborations are the expected graphs *)
Example C12_sugar_instance :
  and_items wx_a = [wx_a] /\ is_white_tok wx_a = false /\ in_class [] wx_a = true /\
  in_class [] (sg_mul wx_dw wx_ids 3 wx_a) = true /\
  peg [] [97; 32; 97; 97; 97]%N 5 (sg_mul wx_dw wx_ids 3 wx_a) 0 = POk 4 [TStr [97%N]; TStr [97%N]; TStr [97%N]] /\
  peg [] [97; 32; 97; 97; 97]%N 5 (x_chain wx_dw wx_ids 3 wx_a) 0 = POk 4 [TStr [97%N]; TStr [97%N]; TStr [97%N]] /\
  peg [] [97; 32; 97; 97; 97]%N 6 (sg_atleast wx_dw wx_ids 2 wx_a) 0 = POk 5 [TStr [97%N]; TStr [97%N]; TStr [97%N]; TStr [97%N]] /\
  peg [] [97; 32; 97; 97; 97]%N 9 (sg_range wx_dw wx_ids 2 3 wx_a) 0 = POk 4 [TStr [97%N]; TStr [97%N]; TStr [97%N]] /\
  proj (parse (step []) 9 (mkargs (sg_range wx_dw wx_ids 2 3 wx_a) [97; 32; 97; 97; 97]%N 0 true true)) =
    Some (POk 4 [TStr [97%N]; TStr [97%N]; TStr [97%N]]) /\
  Forall (fun x => clear_custom_skip x = x) (and_items wx_a ++ and_items wx_a).
Proof. vm_compute. repeat split; repeat constructor. Qed.

(* non-vacuity of splice_ok with an operand that IS a sequence: c = a + a ; And([a, a, c]) and (a + a) + c are different
   terms (3 / 4 children) with the same reading *)
Example C12_sugar_splice_instance :
  let c := c_add wx_dw wx_ids cIN wx_a wx_a in
  and_items wx_a = [wx_a] /\ absorb_okb wx_dw wx_a = true /\ and_items c = [wx_a; wx_a] /\
  sg_and_flat wx_dw wx_ids [wx_a; wx_a; c] <> sg_and_left wx_dw wx_ids wx_a wx_a c /\
  peg [] [97; 32; 97; 97; 97]%N 5 (sg_and_flat wx_dw wx_ids [wx_a; wx_a; c]) 0 = POk 5 [TStr [97%N]; TStr [97%N]; TStr [97%N]; TStr [97%N]] /\
  peg [] [97; 32; 97; 97; 97]%N 5 (sg_and_left wx_dw wx_ids wx_a wx_a c) 0 = POk 5 [TStr [97%N]; TStr [97%N]; TStr [97%N]; TStr [97%N]].
Proof. vm_compute. repeat split; discriminate. Qed.

(* non-vacuity *)
Example C12_instance :
  let at_ id cp asl := {| nid := id; rsname := None; modalr := true; aslist := asl; skipws := true; white := [32%N]; callpre := cp;
                          mayidx := false; custom := false; hasmsg := true; acts := []; calltry := false; slen := 3 |} in
  let lit c id := Tok (at_ id true false) [] (KLit [c]) in
  let nested := Nary (at_ 10 true true) [] NAnd [Nary (at_ 11 true true) [] NAnd [lit 97%N 1; lit 98%N 2]; lit 99%N 3] in
  let flat := Nary (at_ 10 true true) [] NAnd [lit 97%N 1; lit 98%N 2; lit 99%N 3] in
  peg [] [97; 32; 98; 99]%N 4 nested 0 = POk 4 [TStr [97%N]; TStr [98%N]; TStr [99%N]] /\
  peg [] [97; 32; 98; 99]%N 4 flat 0 = peg [] [97; 32; 98; 99]%N 4 nested 0.
Proof. vm_compute. split; reflexivity. Qed.
