(* C18 — built-in expressions and helpers conform to their reference definitions.   (partial, see the end)
   Statements only; every proof is `exact <lemma>` or a closed vm_compute witness.

   re_<name> / conv_<name> / number_alts / qs_ws_map / re_qs_numeric are regenerated from pyparsing/common.py and
   pyparsing/core.py on every run (Gen/GenRegex.v), so these theorems are about the patterns as they are now.
   re_fullmatch is the CPython-order backtracking matcher of Model/Regex.v (validated against `re` on every run).
   The reference side: `rx_match g s` is a derivative-based recogniser for the grammar g; `Lang g` is its
   denotation (C18_rx_semantics).  g_py_float / g_py_int10 / g_py_int16 transcribe the literal syntax of Python's
   float() / int() (ASCII digits and white space: stated limit); every ref_<name> is a *restriction of those
   grammars* to an alphabet / a shape, so "accepted => the converter cannot raise" holds by construction and the
   content of each syntax theorem is that the pattern accepts *exactly* that restriction. *)
From Coq Require Import List NArith ZArith Bool.
From PP Require Import Model.Str Model.Regex Model.Builtins Gen.GenRegex Gen.GenHelpers Proofs.BuiltinsProofs.
From PP Require Import Model.Quoted Proofs.QuotedProofs Proofs.QuotedProofs2 Proofs.QuotedProofs3 Proofs.QuotedProofs4.
From PP Require Import Model.Helpers Proofs.HelpersProofs.
Import ListNotations.

(* ------------------------------------------------------------------ the meaning of a reference grammar *)
Theorem C18_rx_semantics : forall s r, rx_match r s = true <-> Lang r s.
Proof. exact rx_match_iff. Qed.

(* ------------------------------------------------------------------ numeric expressions: syntax *)
(* integer: the int() literals written with digits only *)
Theorem C18_integer_syntax : forall s, re_fullmatch re_integer s = true <-> ref_integer s = true.
Proof. exact integer_syntax. Qed.
(* signed_integer: the int() literals written with a sign and digits only *)
Theorem C18_signed_integer_syntax : forall s, re_fullmatch re_signed_integer s = true <-> ref_signed_integer s = true.
Proof. exact signed_integer_syntax. Qed.
(* hex_integer: the int(., 16) literals written with hexadecimal digits only *)
Theorem C18_hex_integer_syntax : forall s, re_fullmatch re_hex_integer s = true <-> ref_hex_integer s = true.
Proof. exact hex_integer_syntax. Qed.
(* real: the float() literals over sign, digits, point that contain a point *)
Theorem C18_real_syntax : forall s, re_fullmatch re_real s = true <-> ref_real s = true.
Proof. exact real_syntax. Qed.
(* sci_real: the float() literals over sign, digits, point, e/E that contain a point or an exponent *)
Theorem C18_sci_real_syntax : forall s, re_fullmatch re_sci_real s = true <-> ref_sci_real s = true.
Proof. exact sci_real_syntax. Qed.
(* fnumber: the float() literals over sign, digits, point, e/E -- minus those starting with [sign] "." (see _refuted below) *)
Theorem C18_fnumber_syntax : forall s, re_fullmatch re_fnumber s = true <-> ref_fnumber s = true.
Proof. exact fnumber_syntax. Qed.
(* ieee_float: all float() literals without surrounding white space or underscores (nan / inf / infinity in any case
   included) -- minus those starting with [sign] "." *)
Theorem C18_ieee_float_syntax : forall s, re_fullmatch re_ieee_float s = true <-> ref_ieee_float s = true.
Proof. exact ieee_float_syntax. Qed.

Example C18_syntax_instances :
  re_fullmatch re_sci_real [45; 49; 46; 53; 101; 43; 49; 48]%N = true /\           (* -1.5e+10 *)
  ref_sci_real [45; 49; 46; 53; 101; 43; 49; 48]%N = true /\
  re_fullmatch re_ieee_float [45; 73; 110; 70; 105; 110; 105; 116; 121]%N = true /\ (* -InFinity *)
  re_fullmatch re_real [49; 101; 53]%N = false /\                                  (* 1e5 *)
  py_float_literal [32; 49; 95; 48; 46; 32]%N = true /\                            (* " 1_0. " *)
  py_float_literal [49; 95; 95; 48]%N = false.                                     (* 1__0 *)
Proof. vm_compute. repeat split. Qed.

(* ------------------------------------------------------------------ numeric expressions: the conversion cannot raise *)
Theorem C18_integer_convertible : forall s, ref_integer s = true -> py_int_literal s = true.
Proof. exact integer_convertible. Qed.
Theorem C18_signed_integer_convertible : forall s, ref_signed_integer s = true -> py_int_literal s = true.
Proof. exact signed_integer_convertible. Qed.
Theorem C18_hex_integer_convertible : forall s, ref_hex_integer s = true -> py_int16_literal s = true.
Proof. exact hex_integer_convertible. Qed.
Theorem C18_real_convertible : forall s, ref_real s = true -> py_float_literal s = true.
Proof. exact real_convertible. Qed.
Theorem C18_sci_real_convertible : forall s, ref_sci_real s = true -> py_float_literal s = true.
Proof. exact sci_real_convertible. Qed.
Theorem C18_fnumber_convertible : forall s, ref_fnumber s = true -> py_float_literal s = true.
Proof. exact fnumber_convertible. Qed.
Theorem C18_ieee_float_convertible : forall s, ref_ieee_float s = true -> py_float_literal s = true.
Proof. exact ieee_float_convertible. Qed.

(* the conversion actions really are int / int(.,16) / float (regenerated table) *)
Example C18_conversion_table :
  conv_integer = ConvInt 10 /\ conv_signed_integer = ConvInt 10 /\ conv_hex_integer = ConvInt 16 /\
  conv_real = ConvFloat /\ conv_sci_real = ConvFloat /\ conv_fnumber = ConvFloat /\ conv_ieee_float = ConvFloat /\
  conv_identifier = ConvNone.
Proof. vm_compute. repeat split. Qed.

(* ------------------------------------------------------------------ integer values
   py_int models int(s) / int(s, 16) including white space, sign, underscores, 0x prefix; int_value / hex_value are
   the positional values.  (float *values* are compared with Python by correspondence only: partial.) *)
Theorem C18_integer_value : forall s, re_fullmatch re_signed_integer s = true -> py_int 10 s = Some (int_value s).
Proof. exact (fun s H => signed_integer_value s (proj1 (signed_integer_syntax s) H)). Qed.

Theorem C18_hex_integer_value : forall s, re_fullmatch re_hex_integer s = true -> py_int 16 s = Some (hex_value s).
Proof. exact (fun s H => hex_integer_value s (proj1 (hex_integer_syntax s) H)). Qed.

Example C18_integer_value_instance :
  re_fullmatch re_signed_integer [45; 48; 49; 50]%N = true /\ py_int 10 [45; 48; 49; 50]%N = Some (-12)%Z /\
  re_fullmatch re_hex_integer [102; 70]%N = true /\ py_int 16 [102; 70]%N = Some 255%Z /\
  py_int 10 [32; 49; 95; 48; 10]%N = Some 10%Z /\ py_int 16 [48; 120; 95; 49]%N = Some 1%Z.
Proof. vm_compute. repeat split. Qed.

(* ------------------------------------------------------------------ number = sci_real | real | signed_integer *)
(* as a language: exactly the float() literals over sign, digits, point, e/E *)
Theorem C18_number_language : forall s,
  (re_fullmatch re_sci_real s = true \/ re_fullmatch re_real s = true \/ re_fullmatch re_signed_integer s = true)
  <-> ref_number s = true.
Proof. exact number_language. Qed.

(* the int-typed alternative is disjoint from the float-typed ones *)
Theorem C18_number_types_disjoint : forall s,
  ref_signed_integer s = true -> ref_sci_real s = false /\ ref_real s = false.
Proof. exact number_float_int_disjoint. Qed.

(* MatchFirst + parse_all model: whatever is accepted is a literal of the type it is converted to.
   _partial: the converse (every such literal is accepted, i.e. the first alternative that matches a prefix matches
   the whole string) needs the priority order of the matcher and is checked by exhaustive correspondence only. *)
Theorem C18_number_sound_partial : forall s cv, match_first_all number_alts s = Some cv ->
  (cv = ConvFloat /\ (ref_sci_real s = true \/ ref_real s = true) /\ py_float_literal s = true) \/
  (cv = ConvInt 10 /\ ref_signed_integer s = true /\ py_int_literal s = true).
Proof. exact number_sound. Qed.

Example C18_number_instances :
  match_first_all number_alts [49; 50]%N = Some (ConvInt 10) /\                    (* 12 -> int *)
  match_first_all number_alts [49; 46]%N = Some ConvFloat /\                       (* 1. -> float *)
  match_first_all number_alts [49; 101; 53]%N = Some ConvFloat /\                  (* 1e5 -> float *)
  match_first_all number_alts [49; 101]%N = None.                                  (* 1e *)
Proof. vm_compute. repeat split. Qed.

(* F-18c: fnumber ("any int or real number") and ieee_float ("any floating-point literal") reject the literals
   with a leading point that `real` accepts *)
Theorem C18_fnumber_leading_dot_refuted : exists s,
  re_fullmatch re_real s = true /\ py_float_literal s = true /\ re_fullmatch re_fnumber s = false.
Proof. exists [46; 53]%N. vm_compute. repeat split. Qed.

Theorem C18_ieee_float_leading_dot_refuted : exists s,
  re_fullmatch re_real s = true /\ py_float_literal s = true /\ re_fullmatch re_ieee_float s = false.
Proof. exists [46; 53]%N. vm_compute. repeat split. Qed.

(* ... and that is the only gap: documented = accepted + leading-point literals *)
Theorem C18_fnumber_documented_gap : forall s,
  rx_match g_fnumber_documented s = true <->
  (ref_fnumber s = true \/ (rx_match g_fnumber_documented s = true /\ rx_match leading_dot s = true)).
Proof. exact fnumber_documented_gap. Qed.

(* ------------------------------------------------------------------ identifier *)
(* on ASCII strings: str.isidentifier, i.e. [A-Za-z_][A-Za-z0-9_]* *)
Theorem C18_identifier : forall s, is_ascii s = true ->
  (re_fullmatch re_identifier s = true <-> ref_identifier s = true).
Proof. exact identifier_ascii. Qed.
(* on all strings: XID_Start XID_Continue* restricted to Latin-1 *)
Theorem C18_identifier_latin1 : forall s, re_fullmatch re_identifier s = true <-> rx_match g_identifier_latin1 s = true.
Proof. exact identifier_latin1. Qed.

Example C18_identifier_instance :
  is_ascii [95; 97; 49]%N = true /\ re_fullmatch re_identifier [95; 97; 49]%N = true /\
  re_fullmatch re_identifier [49; 97]%N = false /\ re_fullmatch re_identifier [233; 183]%N = true.
Proof. vm_compute. repeat split. Qed.

(* ------------------------------------------------------------------ addresses, uuid, iso8601: shape only
   (agreement with the ipaddress / uuid / datetime modules themselves is by correspondence: partial) *)
(* every dotted quad that ipaddress.IPv4Address accepts (octets 0..255 without leading zeros) is accepted *)
Theorem C18_ipv4_accepts_wellformed : forall s, rx_match g_ipv4_strict s = true -> re_fullmatch re_ipv4_address s = true.
Proof. exact ipv4_accepts_wellformed. Qed.
(* exactly: two-digit octets may in addition start with 0 *)
Theorem C18_ipv4_syntax : forall s, re_fullmatch re_ipv4_address s = true <-> rx_match g_ipv4_lenient s = true.
Proof. exact ipv4_syntax. Qed.
(* F-18d: 0.0.0.00 is accepted; ipaddress rejects it *)
Theorem C18_ipv4_leading_zero_refuted : exists s,
  re_fullmatch re_ipv4_address s = true /\ rx_match g_ipv4_strict s = false.
Proof. exists [48; 46; 48; 46; 48; 46; 48; 48]%N. vm_compute. split; reflexivity. Qed.

Theorem C18_uuid_syntax : forall s, re_fullmatch re_uuid s = true <-> rx_match g_uuid s = true.
Proof. exact uuid_syntax. Qed.

Theorem C18_iso8601_date_syntax : forall s, re_fullmatch re_iso8601_date s = true <-> rx_match g_iso_date s = true.
Proof. exact iso8601_date_syntax. Qed.

Theorem C18_iso8601_datetime_accepts_documented : forall s,
  rx_match g_iso_datetime_documented s = true -> re_fullmatch re_iso8601_datetime s = true.
Proof. exact iso8601_datetime_accepts_documented. Qed.
Theorem C18_iso8601_datetime_syntax : forall s,
  re_fullmatch re_iso8601_datetime s = true <-> rx_match g_iso_datetime_actual s = true.
Proof. exact iso8601_datetime_syntax. Qed.
(* F-18e: "1999-12-31T23:59:" (empty seconds field) is accepted *)
Theorem C18_iso8601_datetime_empty_seconds_refuted : exists s,
  re_fullmatch re_iso8601_datetime s = true /\ rx_match g_iso_datetime_documented s = false.
Proof. exists [49; 57; 57; 57; 45; 49; 50; 45; 51; 49; 84; 50; 51; 58; 53; 57; 58]%N. vm_compute. split; reflexivity. Qed.

Example C18_address_instances :
  rx_match g_ipv4_strict [50; 53; 53; 46; 48; 46; 49; 48; 46; 57]%N = true /\     (* 255.0.10.9 *)
  re_fullmatch re_ipv4_address [50; 53; 54; 46; 48; 46; 48; 46; 48]%N = false /\  (* 256.0.0.0 *)
  supported_mac_address = false.                                                  (* back-reference: correspondence only *)
Proof. vm_compute. repeat split. Qed.

(* ------------------------------------------------------------------ QuotedString
   qs_pattern mirrors the pattern construction of QuotedString.__init__, qs_parse is parseImpl (first-character test,
   pattern.match, strip quotes, the unquote_scan_re loop with the regenerated ws_map / numeric-escape alternative,
   then the esc_quote replacement), quoted_source cfg content = quote ++ escape_content cfg content ++ end_quote.

   _partial: proved for EVERY quote / end-quote string (any length), esc_char, multiline, unquote_results,
   convert_whitespace_escapes and EVERY content -- in the configurations with an esc_char and no esc_quote, under
   roundtrip_hyp: quote strings non-empty; esc_char differs from the first end-quote character; neither is a newline;
   without multiline the content has no \n / \r; and when white-space escapes are converted and esc_char is the
   backslash, the end quote does not start with one of t n f r x u 0-7.
   The other configurations have their own theorems below: no esc_char and no esc_quote (C18_quoted_roundtrip_plain),
   esc_quote only (C18_quoted_roundtrip_escquote_partial), esc_char and esc_quote (C18_quoted_roundtrip_both_partial,
   F-18a being the excluded content), unquote_results = false (C18_quoted_raw).  Model.Quoted.qs_scope says which
   theorem covers a case; the harness evaluates the same conditions in Python as the scope of its oracle on the
   implementation and compares the two on every model case. *)
Theorem C18_quoted_roundtrip_partial : forall q eq e ml unq cws content,
  let cfg := esc_cfg q eq e ml unq cws in
  roundtrip_hyp cfg e content = true ->
  qs_parse cfg (quoted_source cfg content) 0 =
    Some (length (quoted_source cfg content), if unq then content else quoted_source cfg content).
Proof. exact quoted_roundtrip. Qed.

(* a multi-character quote pair, esc_char = backslash, content containing the end quote, the escape character and \t *)
Example C18_quoted_roundtrip_instance :
  let cfg := esc_cfg [60; 60]%N [62; 62; 62]%N 92%N true true true in
  let content := [62; 62; 62; 92; 116; 10; 97]%N in
  roundtrip_hyp cfg 92%N content = true /\
  quoted_source cfg content = [60; 60; 92; 62; 92; 62; 92; 62; 92; 92; 116; 10; 97; 62; 62; 62]%N /\
  qs_parse cfg (quoted_source cfg content) 0 = Some (16, content).
Proof. vm_compute. repeat split. Qed.

(* --- no esc_char, no esc_quote (plain_cfg).  Every quote / end-quote string (any length: the look-ahead alternatives
   e1(?!e2..) of a multi-character end quote are part of the proved pattern), multiline, unquote_results,
   convert_whitespace_escapes, EVERY content under plain_hyp: quotes non-empty; (content ++ end) has its first occurrence
   of the end quote at |content| (nothing can be escaped here, so the end quote may neither occur in the content nor
   straddle the closing one); without multiline no \n / \r in the content; and, when the result is unquoted with
   white-space escapes converted, no backslash in the content.  That last exclusion is F-18b (C18_ws_escape_refuted);
   the others are the intrinsic domain of the configuration, hence no _partial suffix. *)
Theorem C18_quoted_roundtrip_plain : forall q eq ml unq cws content,
  let cfg := plain_cfg q eq ml unq cws in
  plain_hyp cfg content = true ->
  qs_parse cfg (quoted_source cfg content) 0 =
    Some (length (quoted_source cfg content), if unq then content else quoted_source cfg content).
Proof. exact quoted_roundtrip_plain. Qed.

(* QuotedString("<!--", end_quote_char="-->"), content  a--b->-  : dashes inside, and a trailing dash that makes the
   closing quote start one character "too early" for the longest look-ahead alternative *)
Example C18_quoted_roundtrip_plain_instance :
  let cfg := plain_cfg [60; 33; 45; 45]%N [45; 45; 62]%N false true true in
  let content := [97; 45; 45; 98; 45; 62; 45]%N in
  plain_hyp cfg content = true /\
  quoted_source cfg content = [60; 33; 45; 45; 97; 45; 45; 98; 45; 62; 45; 45; 45; 62]%N /\
  qs_parse cfg (quoted_source cfg content) 0 = Some (14, content).
Proof. vm_compute. repeat split. Qed.

(* --- unquote_results = false: whatever the configuration (any esc_char / esc_quote), input and position, the token
   is the text the pattern matched, unchanged (the round-trip theorems give: the whole quoted source) *)
Theorem C18_quoted_raw : forall cfg s loc e tok,
  q_unquote cfg = false -> qs_parse cfg s loc = Some (e, tok) ->
  re_match (qs_pattern cfg) s loc = Some e /\ tok = substr s loc e.
Proof. exact quoted_raw. Qed.

Example C18_quoted_raw_instance :
  let cfg := plain_cfg [60; 33; 45; 45]%N [45; 45; 62]%N false false true in
  let content := [97; 92; 116; 45]%N in                          (* a backslash-t stays as it is *)
  plain_hyp cfg content = true /\
  qs_parse cfg (quoted_source cfg content) 0 = Some (11, [60; 33; 45; 45; 97; 92; 116; 45; 45; 45; 62]%N).
Proof. vm_compute. repeat split. Qed.

(* --- esc_quote without esc_char (escq_cfg): content escaped by replacing every end quote by the esc_quote.
   _partial: proved for every content, quote string, multiline, unquote_results, convert_whitespace_escapes under
   escq_hyp: quotes non-empty, ONE-character end quote, the esc_quote STARTS WITH it and is longer (SQL style '' or
   e.g. 'x), no \n / \r in the content unless multiline, and (unquoted with white-space conversion) no backslash in the
   escaped text.  Excluded, decided by the oracle on the implementation only: esc_quote containing the end-quote
   character elsewhere than in front (round-trips too, by brute force), esc_quote without it (fails as soon as the
   content contains the esc_quote: it comes back as an end quote), multi-character end quotes (a content ending with a
   proper prefix of the end quote cannot be protected by an esc_quote), esc_quote = end quote. *)
Theorem C18_quoted_roundtrip_escquote_partial : forall q eq w ml unq cws content,
  let cfg := escq_cfg q eq w ml unq cws in
  escq_hyp cfg w content = true ->
  qs_parse cfg (quoted_source cfg content) 0 =
    Some (length (quoted_source cfg content), if unq then content else quoted_source cfg content).
Proof. exact quoted_roundtrip_escquote. Qed.

(* QuotedString("'", esc_quote="''"), content  it's ''  *)
Example C18_quoted_roundtrip_escquote_instance :
  let cfg := escq_cfg [39]%N [39]%N [39; 39]%N false true true in
  let content := [105; 116; 39; 115; 32; 39; 39]%N in
  escq_hyp cfg [39; 39]%N content = true /\
  quoted_source cfg content = [39; 105; 116; 39; 39; 115; 32; 39; 39; 39; 39; 39]%N /\
  qs_parse cfg (quoted_source cfg content) 0 = Some (12, content).
Proof. vm_compute. repeat split. Qed.

(* --- esc_char AND esc_quote (escboth_cfg): the user escapes with the esc_char (escape_content ignores the esc_quote).
   _partial: every content that does NOT contain the esc_quote (F-18a below is the content that does), under the
   hypotheses of the esc_char case (roundtrip_hyp) and: esc_quote non-empty and not containing the esc_char (so that
   the esc_quote alternative of the pattern, read from a unit boundary, runs over unescaped characters only or dies
   inside the closing quote).  Excluded: an esc_quote that contains the esc_char (e.g. backslash + quote). *)
Theorem C18_quoted_roundtrip_both_partial : forall q eq e w ml unq cws content,
  let cfg := escboth_cfg q eq e w ml unq cws in
  both_hyp cfg e w content = true ->
  qs_parse cfg (quoted_source cfg content) 0 =
    Some (length (quoted_source cfg content), if unq then content else quoted_source cfg content).
Proof. exact quoted_roundtrip_both. Qed.

(* quote = one double-quote character DQ, esc_char = backslash BS, esc_quote = DQ DQ; content  a DQ b BS DQ  (no two
   adjacent double quotes), quoted as  DQ a BS DQ b BS BS BS DQ DQ *)
Example C18_quoted_roundtrip_both_instance :
  let cfg := escboth_cfg [34]%N [34]%N 92%N [34; 34]%N false true true in
  let content := [97; 34; 98; 92; 34]%N in
  both_hyp cfg 92%N [34; 34]%N content = true /\
  quoted_source cfg content = [34; 97; 92; 34; 98; 92; 92; 92; 34; 34]%N /\
  qs_parse cfg (quoted_source cfg content) 0 = Some (10, content).
Proof. vm_compute. repeat split. Qed.

(* F-18a: quote = one double-quote character, esc_char = backslash, esc_quote = two double quotes.  The content
   made of two double quotes is quoted as DQ BS DQ BS DQ DQ and parses to a single double quote: the esc_quote
   replacement runs on the already un-escaped text *)
Theorem C18_escquote_refuted : exists cfg content,
  q_esc cfg = Some BS /\ q_escq cfg = Some [34; 34]%N /\
  exists e out, qs_parse cfg (quoted_source cfg content) 0 = Some (e, out) /\ e = length (quoted_source cfg content) /\
                out <> content.
Proof.
  exists f18a_cfg, [34; 34]%N. split; [reflexivity|]. split; [reflexivity|].
  exists 6, [34%N]. split; [exact (proj2 f18a_witness)|]. split; [reflexivity | discriminate].
Qed.

(* F-18b: without esc_char, convert_whitespace_escapes=True turns the content backslash-t into a TAB *)
Theorem C18_ws_escape_refuted : exists cfg content,
  q_esc cfg = None /\ q_cws cfg = true /\
  exists e out, qs_parse cfg (quoted_source cfg content) 0 = Some (e, out) /\ out <> content.
Proof.
  exists f18b_cfg, [92; 116]%N. split; [reflexivity|]. split; [reflexivity|].
  exists 4, [9%N]. split; [exact f18b_witness | discriminate].
Qed.

(* ------------------------------------------------------------------ nested_expr
   single-character opener / closer (not white space, distinct), default content, ignore_expr=None.
   _partial: (1) every well-formed tree is accepted from its canonical text (items separated by one blank) and is
   returned as the nesting; (2) whatever is accepted has a balanced bracket skeleton which is exactly the skeleton of
   the returned tree.  Other white-space layouts of the same nesting are compared by correspondence only. *)
Theorem C18_nested_expr_partial : forall o c, is_ws o = false -> is_ws c = false -> N.eqb c o = false ->
  (forall l rest f, forallb (wf_tree o c) l = true -> tsize (NList l) <= f ->
     parse_nested f o c (show o c (NList l) ++ rest) = Some (NList l, rest)) /\
  (forall f s t rest, parse_nested f o c s = Some (t, rest) ->
     exists consumed l, s = consumed ++ rest /\ t = NList l /\ wf_tree o c t = true /\
                        filter (is_bracket o c) consumed = brackets o c t /\
                        balanced o c (filter (is_bracket o c) consumed)).
Proof.
  exact (fun o c Ho Hc Hoc => conj (nested_canonical o c Ho Hc Hoc) (nested_sound o c Ho Hc Hoc)).
Qed.

Example C18_nested_expr_instance :
  let t := NList [NWord [97%N]; NList [NWord [98%N]; NWord [99%N]]; NList []; NWord [100%N]] in
  forallb (wf_tree 40%N 41%N) [t] = true /\
  show 40%N 41%N t = [40; 97; 32; 40; 98; 32; 99; 41; 32; 40; 41; 32; 100; 41]%N /\
  parse_nested 12 40%N 41%N ([32; 40; 97; 40; 98; 10; 99; 41; 40; 32; 41; 100; 41] ++ [120])%N = Some (t, [120%N]) /\
  parse_nested 12 40%N 41%N [40; 40; 97; 41]%N = None.
Proof. vm_compute. repeat split. Qed.

(* ------------------------------------------------------------------ DelimitedList
   content + (delim + content) * (dl_lo min, dl_hi max) [+ Opt(delim)]  with dl_lo / dl_hi regenerated from
   DelimitedList.__init__ (min - 1, max - 1); `content` and `delim` are arbitrary deterministic elements.
   A successful parse returns the first element followed by a chain of (delim content) pairs: at least min and at
   most max elements, and if fewer than max then no further pair can be parsed at the stopping point (greedy);
   with allow_trailing_delim one more delimiter is consumed when present.  It fails exactly when there is no first
   element or fewer than min - 1 pairs follow. *)
Theorem C18_delimited_list : forall (A : Type) content delim mn mx trail s items rest,
  1 <= mn -> (forall m, mx = Some m -> mn <= m) ->
  (mx = None -> forall s x s', pair A content delim s = Some (x, s') -> length s' < length s) ->
  delimited_list A content delim mn mx trail s = Some (items, rest) ->
  exists x s1 xs s3,
    content s = Some (x, s1) /\ items = x :: xs /\ chain A content delim xs s1 s3 /\
    mn <= length items /\ (forall m, mx = Some m -> length items <= m) /\
    ((forall m, mx = Some m -> length items < m) -> pair A content delim s3 = None) /\
    rest = (if trail then match delim s3 with Some s' => s' | None => s3 end else s3).
Proof. exact delimited_list_spec. Qed.

Theorem C18_delimited_list_fails : forall (A : Type) content delim mn mx trail s,
  empty_and_survives mn mx trail = false ->
  (delimited_list A content delim mn mx trail s = None <->
   (content s = None \/
    exists x s1, content s = Some (x, s1) /\ ~ exists xs s2, chain A content delim xs s1 s2 /\ length xs = mn - 1)).
Proof. exact delimited_list_fails. Qed.

(* F-18i: DelimitedList(expr, max=1, allow_trailing_delim=True) never matches: `(delim + content) * (0, 0)` is And([]),
   which fails on every input and is not merged away once Opt(delim) has been appended *)
Theorem C18_delimited_list_max1_trailing_refuted : exists mn mx trail,
  1 <= mn /\ mx = Some 1 /\ trail = true /\
  forall (A : Type) content delim s, delimited_list A content delim mn mx trail s = None.
Proof. exists 1, (Some 1), true. repeat split; auto. Qed.

(* letters separated by commas, min = 2, max = 3, trailing delimiter allowed *)
Example C18_delimited_list_instance :
  let content := fun s : str => match s with x :: r => if N.leb 97 x then Some (x, r) else None | [] => None end in
  let delim := fun s : str => match s with 44%N :: r => Some r | _ => None end in
  delimited_list N content delim 2 (Some 3) true [97; 44; 98; 44; 99; 44; 100]%N = Some ([97; 98; 99]%N, [100%N]) /\
  delimited_list N content delim 2 (Some 3) true [97]%N = None /\
  delimited_list N content delim 1 None false [97; 44; 98; 44]%N = Some ([97; 98]%N, [44%N]).
Proof. vm_compute. repeat split. Qed.

(* ------------------------------------------------------------------ counted_array
   the count's parse action installs `expr * n` as the body of the Forward that follows (whatever body it had
   before): exactly n items are consumed and returned, or the parse fails *)
Theorem C18_counted_array : forall (A : Type) count item skipw body0 s items rest body,
  counted_array A count item skipw body0 s = (Some (items, rest), body) ->
  exists n s1, count s = Some (n, s1) /\ length items = n /\ body = Some n /\
               ca_body A item skipw n s1 = Some (items, rest).
Proof. exact counted_array_spec. Qed.

Theorem C18_counted_array_short : forall (A : Type) count item skipw body0 s n s1,
  count s = Some (n, s1) -> ca_body A item skipw n s1 = None ->
  fst (counted_array A count item skipw body0 s) = None.
Proof. exact counted_array_short. Qed.

Example C18_counted_array_instance :
  let count := fun s : str => match s with d :: r => Some (N.to_nat (d - 48), r) | [] => None end in
  let item := fun s : str => match s with x :: r => if N.leb 97 x then Some (x, r) else None | [] => None end in
  counted_array N count item skip_ws None [50; 97; 98; 99]%N = (Some ([97; 98]%N, [99%N]), Some 2) /\
  counted_array N count item skip_ws (Some 7) [48; 32; 97]%N = (Some ([], [97%N]), Some 0) /\
  fst (counted_array N count item skip_ws None [51; 97; 98]%N) = None.
Proof. vm_compute. repeat split. Qed.
