(* C18 — built-in expressions and helpers conform to their reference definitions.   (partial, see the end)
   Statements only; every proof is `exact <lemma>` or a closed vm_compute witness.

   re_<name> / conv_<name> / number_alts / qs_ws_map / re_qs_numeric are regenerated from pyparsing/common.py and
   pyparsing/core.py on every run (Gen/GenRegex.v), so these theorems are about the patterns as they are now.
   re_fullmatch is the CPython-order backtracking matcher of Model/Regex.v (validated against `re` on every run).
   The reference side: `rx_match g s` is a derivative-based recogniser for the grammar g; `Lang g` is its
   denotation (C18_rx_semantics).  g_py_float / g_py_int10 / g_py_int16 transcribe the literal syntax of Python's
   float() / int() (ASCII digits and white space: stated limit); every ref_<name> is a *restriction of those
   grammars* to an alphabet / a shape, so "accepted => the converter cannot raise" holds by construction and the
   content of each syntax theorem is that the pattern accepts *exactly* that restriction. *)
From Coq Require Import List NArith ZArith Bool.
From PP Require Import Model.Str Model.Regex Model.Builtins Gen.GenRegex Proofs.BuiltinsProofs.
Import ListNotations.

(* ------------------------------------------------------------------ the meaning of a reference grammar *)
Theorem C18_rx_semantics : forall s r, rx_match r s = true <-> Lang r s.
Proof. exact rx_match_iff. Qed.

(* ------------------------------------------------------------------ numeric expressions: syntax *)
(* integer: the int() literals written with digits only *)
Theorem C18_integer_syntax : forall s, re_fullmatch re_integer s = true <-> ref_integer s = true.
Proof. exact integer_syntax. Qed.
(* signed_integer: the int() literals written with a sign and digits only *)
Theorem C18_signed_integer_syntax : forall s, re_fullmatch re_signed_integer s = true <-> ref_signed_integer s = true.
Proof. exact signed_integer_syntax. Qed.
(* hex_integer: the int(., 16) literals written with hexadecimal digits only *)
Theorem C18_hex_integer_syntax : forall s, re_fullmatch re_hex_integer s = true <-> ref_hex_integer s = true.
Proof. exact hex_integer_syntax. Qed.
(* real: the float() literals over sign, digits, point that contain a point *)
Theorem C18_real_syntax : forall s, re_fullmatch re_real s = true <-> ref_real s = true.
Proof. exact real_syntax. Qed.
(* sci_real: the float() literals over sign, digits, point, e/E that contain a point or an exponent *)
Theorem C18_sci_real_syntax : forall s, re_fullmatch re_sci_real s = true <-> ref_sci_real s = true.
Proof. exact sci_real_syntax. Qed.
(* fnumber: the float() literals over sign, digits, point, e/E -- minus those starting with [sign] "." (see _refuted below) *)
Theorem C18_fnumber_syntax : forall s, re_fullmatch re_fnumber s = true <-> ref_fnumber s = true.
Proof. exact fnumber_syntax. Qed.
(* ieee_float: all float() literals without surrounding white space or underscores (nan / inf / infinity in any case
   included) -- minus those starting with [sign] "." *)
Theorem C18_ieee_float_syntax : forall s, re_fullmatch re_ieee_float s = true <-> ref_ieee_float s = true.
Proof. exact ieee_float_syntax. Qed.

Example C18_syntax_instances :
  re_fullmatch re_sci_real [45; 49; 46; 53; 101; 43; 49; 48]%N = true /\           (* -1.5e+10 *)
  ref_sci_real [45; 49; 46; 53; 101; 43; 49; 48]%N = true /\
  re_fullmatch re_ieee_float [45; 73; 110; 70; 105; 110; 105; 116; 121]%N = true /\ (* -InFinity *)
  re_fullmatch re_real [49; 101; 53]%N = false /\                                  (* 1e5 *)
  py_float_literal [32; 49; 95; 48; 46; 32]%N = true /\                            (* " 1_0. " *)
  py_float_literal [49; 95; 95; 48]%N = false.                                     (* 1__0 *)
Proof. vm_compute. repeat split. Qed.

(* ------------------------------------------------------------------ numeric expressions: the conversion cannot raise *)
Theorem C18_integer_convertible : forall s, ref_integer s = true -> py_int_literal s = true.
Proof. exact integer_convertible. Qed.
Theorem C18_signed_integer_convertible : forall s, ref_signed_integer s = true -> py_int_literal s = true.
Proof. exact signed_integer_convertible. Qed.
Theorem C18_hex_integer_convertible : forall s, ref_hex_integer s = true -> py_int16_literal s = true.
Proof. exact hex_integer_convertible. Qed.
Theorem C18_real_convertible : forall s, ref_real s = true -> py_float_literal s = true.
Proof. exact real_convertible. Qed.
Theorem C18_sci_real_convertible : forall s, ref_sci_real s = true -> py_float_literal s = true.
Proof. exact sci_real_convertible. Qed.
Theorem C18_fnumber_convertible : forall s, ref_fnumber s = true -> py_float_literal s = true.
Proof. exact fnumber_convertible. Qed.
Theorem C18_ieee_float_convertible : forall s, ref_ieee_float s = true -> py_float_literal s = true.
Proof. exact ieee_float_convertible. Qed.

(* the conversion actions really are int / int(.,16) / float (regenerated table) *)
Example C18_conversion_table :
  conv_integer = ConvInt 10 /\ conv_signed_integer = ConvInt 10 /\ conv_hex_integer = ConvInt 16 /\
  conv_real = ConvFloat /\ conv_sci_real = ConvFloat /\ conv_fnumber = ConvFloat /\ conv_ieee_float = ConvFloat /\
  conv_identifier = ConvNone.
Proof. vm_compute. repeat split. Qed.

(* ------------------------------------------------------------------ integer values
   py_int models int(s) / int(s, 16) including white space, sign, underscores, 0x prefix; int_value / hex_value are
   the positional values.  (float *values* are compared with Python by correspondence only: partial.) *)
Theorem C18_integer_value : forall s, re_fullmatch re_signed_integer s = true -> py_int 10 s = Some (int_value s).
Proof. exact (fun s H => signed_integer_value s (proj1 (signed_integer_syntax s) H)). Qed.

Theorem C18_hex_integer_value : forall s, re_fullmatch re_hex_integer s = true -> py_int 16 s = Some (hex_value s).
Proof. exact (fun s H => hex_integer_value s (proj1 (hex_integer_syntax s) H)). Qed.

Example C18_integer_value_instance :
  re_fullmatch re_signed_integer [45; 48; 49; 50]%N = true /\ py_int 10 [45; 48; 49; 50]%N = Some (-12)%Z /\
  re_fullmatch re_hex_integer [102; 70]%N = true /\ py_int 16 [102; 70]%N = Some 255%Z /\
  py_int 10 [32; 49; 95; 48; 10]%N = Some 10%Z /\ py_int 16 [48; 120; 95; 49]%N = Some 1%Z.
Proof. vm_compute. repeat split. Qed.

(* ------------------------------------------------------------------ number = sci_real | real | signed_integer *)
(* as a language: exactly the float() literals over sign, digits, point, e/E *)
Theorem C18_number_language : forall s,
  (re_fullmatch re_sci_real s = true \/ re_fullmatch re_real s = true \/ re_fullmatch re_signed_integer s = true)
  <-> ref_number s = true.
Proof. exact number_language. Qed.

(* the int-typed alternative is disjoint from the float-typed ones *)
Theorem C18_number_types_disjoint : forall s,
  ref_signed_integer s = true -> ref_sci_real s = false /\ ref_real s = false.
Proof. exact number_float_int_disjoint. Qed.

(* MatchFirst + parse_all model: whatever is accepted is a literal of the type it is converted to.
   _partial: the converse (every such literal is accepted, i.e. the first alternative that matches a prefix matches
   the whole string) needs the priority order of the matcher and is checked by exhaustive correspondence only. *)
Theorem C18_number_sound_partial : forall s cv, match_first_all number_alts s = Some cv ->
  (cv = ConvFloat /\ (ref_sci_real s = true \/ ref_real s = true) /\ py_float_literal s = true) \/
  (cv = ConvInt 10 /\ ref_signed_integer s = true /\ py_int_literal s = true).
Proof. exact number_sound. Qed.

Example C18_number_instances :
  match_first_all number_alts [49; 50]%N = Some (ConvInt 10) /\                    (* 12 -> int *)
  match_first_all number_alts [49; 46]%N = Some ConvFloat /\                       (* 1. -> float *)
  match_first_all number_alts [49; 101; 53]%N = Some ConvFloat /\                  (* 1e5 -> float *)
  match_first_all number_alts [49; 101]%N = None.                                  (* 1e *)
Proof. vm_compute. repeat split. Qed.

(* F-18c: fnumber ("any int or real number") and ieee_float ("any floating-point literal") reject the literals
   with a leading point that `real` accepts *)
Theorem C18_fnumber_leading_dot_refuted : exists s,
  re_fullmatch re_real s = true /\ py_float_literal s = true /\ re_fullmatch re_fnumber s = false.
Proof. exists [46; 53]%N. vm_compute. repeat split. Qed.

Theorem C18_ieee_float_leading_dot_refuted : exists s,
  re_fullmatch re_real s = true /\ py_float_literal s = true /\ re_fullmatch re_ieee_float s = false.
Proof. exists [46; 53]%N. vm_compute. repeat split. Qed.

(* ... and that is the only gap: documented = accepted + leading-point literals *)
Theorem C18_fnumber_documented_gap : forall s,
  rx_match g_fnumber_documented s = true <->
  (ref_fnumber s = true \/ (rx_match g_fnumber_documented s = true /\ rx_match leading_dot s = true)).
Proof. exact fnumber_documented_gap. Qed.

(* ------------------------------------------------------------------ identifier *)
(* on ASCII strings: str.isidentifier, i.e. [A-Za-z_][A-Za-z0-9_]* *)
Theorem C18_identifier : forall s, is_ascii s = true ->
  (re_fullmatch re_identifier s = true <-> ref_identifier s = true).
Proof. exact identifier_ascii. Qed.
(* on all strings: XID_Start XID_Continue* restricted to Latin-1 *)
Theorem C18_identifier_latin1 : forall s, re_fullmatch re_identifier s = true <-> rx_match g_identifier_latin1 s = true.
Proof. exact identifier_latin1. Qed.

Example C18_identifier_instance :
  is_ascii [95; 97; 49]%N = true /\ re_fullmatch re_identifier [95; 97; 49]%N = true /\
  re_fullmatch re_identifier [49; 97]%N = false /\ re_fullmatch re_identifier [233; 183]%N = true.
Proof. vm_compute. repeat split. Qed.

(* ------------------------------------------------------------------ addresses, uuid, iso8601: shape only
   (agreement with the ipaddress / uuid / datetime modules themselves is by correspondence: partial) *)
(* every dotted quad that ipaddress.IPv4Address accepts (octets 0..255 without leading zeros) is accepted *)
Theorem C18_ipv4_accepts_wellformed : forall s, rx_match g_ipv4_strict s = true -> re_fullmatch re_ipv4_address s = true.
Proof. exact ipv4_accepts_wellformed. Qed.
(* exactly: two-digit octets may in addition start with 0 *)
Theorem C18_ipv4_syntax : forall s, re_fullmatch re_ipv4_address s = true <-> rx_match g_ipv4_lenient s = true.
Proof. exact ipv4_syntax. Qed.
(* F-18d: 0.0.0.00 is accepted; ipaddress rejects it *)
Theorem C18_ipv4_leading_zero_refuted : exists s,
  re_fullmatch re_ipv4_address s = true /\ rx_match g_ipv4_strict s = false.
Proof. exists [48; 46; 48; 46; 48; 46; 48; 48]%N. vm_compute. split; reflexivity. Qed.

Theorem C18_uuid_syntax : forall s, re_fullmatch re_uuid s = true <-> rx_match g_uuid s = true.
Proof. exact uuid_syntax. Qed.

Theorem C18_iso8601_date_syntax : forall s, re_fullmatch re_iso8601_date s = true <-> rx_match g_iso_date s = true.
Proof. exact iso8601_date_syntax. Qed.

Theorem C18_iso8601_datetime_accepts_documented : forall s,
  rx_match g_iso_datetime_documented s = true -> re_fullmatch re_iso8601_datetime s = true.
Proof. exact iso8601_datetime_accepts_documented. Qed.
Theorem C18_iso8601_datetime_syntax : forall s,
  re_fullmatch re_iso8601_datetime s = true <-> rx_match g_iso_datetime_actual s = true.
Proof. exact iso8601_datetime_syntax. Qed.
(* F-18e: "1999-12-31T23:59:" (empty seconds field) is accepted *)
Theorem C18_iso8601_datetime_empty_seconds_refuted : exists s,
  re_fullmatch re_iso8601_datetime s = true /\ rx_match g_iso_datetime_documented s = false.
Proof. exists [49; 57; 57; 57; 45; 49; 50; 45; 51; 49; 84; 50; 51; 58; 53; 57; 58]%N. vm_compute. split; reflexivity. Qed.

Example C18_address_instances :
  rx_match g_ipv4_strict [50; 53; 53; 46; 48; 46; 49; 48; 46; 57]%N = true /\     (* 255.0.10.9 *)
  re_fullmatch re_ipv4_address [50; 53; 54; 46; 48; 46; 48; 46; 48]%N = false /\  (* 256.0.0.0 *)
  supported_mac_address = false.                                                  (* back-reference: correspondence only *)
Proof. vm_compute. repeat split. Qed.
