(* C14 — reported locations index the parsed string and agree with line/column.
   Statements only; every proof is `exact <lemma>`.  gen_col / gen_lineno / gen_line are regenerated from
   pyparsing/util.py on every run (Gen/GenLoc.v), so these theorems are about what the code says now. *)
From Coq Require Import List ZArith NArith Bool.
From PP Require Import Model.Str Gen.GenLoc Proofs.LocProofs Proofs.TabProofs.
Import ListNotations.
Local Open Scope Z_scope.

(* For every string and every 0 <= loc <= len(s): loc lies on line number lineno (1-based, within the
   lines of s), line is that line's text without the newline, col is the 1-based offset on that line,
   and loc is recovered from (lineno, col). *)
Theorem C14_consistent : forall (s : str) (loc : Z),
  0 <= loc <= zlen s ->
  let ln := gen_lineno loc s in
  let cl := gen_col loc s in
  let tx := gen_line loc s in
  1 <= ln <= Z.of_nat (length (lines s)) /\
  nth (Z.to_nat (ln - 1)) (lines s) [] = tx /\
  1 <= cl <= zlen tx + 1 /\
  loc = Z.of_nat (sumlen (firstn (Z.to_nat (ln - 1)) (lines s))) + (cl - 1).
Proof. exact loc_consistent. Qed.

(* non-vacuity: a concrete multi-line instance *)
Example C14_consistent_instance :
  let s := [97; 10; 98; 99; 10; 10; 100]%N in
  gen_lineno 3 s = 2 /\ gen_col 3 s = 2 /\ gen_line 3 s = [98; 99]%N /\ lines s = [[97]; [98; 99]; []; [100]]%N.
Proof. vm_compute. repeat split. Qed.

(* the tab-expanded copy that parse_string works on contains no tab, is at least as long,
   and is the input itself when the input has no tab (so locations then index the original) *)
Theorem C14_expandtabs_no_tab : forall s, existsb (N.eqb TAB) (expandtabs s) = false.
Proof. exact (fun s => expandtabs_go_no_tab s 0). Qed.

Theorem C14_expandtabs_id : forall s, existsb (N.eqb TAB) s = false -> expandtabs s = s.
Proof. exact (fun s => expandtabs_go_id s 0). Qed.

Theorem C14_expandtabs_length : forall s, (length s <= length (expandtabs s))%nat.
Proof. exact (fun s => expandtabs_go_length s 0). Qed.
