(* C14 — reported locations index the parsed string and agree with line/column.
   Statements only; every proof is `exact <lemma>`.  gen_col / gen_lineno / gen_line are regenerated from
   pyparsing/util.py on every run (Gen/GenLoc.v), so these theorems are about what the code says now. *)
From Coq Require Import List ZArith NArith Bool.
From PP Require Import Model.Str Model.Results Model.Prog Model.Core Model.Entry Gen.GenLoc Proofs.LocProofs Proofs.TabProofs Proofs.LocParse Proofs.ScanProofs.
Import ListNotations.
Local Open Scope Z_scope.

(* For every string and every 0 <= loc <= len(s): loc lies on line number lineno (1-based, within the
   lines of s), line is that line's text without the newline, col is the 1-based offset on that line,
   and loc is recovered from (lineno, col). *)
Theorem C14_consistent : forall (s : str) (loc : Z),
  0 <= loc <= zlen s ->
  let ln := gen_lineno loc s in
  let cl := gen_col loc s in
  let tx := gen_line loc s in
  1 <= ln <= Z.of_nat (length (lines s)) /\
  nth (Z.to_nat (ln - 1)) (lines s) [] = tx /\
  1 <= cl <= zlen tx + 1 /\
  loc = Z.of_nat (sumlen (firstn (Z.to_nat (ln - 1)) (lines s))) + (cl - 1).
Proof. exact loc_consistent. Qed.

(* non-vacuity: a concrete multi-line instance *)
Example C14_consistent_instance :
  let s := [97; 10; 98; 99; 10; 10; 100]%N in
  gen_lineno 3 s = 2 /\ gen_col 3 s = 2 /\ gen_line 3 s = [98; 99]%N /\ lines s = [[97]; [98; 99]; []; [100]]%N.
Proof. vm_compute. repeat split. Qed.

(* the tab-expanded copy that parse_string works on contains no tab, is at least as long,
   and is the input itself when the input has no tab (so locations then index the original) *)
Theorem C14_expandtabs_no_tab : forall s, existsb (N.eqb TAB) (expandtabs s) = false.
Proof. exact (fun s => expandtabs_go_no_tab s 0). Qed.

Theorem C14_expandtabs_id : forall s, existsb (N.eqb TAB) s = false -> expandtabs s = s.
Proof. exact (fun s => expandtabs_go_id s 0). Qed.

Theorem C14_expandtabs_length : forall s, (length s <= length (expandtabs s))%nat.
Proof. exact (fun s => expandtabs_go_length s 0). Qed.

(* ---- parse level: the locations the parser reports index the string that was parsed ---- *)

(* parse_string / scan_string work on the tab-expanded copy unless parse_with_tabs() was called: every `_parse` call they
   make carries that string (Model/Entry.v; the call `instring.expandtabs()` is re-read from the source by GenEntry) *)
Theorem C14_parsed_string : forall dw root keeptabs input parse_all,
  exists k, parse_string dw root keeptabs input parse_all =
            DCall (mkargs root (if keeptabs then input else expandtabs input) 0 true true) k.
Proof. intros. eexists. reflexivity. Qed.

(* a token element that returns the matched text (Literal, Word on either path, CharsNotIn, White) returns exactly the
   slice of the parsed string from the location it was tried at to the location it returns *)
Theorem C14_token_slice : forall a t s loc l m,
  text_token t = true -> tok_impl a t s loc = IOk l (RStr m) -> m = slice_ s loc l.
Proof. exact token_slice. Qed.

(* the location handed to a parse action is the location after pre-parse at which the element was tried *)
Theorem C14_action_loc : forall e d pl l r ac acs,
  acts (attrs_of e) = ac :: acs -> d = true ->
  finish e d pl l r =
  match run_actions (attrs_of e) (ac :: acs) pl
          (pr_init (post_parse e r) (rsname (attrs_of e)) (aslist (attrs_of e)) (modalr (attrs_of e))) with
  | inl rt' => Ret (Ok l rt')
  | inr x => Ret (Err x)
  end.
Proof. exact action_loc. Qed.

(* Located: locn_start is the location the Located element was tried at, locn_end the location its expression returned *)
Theorem C14_located : forall (G : env) rec a i c s pl d l r,
  rec (mkargs c s pl d false) = Some (Ok l r) -> rsname a = None ->
  exists rt, (run rec (impl G (Enh a i ELocated c) s pl d (step_k (Enh a i ELocated c) s d pl)) =
              run rec (finish (Enh a i ELocated c) d pl l (RPR rt))) /\
             toks rt = [TInt (Z.of_nat pl); TPR r; TInt (Z.of_nat l)].
Proof. exact located_locs. Qed.

(* scan_string's (start, end): a direct parse begun at start ends at end (C08_scan_sound_ordered, restated on locations) *)
Theorem C14_scan_locs : forall rec root keeptabs input maxm always_skip res fin,
  plainpre root ->
  drun rec (scan_string root keeptabs input maxm false always_skip) = Some (res, fin) ->
  Forall (fun m => match m with (t, st, en) =>
            rec (mkargs root (if keeptabs then input else expandtabs input) st true false) = Some (Ok en t) end) res.
Proof.
  intros rec root kt input maxm al res fin Hp H. unfold scan_string in H.
  apply scan_loop_spec in H; [|exact Hp]. destruct H as (new & -> & _ & Ha & _). exact Ha.
Qed.
