(* C20 -- railroad diagram generation terminates and is referentially intact.
   Statements only.  The model (Model/Diagram.v) is the converter of pyparsing/diagram/__init__.py; `fx` selects the
   repeat test: false = the pinned tree, true = the repaired test of notes/C20-fix.diff; Gen/GenDiagram.v (regenerated
   from /repo on every run) says which one the code contains (REPEAT_FIX) and pins the constants the model hard-wires.
   The witness graphs of Model/DiagramEx.v are dumps of real pyparsing objects; the check replays them on the code.

   Status on the pinned tree:
     C20_terminates            REFUTED  (C20_terminates_refuted, _refuted_unbounded, C20_linear_bound_refuted_named)
     C20_named_partial         proved (hypothesis: every cycle contains a named element worth extracting or a hidden one;
                               bound quadratic, and C20_linear_bound_refuted_named shows that no linear bound holds)
     C20_bookmarks_distinct    proved in full (any grammar, any options, either repeat test)
     C20_names_distinct, C20_root_first_partial (least index first)   proved
     C20_links_resolve, C20_no_placeholder, C20_root_first, C20_tokens_shown   REFUTED by witnesses.
     Positive side, on the decidable class `dag_class` (acyclic, F-20 shapes excluded; Model/DiagramClass.v), last section:
     C20_terminates_partial (linear bound |G|+1), C20_links_resolve_partial, C20_root_first_class_partial   proved;
     no-placeholder and tokens-shown on the class are covered by correspondence only (see notes/C20.md). *)
From Coq Require Import List NArith Arith Bool Lia.
From PP Require Import Model.Str Model.Diagram Model.DiagramEx Model.DiagramClass Gen.GenDiagram Proofs.DiagramProofs
  Proofs.DiagramPos.
Import ListNotations.
Local Open Scope nat_scope.

(* ------------------------------------------------------------------------------------------------ termination *)

(* F-20.  e <<= Group('(' + e[...] + ')') | Word(alphas), nothing named (8 element objects): the pinned converter
   is still recursing after 600 nested _to_diagram_element calls = 1200 Python frames > the recursion limit. *)
Theorem C20_terminates_refuted :
  exists G root, length G = 8 /\
    exists st, to_railroad G default_opts false root 600 = (OutOfFuel, st) /\ PY_RECURSION_LIMIT < frames (c_maxdepth st).
Proof. exists G_paren, 0. split; [reflexivity|]. eexists. split; [vm_compute; reflexivity | vm_compute; lia]. Qed.

(* ... and it never stops: for the two-element grammar e <<= Opt(e) the pinned converter exceeds every depth,
   whatever the options. *)
Theorem C20_terminates_refuted_unbounded :
  forall (o : opts) (bound : nat), exists fuel st,
    to_railroad G_fwd_opt o false 0 fuel = (OutOfFuel, st) /\ bound < c_maxdepth st.
Proof.
  intros o bound. exists bound.
  destruct (to_railroad G_fwd_opt o false 0 bound) as [r st] eqn:E. exists st.
  pose proof (fwd_opt_never_terminates o bound) as F. rewrite E in F. simpl in F. subst r.
  split; [reflexivity|]. apply out_of_fuel_is_deep in E. lia.
Qed.

(* Sufficient condition (either repeat test): if every cycle of the grammar graph contains a stopper -- an element with
   a customName that is worth extracting, or an element hidden by show_in_diagram=False while show_hidden is off --
   i.e. if the graph without the edges into stoppers is ranked, then the conversion terminates, within
   (nodes + 1) * (R + 2) nested calls where R bounds the rank. *)
Theorem C20_named_partial : forall G o fx root (rk : id -> nat) R,
  (forall x, rk x <= R) ->
  (forall x y, In y (kids G x) -> stopper G o y = false -> rk y < rk x) ->
  let B := (length G + 1) * (R + 2) in
  exists out st,
    (forall fuel, B <= fuel -> to_railroad G o fx root fuel = (Ok out, st)) /\   (* same result for every sufficient fuel *)
    frames (c_maxdepth st) <= 2 * (1 + B).
Proof.
  intros G o fx root rk R HR Hrk B.
  destruct (named_terminates G o fx root rk R HR Hrk B (le_n _)) as (out & st & E).
  exists out, st. split.
  - intros fuel Hf. eapply to_railroad_fuel_irrelevant; eauto.
  - apply depth_le_fuel in E. unfold frames. lia.
Qed.

(* fuel is only a proof device: a successful conversion is the same for every larger fuel *)
Theorem C20_fuel_irrelevant : forall G o fx root fuel fuel' out st,
  to_railroad G o fx root fuel = (Ok out, st) -> fuel <= fuel' -> to_railroad G o fx root fuel' = (Ok out, st).
Proof. exact to_railroad_fuel_irrelevant. Qed.

(* non-vacuity: the JSON-like grammar (value = string | array | object | number, with named Forward `value`, named
   `string`, `array`, `object`) meets the hypothesis, and converts to 8 diagrams *)
Example C20_named_partial_instance :
  (forall x, rk_json x <= 9) /\
  (forall x y, In y (kids G_json x) -> stopper G_json default_opts y = false -> rk_json y < rk_json x) /\
  exists out st, to_railroad G_json default_opts false 0 100 = (Ok out, st) /\ length out = 8 /\ c_maxdepth st = 12.
Proof.
  split; [apply nth_bound; vm_compute; reflexivity|].
  split; [apply rank_check_sound; vm_compute; reflexivity|].
  eexists; eexists. split; [vm_compute; reflexivity|]. split; reflexivity.
Qed.

(* The bound of C20_named_partial is quadratic for a reason: 44 element objects, EVERY Forward named (the hypothesis of
   C20_named_partial holds), and the pinned converter needs 529 nested calls = 1058 Python frames > 1000.  So
   "depth <= c * nodes + c'" fails for the pinned tree even on fully named grammars. *)
Theorem C20_linear_bound_refuted_named :
  length G_quad = 44 /\
  (forall x y, In y (kids G_quad x) -> stopper G_quad default_opts y = false -> rk_quad y < rk_quad x) /\
  exists out st, to_railroad G_quad default_opts false 0 600 = (Ok out, st) /\ PY_RECURSION_LIMIT < frames (c_maxdepth st).
Proof.
  split; [reflexivity|]. split; [apply rank_check_sound; vm_compute; reflexivity|].
  eexists; eexists. split; [vm_compute; reflexivity | vm_compute; lia].
Qed.

(* with the repaired repeat test the same three grammars convert at small depth *)
Example C20_repaired_instances :
  (exists out st, to_railroad G_paren default_opts true 0 600 = (Ok out, st) /\ c_maxdepth st = 7 /\ links_resolve out = true) /\
  (exists out st, to_railroad G_fwd_opt default_opts true 0 600 = (Ok out, st) /\ c_maxdepth st = 4) /\
  (exists out st, to_railroad G_quad default_opts true 0 600 = (Ok out, st) /\ c_maxdepth st <= 50).
Proof.
  split; [|split]; eexists; eexists; (split; [vm_compute; reflexivity|]); vm_compute; try lia; auto.
Qed.

(* a run that stops for lack of fuel really did nest that deep (so OutOfFuel at fuel 600 IS a RecursionError), and a run
   never nests deeper than its fuel *)
Theorem C20_out_of_fuel_is_deep : forall G o fx root fuel st,
  to_railroad G o fx root fuel = (OutOfFuel, st) -> 1 + fuel <= c_maxdepth st.
Proof. exact out_of_fuel_is_deep. Qed.

(* ------------------------------------------------------------------------------------------------ bookmarks *)
(* _make_bookmark with its counter suffix is injective on the names of one output: the diagrams of every output have
   pairwise distinct bookmarks -- for every grammar graph, options, either repeat test, any fuel. *)
Theorem C20_bookmarks_distinct : forall G o fx root fuel out st,
  to_railroad G o fx root fuel = (Ok out, st) -> NoDup (map od_bookmark out).
Proof. intros; eapply bookmarks_distinct; eauto. exact init_bm_ok. Qed.

(* the same from any well-formed bookmark table (the table is module-global and survives between calls) *)
Theorem C20_bookmarks_distinct_any_table : forall G o fx root fuel st0 out st,
  bm_ok st0 -> to_railroad_from G o fx root fuel st0 = (Ok out, st) -> NoDup (map od_bookmark out).
Proof. exact bookmarks_distinct. Qed.

Theorem C20_bookmark_counter_injective : forall s n s' k, bookmark_of s n = bookmark_of s' k -> n = k.
Proof. exact bookmark_of_counter. Qed.

Example C20_bookmarks_instance :
  bookmark_of [65; 32; 66]%N 7 = [97; 45; 98; 45; 48; 48; 48; 55]%N /\      (* "A B" -> "a-b-0007" *)
  bookmark_of [46; 46; 46]%N 12 = [122; 45; 48; 48; 49; 50]%N /\            (* "..." -> "z-0012" *)
  bookmark_of [] 12345 = [122; 45; 49; 50; 51; 52; 53]%N.                    (* ""    -> "z-12345" *)
Proof. vm_compute. auto. Qed.

Theorem C20_names_distinct : forall G o fx root fuel out st,
  to_railroad G o fx root fuel = (Ok out, st) -> NoDup (map od_name out).
Proof. exact names_distinct. Qed.

(* ------------------------------------------------------------------------------------------------ root first *)
(* proved part: the output is ordered by conversion index, the first diagram has the least one.
   Missing for the full statement: that this diagram is the root's (index 1) -- refuted below. *)
Theorem C20_root_first_partial : forall G o fx root fuel out st d t,
  to_railroad G o fx root fuel = (Ok out, st) -> out = d :: t -> forall e, In e t -> od_index d <= od_index e.
Proof. exact first_has_least_index. Qed.

(* r = s + 'a' with s = Forward("s") <<= r | 'b': the unnamed root is converted a second time inside s, the second
   state overwrites the first, and the root diagram gets index 4 > index 2 of `s`. *)
Theorem C20_root_first_refuted :
  exists G root out st, to_railroad G default_opts false root 100 = (Ok out, st) /\ root_first out = false /\
                        map od_index out = [2; 4].
Proof. exists G_reentered, 0. eexists; eexists. split; [vm_compute; reflexivity|]. split; reflexivity. Qed.

(* an unnamed Forward as root of a non-recursive grammar: no diagram at all *)
Theorem C20_root_first_refuted_empty :
  exists G root st, to_railroad G default_opts false root 100 = (Ok [], st).
Proof. exists G_fwd_root, 0. eexists. vm_compute. reflexivity. Qed.

(* ------------------------------------------------------------------------------------------------ links *)
(* 'a' + ... + 'b': the SkipTo named "..." is extracted, its diagram is then dropped by to_railroad, the link stays *)
Theorem C20_links_resolve_refuted :
  exists G root out st, to_railroad G default_opts false root 100 = (Ok out, st) /\ links_resolve out = false.
Proof. exists G_ellipsis, 0. eexists; eexists. split; [vm_compute; reflexivity | reflexivity]. Qed.

Example C20_links_resolve_instance :
  exists out st, to_railroad G_json default_opts false 0 100 = (Ok out, st) /\ links_resolve out = true /\
                 no_placeholder out = true /\ root_first out = true.
Proof. eexists; eexists. split; [vm_compute; reflexivity|]. repeat split. Qed.

(* ------------------------------------------------------------------------------------------------ placeholders *)
(* Opt(Empty()) + ... : the Optional keeps its item="" place holder *)
Theorem C20_no_placeholder_refuted :
  exists G root out st, to_railroad G default_opts false root 100 = (Ok out, st) /\ no_placeholder out = false.
Proof. exists G_opt_empty, 0. eexists; eexists. split; [vm_compute; reflexivity | reflexivity]. Qed.

(* Group(Empty()).set_name("g"): the diagram "g" is Diagram(None) *)
Theorem C20_no_placeholder_refuted_none :
  exists G root out st, to_railroad G default_opts false root 100 = (Ok out, st) /\
    existsb (fun d => match od_item d with IPlaceholder PNone => true | _ => false end) out = true.
Proof. exists G_group_named_empty, 0. eexists; eexists. split; [vm_compute; reflexivity | reflexivity]. Qed.

(* ------------------------------------------------------------------------------------------------ tokens shown *)
(* (w + Opt(w + 'q')).set_name("x") with w = Word("abc").set_name("x"): both diagrams are called "x", the de-duplication
   keeps the first extracted (the token's), the root's diagram is dropped and the literal 'q' is shown nowhere *)
Theorem C20_tokens_shown_refuted :
  exists G root out st, to_railroad G default_opts false root 100 = (Ok out, st) /\
    n_dname (gnode G 4) = [39; 113; 39]%N /\ n_show (gnode G 4) = true /\ shows_terminal out (n_dname (gnode G 4)) = false.
Proof. exists G_same_name, 0. eexists; eexists. split; [vm_compute; reflexivity|]. repeat split. Qed.

Example C20_tokens_shown_instance :
  exists out st, to_railroad G_paren_named default_opts false 0 100 = (Ok out, st) /\
    forallb (fun x => match n_kids (gnode G_paren_named x) with [] => shows_terminal out (n_dname (gnode G_paren_named x)) | _ => true end)
            (map fst G_paren_named) = true.
Proof. eexists; eexists. split; [vm_compute; reflexivity | reflexivity]. Qed.

(* ------------------------------------------------------------------------------------------------ the positive side *)
(* On the decidable class Model/DiagramClass.v `dag_class G o root` -- acyclic graph (`dag_b`), no element that converts
   to nothing (hidden, unnamed Empty, childless And/Or/Each), customNames pairwise distinct and none equal to "...",
   root not a by-passed Forward/Located, one-slot containers with one (repeated) child -- i.e. with every shape of the
   F-20 family excluded, the converter is proved, for EVERY graph of the class, every option tuple and either repeat
   test, to terminate within |G|+1 nested calls, to resolve every link to exactly one diagram, and to put the root's
   diagram first.  Proofs/DiagramPos.v: invariants of the ConverterState over the traversal (conv_B).
   tools/props/c20.py evaluates `dag_class` (this very definition, by vm_compute) on every dumped graph, reports how many
   are in the class, and alarms when the implementation violates the property on one of them.
   Missing (no theorem yet on the class): no-placeholder and tokens-shown; recursion through named Forwards. *)

(* (1) termination with a linear bound: every acyclic graph (no further condition) converts within |G|+1 nested
   _to_diagram_element calls, i.e. 2(|G|+2) Python frames; the result is the same for every sufficient fuel.
   _partial: cyclic graphs are not covered (C20_named_partial covers those whose cycles contain a stopper). *)
Theorem C20_terminates_partial : forall G o fx root, dag_b G = true ->
  exists out st, (forall fuel, length G + 1 <= fuel -> to_railroad G o fx root fuel = (Ok out, st)) /\
                 frames (c_maxdepth st) <= 2 * (length G + 2).
Proof. exact dag_terminates. Qed.

(* (2) every NonTerminal of every output diagram carries the name of an output diagram and its href is "#" + the
   bookmark of that diagram, and of no other.  _partial: class `dag_class` only (refuted outside: C20_links_resolve_refuted). *)
Theorem C20_links_resolve_partial : forall G o fx root, dag_class G o root = true ->
  forall fuel out st, to_railroad G o fx root fuel = (Ok out, st) ->
  forall od t hf, In od out -> In (t, hf) (item_nts (od_item od)) ->
    exists od', In od' out /\ od_name od' = t /\ hf = 35%N :: od_bookmark od' /\
                forall od'', In od'' out -> hf = 35%N :: od_bookmark od'' -> od'' = od'.
Proof. exact dag_links_resolve. Qed.

(* (3) the output is not empty, its first diagram is the root's: index 1 (converted first), named with the root's
   customName ("" when it has none), and every other diagram has a larger index.
   _partial: class `dag_class` only (refuted outside: C20_root_first_refuted, C20_root_first_refuted_empty). *)
Theorem C20_root_first_class_partial : forall G o fx root, dag_class G o root = true ->
  forall fuel out st, to_railroad G o fx root fuel = (Ok out, st) ->
  exists od rest, out = od :: rest /\ od_index od = 1 /\ od_name od = cname G root /\
                  forall e, In e rest -> 2 <= od_index e.
Proof. exact dag_root_first. Qed.

(* non-vacuity on a dumped graph: (item | Group(item)[...]) + item + word with item = (Opt('a') + word)("item"),
   word = Word("abc")("word") -- shared named elements, one worth extracting, one a token -- is in the class; it converts
   with fuel |G|+1 = 9 into 3 diagrams ("", "item", "word") at depth 5, all links resolve, the root is first. *)
Example C20_class_instance :
  dag_class G_dag default_opts 0 = true /\
  exists out st, to_railroad G_dag default_opts false 0 (length G_dag + 1) = (Ok out, st) /\
    map od_name out = [[]; [105; 116; 101; 109]; [119; 111; 114; 100]]%N /\ map od_index out = [1; 3; 9] /\
    c_maxdepth st = 5 /\ links_resolve out = true /\ root_first out = true /\ no_placeholder out = true.
Proof. split; [vm_compute; reflexivity|]. eexists; eexists. split; [vm_compute; reflexivity|]. vm_compute. repeat split. Qed.

(* the class excludes every witness of the F-20 family above *)
Example C20_class_excludes :
  dag_class G_paren default_opts 0 = false /\ dag_class G_paren_named default_opts 0 = false /\
  dag_class G_fwd_opt default_opts 0 = false /\ dag_class G_fwd_self default_opts 0 = false /\
  dag_class G_json default_opts 0 = false /\ dag_class G_quad default_opts 0 = false /\
  dag_class G_reentered default_opts 0 = false /\        (* cycles *)
  dag_class G_ellipsis default_opts 0 = false /\         (* "..." *)
  dag_class G_opt_empty default_opts 0 = false /\ dag_class G_group_named_empty default_opts 0 = false /\  (* Empty *)
  dag_class G_same_name default_opts 0 = false /\        (* equal customNames *)
  dag_class G_fwd_root default_opts 0 = false.           (* by-passed root *)
Proof. vm_compute. repeat split. Qed.
