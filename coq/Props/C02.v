(* C02 — packrat memoization never changes a parse outcome.
   Statements only.  `step G` is the element semantics of Model/Core.v; the theorems hold for EVERY grammar environment,
   cache size (None = unbounded, Some n = FIFO of size n, incl. 0), fuel, starting cache satisfying the invariant
   (in particular the empty cache that every entry point starts from after reset_cache()), argument tuple and input. *)
From Coq Require Import List Bool NArith.
From PP Require Import Model.Str Model.Results Model.Prog Model.Core Model.Entry.
From PP Require Import Proofs.Packrat Proofs.EqDec Proofs.PackratCore Gen.GenKeys.
Import ListNotations.

(* soundness: whatever `_parseCache` answers (value, or exception with class, location and message), `_parseNoCache` answers too *)
Theorem C02_transparent_sound : forall (G : env) (size : option nat) fuel c a o,
  okm args outcome (step G) c ->
  snd (parsec (step G) args_eqb size fuel c a) = Some o ->
  exists f, parse (step G) f a = Some o.
Proof. exact elem_sound. Qed.

(* completeness: whenever the plain parser answers within `fuel`, so does the cached one, with the same answer *)
Theorem C02_transparent_complete : forall (G : env) (size : option nat) fuel c a o,
  okm args outcome (step G) c ->
  parse (step G) fuel a = Some o ->
  snd (parsec (step G) args_eqb size fuel c a) = Some o.
Proof. exact elem_complete. Qed.

(* the invariant is preserved by every call, hits and evictions included; and holds initially *)
Theorem C02_invariant : forall (G : env) (size : option nat) fuel c a,
  okm args outcome (step G) c -> okm args outcome (step G) (fst (parsec (step G) args_eqb size fuel c a)).
Proof. exact elem_inv. Qed.

Theorem C02_invariant_initial : forall (G : env), okm args outcome (step G) [].
Proof. exact (fun G => okm_nil args outcome (step G)). Qed.

(* entry points: parse_string (with or without parse_all) and scan_string (hence search_string, transform_string,
   split, which are functions of its match list) *)
Theorem C02_parse_string : forall (G : env) dw root keeptabs input parse_all (size : option nat) fuel r,
  snd (drunc (parsec (step G) args_eqb size fuel) [] (parse_string dw root keeptabs input parse_all)) = Some r ->
  exists f, drun (parse (step G) f) (parse_string dw root keeptabs input parse_all) = Some r.
Proof.
  exact (fun G dw root kt inp pa size fuel r =>
           proj2 (drunc_sound G size (parse_string dw root kt inp pa) fuel [] (okm_nil args outcome (step G))) r).
Qed.

Theorem C02_parse_string_complete : forall (G : env) dw root keeptabs input parse_all (size : option nat) fuel r,
  drun (parse (step G) fuel) (parse_string dw root keeptabs input parse_all) = Some r ->
  snd (drunc (parsec (step G) args_eqb size fuel) [] (parse_string dw root keeptabs input parse_all)) = Some r.
Proof.
  exact (fun G dw root kt inp pa size fuel r H =>
           proj1 (drunc_complete G size (parse_string dw root kt inp pa) fuel [] r (okm_nil args outcome (step G)) H)).
Qed.

Theorem C02_scan_string : forall (G : env) root keeptabs input maxm overlap always_skip (size : option nat) fuel r,
  snd (drunc (parsec (step G) args_eqb size fuel) [] (scan_string root keeptabs input maxm overlap always_skip)) = Some r ->
  exists f, drun (parse (step G) f) (scan_string root keeptabs input maxm overlap always_skip) = Some r.
Proof.
  exact (fun G root kt inp mx ov sk size fuel r =>
           proj2 (drunc_sound G size (scan_string root kt inp mx ov sk) fuel [] (okm_nil args outcome (step G))) r).
Qed.

Theorem C02_scan_string_complete : forall (G : env) root keeptabs input maxm overlap always_skip (size : option nat) fuel r,
  drun (parse (step G) fuel) (scan_string root keeptabs input maxm overlap always_skip) = Some r ->
  snd (drunc (parsec (step G) args_eqb size fuel) [] (scan_string root keeptabs input maxm overlap always_skip)) = Some r.
Proof.
  exact (fun G root kt inp mx ov sk size fuel r H =>
           proj1 (drunc_complete G size (scan_string root kt inp mx ov sk) fuel [] r (okm_nil args outcome (step G)) H)).
Qed.

(* the tie to the code (regenerated from _parseCache on every run): the lookup tuple contains every parameter that
   _parseNoCache — and hence `step`, which reads a_e, a_s, a_loc, a_do, a_pre and nothing else — depends on; the stored
   exception is a copy with the current attributes and a hit raises a copy; values are copied on store and on hit;
   the lock is held around the whole body *)
Theorem C02_key_sufficient :
  forallb (fun p => existsb (fun q => match p, q with
                                      | P_self, P_self | P_instring, P_instring | P_loc, P_loc
                                      | P_do_actions, P_do_actions | P_callPreParse, P_callPreParse => true
                                      | _, _ => false end) gen_cache_key) gen_parse_params = true
  /\ length gen_parse_params = 5
  /\ gen_store_exception_current_copy = true /\ gen_hit_raises_copy = true
  /\ gen_store_value_copy = true /\ gen_hit_value_copy = true
  /\ gen_cache_sets = 2 /\ gen_lock_held_throughout = true.
Proof. vm_compute. repeat split. Qed.

(* non-vacuity: a concrete backtracking parse in which the cache is hit, sizes 0, 1 and unbounded, same answer *)
Example C02_instance :
  let a_ := {| nid := 1; rsname := None; modalr := true; aslist := false; skipws := true; white := [32%N]; callpre := true;
               mayidx := false; custom := false; hasmsg := true; acts := []; calltry := false; slen := 3 |} in
  let lit c id := Tok {| nid := id; rsname := None; modalr := true; aslist := false; skipws := true; white := [32%N]; callpre := true;
               mayidx := false; custom := false; hasmsg := true; acts := []; calltry := false; slen := 3 |} [] (KLit [c]) in
  let seq id es := Nary {| nid := id; rsname := None; modalr := true; aslist := true; skipws := true; white := [32%N]; callpre := true;
               mayidx := true; custom := false; hasmsg := true; acts := []; calltry := false; slen := 3 |} [] NAnd es in
  let alt id es := Nary {| nid := id; rsname := None; modalr := true; aslist := false; skipws := true; white := [32%N]; callpre := false;
               mayidx := true; custom := false; hasmsg := true; acts := []; calltry := false; slen := 3 |} [] NMatchFirst es in
  let g := alt 10 [seq 11 [lit 97%N 1; lit 98%N 2; lit 99%N 3]; seq 12 [lit 97%N 1; lit 98%N 2]] in
  let ar := mkargs g [97; 32; 98]%N 0 true true in
  snd (parsec (step []) args_eqb (Some 0) 10 [] ar) = parse (step []) 10 ar /\
  snd (parsec (step []) args_eqb (Some 1) 10 [] ar) = parse (step []) 10 ar /\
  snd (parsec (step []) args_eqb None 10 [] ar) = parse (step []) 10 ar /\
  (exists l r, parse (step []) 10 ar = Some (Ok l r)).
Proof. vm_compute. repeat split. eexists. eexists. reflexivity. Qed.
