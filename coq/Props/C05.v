(* C05 — results names report exactly what the named element matched.  Statements only.
   The name view (`view`, `mm_values`, `mm_lookup`: Model/ResultsSpec.v) is what r[name], getattr, get(), as_dict() and
   dump() are functions of (C10_lookup_forms_agree / C10_as_dict_entry, re-exported below).
   Part 1 (per step): which names are bound and merged by each operation on results (binding on a token / on a
   sequence, concatenation, Group scoping, unmatched optionals, failed alternatives).
   Part 2 (end to end): C05_names_end_to_end_partial — on every grammar of the class `in_class_n` (results names everywhere,
   no parse actions), every input, every fuel, the results returned by the parser have exactly the token list and the name
   table that the reference reading `names_of` (Model/NamesSpec.v: the clauses of the property over a derivation) computes.
   Outside that class (Each, Combine, Located, SkipTo, Dict, stop_on, parse actions, ignorables) the statement is decided by
   the model-vs-implementation correspondence and by the compositional oracle of tools/props/c05.py on the implementation. *)
From Coq Require Import List ZArith NArith Bool.
From PP Require Import Model.Str Model.Results Model.ResultsAPI Model.ResultsSpec Model.Prog Model.Core Model.Peg Model.NamesSpec.
From PP Require Import Proofs.ResultsProofs Proofs.Names Proofs.NamesE2E.
Import ListNotations.

(* a token element named n reports the token it matched *)
Theorem C05_token_name : forall s n c modal_,
  mm_values (view (pr_init (RStr s) (Some (c :: n)) false modal_)) (c :: n) = [VStr s].
Proof. exact init_token_name. Qed.

(* a sequence / repetition named n (ordinary name, not already a list-all name of its content) reports its token list,
   as a results object without the inner names; the inner names remain visible at the same level *)
Theorem C05_sequence_name : forall p n c k,
  name_in (c :: n) (allnames p) = false ->
  mm_values (view (pr_init (RPR p) (Some (c :: n)) true true)) k =
  if str_eqb (c :: n) k then mm_values (view p) k ++ [VPR (map tview (toks p)) [] []] else mm_values (view p) k.
Proof. exact init_list_name. Qed.

(* sequences and repetitions concatenate their elements' results: under every name the values of the later element
   follow those of the earlier one, in order ... *)
Theorem C05_concat_values : forall a b k,
  mm_values (view (pr_iadd a b)) k = mm_values (view a) k ++ all_values (av_map (view b)) k.
Proof. exact iadd_values. Qed.

(* ... a lookup yields the last value for an ordinary name and all values, in order, for a list-all name
   (the definition of `mm_lookup`, which C10 proves to be what r[name] computes) ... *)
Theorem C05_lookup_last_or_all : forall a k,
  mm_lookup a k =
  match dict_get (av_map a) k with
  | None => None
  | Some vs => if name_in k (av_all a) then Some (VPR vs [] []) else match rev vs with v :: _ => Some v | [] => None end
  end.
Proof. reflexivity. Qed.

Theorem C05_getitem_is_lookup : forall r k, option_map tview (pr_getname r k) = mm_lookup (view r) k.
Proof. exact getname_view. Qed.

(* ... and a name is list-all in the concatenation only if it is list-all in one of the operands *)
Theorem C05_listall_origin : forall a b k,
  name_in k (allnames (pr_iadd a b)) = true -> name_in k (allnames a) = true \/ name_in k (allnames b) = true.
Proof. exact iadd_allnames. Qed.

(* Group scoping: names declared inside a Group are visible only on the group's sub-result *)
Theorem C05_group_scoping : forall a i c p asl m,
  let r := pr_init (post_parse (Enh a i (EGroup false) c) (RPR p)) None asl m in
  toks r = [TPR p] /\ dict r = [] /\ allnames r = [].
Proof. exact group_scope. Qed.

(* an optional that took no part in the match (no default) contributes no name *)
Theorem C05_unmatched_optional_silent : forall nm asl m,
  let r := pr_init (RList []) nm asl m in toks r = [] /\ dict r = [].
Proof. exact opt_unmatched_silent. Qed.

(* an alternative that failed contributes nothing: MatchFirst's result is the first successful alternative's result *)
Theorem C05_unused_alternatives_silent : forall rec k e s loc d c rest best,
  (forall x, rec (mkargs c s loc d true) = Some (Err x) -> is_pe (xk x) = true ->
     run rec (mf_go k e s loc d (c :: rest) best) = run rec (mf_go k e s loc d rest (better best x))) /\
  (forall l r, rec (mkargs c s loc d true) = Some (Ok l r) ->
     run rec (mf_go k e s loc d (c :: rest) best) = run rec (k (inr (l, RPR r)))).
Proof.
  intros. split; [intros x H1 H2; apply mf_failed_silent; assumption|intros l r H; apply mf_success; exact H].
Qed.

(* non-vacuity: Word("ab")("x*") + Word("ab")("x*") + Group(Word("ab")("g")) on three words: x lists both, g is scoped *)
Example C05_instance :
  let w nm := pr_init (RStr [97%N]) (Some nm) false false in
  let x := [120%N] in
  let r := pr_iadd (w x) (w x) in
  mm_lookup (view r) x = Some (VPR [VStr [97%N]; VStr [97%N]] [] []).
Proof. vm_compute. reflexivity. Qed.

(* ================================================================================================================= *)
(* Part 2: END TO END over the parser                                                                                *)
(* ================================================================================================================= *)
(* `names_of G s fuel e loc` (Model/NamesSpec.v) is the reference reading: it follows the PEG reading of C01 and computes,
   from the derivation alone, the abstract results of the element — the list of its tokens (a Group as one nested
   sub-result carrying its own names) and the ordered multimap name -> values with the set of list-all names — by the
   clauses of the property (token name; sequence / repetition = concatenation in order, the name of a list-saving element
   reporting the list of its tokens; Group scoping; the matched alternative only; unmatched Opt silent, or its default;
   FollowedBy keeps names and no token; NotAny, Suppress report nothing; Forward = its body).
   `nproj` keeps of an outcome: success / ParseException / divergence / out of fuel, the end position and `view r`
   (Model/ResultsSpec.v), i.e. everything r[name], keys(), as_dict(), dump(), as_list() are functions of.

   _partial, what is missing with respect to the text of the property:
     * the class `in_class_n` (boolean, Model/NamesSpec.v) = the class of C01_peg_equiv with results names (ordinary and
       list-all) allowed on every element, minus Each and Combine; no parse actions, no ignore expressions, no stop_on;
       token elements are not list-saving; an Opt default is a str, an int or a bool (not None); an Opt with a default whose content carries a
       LIST-ALL name is excluded, because there the code deviates from the property (C05_opt_default_listall_refuted);
     * which elements are list-saving (`aslist`) and which names are list-all (`modalr`) is read from the DUMPED attributes
       of the real objects; with the flags decided by the structure of the grammar instead, the statement is false for a
       Forward named before its assignment (F-05c: C05_forward_name_flagfree_refuted);
     * the reference is tied to the implementation by tools/props/c05.py (names_of evaluated by coqc on dumps of random
       named grammars of the class, compared with the view of what parse_string returns). *)
Theorem C05_names_end_to_end_partial : forall (G : env) (s : str), env_in_class_n G = true ->
  forall f e, in_class_n G e = true -> forall loc d,
  nproj (parse (step G) f (mkargs e s loc d true)) = Some (names_of G s f e loc).
Proof. exact names_e2e. Qed.

(* the same, read through the public lookups: whenever the parser succeeds, the token list, r[name] for EVERY name
   (None = KeyError), keys() and as_dict() of its results are those of the table of the reference reading *)
Theorem C05_names_lookups_end_to_end_partial : forall (G : env) (s : str), env_in_class_n G = true ->
  forall f e, in_class_n G e = true -> forall loc d l r,
  parse (step G) f (mkargs e s loc d true) = Some (Ok l r) ->
  exists v, names_of G s f e loc = NOk l v /\
    map tview (toks r) = av_list v /\
    (forall k, option_map tview (pr_getname r k) = mm_lookup v k) /\
    keys r = map fst (av_map v) /\
    map (fun kv => (fst kv, dview (snd kv))) (as_dict r) = spec_as_dict v.
Proof. exact names_e2e_lookups. Qed.

(* ---- instances: dumps (tools/harness/dump.py, after streamline()) of real pyparsing objects; tools/props/c05.py
   (E2E_WITNESSES) re-dumps them on every run and compares them with these terms.  Every Example states: the grammar is in
   the class, the parser's answer projects to the reference's (the conclusion of the theorem, computed), and the names
   (`name_view`: every key with r[key], nested results as lists — the form of the scenario table of c05.py). ---- *)
Definition c05_at (n : nat) (rs : option str) (mo asl sk : bool) (wh : list char) (cp mi cu hm ct : bool) (sl : nat) : attrs :=
  {| nid := n; rsname := rs; modalr := mo; aslist := asl; skipws := sk; white := wh; callpre := cp; mayidx := mi;
     custom := cu; hasmsg := hm; acts := []; calltry := ct; slen := sl |}.

(* w_main = Word('ab')('k') + Group(Word('12')('n') + Word('12')('n'))('g') + Opt(Word('ab')('o')) on "a 1 2 b" / "a 1 2";
   the others are the scenarios of tools/props/c05.py of the same name *)
Definition w_main_G : env := [].
Definition w_main : expr := (Nary (c05_at 1 None true true true [9;10;13;32]%N true true false true false 41) [] NAnd [(Tok (c05_at 2 (Some [107]%N) true false true [9;10;13;32]%N true false false true false 6) [] (KWord [97;98]%N [97;98]%N 1 None false false true)); (Enh (c05_at 3 (Some [103]%N) true true true [9;10;13;32]%N true true false false false 23) [] (EGroup false) (Nary (c05_at 4 None true true true [9;10;13;32]%N true true false true false 15) [] NAnd [(Tok (c05_at 5 (Some [110]%N) true false true [9;10;13;32]%N true false false true false 6) [] (KWord [49;50]%N [49;50]%N 1 None false false true)); (Tok (c05_at 6 (Some [110]%N) true false true [9;10;13;32]%N true false false true false 6) [] (KWord [49;50]%N [49;50]%N 1 None false false true))])); (Enh (c05_at 7 None true false true [9;10;13;32]%N true false false false false 8) [] (EOpt None) (Tok (c05_at 8 (Some [111]%N) true false true [9;10;13;32]%N true false false true false 6) [] (KWord [97;98]%N [97;98]%N 1 None false false true)))]).
Example C05_e2e_main_1 :
  in_class_n w_main_G w_main && env_in_class_n w_main_G = true /\
  nproj (parse (step w_main_G) 40 (mkargs w_main [97;32;49;32;50;32;98]%N 0 true true)) = Some (names_of w_main_G [97;32;49;32;50;32;98]%N 40 w_main 0) /\
  nres_names (names_of w_main_G [97;32;49;32;50;32;98]%N 40 w_main 0) = Some [([107]%N, VStr [97]%N); ([103]%N, VList [VStr [49]%N; VStr [50]%N]); ([111]%N, VStr [98]%N)].
Proof. vm_compute. repeat split. Qed.
Example C05_e2e_main_2 :
  in_class_n w_main_G w_main && env_in_class_n w_main_G = true /\
  nproj (parse (step w_main_G) 40 (mkargs w_main [97;32;49;32;50]%N 0 true true)) = Some (names_of w_main_G [97;32;49;32;50]%N 40 w_main 0) /\
  nres_names (names_of w_main_G [97;32;49;32;50]%N 40 w_main 0) = Some [([107]%N, VStr [97]%N); ([103]%N, VList [VStr [49]%N; VStr [50]%N])].
Proof. vm_compute. repeat split. Qed.
Definition w_last_wins_G : env := [].
Definition w_last_wins : expr := (Nary (c05_at 1 None true true true [9;10;13;32]%N true true false true false 15) [] NAnd [(Tok (c05_at 2 (Some [120]%N) true false true [9;10;13;32]%N true false false true false 6) [] (KWord [97;98]%N [97;98]%N 1 None false false true)); (Tok (c05_at 3 (Some [120]%N) true false true [9;10;13;32]%N true false false true false 6) [] (KWord [97;98]%N [97;98]%N 1 None false false true))]).
Example C05_e2e_last_wins :
  in_class_n w_last_wins_G w_last_wins && env_in_class_n w_last_wins_G = true /\
  nproj (parse (step w_last_wins_G) 40 (mkargs w_last_wins [97;32;98]%N 0 true true)) = Some (names_of w_last_wins_G [97;32;98]%N 40 w_last_wins 0) /\
  nres_names (names_of w_last_wins_G [97;32;98]%N 40 w_last_wins 0) = Some [([120]%N, VStr [98]%N)].
Proof. vm_compute. repeat split. Qed.
Definition w_listall_G : env := [].
Definition w_listall : expr := (Nary (c05_at 1 None true true true [9;10;13;32]%N true true false true false 15) [] NAnd [(Tok (c05_at 2 (Some [120]%N) false false true [9;10;13;32]%N true false false true false 6) [] (KWord [97;98]%N [97;98]%N 1 None false false true)); (Tok (c05_at 3 (Some [120]%N) false false true [9;10;13;32]%N true false false true false 6) [] (KWord [97;98]%N [97;98]%N 1 None false false true))]).
Example C05_e2e_listall :
  in_class_n w_listall_G w_listall && env_in_class_n w_listall_G = true /\
  nproj (parse (step w_listall_G) 40 (mkargs w_listall [97;32;98]%N 0 true true)) = Some (names_of w_listall_G [97;32;98]%N 40 w_listall 0) /\
  nres_names (names_of w_listall_G [97;32;98]%N 40 w_listall 0) = Some [([120]%N, VList [VStr [97]%N; VStr [98]%N])].
Proof. vm_compute. repeat split. Qed.
Definition w_seq_inner_G : env := [].
Definition w_seq_inner : expr := (Nary (c05_at 1 (Some [115]%N) true true true [9;10;13;32]%N true true false true false 15) [] NAnd [(Tok (c05_at 2 (Some [120]%N) true false true [9;10;13;32]%N true false false true false 6) [] (KWord [97;98]%N [97;98]%N 1 None false false true)); (Tok (c05_at 3 (Some [121]%N) true false true [9;10;13;32]%N true false false true false 6) [] (KWord [97;98]%N [97;98]%N 1 None false false true))]).
Example C05_e2e_seq_inner :
  in_class_n w_seq_inner_G w_seq_inner && env_in_class_n w_seq_inner_G = true /\
  nproj (parse (step w_seq_inner_G) 40 (mkargs w_seq_inner [97;32;98]%N 0 true true)) = Some (names_of w_seq_inner_G [97;32;98]%N 40 w_seq_inner 0) /\
  nres_names (names_of w_seq_inner_G [97;32;98]%N 40 w_seq_inner 0) = Some [([120]%N, VStr [97]%N); ([121]%N, VStr [98]%N); ([115]%N, VList [VStr [97]%N; VStr [98]%N])].
Proof. vm_compute. repeat split. Qed.
Definition w_listall_container_G : env := [].
Definition w_listall_container : expr := (Nary (c05_at 1 (Some [121]%N) false true true [9;10;13;32]%N true true false true false 15) [] NAnd [(Tok (c05_at 2 (Some [120]%N) false false true [9;10;13;32]%N true false false true false 6) [] (KWord [97;98]%N [97;98]%N 1 None false false true)); (Tok (c05_at 3 (Some [120]%N) false false true [9;10;13;32]%N true false false true false 6) [] (KWord [97;98]%N [97;98]%N 1 None false false true))]).
Example C05_e2e_listall_container :
  in_class_n w_listall_container_G w_listall_container && env_in_class_n w_listall_container_G = true /\
  nproj (parse (step w_listall_container_G) 40 (mkargs w_listall_container [97;32;98]%N 0 true true)) = Some (names_of w_listall_container_G [97;32;98]%N 40 w_listall_container 0) /\
  nres_names (names_of w_listall_container_G [97;32;98]%N 40 w_listall_container 0) = Some [([120]%N, VList [VStr [97]%N; VStr [98]%N]); ([121]%N, VList [VList [VStr [97]%N; VStr [98]%N]])].
Proof. vm_compute. repeat split. Qed.
Definition w_rep_last_G : env := [].
Definition w_rep_last : expr := (Rep (c05_at 1 None true true true [9;10;13;32]%N true false false false false 11) [] false (Tok (c05_at 2 (Some [120]%N) true false true [9;10;13;32]%N true false false true false 6) [] (KWord [97;98]%N [97;98]%N 1 None false false true)) None).
Example C05_e2e_rep_last :
  in_class_n w_rep_last_G w_rep_last && env_in_class_n w_rep_last_G = true /\
  nproj (parse (step w_rep_last_G) 40 (mkargs w_rep_last [97;32;98]%N 0 true true)) = Some (names_of w_rep_last_G [97;32;98]%N 40 w_rep_last 0) /\
  nres_names (names_of w_rep_last_G [97;32;98]%N 40 w_rep_last 0) = Some [([120]%N, VStr [98]%N)].
Proof. vm_compute. repeat split. Qed.
Definition w_rep_listall_G : env := [].
Definition w_rep_listall : expr := (Rep (c05_at 1 None true true true [9;10;13;32]%N true false false false false 11) [] false (Tok (c05_at 2 (Some [120]%N) false false true [9;10;13;32]%N true false false true false 6) [] (KWord [97;98]%N [97;98]%N 1 None false false true)) None).
Example C05_e2e_rep_listall :
  in_class_n w_rep_listall_G w_rep_listall && env_in_class_n w_rep_listall_G = true /\
  nproj (parse (step w_rep_listall_G) 40 (mkargs w_rep_listall [97;32;98]%N 0 true true)) = Some (names_of w_rep_listall_G [97;32;98]%N 40 w_rep_listall 0) /\
  nres_names (names_of w_rep_listall_G [97;32;98]%N 40 w_rep_listall 0) = Some [([120]%N, VList [VStr [97]%N; VStr [98]%N])].
Proof. vm_compute. repeat split. Qed.
Definition w_group_scope_G : env := [].
Definition w_group_scope : expr := (Nary (c05_at 1 None true true true [9;10;13;32]%N true true false true false 23) [] NAnd [(Enh (c05_at 2 None true true true [9;10;13;32]%N true false false false false 14) [] (EGroup false) (Tok (c05_at 3 (Some [120]%N) true false true [9;10;13;32]%N true false false true false 6) [] (KWord [97;98]%N [97;98]%N 1 None false false true))); (Tok (c05_at 4 (Some [121]%N) true false true [9;10;13;32]%N true false false true false 6) [] (KWord [97;98]%N [97;98]%N 1 None false false true))]).
Example C05_e2e_group_scope :
  in_class_n w_group_scope_G w_group_scope && env_in_class_n w_group_scope_G = true /\
  nproj (parse (step w_group_scope_G) 40 (mkargs w_group_scope [97;32;98]%N 0 true true)) = Some (names_of w_group_scope_G [97;32;98]%N 40 w_group_scope 0) /\
  nres_names (names_of w_group_scope_G [97;32;98]%N 40 w_group_scope 0) = Some [([121]%N, VStr [98]%N)].
Proof. vm_compute. repeat split. Qed.
Definition w_group_name_G : env := [].
Definition w_group_name : expr := (Enh (c05_at 1 (Some [103]%N) true true true [9;10;13;32]%N true true false false false 23) [] (EGroup false) (Nary (c05_at 2 None true true true [9;10;13;32]%N true true false true false 15) [] NAnd [(Tok (c05_at 3 (Some [120]%N) true false true [9;10;13;32]%N true false false true false 6) [] (KWord [97;98]%N [97;98]%N 1 None false false true)); (Tok (c05_at 4 None true false true [9;10;13;32]%N true false false true false 6) [] (KWord [97;98]%N [97;98]%N 1 None false false true))])).
Example C05_e2e_group_name :
  in_class_n w_group_name_G w_group_name && env_in_class_n w_group_name_G = true /\
  nproj (parse (step w_group_name_G) 40 (mkargs w_group_name [97;32;98]%N 0 true true)) = Some (names_of w_group_name_G [97;32;98]%N 40 w_group_name 0) /\
  nres_names (names_of w_group_name_G [97;32;98]%N 40 w_group_name 0) = Some [([103]%N, VList [VStr [97]%N; VStr [98]%N])].
Proof. vm_compute. repeat split. Qed.
Definition w_alternative_G : env := [].
Definition w_alternative : expr := (Nary (c05_at 1 None true true true [9;10;13;32]%N false true false true false 27) [] NMatchFirst [(Nary (c05_at 2 None true true true [9;10;13;32]%N true true false true false 11) [] NAnd [(Tok (c05_at 3 (Some [120]%N) true false true [9;10;13;32]%N true false false true false 5) [] (KWord [97]%N [97]%N 1 None false false true)); (Tok (c05_at 4 None true false true [9;10;13;32]%N true false false true false 3) [] (KLit [49]%N))]); (Nary (c05_at 5 None true true true [9;10;13;32]%N true true false true false 11) [] NAnd [(Tok (c05_at 6 (Some [121]%N) true false true [9;10;13;32]%N true false false true false 5) [] (KWord [97]%N [97]%N 1 None false false true)); (Tok (c05_at 7 None true false true [9;10;13;32]%N true false false true false 3) [] (KLit [50]%N))])]).
Example C05_e2e_alternative :
  in_class_n w_alternative_G w_alternative && env_in_class_n w_alternative_G = true /\
  nproj (parse (step w_alternative_G) 40 (mkargs w_alternative [97;32;50]%N 0 true true)) = Some (names_of w_alternative_G [97;32;50]%N 40 w_alternative 0) /\
  nres_names (names_of w_alternative_G [97;32;50]%N 40 w_alternative 0) = Some [([121]%N, VStr [97]%N)].
Proof. vm_compute. repeat split. Qed.
Definition w_opt_unmatched_G : env := [].
Definition w_opt_unmatched : expr := (Nary (c05_at 1 None true true true [9;10;13;32]%N true true false true false 15) [] NAnd [(Enh (c05_at 2 None true false true [9;10;13;32]%N true false false false false 7) [] (EOpt None) (Tok (c05_at 3 (Some [120]%N) true false true [9;10;13;32]%N true false false true false 5) [] (KWord [97]%N [97]%N 1 None false false true))); (Tok (c05_at 4 (Some [121]%N) true false true [9;10;13;32]%N true false false true false 5) [] (KWord [98]%N [98]%N 1 None false false true))]).
Example C05_e2e_opt_unmatched :
  in_class_n w_opt_unmatched_G w_opt_unmatched && env_in_class_n w_opt_unmatched_G = true /\
  nproj (parse (step w_opt_unmatched_G) 40 (mkargs w_opt_unmatched [98]%N 0 true true)) = Some (names_of w_opt_unmatched_G [98]%N 40 w_opt_unmatched 0) /\
  nres_names (names_of w_opt_unmatched_G [98]%N 40 w_opt_unmatched 0) = Some [([121]%N, VStr [98]%N)].
Proof. vm_compute. repeat split. Qed.
Definition w_opt_default_G : env := [].
Definition w_opt_default : expr := (Nary (c05_at 1 None true true true [9;10;13;32]%N true true false true false 15) [] NAnd [(Enh (c05_at 2 None true false true [9;10;13;32]%N true false false false false 7) [] (EOpt (Some (TStr [68]%N))) (Tok (c05_at 3 (Some [120]%N) true false true [9;10;13;32]%N true false false true false 5) [] (KWord [97]%N [97]%N 1 None false false true))); (Tok (c05_at 4 (Some [121]%N) true false true [9;10;13;32]%N true false false true false 5) [] (KWord [98]%N [98]%N 1 None false false true))]).
Example C05_e2e_opt_default :
  in_class_n w_opt_default_G w_opt_default && env_in_class_n w_opt_default_G = true /\
  nproj (parse (step w_opt_default_G) 40 (mkargs w_opt_default [98]%N 0 true true)) = Some (names_of w_opt_default_G [98]%N 40 w_opt_default 0) /\
  nres_names (names_of w_opt_default_G [98]%N 40 w_opt_default 0) = Some [([120]%N, VStr [68]%N); ([121]%N, VStr [98]%N)].
Proof. vm_compute. repeat split. Qed.
Definition w_suppress_G : env := [].
Definition w_suppress : expr := (Nary (c05_at 1 None true true true [9;10;13;32]%N true true false true false 24) [] NAnd [(Enh (c05_at 2 (Some [120]%N) true false true [9;10;13;32]%N true false false false false 16) [] ESuppress (Tok (c05_at 3 None true false true [9;10;13;32]%N true false false true false 5) [] (KWord [97]%N [97]%N 1 None false false true))); (Tok (c05_at 4 (Some [121]%N) true false true [9;10;13;32]%N true false false true false 5) [] (KWord [98]%N [98]%N 1 None false false true))]).
Example C05_e2e_suppress :
  in_class_n w_suppress_G w_suppress && env_in_class_n w_suppress_G = true /\
  nproj (parse (step w_suppress_G) 40 (mkargs w_suppress [97;32;98]%N 0 true true)) = Some (names_of w_suppress_G [97;32;98]%N 40 w_suppress 0) /\
  nres_names (names_of w_suppress_G [97;32;98]%N 40 w_suppress 0) = Some [([121]%N, VStr [98]%N)].
Proof. vm_compute. repeat split. Qed.
Definition w_followedby_G : env := [].
Definition w_followedby : expr := (Nary (c05_at 1 None true true true [9;10;13;32]%N true true false true false 27) [] NAnd [(Enh (c05_at 2 None true false true [9;10;13;32]%N true false false false false 18) [] EFollowedBy (Tok (c05_at 3 (Some [120]%N) true false true [9;10;13;32]%N true false false true false 5) [] (KWord [97]%N [97]%N 1 None false false true))); (Tok (c05_at 4 (Some [121]%N) true false true [9;10;13;32]%N true false false true false 6) [] (KWord [97;98]%N [97;98]%N 1 None false false true))]).
Example C05_e2e_followedby :
  in_class_n w_followedby_G w_followedby && env_in_class_n w_followedby_G = true /\
  nproj (parse (step w_followedby_G) 40 (mkargs w_followedby [97;98]%N 0 true true)) = Some (names_of w_followedby_G [97;98]%N 40 w_followedby 0) /\
  nres_names (names_of w_followedby_G [97;98]%N 40 w_followedby 0) = Some [([120]%N, VStr [97]%N); ([121]%N, VStr [97;98]%N)].
Proof. vm_compute. repeat split. Qed.
Definition w_nested_or_G : env := [].
Definition w_nested_or : expr := (Nary (c05_at 1 None true false true [9;10;13;32]%N false true false true false 25) [] NOr [(Tok (c05_at 2 None true false true [9;10;13;32]%N true false false true false 3) [] (KLit [120]%N)); (Nary (c05_at 3 (Some [118]%N) true false true [9;10;13;32]%N false true false true false 17) [] NOr [(Tok (c05_at 4 None true false true [9;10;13;32]%N true false false true false 6) [] (KWord [49;50]%N [49;50]%N 1 None false false true)); (Tok (c05_at 5 None true false true [9;10;13;32]%N true false false true false 6) [] (KWord [97;98]%N [97;98]%N 1 None false false true))])]).
Example C05_e2e_nested_or :
  in_class_n w_nested_or_G w_nested_or && env_in_class_n w_nested_or_G = true /\
  nproj (parse (step w_nested_or_G) 40 (mkargs w_nested_or [97;98]%N 0 true true)) = Some (names_of w_nested_or_G [97;98]%N 40 w_nested_or 0) /\
  nres_names (names_of w_nested_or_G [97;98]%N 40 w_nested_or 0) = Some [([118]%N, VStr [97;98]%N)].
Proof. vm_compute. repeat split. Qed.
Definition w_rep_nested_listall_G : env := [].
Definition w_rep_nested_listall : expr := (Rep (c05_at 1 None true true true [9;10;13;32]%N true true false false false 29) [] false (Nary (c05_at 2 None true true true [9;10;13;32]%N true true false true false 24) [] NAnd [(Tok (c05_at 3 None true false true [9;10;13;32]%N true false false true false 6) [] (KWord [97;98]%N [97;98]%N 1 None false false true)); (Nary (c05_at 4 (Some [112;97;105;114]%N) false true true [9;10;13;32]%N true true false true false 15) [] NAnd [(Tok (c05_at 5 None true false true [9;10;13;32]%N true false false true false 6) [] (KWord [49;50]%N [49;50]%N 1 None false false true)); (Tok (c05_at 6 None true false true [9;10;13;32]%N true false false true false 6) [] (KWord [49;50]%N [49;50]%N 1 None false false true))])]) None).
Example C05_e2e_rep_nested_listall :
  in_class_n w_rep_nested_listall_G w_rep_nested_listall && env_in_class_n w_rep_nested_listall_G = true /\
  nproj (parse (step w_rep_nested_listall_G) 40 (mkargs w_rep_nested_listall [97;32;49;32;50;32;98;32;50;32;49]%N 0 true true)) = Some (names_of w_rep_nested_listall_G [97;32;49;32;50;32;98;32;50;32;49]%N 40 w_rep_nested_listall 0) /\
  nres_names (names_of w_rep_nested_listall_G [97;32;49;32;50;32;98;32;50;32;49]%N 40 w_rep_nested_listall 0) = Some [([112;97;105;114]%N, VList [VList [VStr [49]%N; VStr [50]%N]; VList [VStr [50]%N; VStr [49]%N]])].
Proof. vm_compute. repeat split. Qed.
Definition w_zero_rep_G : env := [].
Definition w_zero_rep : expr := (Nary (c05_at 1 None true true true [9;10;13;32]%N true true false true false 18) [] NAnd [(Rep (c05_at 2 (Some [122]%N) true true true [9;10;13;32]%N true false false false false 10) [] true (Tok (c05_at 3 None true false true [9;10;13;32]%N true false false true false 5) [] (KWord [97]%N [97]%N 1 None false false true)) None); (Tok (c05_at 4 None true false true [9;10;13;32]%N true false false true false 5) [] (KWord [98]%N [98]%N 1 None false false true))]).
Example C05_e2e_zero_rep :
  in_class_n w_zero_rep_G w_zero_rep && env_in_class_n w_zero_rep_G = true /\
  nproj (parse (step w_zero_rep_G) 40 (mkargs w_zero_rep [98]%N 0 true true)) = Some (names_of w_zero_rep_G [98]%N 40 w_zero_rep 0) /\
  nres_names (names_of w_zero_rep_G [98]%N 40 w_zero_rep 0) = Some [([122]%N, VList [])].
Proof. vm_compute. repeat split. Qed.
Definition w_f05c_G : env := [(Fwd (c05_at 2 None true true true [9;10;13;32]%N true true false false false 25) [] (Some 1)); (Nary (c05_at 3 None true true true [9;10;13;32]%N true true false true false 16) [] NAnd [(Tok (c05_at 4 None true false true [9;10;13;32]%N true false false true false 3) [] (KLit [40]%N)); (Tok (c05_at 5 None true false true [9;10;13;32]%N true false false true false 6) [] (KWord [97;98]%N [97;98]%N 1 None false false true)); (Tok (c05_at 6 None true false true [9;10;13;32]%N true false false true false 3) [] (KLit [41]%N))])].
Definition w_f05c : expr := (Fwd (c05_at 1 (Some [113]%N) true false true [9;10;13;32]%N true true false false false 34) [] (Some 0)).
Example C05_e2e_f05c :
  in_class_n w_f05c_G w_f05c && env_in_class_n w_f05c_G = true /\
  nproj (parse (step w_f05c_G) 40 (mkargs w_f05c [40;97;98;41]%N 0 true true)) = Some (names_of w_f05c_G [40;97;98;41]%N 40 w_f05c 0) /\
  nres_names (names_of w_f05c_G [40;97;98;41]%N 40 w_f05c 0) = Some [([113]%N, VStr [40]%N)].
Proof. vm_compute. repeat split. Qed.
Definition w_fwd_named_after_G : env := [(Nary (c05_at 2 None true true true [9;10;13;32]%N true true false true false 16) [] NAnd [(Tok (c05_at 3 None true false true [9;10;13;32]%N true false false true false 3) [] (KLit [40]%N)); (Tok (c05_at 4 None true false true [9;10;13;32]%N true false false true false 6) [] (KWord [97;98]%N [97;98]%N 1 None false false true)); (Tok (c05_at 5 None true false true [9;10;13;32]%N true false false true false 3) [] (KLit [41]%N))])].
Definition w_fwd_named_after : expr := (Fwd (c05_at 1 (Some [113]%N) true true true [9;10;13;32]%N true true false false false 25) [] (Some 0)).
Example C05_e2e_fwd_named_after :
  in_class_n w_fwd_named_after_G w_fwd_named_after && env_in_class_n w_fwd_named_after_G = true /\
  nproj (parse (step w_fwd_named_after_G) 40 (mkargs w_fwd_named_after [40;97;98;41]%N 0 true true)) = Some (names_of w_fwd_named_after_G [40;97;98;41]%N 40 w_fwd_named_after 0) /\
  nres_names (names_of w_fwd_named_after_G [40;97;98;41]%N 40 w_fwd_named_after 0) = Some [([113]%N, VList [VStr [40]%N; VStr [97;98]%N; VStr [41]%N])].
Proof. vm_compute. repeat split. Qed.
Definition w_opt_default_listall_G : env := [].
Definition w_opt_default_listall : expr := (Enh (c05_at 1 None true false true [9;10;13;32]%N true false false false false 7) [] (EOpt (Some (TStr [68]%N))) (Tok (c05_at 2 (Some [120]%N) false false true [9;10;13;32]%N true false false true false 5) [] (KWord [97]%N [97]%N 1 None false false true))).

(* Group scoping end to end, on w_main: the names declared inside the Group are visible on the group's sub-result only *)
Example C05_e2e_main_scoping :
  match names_of w_main_G [97;32;49;32;50;32;98]%N 40 w_main 0 with
  | NOk _ v => mm_lookup v [110]%N = None /\
               mm_lookup v [103]%N = Some (VPR [VStr [49]%N; VStr [50]%N] [([110]%N, [VStr [49]%N; VStr [50]%N])] [])
  | _ => False
  end.
Proof. vm_compute. split; reflexivity. Qed.

(* F-05c (recorded, not repaired).  The theorem reads `saveAsList` from the dump.  Decided by the structure of the grammar
   ("a name on a sequence reports the list of its tokens": `fwd_reports_token_list`, Model/NamesSpec.v) the statement is
   false: F = Forward(); named = F('q'); F <<= '(' + Word('ab') + ')' — the copy made by F('q') keeps the empty Forward's
   saveAsList == False, and named.parse_string('(ab)')['q'] is '(' although the body is a sequence returning
   ['(', 'ab', ')'].  (w_fwd_named_after above: named after the assignment, q is the list.) *)
Example C05_forward_name_flagfree_refuted :
  exists (G : env) (e : expr) (s : str) (l : nat) (r : pres),
    env_in_class_n G = true /\ in_class_n G e = true /\
    parse (step G) 40 (mkargs e s 0 true true) = Some (Ok l r) /\ ~ fwd_reports_token_list G e r.
Proof.
  exists w_f05c_G, w_f05c, [40;97;98;41]%N. eexists. eexists.
  split; [vm_compute; reflexivity|]. split; [vm_compute; reflexivity|]. split; [vm_compute; reflexivity|].
  vm_compute. intros H. specialize (H eq_refl). discriminate H.
Qed.

(* Candidate finding F-05e.  Opt(Word('a')('x*'), default='D') on '': Opt.parseImpl stores the default under the content's
   name with `tokens[name] = default` on a fresh ParseResults, which never records that x was declared list-all: r['x'] is
   'D', whereas a match gives the list ['a'] ("all values in order for a list-all name").  Hence the exclusion in
   `in_class_n` (opt_ok). *)
Example C05_opt_default_listall_refuted :
  exists (e : expr) (l : nat) (r : pres),
    (exists a i v a' i' t, e = Enh a i (EOpt (Some v)) (Tok a' i' t) /\ rsname a' = Some [120]%N /\ modalr a' = false) /\
    in_class_n [] e = false /\
    parse (step []) 40 (mkargs e [] 0 true true) = Some (Ok l r) /\
    mm_lookup (view r) [120]%N = Some (VStr [68]%N).
Proof.
  exists w_opt_default_listall. eexists. eexists.
  split; [do 6 eexists; split; [reflexivity|split; reflexivity]|].
  split; [vm_compute; reflexivity|]. split; vm_compute; reflexivity.
Qed.

