(* C05 — results names report exactly what the named element matched.  Statements only.
   The name view (`view`, `mm_values`, `mm_lookup`: Model/ResultsSpec.v) is what r[name], getattr, get(), as_dict() and
   dump() are functions of (C10_lookup_forms_agree / C10_as_dict_entry, re-exported below).
   PARTIAL: these theorems characterise each step by which names are bound and merged (binding on a token / on a
   sequence, concatenation, Group scoping, unmatched optionals, failed alternatives); the end-to-end statement over a whole
   derivation is decided by the model-vs-implementation correspondence and by the compositional oracle of
   tools/props/c05.py on the implementation. *)
From Coq Require Import List ZArith NArith Bool.
From PP Require Import Model.Str Model.Results Model.ResultsAPI Model.ResultsSpec Model.Prog Model.Core.
From PP Require Import Proofs.ResultsProofs Proofs.Names.
Import ListNotations.

(* a token element named n reports the token it matched *)
Theorem C05_token_name : forall s n c modal_,
  mm_values (view (pr_init (RStr s) (Some (c :: n)) false modal_)) (c :: n) = [VStr s].
Proof. exact init_token_name. Qed.

(* a sequence / repetition named n (ordinary name, not already a list-all name of its content) reports its token list,
   as a results object without the inner names; the inner names remain visible at the same level *)
Theorem C05_sequence_name : forall p n c k,
  name_in (c :: n) (allnames p) = false ->
  mm_values (view (pr_init (RPR p) (Some (c :: n)) true true)) k =
  if str_eqb (c :: n) k then mm_values (view p) k ++ [VPR (map tview (toks p)) [] []] else mm_values (view p) k.
Proof. exact init_list_name. Qed.

(* sequences and repetitions concatenate their elements' results: under every name the values of the later element
   follow those of the earlier one, in order ... *)
Theorem C05_concat_values : forall a b k,
  mm_values (view (pr_iadd a b)) k = mm_values (view a) k ++ all_values (av_map (view b)) k.
Proof. exact iadd_values. Qed.

(* ... a lookup yields the last value for an ordinary name and all values, in order, for a list-all name
   (the definition of `mm_lookup`, which C10 proves to be what r[name] computes) ... *)
Theorem C05_lookup_last_or_all : forall a k,
  mm_lookup a k =
  match dict_get (av_map a) k with
  | None => None
  | Some vs => if name_in k (av_all a) then Some (VPR vs [] []) else match rev vs with v :: _ => Some v | [] => None end
  end.
Proof. reflexivity. Qed.

Theorem C05_getitem_is_lookup : forall r k, option_map tview (pr_getname r k) = mm_lookup (view r) k.
Proof. exact getname_view. Qed.

(* ... and a name is list-all in the concatenation only if it is list-all in one of the operands *)
Theorem C05_listall_origin : forall a b k,
  name_in k (allnames (pr_iadd a b)) = true -> name_in k (allnames a) = true \/ name_in k (allnames b) = true.
Proof. exact iadd_allnames. Qed.

(* Group scoping: names declared inside a Group are visible only on the group's sub-result *)
Theorem C05_group_scoping : forall a i c p asl m,
  let r := pr_init (post_parse (Enh a i (EGroup false) c) (RPR p)) None asl m in
  toks r = [TPR p] /\ dict r = [] /\ allnames r = [].
Proof. exact group_scope. Qed.

(* an optional that took no part in the match (no default) contributes no name *)
Theorem C05_unmatched_optional_silent : forall nm asl m,
  let r := pr_init (RList []) nm asl m in toks r = [] /\ dict r = [].
Proof. exact opt_unmatched_silent. Qed.

(* an alternative that failed contributes nothing: MatchFirst's result is the first successful alternative's result *)
Theorem C05_unused_alternatives_silent : forall rec k e s loc d c rest best,
  (forall x, rec (mkargs c s loc d true) = Some (Err x) -> is_pe (xk x) = true ->
     run rec (mf_go k e s loc d (c :: rest) best) = run rec (mf_go k e s loc d rest (better best x))) /\
  (forall l r, rec (mkargs c s loc d true) = Some (Ok l r) ->
     run rec (mf_go k e s loc d (c :: rest) best) = run rec (k (inr (l, RPR r)))).
Proof.
  intros. split; [intros x H1 H2; apply mf_failed_silent; assumption|intros l r H; apply mf_success; exact H].
Qed.

(* non-vacuity: Word("ab")("x*") + Word("ab")("x*") + Group(Word("ab")("g")) on three words: x lists both, g is scoped *)
Example C05_instance :
  let w nm := pr_init (RStr [97%N]) (Some nm) false false in
  let x := [120%N] in
  let r := pr_iadd (w x) (w x) in
  mm_lookup (view r) x = Some (VPR [VStr [97%N]; VStr [97%N]] [] []).
Proof. vm_compute. reflexivity. Qed.
