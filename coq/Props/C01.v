(* C01 — combinators obey PEG semantics with pyparsing's whitespace rule.
   Statements only.  `peg` (Model/Peg.v) is the reference reading; `in_class` the boolean predicate delimiting the grammars
   covered: token classes (all of Model/Core.v except LineStart/GoToColumn), And, MatchFirst, Opt (with or without default),
   ZeroOrMore, OneOrMore (without stop_on), NotAny, FollowedBy, Group, Suppress, DelimitedList/TokenConverter wrappers, Forward
   (recursive grammars through the environment G), any whitespace sets that satisfy the constructor's inheritance rule
   (`child_ok`), no parse actions, no results names, no ignore expressions. *)
From Coq Require Import List ZArith NArith Bool.
From PP Require Import Model.Str Model.Results Model.Prog Model.Core Model.Entry Model.Peg Proofs.PegEquiv.
Import ListNotations.

(* For every environment of Forward bodies, element, input, location, fuel and do_actions flag: `_parse` called with
   pre-parse agrees with the PEG reading on success/failure, end position and token list (and on divergence / fuel). *)
Theorem C01_peg_equiv : forall (G : env) (s : str),
  env_in_class G = true ->
  forall fuel e, in_class G e = true -> forall loc d,
  proj (parse (step G) fuel (mkargs e s loc d true)) = Some (peg G s fuel e loc).
Proof. exact (fun G s HG fuel e He loc d => proj1 (peg_equiv G s HG fuel e He loc d)). Qed.

(* The same for a call without pre-parse at a location that the element's own whitespace skip leaves fixed
   (how And calls its first element, and wrappers / Forward call their content). *)
Theorem C01_peg_equiv_nopre : forall (G : env) (s : str),
  env_in_class G = true ->
  forall fuel e, in_class G e = true -> forall loc d,
  eff s e loc = loc ->
  proj (parse (step G) fuel (mkargs e s loc d false)) = Some (peg G s fuel e loc).
Proof. exact (fun G s HG fuel e He loc d Hs => proj2 (peg_equiv G s HG fuel e He loc d) Hs). Qed.

(* parse_string (parse_all = False) succeeds exactly when the PEG reading matches at position 0 of the (tab-expanded)
   input, with the token list that reading determines *)
Theorem C01_parse_string : forall (G : env) dw root (keeptabs : bool) (input : str) fuel,
  env_in_class G = true -> in_class G root = true ->
  let s := if keeptabs then input else expandtabs input in
  match peg G s fuel root 0 with
  | POk l ts => exists r : pres, drun (parse (step G) fuel) (parse_string dw root keeptabs input false) = Some (Entry.POk r)
                          /\ pr_as_list r = ts
  | PFail => exists x : exn, drun (parse (step G) fuel) (parse_string dw root keeptabs input false) = Some (PErr x)
                       /\ xk x = XParse
  | PDiv => drun (parse (step G) fuel) (parse_string dw root keeptabs input false) = Some Entry.PDiv
  | POut => drun (parse (step G) fuel) (parse_string dw root keeptabs input false) = None
  end.
Proof.
  intros G dw root kt input fuel HG He. cbv zeta.
  pose proof (C01_peg_equiv G (if kt then input else expandtabs input) HG fuel root He 0 true) as H.
  unfold parse_string. cbn [drun].
  destruct (parse (step G) fuel (mkargs root (if kt then input else expandtabs input) 0 true true)) as [[l r|x|]|];
    simpl in H.
  - injection H as <-. eexists. split; reflexivity.
  - destruct (is_pe (xk x)) eqn:K; [|discriminate]. injection H as <-.
    exists (unwrap x). split; [reflexivity|]. destruct x as [k ? ? ?]. destruct k; simpl in *; congruence.
  - injection H as <-. reflexivity.
  - injection H as <-. reflexivity.
Qed.

(* non-vacuity: a recursive bracket grammar  E <<= Group('(' + E[...] + ')') | Word('ab')  with default whitespace is in
   the class, and the model's parse of "( a (b) )" equals the PEG reading *)
Definition dflt (id : nat) (asl cp : bool) : attrs :=
  {| nid := id; rsname := None; modalr := true; aslist := asl; skipws := true; white := [32; 10; 9; 13]%N; callpre := cp;
     mayidx := false; custom := false; hasmsg := true; acts := []; calltry := false; slen := 1 |}.
Definition ex_body : expr :=
  Nary (dflt 1 false false) [] NMatchFirst
    [ Enh (dflt 2 true true) [] (EGroup false)
        (Nary (dflt 3 true true) [] NAnd
           [Tok (dflt 4 false true) [] (KLit [40%N]);
            Rep (dflt 5 true true) [] true (Fwd (dflt 6 false true) [] (Some 0)) None;
            Tok (dflt 7 false true) [] (KLit [41%N])]);
      Tok (dflt 8 false true) [] (KWord [97; 98]%N [97; 98]%N 1 None false false false) ].
Definition ex_root : expr := Fwd (dflt 6 false true) [] (Some 0).

Example C01_instance :
  env_in_class [ex_body] = true /\ in_class [ex_body] ex_root = true /\
  let s := [40; 32; 97; 32; 40; 98; 41; 32; 41]%N in
  peg [ex_body] s 30 ex_root 0 = POk 9 [TList [TStr [40%N]; TStr [97%N]; TList [TStr [40%N]; TStr [98%N]; TStr [41%N]]; TStr [41%N]]]
  /\ proj (parse (step [ex_body]) 30 (mkargs ex_root s 0 true true)) = Some (peg [ex_body] s 30 ex_root 0).
Proof. vm_compute. repeat split. Qed.
