(* C01 — combinators obey PEG semantics with pyparsing's whitespace rule.
   Statements only.  `peg` (Model/Peg.v) is the reference reading; `in_class` the boolean predicate delimiting the grammars
   covered: token classes (all of Model/Core.v except LineStart/GoToColumn), And, MatchFirst, Or ('^': the alternative that
   consumes the most input, leftmost on a tie), Each (whose required operands
   cannot return empty: see C01_each_once_refuted below), Opt (with or without default),
   ZeroOrMore, OneOrMore (with or without stop_on), NotAny, FollowedBy, Group, Suppress, Combine (over a content that yields
   scalar tokens only: `flat_class`, see below), SkipTo (plain or include=True, no fail_on, no ignore=, over a target whose
   head component does not skip whitespace: see the end of this file), DelimitedList/TokenConverter wrappers, Forward
   (recursive grammars through the environment G), any whitespace sets that satisfy the constructor's inheritance rule
   (`child_ok`), no parse actions, no results names, no ignore expressions. *)
From Coq Require Import List ZArith NArith Bool.
From PP Require Import Model.Str Model.Results Model.Prog Model.Core Model.Entry Model.Peg Proofs.PegEquiv Proofs.EachPeg Proofs.ClassIncl.
Import ListNotations.

(* For every environment of Forward bodies, element, input, location, fuel and do_actions flag: `_parse` called with
   pre-parse agrees with the PEG reading on success/failure, end position and token list (and on divergence / fuel). *)
Theorem C01_peg_equiv : forall (G : env) (s : str),
  env_in_class G = true ->
  forall fuel e, in_class G e = true -> forall loc d,
  proj (parse (step G) fuel (mkargs e s loc d true)) = Some (peg G s fuel e loc).
Proof. exact (fun G s HG fuel e He loc d => proj1 (peg_equiv G s HG fuel e He loc d)). Qed.

(* The same for a call without pre-parse at a location that the element's own whitespace skip leaves fixed
   (how And calls its first element, and wrappers / Forward call their content). *)
Theorem C01_peg_equiv_nopre : forall (G : env) (s : str),
  env_in_class G = true ->
  forall fuel e, in_class G e = true -> forall loc d,
  eff s e loc = loc ->
  proj (parse (step G) fuel (mkargs e s loc d false)) = Some (peg G s fuel e loc).
Proof. exact (fun G s HG fuel e He loc d Hs => proj2 (peg_equiv G s HG fuel e He loc d) Hs). Qed.

(* parse_string (parse_all = False) succeeds exactly when the PEG reading matches at position 0 of the (tab-expanded)
   input, with the token list that reading determines *)
Theorem C01_parse_string : forall (G : env) dw root (keeptabs : bool) (input : str) fuel,
  env_in_class G = true -> in_class G root = true ->
  let s := if keeptabs then input else expandtabs input in
  match peg G s fuel root 0 with
  | POk l ts => exists r : pres, drun (parse (step G) fuel) (parse_string dw root keeptabs input false) = Some (Entry.POk r)
                          /\ pr_as_list r = ts
  | PFail => exists x : exn, drun (parse (step G) fuel) (parse_string dw root keeptabs input false) = Some (PErr x)
                       /\ xk x = XParse
  | PDiv => drun (parse (step G) fuel) (parse_string dw root keeptabs input false) = Some Entry.PDiv
  | POut => drun (parse (step G) fuel) (parse_string dw root keeptabs input false) = None
  end.
Proof.
  intros G dw root kt input fuel HG He. cbv zeta.
  pose proof (C01_peg_equiv G (if kt then input else expandtabs input) HG fuel root He 0 true) as H.
  unfold parse_string. cbn [drun].
  destruct (parse (step G) fuel (mkargs root (if kt then input else expandtabs input) 0 true true)) as [[l r|x|]|];
    simpl in H.
  - injection H as <-. eexists. split; reflexivity.
  - destruct (is_pe (xk x)) eqn:K; [|discriminate]. injection H as <-.
    exists (unwrap x). split; [reflexivity|]. destruct x as [k ? ? ?]. destruct k; simpl in *; congruence.
  - injection H as <-. reflexivity.
  - injection H as <-. reflexivity.
Qed.

(* non-vacuity: a recursive bracket grammar  E <<= Group('(' + E[...] + ')') | Word('ab')  with default whitespace is in
   the class, and the model's parse of "( a (b) )" equals the PEG reading *)
Definition dflt (id : nat) (asl cp : bool) : attrs :=
  {| nid := id; rsname := None; modalr := true; aslist := asl; skipws := true; white := [32; 10; 9; 13]%N; callpre := cp;
     mayidx := false; custom := false; hasmsg := true; acts := []; calltry := false; slen := 1 |}.
Definition ex_body : expr :=
  Nary (dflt 1 false false) [] NMatchFirst
    [ Enh (dflt 2 true true) [] (EGroup false)
        (Nary (dflt 3 true true) [] NAnd
           [Tok (dflt 4 false true) [] (KLit [40%N]);
            Rep (dflt 5 true true) [] true (Fwd (dflt 6 false true) [] (Some 0)) None;
            Tok (dflt 7 false true) [] (KLit [41%N])]);
      Tok (dflt 8 false true) [] (KWord [97; 98]%N [97; 98]%N 1 None false false false) ].
Definition ex_root : expr := Fwd (dflt 6 false true) [] (Some 0).

Example C01_instance :
  env_in_class [ex_body] = true /\ in_class [ex_body] ex_root = true /\
  let s := [40; 32; 97; 32; 40; 98; 41; 32; 41]%N in
  peg [ex_body] s 30 ex_root 0 = POk 9 [TList [TStr [40%N]; TStr [97%N]; TList [TStr [40%N]; TStr [98%N]; TStr [41%N]]; TStr [41%N]]]
  /\ proj (parse (step [ex_body]) 30 (mkargs ex_root s 0 true true)) = Some (peg [ex_body] s 30 ex_root 0).
Proof. vm_compute. repeat split. Qed.

(* ---- Each ('&') ----
   Each is in the model (Model/Core.v `each_impl`, compared with the implementation by tools/props/c01.py), its reading
   `peg_each` is a case of `peg`, and `in_class` contains the Each nodes none of whose required operands may return empty
   (so C01_peg_equiv / C01_parse_string above cover them).  The restriction is necessary: the clause "'&' accepts its
   operands in any order with each required one exactly once" does not hold of
   Each.parseImpl for a required operand that can match the empty string: initExprGroups puts such an operand into
   self.optionals as well as into self.required, so it is matched a second time.  Witness (the dump of
   (Opt('a') + Opt('b')) & 'x' after streamline): on "aax" the faithful model, like the implementation, answers
   ['a', 'a', 'x'], the operand Opt('a') + Opt('b') having been taken twice. *)
Definition each_at (id : nat) (asl cp mi hm : bool) (sl : nat) : attrs :=
  {| nid := id; rsname := None; modalr := true; aslist := asl; skipws := true; white := [9; 10; 13; 32]%N; callpre := cp;
     mayidx := mi; custom := false; hasmsg := hm; acts := []; calltry := false; slen := sl |}.
Definition ex_each : expr :=
  Nary (each_at 1 true false true true 21) [] (NEach [(true, (0, 0)); (false, (2, 2))])
    [ Nary (each_at 2 true true true true 13) [] NAnd
        [ Enh (each_at 3 false true false false 5) [] (EOpt None) (Tok (each_at 4 false true false true 3) [] (KLit [97%N]));
          Enh (each_at 5 false true false false 5) [] (EOpt None) (Tok (each_at 6 false true false true 3) [] (KLit [98%N])) ];
      Tok (each_at 7 false true false true 3) [] (KLit [120%N]) ].

Example C01_each_once_refuted :
  exists r : pres,
    drun (parse (step []) 30) (parse_string [32; 10; 9; 13]%N ex_each false [97; 97; 120]%N false) = Some (Entry.POk r)
    /\ pr_as_list r = [TStr [97%N]; TStr [97%N]; TStr [120%N]].
Proof. eexists. vm_compute. split; reflexivity. Qed.

(* One level of the equivalence for '&', for EVERY semantics `rec` of the `_parse` calls (as C07's one-level theorems):
   if every operand obeys a reading `prec` (success/failure, end position, token list, divergence, fuel), then an Each node
   without parse actions / results name / ignorables obeys the reading `peg_each prec` of Model/Peg.v ("each required
   operand exactly once, the content of an Opt at most once, of a ZeroOrMore any number of times, of a OneOrMore at least
   once; tokens in the order taken").  This is the step of C01_peg_equiv for Each, without any assumption on the operands'
   own structure (they may have names, actions, be outside `in_class`, as long as they obey `prec`).
   _partial: required operands that may return empty are excluded (`each_opt2 ... = []`): for them the statement is false
   (C01_each_once_refuted above). *)
Theorem C01_each_reading_partial : forall (G : env) (s : str) (rec : args -> option outcome) (prec : expr -> nat -> res)
  (Q : expr -> Prop),
  (forall c, Q c -> forall loc d, proj (rec (mkargs c s loc d true)) = Some (prec c loc)) ->
  (forall a i z b ne, Q (Rep a i z b ne) -> Q (snd (rep_operand (Rep a i z b ne) b))) ->
  (forall a i dflt b, Q (Enh a i (EOpt dflt) b) -> Q b) ->
  forall a info es, plain_attrs a = true -> Forall Q es ->
  each_opt2 (each_zip es info) = [] ->
  forall loc0 d pre,
  proj (run rec (step G (mkargs (Nary a [] (NEach info) es) s loc0 d pre)))
  = Some (peg_each s prec es info (if pre then eff s (Nary a [] (NEach info) es) loc0 else loc0)).
Proof. exact each_reading. Qed.

(* ... in particular for operands of the proved class, with the recursive parser itself and the reference reading `peg`
   of the operands, at every fuel (an instance of C01_peg_equiv spelled out: such an Each node is in `in_class`) *)
Theorem C01_each_over_class_partial : forall (G : env) (s : str), env_in_class G = true ->
  forall f a info es, plain_attrs a = true -> forallb (in_class G) es = true ->
  each_opt2 (each_zip es info) = [] ->
  forall loc0 d pre,
  proj (parse (step G) (S f) (mkargs (Nary a [] (NEach info) es) s loc0 d pre))
  = Some (peg_each s (peg G s f) es info (if pre then eff s (Nary a [] (NEach info) es) loc0 else loc0)).
Proof. exact each_reading_in_class. Qed.

(* non-vacuity: Opt('a') & 'x' & ZeroOrMore('s') meets the hypotheses; on "s x a s" the reading is ['s','x','a','s'] *)
Definition ex_each2_es : list expr :=
  [ Enh (each_at 2 false true false false 5) [] (EOpt None) (Tok (each_at 3 false true false true 3) [] (KLit [97%N]));
    Tok (each_at 4 false true false true 3) [] (KLit [120%N]);
    Rep (each_at 5 true true false false 8) [] true (Tok (each_at 6 false true false true 3) [] (KLit [115%N])) None ].
Definition ex_each2_info : list each_info := [(true, (0, 1)); (false, (2, 2)); (true, (4, 5))].
Example C01_each_over_class_instance :
  let s := [115; 32; 120; 32; 97; 32; 115]%N in
  env_in_class [] = true /\ plain_attrs (each_at 1 true false true true 21) = true /\
  forallb (in_class []) ex_each2_es = true /\ each_opt2 (each_zip ex_each2_es ex_each2_info) = [] /\
  in_class [] (Nary (each_at 1 true false true true 21) [] (NEach ex_each2_info) ex_each2_es) = true /\
  in_class [] ex_each = false /\
  peg_each s (peg [] s 20) ex_each2_es ex_each2_info 0
    = POk 7 [TStr [115%N]; TStr [120%N]; TStr [97%N]; TStr [115%N]] /\
  proj (parse (step []) 21 (mkargs (Nary (each_at 1 true false true true 21) [] (NEach ex_each2_info) ex_each2_es) s 0 true true))
    = Some (POk 7 [TStr [115%N]; TStr [120%N]; TStr [97%N]; TStr [115%N]]).
Proof. vm_compute. repeat split. Qed.

(* ex_each reads "x a" as expected, and reports a missing required operand by name *)
Example C01_each_instance :
  (exists r, drun (parse (step []) 30) (parse_string [32; 10; 9; 13]%N ex_each false [120; 32; 97]%N false) = Some (Entry.POk r)
             /\ pr_as_list r = [TStr [120%N]; TStr [97%N]]) /\
  drun (parse (step []) 30) (parse_string [32; 10; 9; 13]%N ex_each false [97; 98]%N false)
    = Some (PErr (mkx XParse 0 (MMissing [7]) None)).
Proof. split; [eexists; vm_compute; split; reflexivity|vm_compute; reflexivity]. Qed.

(* ---- Or ('^') and Combine in the proved class ----
   `in_class` contains every Or over alternatives of the class, and Combine(adjacent=True) over a content of the class that
   yields scalar tokens only (`flat_class`: tokens, And, MatchFirst, Or, Opt with a scalar default, repetitions, Suppress,
   nested Combine, lookaheads — no Group, Each or Forward inside the Combine), so C01_peg_equiv / C01_peg_equiv_nopre /
   C01_parse_string above cover "'^' the alternative that consumes the most input (leftmost on a tie)" and "joins from
   Combine".  The witnesses are the dumps (after streamline) of
     CaselessLiteral("AB") ^ Word("ab") ^ Word("abc")      and      Word("x") + Combine(Word("ab") + "." + Opt(Word("01"))). *)
Definition oc_at (id : nat) (asl sk cp mi hm : bool) (sl : nat) : attrs :=
  {| nid := id; rsname := None; modalr := true; aslist := asl; skipws := sk; white := [9; 10; 13; 32]%N; callpre := cp;
     mayidx := mi; custom := false; hasmsg := hm; acts := []; calltry := false; slen := sl |}.
Definition ex_or : expr :=
  Nary (oc_at 1 false true false true true 25) [] NOr
    [ Tok (oc_at 2 false true true false true 4) [] (KCaselessLit [65; 66]%N [65; 66]%N);
      Tok (oc_at 3 false true true false true 6) [] (KWord [97; 98]%N [97; 98]%N 1 None false false true);
      Tok (oc_at 4 false true true false true 7) [] (KWord [97; 98; 99]%N [97; 98; 99]%N 1 None false false true) ].

(* on "ab" all three alternatives end at 2: the leftmost one wins, visible by its token 'AB'; on " abc" the third
   alternative consumes the most input; on "x" no alternative matches.  In each case the parser (do_actions = true and
   false) and parse_string agree with the reading, as C01_peg_equiv / C01_parse_string say. *)
Example C01_or_instance :
  env_in_class [] = true /\ in_class [] ex_or = true /\
  (let s := [97; 98]%N in
   peg [] s 5 ex_or 0 = POk 2 [TStr [65; 66]%N] /\
   proj (parse (step []) 5 (mkargs ex_or s 0 true true)) = Some (POk 2 [TStr [65; 66]%N]) /\
   proj (parse (step []) 5 (mkargs ex_or s 0 false true)) = Some (POk 2 [TStr [65; 66]%N])) /\
  (let s := [32; 97; 98; 99]%N in
   peg [] s 5 ex_or 0 = POk 4 [TStr [97; 98; 99]%N] /\
   proj (parse (step []) 5 (mkargs ex_or s 0 true true)) = Some (POk 4 [TStr [97; 98; 99]%N]) /\
   proj (parse (step []) 5 (mkargs ex_or s 0 false true)) = Some (POk 4 [TStr [97; 98; 99]%N])) /\
  (peg [] [120]%N 5 ex_or 0 = PFail /\
   proj (parse (step []) 5 (mkargs ex_or [120]%N 0 true true)) = Some PFail) /\
  (exists r, drun (parse (step []) 5) (parse_string [32; 10; 9; 13]%N ex_or false [32; 97; 98; 99]%N false) = Some (Entry.POk r)
             /\ pr_as_list r = [TStr [97; 98; 99]%N]).
Proof. vm_compute. repeat split. eexists. split; reflexivity. Qed.

Definition ex_combine : expr :=
  Nary (oc_at 1 true true true true true 39) [] NAnd
    [ Tok (oc_at 2 false true true false true 5) [] (KWord [120]%N [120]%N 1 None false false true);
      Enh (oc_at 3 false true true true false 31) [] (ECombine [])
        (Nary (oc_at 4 true false true true true 21) [] NAnd
           [ Tok (oc_at 5 false false true false true 6) [] (KWord [97; 98]%N [97; 98]%N 1 None false false true);
             Tok (oc_at 6 false false true false true 3) [] (KLit [46%N]);
             Enh (oc_at 7 false false true false false 8) [] (EOpt None)
               (Tok (oc_at 8 false false true false true 6) [] (KWord [48; 49]%N [48; 49]%N 1 None false false true)) ]) ].

(* "x ab.01 " reads ['x', 'ab.01']; on "x ab. 01" the content of the Combine does not skip whitespace: ['x', 'ab.'] *)
Example C01_combine_instance :
  env_in_class [] = true /\ in_class [] ex_combine = true /\
  (let s := [120; 32; 97; 98; 46; 48; 49; 32]%N in
   peg [] s 6 ex_combine 0 = POk 7 [TStr [120]%N; TStr [97; 98; 46; 48; 49]%N] /\
   proj (parse (step []) 6 (mkargs ex_combine s 0 true true)) = Some (POk 7 [TStr [120]%N; TStr [97; 98; 46; 48; 49]%N])) /\
  (let s := [120; 32; 97; 98; 46; 32; 48; 49]%N in
   peg [] s 6 ex_combine 0 = POk 5 [TStr [120]%N; TStr [97; 98; 46]%N] /\
   proj (parse (step []) 6 (mkargs ex_combine s 0 true true)) = Some (POk 5 [TStr [120]%N; TStr [97; 98; 46]%N])) /\
  (exists r, drun (parse (step []) 6) (parse_string [32; 10; 9; 13]%N ex_combine false [120; 32; 97; 98; 46; 48; 49; 32]%N false)
             = Some (Entry.POk r) /\ pr_as_list r = [TStr [120]%N; TStr [97; 98; 46; 48; 49]%N]).
Proof. vm_compute. repeat split. eexists. split; reflexivity. Qed.

(* the proved class is part of the reference class on which the reading is compared with the implementation *)
Theorem C01_class_in_ref_class : forall (G : env) e, in_class G e = true -> in_ref_class G e = true.
Proof. exact in_class_ref. Qed.
Theorem C01_env_class_in_ref_class : forall (G : env), env_in_class G = true -> env_in_ref_class G = true.
Proof. exact env_in_class_ref. Qed.

(* a Combine over a Group is outside the proved class (it stays in the reference class, compared by correspondence) *)
Example C01_combine_group_outside :
  let g := Enh (oc_at 1 false true true true false 31) [] (ECombine [])
             (Enh (oc_at 2 true false true true false 10) [] (EGroup false)
                (Tok (oc_at 3 false false true false true 3) [] (KLit [46%N]))) in
  in_class [] g = false /\ in_ref_class [] g = true.
Proof. vm_compute. split; reflexivity. Qed.

(* ---- repetition with stop_on in the proved class ----
   `in_class` contains `Rep a [] zero body (Some ne)` when `a` is plain and the body and the sentinel `ne` (the dumped
   `NotAny(stop_on)`, tried by `try_parse` before every round, do_actions = False) are in the class; the reading
   (`peg_star_stop`): "repeat the body while the stop expression does NOT match here".  So C01_peg_equiv /
   C01_peg_equiv_nopre / C01_parse_string above cover "ZeroOrMore, OneOrMore with stop_on".
   Witness: the dump (after streamline) of  OneOrMore(Word("abden"), stop_on="end") + "end". *)
Definition ex_stop : expr :=
  Nary (oc_at 1 true true true true true 22) [] NAnd
    [ Rep (oc_at 2 true true true false false 14) [] false
        (Tok (oc_at 5 false true true false true 9) [] (KWord [97; 98; 100; 101; 110]%N [97; 98; 100; 101; 110]%N 1 None false false true))
        (Some (Enh (oc_at 3 false false true false true 8) [] ENot
                 (Tok (oc_at 4 false true true false true 5) [] (KLit [101; 110; 100]%N))));
      Tok (oc_at 6 false true true false true 5) [] (KLit [101; 110; 100]%N) ].
(* the same grammar without the stop_on *)
Definition ex_nostop : expr :=
  Nary (oc_at 1 true true true true true 22) [] NAnd
    [ Rep (oc_at 2 true true true false false 14) [] false
        (Tok (oc_at 5 false true true false true 9) [] (KWord [97; 98; 100; 101; 110]%N [97; 98; 100; 101; 110]%N 1 None false false true))
        None;
      Tok (oc_at 6 false true true false true 5) [] (KLit [101; 110; 100]%N) ].

(* "ab den end" reads ['ab', 'den', 'end'] (without stop_on the Word eats 'end' and the sequence fails); on "abend end" the
   stop expression does not match at 0, so 'abend' is one word; on "end" the OneOrMore fails at once; "ab den" lacks the
   closing 'end'.  Parser (do_actions = true and false) and parse_string agree with the reading. *)
Example C01_stop_on_instance :
  env_in_class [] = true /\ in_class [] ex_stop = true /\
  (let s := [97; 98; 32; 100; 101; 110; 32; 101; 110; 100]%N in
   peg [] s 6 ex_stop 0 = POk 10 [TStr [97; 98]%N; TStr [100; 101; 110]%N; TStr [101; 110; 100]%N] /\
   proj (parse (step []) 6 (mkargs ex_stop s 0 true true)) = Some (peg [] s 6 ex_stop 0) /\
   proj (parse (step []) 6 (mkargs ex_stop s 0 false true)) = Some (peg [] s 6 ex_stop 0) /\
   peg [] s 6 ex_nostop 0 = PFail) /\
  (let s := [97; 98; 101; 110; 100; 32; 101; 110; 100]%N in
   peg [] s 6 ex_stop 0 = POk 9 [TStr [97; 98; 101; 110; 100]%N; TStr [101; 110; 100]%N] /\
   proj (parse (step []) 6 (mkargs ex_stop s 0 true true)) = Some (peg [] s 6 ex_stop 0)) /\
  (peg [] [101; 110; 100]%N 6 ex_stop 0 = PFail /\
   proj (parse (step []) 6 (mkargs ex_stop [101; 110; 100]%N 0 true true)) = Some PFail) /\
  (peg [] [97; 98; 32; 100; 101; 110]%N 6 ex_stop 0 = PFail /\
   proj (parse (step []) 6 (mkargs ex_stop [97; 98; 32; 100; 101; 110]%N 0 true true)) = Some PFail) /\
  (exists r, drun (parse (step []) 6) (parse_string [32; 10; 9; 13]%N ex_stop false [97; 98; 32; 100; 101; 110; 32; 101; 110; 100]%N false)
             = Some (Entry.POk r) /\ pr_as_list r = [TStr [97; 98]%N; TStr [100; 101; 110]%N; TStr [101; 110; 100]%N]).
Proof. vm_compute. repeat split. eexists. split; reflexivity. Qed.

(* Combine over a repetition with stop_on is in the class too (`flat_class`: the sentinel yields no token) *)
Example C01_stop_on_combine_instance :
  let g := Enh (oc_at 7 false true true true false 31) [] (ECombine []) ex_stop in
  in_class [] g = true /\
  peg [] [97; 98; 32; 100; 101; 110; 32; 101; 110; 100]%N 7 g 0 = POk 10 [TStr [97; 98; 100; 101; 110; 101; 110; 100]%N].
Proof. vm_compute. split; reflexivity. Qed.

(* ---- SkipTo in the proved class ----
   The reading (Model/Peg.v, case Skip of `peg`, `peg_skip_scan`): after SkipTo's own leading whitespace skip, from the
   current position, one character at a time up to and including the end of the text, the first position at which the
   target matches; the target is tried exactly there, WITHOUT a leading whitespace skip of its own (`nopre target`:
   SkipTo calls `self.expr._parse(instring, tmploc, do_actions=False, callPreParse=False)`; this is why the skipped
   text keeps its trailing blanks); no such position = no match.  Token: the skipped text, followed with include=True by
   the target's tokens (the target is then consumed).
   `in_class` contains `Skip a [] target incl [] None` (no private ignore expression, no fail_on) when `a` is plain, the
   target is in the class and the component that the target itself calls without pre-parse (first element of an And,
   content of a wrapper / Forward) does not skip whitespace (`np_ok`; tokens, '|', '^', '&', lookaheads and repetitions
   as targets always qualify).  So C01_peg_equiv / C01_peg_equiv_nopre / C01_parse_string above cover these SkipTo
   grammars.  Witnesses: the dumps (after streamline) of  SkipTo(",") + ","  and  SkipTo(",", include=True). *)
Definition ex_skip : expr :=
  Nary (oc_at 1 true true true true true 18) [] NAnd
    [ Skip (oc_at 2 false true true false true 12) [] (Tok (oc_at 3 false true true false true 3) [] (KLit [44%N])) false [] None;
      Tok (oc_at 4 false true true false true 3) [] (KLit [44%N]) ].
Definition ex_skip_incl : expr :=
  Skip (oc_at 1 false true true false true 12) [] (Tok (oc_at 2 false true true false true 3) [] (KLit [44%N])) true [] None.

(* " ab c ,x" reads ['ab c ', ','] (leading blank skipped by SkipTo itself, trailing blank kept); "," reads ['', ','];
   "abc" and "a  " have no ','.  With include: "a b,c" reads ['a b', ','] and ends at 4. *)
Example C01_skipto_instance :
  env_in_class [] = true /\ in_class [] ex_skip = true /\ in_class [] ex_skip_incl = true /\
  (let s := [32; 97; 98; 32; 99; 32; 44; 120]%N in
   peg [] s 5 ex_skip 0 = POk 7 [TStr [97; 98; 32; 99; 32]%N; TStr [44%N]] /\
   proj (parse (step []) 5 (mkargs ex_skip s 0 true true)) = Some (peg [] s 5 ex_skip 0) /\
   proj (parse (step []) 5 (mkargs ex_skip s 0 false true)) = Some (peg [] s 5 ex_skip 0)) /\
  (peg [] [44%N] 5 ex_skip 0 = POk 1 [TStr []; TStr [44%N]] /\
   proj (parse (step []) 5 (mkargs ex_skip [44%N] 0 true true)) = Some (peg [] [44%N] 5 ex_skip 0)) /\
  (peg [] [97; 98; 99]%N 5 ex_skip 0 = PFail /\
   proj (parse (step []) 5 (mkargs ex_skip [97; 98; 99]%N 0 true true)) = Some PFail) /\
  (peg [] [97; 32; 32]%N 5 ex_skip 0 = PFail /\
   proj (parse (step []) 5 (mkargs ex_skip [97; 32; 32]%N 0 true true)) = Some PFail) /\
  (let s := [97; 32; 98; 44; 99]%N in
   peg [] s 5 ex_skip_incl 0 = POk 4 [TStr [97; 32; 98]%N; TStr [44%N]] /\
   proj (parse (step []) 5 (mkargs ex_skip_incl s 0 true true)) = Some (peg [] s 5 ex_skip_incl 0)) /\
  (exists r, drun (parse (step []) 5) (parse_string [32; 10; 9; 13]%N ex_skip false [32; 97; 98; 32; 99; 32; 44; 120]%N false)
             = Some (Entry.POk r) /\ pr_as_list r = [TStr [97; 98; 32; 99; 32]%N; TStr [44%N]]).
Proof. vm_compute. repeat split. eexists. split; reflexivity. Qed.

(* the call that SkipTo makes to its target: for an element of the class whose head component does not skip, `_parse`
   WITHOUT pre-parse at ANY location agrees with the reading of `nopre e` (the element with callPreparse off) *)
Theorem C01_peg_equiv_nopre_any : forall (G : env) (s : str),
  env_in_class G = true ->
  forall fuel e, in_class G e = true -> np_ok G e = true -> forall loc d,
  proj (parse (step G) fuel (mkargs e s loc d false)) = Some (peg G s fuel (nopre e) loc).
Proof. exact (fun G s HG fuel e He Hn loc d => peg_equiv_nopre_any G s HG fuel e He Hn loc d). Qed.
(* instance: Literal(",") called without pre-parse at the blank of " ," fails, whereas with pre-parse it matches *)
Example C01_peg_equiv_nopre_any_instance :
  let c := Tok (oc_at 3 false true true false true 3) [] (KLit [44%N]) in
  in_class [] c = true /\ np_ok [] c = true /\
  proj (parse (step []) 2 (mkargs c [32; 44]%N 0 true false)) = Some PFail /\ peg [] [32; 44]%N 2 (nopre c) 0 = PFail /\
  peg [] [32; 44]%N 2 c 0 = POk 2 [TStr [44%N]].
Proof. vm_compute. repeat split. Qed.

(* SkipTo(Literal("a") + "b"): the target And hands "no pre-parse" on to its first element, which skips whitespace on its
   own: outside the proved class (np_ok) *)
Example C01_skipto_and_target_outside :
  let g := Skip (oc_at 1 false true true false true 18) []
             (Nary (oc_at 2 true true true true true 9) [] NAnd
                [ Tok (oc_at 3 false true true false true 3) [] (KLit [97%N]); Tok (oc_at 4 false true true false true 3) [] (KLit [98%N]) ])
             false [] None in
  in_class [] g = false /\ in_ref_class [] g = false.
Proof. vm_compute. split; reflexivity. Qed.

(* ---- fail_on ----
   SkipTo's documentation: "fail_on - define expressions that are not allowed to be included in the skipped test; if found
   before the target expression is found, the SkipTo is not a match".  This is the reading of `peg_skip_scan`.  Until /repo
   80e8de9 SkipTo.parseImpl left its scan loop with `break` when fail_on matched, skipping the `else:` clause that raises, and
   the SkipTo SUCCEEDED with the text skipped so far (finding F-01b: SkipTo(",", fail_on="a") on "ba," answered ['b']); the
   repaired code raises, and model and reading agree on the witness.  fail_on is still outside `in_class` (not proved). *)
Definition ex_skip_failon : expr :=
  Skip (oc_at 1 false true true false true 12) [] (Tok (oc_at 3 false true true false true 3) [] (KLit [44%N])) false []
    (Some (Tok (oc_at 2 false true true false true 3) [] (KLit [97%N]))).
Example C01_skipto_fail_on_instance :
  (exists x, drun (parse (step []) 5) (parse_string [32; 10; 9; 13]%N ex_skip_failon false [98; 97; 44]%N false) = Some (Entry.PErr x)
             /\ xk x = XParse)
  /\ peg [] [98; 97; 44]%N 5 ex_skip_failon 0 = PFail
  /\ (exists r, drun (parse (step []) 5) (parse_string [32; 10; 9; 13]%N ex_skip_failon false [98; 98; 44]%N false) = Some (Entry.POk r)
                /\ pr_as_list r = [TStr [98%N; 98%N]])
  /\ in_class [] ex_skip_failon = false.
Proof. vm_compute. repeat split; try (eexists; split; reflexivity). Qed.
