(* C04 — left-recursive grammars parse as their iterative equivalents (Forward.parseImpl under enable_left_recursion).
   Statements only.  Model: Model/LR.v (`lr_loop` = the `while True:` growth loop, `lr_forward` = Forward.parseImpl,
   `parse_lr` = the handler threading the memo; `memo` with m_cap = None is UnboundedMemo, Some c is LRUMemo(c)).
   Auxiliary definitions (ends_bounded, seeded, grow, iter, rep_ref, the concrete attributed grammars GXY/IXY/GE/IE/GN as
   dumped from the real objects) are in Proofs/LRGrowth.v; those of sections 3b / 3c (ws_of, tail_res, walks, pindep, agree, left_nest,
   nest_rounds, agree_nested, the grammars IE' / GG / GZ / IZ) in Proofs/LRIter.v. *)
From Coq Require Import List ZArith NArith Bool Arith.
From PP Require Import Model.Str Model.Results Model.Prog Model.Core Model.Entry Model.LR.
From PP Require Import Proofs.LRGrowth Proofs.LRTie Proofs.LRIter.
Import ListNotations.

(* ============================ 1. the growth loop needs no loop fuel ============================ *)
(* For EVERY semantics `rec` of the body (any grammar, any handler), any memo/capacity, do_actions, previous result:
   if a successful `super().parseImpl(instring, loc, False)` never ends beyond len + 1 (hypothesis `ends_bounded`; for the
   real elements len + 1 is reached by StringEnd/LineEnd only), then the fuel len + 3 that `lr_forward` gives to the loop
   is never exhausted: any additional fuel yields the same answer.  (Each continuing round has new_loc > prev_loc, and
   prev_loc starts at loc - 1.) *)
Theorem C04_growth_terminates : forall (rec : hrec) a body s loc d,
  ends_bounded rec a body s loc (length s + 1) ->
  forall extra prev_peek m,
    lr_loop rec (length s + 3 + extra) a body s loc d (Z.of_nat loc - 1) prev_peek m =
    lr_loop rec (length s + 3) a body s loc d (Z.of_nat loc - 1) prev_peek m.
Proof. exact growth_terminates. Qed.

(* the general form: from any prev_loc and any bound, fuel n >= 1 with n > bound - prev_loc is as good as n + 1 *)
Theorem C04_growth_fuel_irrelevant : forall (rec : hrec) a body s loc d bound,
  ends_bounded rec a body s loc bound ->
  forall n prev_loc prev_peek m,
    1 <= n -> (Z.of_nat n > Z.of_nat bound - prev_loc)%Z ->
    lr_loop rec n a body s loc d prev_loc prev_peek m = lr_loop rec (S n) a body s loc d prev_loc prev_peek m.
Proof. exact lr_loop_fuel_irrelevant. Qed.

(* exhaustion is unreachable: if the body's handler never reports divergence, the loop never does *)
Theorem C04_growth_no_exhaustion : forall (rec : hrec) a body s loc d bound,
  ends_bounded rec a body s loc bound -> never_div rec ->
  forall n prev_loc prev_peek m o m',
    1 <= n -> (Z.of_nat n > Z.of_nat bound - prev_loc)%Z ->
    lr_loop rec n a body s loc d prev_loc prev_peek m = Some (o, m') -> o <> Div.
Proof. exact lr_loop_no_exhaustion. Qed.

(* the hypothesis is satisfiable and the bound is tight: a body growing one position per round up to len + 1 on an input
   of length 2 needs exactly 2 + 3 rounds; with fuel 4 the model's loop reports exhaustion, with 5 (and 6) it answers *)
Example C04_growth_bound_tight :
  (forall body s loc, ends_bounded toy_rec toy_attrs body s loc (length s + 1)) /\
  let run n := out_of (lr_loop toy_rec n toy_attrs (lit 9 97) [97; 97]%N 0 false (-1)%Z (MExc (seed_exn 0 0))
                               (seeded (memo_empty None) 0 0 false)) in
  run 4 = Some Div /\ run 5 = Some (Ok 3 pr_empty) /\ run 6 = Some (Ok 3 pr_empty).
Proof. split; [exact toy_bounded|]. vm_compute. repeat split. Qed.

(* ============================ 2. no base case ============================ *)
(* If, with the seeds installed, the body's first attempt fails with a ParseException, Forward.parseImpl raises that
   exception (a ParseException: neither divergence nor fuel exhaustion).  Any `rec`, grammar, input, capacity. *)
Theorem C04_no_base_case : forall (rec : hrec) a body s loc d m x m1,
  memo_get m (loc, nid a, d) = None ->
  super_impl rec a body s loc false (seeded m loc (nid a) d) = Some (Err x, m1) ->
  is_pe (xk x) = true ->
  lr_forward rec a body s loc d m = Some (Err x, m1).
Proof. exact no_base_case. Qed.

(* a nested occurrence of the Forward at the same location during the first round hits the seed and raises
   ParseException "Forward recursion without base case" *)
Theorem C04_seed_hit : forall (rec : hrec) a body s loc d dd m,
  (dd = true -> d = true) ->
  lr_forward rec a body s loc dd (seeded m loc (nid a) d) =
  Some (Err (mkx XParse (Z.of_nat loc) MFwdNoBase (Some (nid a))), seeded m loc (nid a) d).
Proof. exact lr_forward_seed_hit. Qed.

(* `E <<= E + rest...` (the body is an And whose first element is E itself; any attributes, any `rest`, any environment):
   for EVERY input, location, do_actions, callPreParse, fuel >= 3, capacity, and memo without an entry for E at the
   starting location, the real handler answers the seed exception at the place where E starts *)
Theorem C04_no_base_case_self_and : forall G id aE ab rest,
  nth_error G id = Some (Nary ab [] NAnd (Fwd aE [] (Some id) :: rest)) ->
  forall f m s loc d pre,
    memo_get m (fwd_start aE s loc pre, nid aE, d) = None ->
    parse_lr G (3 + f) m (mkargs (Fwd aE [] (Some id)) s loc d pre) =
    Some (Err (mkx XParse (Z.of_nat (fwd_start aE s loc pre)) MFwdNoBase (Some (nid aE))),
          seeded m (fwd_start aE s loc pre) (nid aE) d).
Proof. exact self_and_no_base. Qed.

(* E <<= E + 'a' on "aa", " a", "" under UnboundedMemo and LRUMemo(1) *)
Example C04_no_base_case_instance :
  let run cap s := out_of (parse_lr GN 40 (memo_empty cap) (mkargs gN s 0 true true)) in
  let exc l := Some (Err (mkx XParse l MFwdNoBase (Some 1))) in
  run None [97; 97]%N = exc 0%Z /\ run (Some 1) [97; 97]%N = exc 0%Z /\
  run None [32; 97]%N = exc 1%Z /\ run (Some 1) [32; 97]%N = exc 1%Z /\
  run None [] = exc 0%Z /\ run (Some 1) [] = exc 0%Z.
Proof. vm_compute. repeat split. Qed.

(* ============================ 3. the direct rule ============================ *)
(* the growth loop without the memo: whenever the body reads the memo only through this Forward's own entry at loc and
   leaves it unchanged (`body_reads_own_entry`, with `body_out` the body's answer as a function of that entry), a miss of
   Forward.parseImpl computes the memo-free iteration `grow body_out` started from the seed — for every capacity, every
   content of the rest of the memo, do_actions true and false; other keys' active entries are untouched *)
Theorem C04_growth_memo_free : forall (rec : hrec) a body s loc body_out,
  body_reads_own_entry rec a body s loc body_out ->
  forall d m, memo_get m (loc, nid a, d) = None ->
  exists m', lr_forward rec a body s loc d m =
             Some (grow body_out (length s + 3) (Z.of_nat loc - 1) (MExc (seed_exn loc (nid a))), m') /\
             m_cap m' = m_cap m /\
             forall k, k <> (loc, nid a, false) -> k <> (loc, nid a, true) -> active m' k = active m k.
Proof. exact lr_forward_grow. Qed.

(* E <<= (E + tail...) | base, flat and ungrouped, under the real handler.  PARTIAL: hypotheses
     - E, the And and the MatchFirst carry no results name, no parse action, no ignorables (`plain`, ign = []);
     - the And's own whitespace skipping does not move away from loc;
     - base and the tail elements are memo-independent: for every fuel >= f0, memo, location and do_actions the handler
       answers `ans c l` and leaves the memo unchanged (they mention neither E nor another Forward, and contain no
       do_actions-sensitive parse action);
     - base matches at loc, ending at lb >= loc;
     - the memo has no entry for (loc, E, do_actions).
   Conclusion: `E._parse` answers what `iter` computes: start from base's result; in each round run the tail elements at
   the current end on the accumulated result (`and_pure`, tokens joined with pr_iadd, re-wrapped by E / And / MatchFirst);
   extend iff the tail matches and advances; stop at the first round where it does not; capacity preserved.
   The link from `iter` to the plain parser running `base + ZeroOrMore(And(tail))` is section 3b, the grouped form
   Group(E + tail) section 3c.  Missing for the property's text: do_actions-sensitive actions, results names, Or bodies,
   several recursive alternatives, base/tail containing other Forwards. *)
Theorem C04_direct_equiv_partial : forall G s (ans : expr -> nat -> outcome) id aE ab aa tail base loc f0,
  nth_error G id = Some (Nary ab [] NMatchFirst [Nary aa [] NAnd (Fwd aE [] (Some id) :: tail); base]) ->
  plain aE -> plain aa -> plain ab ->
  (if callpre aa then (if skipws aa then skip_white s loc (white aa) else loc) else loc) = loc ->
  indep G s ans f0 base ->
  (forall c, In c tail -> indep G s ans f0 c) ->
  forall lb rb, ans base loc = Ok lb rb ->
  forall f d pre loc0 m, f0 <= f -> loc <= lb ->
  fwd_start aE s loc0 pre = loc ->
  memo_get m (loc, nid aE, d) = None ->
  exists m', parse_lr G (S (S (S (S f)))) m (mkargs (Fwd aE [] (Some id)) s loc0 d pre) =
             Some (match iter s ans aE ab aa tail loc (length s + 2) lb (wrap ab rb) with
                   | Ok l r => Ok l (wrap aE r)
                   | Err x => raise_out s aE loc x
                   | Div => Div
                   end, m') /\ m_cap m' = m_cap m.
Proof. exact direct_parse_lr. Qed.

(* round k+1 of `iter`: if the tail matches at the current end l and advances, the next round starts from the previous
   tokens followed by exactly that tail's tokens ... *)
Theorem C04_direct_round_partial : forall s (ans : expr -> nat -> outcome) aE ab aa tail loc n l r l' acc,
  and_pure s ans aa tail l (wrap aE r) false = AOk l' acc -> l < l' ->
  iter s ans aE ab aa tail loc (S n) l r = iter s ans aE ab aa tail loc n l' (wrap ab (wrap aa acc)) /\
  toks (wrap ab (wrap aa acc)) = toks r ++ tail_toks ans tail l.
Proof. exact iter_round. Qed.

(* ... and the loop stops, answering the previous result, at the first round where the tail fails with a ParseException
   or matches without advancing *)
Theorem C04_direct_stop_partial : forall s (ans : expr -> nat -> outcome) aE ab aa tail loc n l r,
  (forall x, and_pure s ans aa tail l (wrap aE r) false = AErr x -> is_pe (xk x) = true ->
             iter s ans aE ab aa tail loc (S n) l r = Ok l r) /\
  (forall l' acc, and_pure s ans aa tail l (wrap aE r) false = AOk l' acc -> l' <= l ->
             iter s ans aE ab aa tail loc (S n) l r = Ok l r).
Proof.
  exact (fun s ans aE ab aa tail loc n l r =>
           conj (fun x => iter_stop_fail s ans aE ab aa tail loc n l r x)
                (fun l' acc => iter_stop_stuck s ans aE ab aa tail loc n l r l' acc)).
Qed.

(* end location and token list: every match of the growth iteration is the match of the iterative reading
   `rep_ref` = "append the tokens of one more tail while the tail sequence matches and advances" *)
Theorem C04_direct_tokens_partial : forall s (ans : expr -> nat -> outcome) aE ab aa tail loc n l r l' r',
  iter s ans aE ab aa tail loc n l r = Ok l' r' ->
  rep_ref ans tail n l (toks r) = Some (l', toks r').
Proof. exact iter_rep_ref. Qed.

(* instance meeting every hypothesis: E <<= E + '+' + N | N on "1+2+1", for every fuel, do_actions and memo of any capacity
   (proved THROUGH the theorem above, not by running the model) *)
Example C04_direct_instance : forall f d m,
  memo_get m (0, 1, d) = None ->
  exists m', parse_lr GE (5 + f) m (mkargs gE s_121 0 d true) =
             Some (Ok 5 (pr_of_list [tstr 49; tstr 43; tstr 50; tstr 43; tstr 49]), m') /\ m_cap m' = m_cap m.
Proof. exact direct_instance. Qed.

(* the same grammar by running both models: left-to-right flat token list, equal to N + ZeroOrMore('+' + N) under the plain
   parser, for UnboundedMemo, LRUMemo(1), LRUMemo(2) *)
Example C04_direct_positive :
  let lr cap := res_of (parse_lr GE 40 (memo_empty cap) (mkargs gE s_121 0 true true)) in
  let expected := Some (5, [tstr 49; tstr 43; tstr 50; tstr 43; tstr 49]) in
  lr None = expected /\ lr (Some 1) = expected /\ lr (Some 2) = expected /\
  res_of_plain (parse (step []) 40 (mkargs IE s_121 0 true true)) = expected.
Proof. vm_compute. repeat split. Qed.

(* ============================ 3b. the link to the iterative grammar under the PLAIN parser ============================ *)
(* Definitions (Proofs/LRIter.v):
     ws_of a s l     where an element with attributes a and no ignorables starts after its own preParse from l;
     tail_res        the tail elements of the And run in sequence from l (each with callPreParse = True), read as
                     TOk end tokens | TErr exception-class | TDiv;
     walks s ans tail   from every l <= len+1: IF the tail matches at l THEN it ends at l' with l < l' <= len+1
                     ("the tail advances when it matches" + the C06 location bound); `walksb` is its finite check;
     pindep G' s ans f0 c   the plain parser's `c._parse(s, l, d, True)` answers `ans c l` for every fuel >= f0, l, d
                     (the same `ans` as `indep` for parse_lr: tok_indep / tok_pindep give both for every token);
     agree wsl lb o_lr o_it   both Ok with EQUAL TOKEN LISTS and end_it = (if end_lr = lb then wsl else end_lr), or both Err
                     with the same exception class, or both Div.
   The end locations can differ in exactly one case: zero repetitions.  The growth loop then answers base's end lb, while
   ZeroOrMore returns its own pre-parsed location ws_of ar s lb (the whitespace after base is consumed): see
   C04_direct_iterative_zero_instance.  With at least one repetition both end where the last tail ended.

   ONE end-to-end statement for the flat direct rule E <<= (E + t1 + rest...) | base: for every input, location,
   do_actions, callPreParse, every fuel 4+f / 3+f with f >= f0, and every memo (ANY capacity m_cap, any content without an
   entry for E here), bounded recursion under `parse_lr` and the plain parser on
   base + ZeroOrMore(And(t1 :: rest)) agree.  PARTIAL: hypotheses of C04_direct_equiv_partial, plus
     - the And / ZeroOrMore / inner And of the iterative grammar are name-free, action-free, without ignorables (any other
       attributes: every attribute assignment the real constructors produce is covered);
     - t1 is not an And._ErrorStop marker; the elements answer the same `ans` under the plain parser;
     - whitespace alignment (true for the real constructors, which copy the whitespace settings of the first element /
       the body: ws_of_idem, tok_nopre): And(t1 ..) calling t1 with callPreParse = False after its own preParse is t1's own
       `_parse` from l; ZeroOrMore's preParse before the body's changes nothing; base called without preParse at E's start
       answers as with it; E and the iterative And start at the same place;
     - `walks`: WITHOUT it the statement is false, see C04_iterative_nullable_tail_refuted;
     - base ends within len + 1.
   Still missing for the property's text: results names / do_actions-sensitive actions, several recursive alternatives,
   Or bodies, base/tail containing other Forwards (two-level precedence), the indirect shape (refuted below). *)
Theorem C04_direct_iterative_partial :
  forall G G' s (ans : expr -> nat -> outcome) id aE ab aa ai ar at_ t1 rest base loc f0,
  nth_error G id = Some (Nary ab [] NMatchFirst [Nary aa [] NAnd (Fwd aE [] (Some id) :: t1 :: rest); base]) ->
  plain aE -> plain aa -> plain ab ->
  ws_of aa s loc = loc ->
  indep G s ans f0 base ->
  (forall c, In c (t1 :: rest) -> indep G s ans f0 c) ->
  plain ai -> plain ar -> plain at_ ->
  is_estop t1 = false ->
  (forall c, In c rest -> pindep G' s ans f0 c) ->
  (forall fu, f0 <= fu -> forall l d, parse (step G') fu (mkargs t1 s (ws_of at_ s l) d false) = Some (ans t1 l)) ->
  (forall l, ws_of at_ s (ws_of ar s l) = ws_of at_ s l) ->
  walks s ans (t1 :: rest) ->
  (forall fu, f0 <= fu -> forall d, parse (step G') fu (mkargs base s loc d false) = Some (ans base loc)) ->
  forall lb rb, ans base loc = Ok lb rb -> loc <= lb -> lb <= length s + 1 ->
  forall f d pre loc0 m, f0 <= f ->
  fwd_start aE s loc0 pre = loc -> fwd_start ai s loc0 pre = loc ->
  memo_get m (loc, nid aE, d) = None ->
  exists m' o_lr o_it,
    parse_lr G (4 + f) m (mkargs (Fwd aE [] (Some id)) s loc0 d pre) = Some (o_lr, m') /\
    m_cap m' = m_cap m /\
    parse (step G') (3 + f)
      (mkargs (Nary ai [] NAnd [base; Rep ar [] true (Nary at_ [] NAnd (t1 :: rest)) None]) s loc0 d pre) = Some o_it /\
    agree (ws_of ar s lb) lb o_lr o_it.
Proof. exact direct_iterative. Qed.

(* the same when the tail is ONE element: E <<= E + t1 | base  vs  base + ZeroOrMore(t1) (the repetition body is t1 itself) *)
Theorem C04_direct_iterative_single_partial :
  forall G G' s (ans : expr -> nat -> outcome) id aE ab aa ai ar t1 base loc f0,
  nth_error G id = Some (Nary ab [] NMatchFirst [Nary aa [] NAnd [Fwd aE [] (Some id); t1]; base]) ->
  plain aE -> plain aa -> plain ab ->
  ws_of aa s loc = loc ->
  indep G s ans f0 base -> indep G s ans f0 t1 ->
  plain ai -> plain ar ->
  is_estop t1 = false ->
  pindep G' s ans f0 t1 ->
  (forall l, ans t1 (ws_of ar s l) = ans t1 l) ->
  walks s ans [t1] ->
  (forall fu, f0 <= fu -> forall d, parse (step G') fu (mkargs base s loc d false) = Some (ans base loc)) ->
  forall lb rb, ans base loc = Ok lb rb -> loc <= lb -> lb <= length s + 1 ->
  forall f d pre loc0 m, f0 <= f ->
  fwd_start aE s loc0 pre = loc -> fwd_start ai s loc0 pre = loc ->
  memo_get m (loc, nid aE, d) = None ->
  exists m' o_lr o_it,
    parse_lr G (4 + f) m (mkargs (Fwd aE [] (Some id)) s loc0 d pre) = Some (o_lr, m') /\
    m_cap m' = m_cap m /\
    parse (step G') (2 + f) (mkargs (Nary ai [] NAnd [base; Rep ar [] true t1 None]) s loc0 d pre) = Some o_it /\
    agree (ws_of ar s lb) lb o_lr o_it.
Proof. exact direct_iterative_single. Qed.

(* the general form behind both: ANY repetition body B whose plain answer `bans` reads as one tail *)
Theorem C04_direct_iterative_body_partial :
  forall G G' s (ans : expr -> nat -> outcome) id aE ab aa ai ar tail base B bans fB loc f0,
  nth_error G id = Some (Nary ab [] NMatchFirst [Nary aa [] NAnd (Fwd aE [] (Some id) :: tail); base]) ->
  plain aE -> plain aa -> plain ab ->
  ws_of aa s loc = loc ->
  indep G s ans f0 base ->
  (forall c, In c tail -> indep G s ans f0 c) ->
  plain ai -> plain ar ->
  (forall fu, fB <= fu -> forall l d, parse (step G') fu (mkargs B s l d true) = Some (bans l)) ->
  (forall l, match tail_res ans tail l false with
             | TOk l' ts => exists r, bans l = Ok l' r /\ toks r = ts
             | TErr k => exists x, bans l = Err x /\ (if soft k then soft (xk x) = true else xk x = k)
             | TDiv => bans l = Div
             end) ->
  walks s ans tail ->
  (forall fu, f0 <= fu -> forall d, parse (step G') fu (mkargs base s loc d false) = Some (ans base loc)) ->
  forall lb rb, ans base loc = Ok lb rb -> loc <= lb -> lb <= length s + 1 ->
  bans (ws_of ar s lb) = bans lb ->
  forall f fi d pre loc0 m, f0 <= f -> f0 <= S fi -> fB <= fi ->
  fwd_start aE s loc0 pre = loc -> fwd_start ai s loc0 pre = loc ->
  memo_get m (loc, nid aE, d) = None ->
  exists m' o_lr o_it,
    parse_lr G (S (S (S (S f)))) m (mkargs (Fwd aE [] (Some id)) s loc0 d pre) = Some (o_lr, m') /\
    m_cap m' = m_cap m /\
    parse (step G') (S (S fi)) (mkargs (Nary ai [] NAnd [base; Rep ar [] true B None]) s loc0 d pre) = Some o_it /\
    agree (ws_of ar s lb) lb o_lr o_it.
Proof. exact direct_iterative_gen. Qed.

(* `walks` for a given input is a finite check *)
Theorem C04_walks_decidable : forall s ans tail, walksb s ans tail = true -> walks s ans tail.
Proof. exact walksb_ok. Qed.

(* instances THROUGH the theorem (every hypothesis discharged: tok_indep, tok_pindep, tok_nopre, ws_of_idem, walksb), for
   every fuel, do_actions and memo of any capacity.  E <<= E + '+' + N | N  vs  IE' = N + ZeroOrMore('+' + N) built from the
   same '+' and N objects.  "1+2+1": complete match *)
Example C04_direct_iterative_instance : forall f d m,
  memo_get m (0, 1, d) = None ->
  exists m' r,
    parse_lr GE (5 + f) m (mkargs gE s_121 0 d true) =
      Some (Ok 5 (pr_of_list [tstr 49; tstr 43; tstr 50; tstr 43; tstr 49]), m') /\ m_cap m' = m_cap m /\
    parse (step GE) (4 + f) (mkargs IE' s_121 0 d true) = Some (Ok 5 r) /\
    toks r = [tstr 49; tstr 43; tstr 50; tstr 43; tstr 49].
Proof. exact direct_iterative_121. Qed.

(* " 1 + 2 +": leading whitespace, a dangling operator: both stop after ['1','+','2'] at 6 *)
Example C04_direct_iterative_partial_instance : forall f d m,
  memo_get m (1, 1, d) = None ->
  exists m' r,
    parse_lr GE (5 + f) m (mkargs gE s_partial 0 d true) =
      Some (Ok 6 (pr_of_list [tstr 49; tstr 43; tstr 50]), m') /\ m_cap m' = m_cap m /\
    parse (step GE) (4 + f) (mkargs IE' s_partial 0 d true) = Some (Ok 6 r) /\
    toks r = [tstr 49; tstr 43; tstr 50].
Proof. exact direct_iterative_partial_inst. Qed.

(* "1 +": zero repetitions: the same tokens ['1'], the left-recursive form ends at 1, the iterative form at 2 *)
Example C04_direct_iterative_zero_instance : forall f d m,
  memo_get m (0, 1, d) = None ->
  exists m' r,
    parse_lr GE (5 + f) m (mkargs gE s_zero 0 d true) = Some (Ok 1 (pr_of_list [tstr 49]), m') /\ m_cap m' = m_cap m /\
    parse (step GE) (4 + f) (mkargs IE' s_zero 0 d true) = Some (Ok 2 r) /\
    toks r = [tstr 49].
Proof. exact direct_iterative_zero_inst. Qed.

(* REFUTED without `walks`: a tail that matches without advancing.  E <<= E + Empty() | N on "1": bounded recursion stops at
   the first non-advancing round and answers ['1'] ending at 1 (UnboundedMemo, LRUMemo(0/1/2)); the iterative equivalent
   N + ZeroOrMore(Empty()) under the plain parser never returns (the real `while 1:` of _MultipleMatch spins; the model
   answers Div).  Grammars as dumped from the real objects; confirmed on the implementation. *)
Theorem C04_iterative_nullable_tail_refuted :
  exists (G : env) (root iter_equiv : expr) (s : str),
    (forall cap, In cap [None; Some 0; Some 1; Some 2] ->
       res_of (parse_lr G 40 (memo_empty cap) (mkargs root s 0 true true)) = Some (1, [tstr 49])) /\
    parse (step []) 40 (mkargs iter_equiv s 0 true true) = Some Div.
Proof.
  exists GZ, gZ, IZ, s_1. destruct nullable_tail_witness as [H1 [H2 _]]. split; assumption.
Qed.

(* ============================ 3c. the grouped form: left-nested token trees ============================ *)
(* E <<= Group(E + t1 + rest...) | base (the body as the real streamline() leaves it: MatchFirst [Group(And(E :: tail)); base])
   against the SAME flat iterative grammar base + ZeroOrMore(And(t1 :: rest)) under the plain parser.
     left_nest        [a; op; b; op; c] -> [[[a; op; b]; op; c]] on token lists (the Python `left_nest` of tools/props/c04.py);
     nest_rounds v rounds = fold_left (fun cur t => [TList (cur ++ t)]) rounds v  (the general fold, any round length);
     a_round ans tail t : t is the token list of one match of the tail sequence;
     agree_nested .. o_lr o_it : both Ok and there are rounds (each `a_round`) with
         tokens(iterative) = tokens(base) ++ concat rounds   and   as_list(left-recursive) = nest_rounds as_list(base) rounds,
       ends related as in `agree`; or both Err with the same class; or both Div.
   PARTIAL: same hypotheses as C04_direct_iterative_partial with the Group (name-free, action-free, its own preParse does not
   move from loc) in place of the And's stability; Group(aslist=True/False) both covered (`aspy`). *)
Theorem C04_grouped_iterative_partial :
  forall G G' s (ans : expr -> nat -> outcome) id aE ab aG aa aspy ai ar at_ t1 rest base loc f0,
  nth_error G id = Some (Nary ab [] NMatchFirst
                           [Enh aG [] (EGroup aspy) (Nary aa [] NAnd (Fwd aE [] (Some id) :: t1 :: rest)); base]) ->
  plain aE -> plain aa -> plain ab -> plain aG ->
  ws_of aG s loc = loc ->
  indep G s ans f0 base ->
  (forall c, In c (t1 :: rest) -> indep G s ans f0 c) ->
  plain ai -> plain ar -> plain at_ ->
  is_estop t1 = false ->
  (forall c, In c rest -> pindep G' s ans f0 c) ->
  (forall fu, f0 <= fu -> forall l d, parse (step G') fu (mkargs t1 s (ws_of at_ s l) d false) = Some (ans t1 l)) ->
  (forall l, ws_of at_ s (ws_of ar s l) = ws_of at_ s l) ->
  walks s ans (t1 :: rest) ->
  (forall fu, f0 <= fu -> forall d, parse (step G') fu (mkargs base s loc d false) = Some (ans base loc)) ->
  forall lb rb, ans base loc = Ok lb rb -> loc <= lb -> lb <= length s + 1 ->
  forall f d pre loc0 m, f0 <= f ->
  fwd_start aE s loc0 pre = loc -> fwd_start ai s loc0 pre = loc ->
  memo_get m (loc, nid aE, d) = None ->
  exists m' o_lr o_it,
    parse_lr G (5 + f) m (mkargs (Fwd aE [] (Some id)) s loc0 d pre) = Some (o_lr, m') /\
    m_cap m' = m_cap m /\
    parse (step G') (3 + f)
      (mkargs (Nary ai [] NAnd [base; Rep ar [] true (Nary at_ [] NAnd (t1 :: rest)) None]) s loc0 d pre) = Some o_it /\
    agree_nested ans (t1 :: rest) (ws_of ar s lb) lb rb o_lr o_it.
Proof. exact grouped_iterative. Qed.

(* one token from base and two tokens (operator, operand) per round: as_list(left-recursive) = left_nest(as_list(iterative)) *)
Theorem C04_grouped_left_nest_partial : forall (ans : expr -> nat -> outcome) tail wsl lb rb o_lr o_it,
  length (toks rb) = 1 ->
  (forall t, a_round ans tail t -> length t = 2) ->
  agree_nested ans tail wsl lb rb o_lr o_it ->
  match o_lr, o_it with
  | Ok l r, Ok l' r' => pr_as_list r = left_nest (pr_as_list r') /\ l' = (if Nat.eqb l lb then wsl else l)
  | Err x, Err x' => xk x' = xk x
  | Div, Div => True
  | _, _ => False
  end.
Proof. exact agree_nested_left_nest. Qed.

(* every hypothesis of C04_grouped_iterative_partial is met: E <<= Group(E + '+' + N) | N on "1+2+1", every fuel, do_actions,
   memo of any capacity *)
Example C04_grouped_iterative_instance : forall f d m,
  memo_get m (0, 1, d) = None ->
  exists m' o_lr o_it,
    parse_lr GG (6 + f) m (mkargs gGr s_121 0 d true) = Some (o_lr, m') /\ m_cap m' = m_cap m /\
    parse (step GG) (4 + f) (mkargs IE' s_121 0 d true) = Some o_it /\
    agree_nested (leaf_ans GG s_121) [lit 4 43; num 5] (ws_of IE_ar s_121 1) 1 (pr_of_list [tstr 49]) o_lr o_it.
Proof. exact grouped_instance. Qed.

(* the same by running both models: [[['1','+','2'],'+','1']] = left_nest ['1','+','2','+','1'], UnboundedMemo and LRUMemo(0/1/2) *)
Example C04_grouped_positive :
  let flat := [tstr 49; tstr 43; tstr 50; tstr 43; tstr 49] in
  (forall cap, In cap [None; Some 0; Some 1; Some 2] ->
     aslist_of (parse_lr GG 40 (memo_empty cap) (mkargs gGr s_121 0 true true)) = Some (5, left_nest flat)) /\
  res_of_plain (parse (step GG) 40 (mkargs IE' s_121 0 true true)) = Some (5, flat) /\
  left_nest flat = [TList [TList [tstr 49; tstr 43; tstr 50]; tstr 43; tstr 49]].
Proof. exact grouped_computed. Qed.

(* ============================ 4. indirect left recursion: refuted (F-04) ============================ *)
(* X <<= Y + 'x' | 'a' ; Y <<= X + 'y' on "ayxyx": bounded recursion answers ['a'] ending at 1 (UnboundedMemo, LRUMemo(0),
   LRUMemo(1), LRUMemo(2)), the iterative equivalent 'a' + ZeroOrMore('y' + 'x') under the plain parser answers
   ['a','y','x','y','x'] ending at 5 *)
Theorem C04_indirect_refuted :
  exists (G : env) (root iter_equiv : expr) (s : str),
    (forall cap, In cap [None; Some 0; Some 1; Some 2] ->
       res_of (parse_lr G 40 (memo_empty cap) (mkargs root s 0 true true)) = Some (1, [tstr 97])) /\
    res_of_plain (parse (step []) 40 (mkargs iter_equiv s 0 true true)) =
      Some (5, [tstr 97; tstr 121; tstr 120; tstr 121; tstr 120]).
Proof.
  exists GXY, gX, IXY, s_ayxyx. split.
  - intros cap [<-|[<-|[<-|[<-|[]]]]]; vm_compute; reflexivity.
  - vm_compute. reflexivity.
Qed.

(* ============================ 5. capacity independence ============================ *)
(* the memo table: an entry set with `memo[k] = v` is returned by `memo[k]` after any sequence of sets, deletions (with
   their LRU evictions) and reads (with their LRU reordering) on OTHER keys — UnboundedMemo and LRUMemo of every capacity *)
Theorem C04_memo_entry_survives : forall m k v ops,
  (forall o, In o ops -> op_key o <> k) ->
  exists m', memo_get (fold_left apply_op ops (memo_set m k v)) k = Some (v, m').
Proof. exact memo_entry_survives. Qed.

(* the direct rule (hypotheses as in C04_direct_equiv_partial): the answer of Forward.parseImpl is the same from any two
   memos without an entry for E here — whatever their capacities, retained parts and other entries *)
Theorem C04_capacity_independent_partial : forall G s (ans : expr -> nat -> outcome) id aE ab aa tail base loc f0,
  nth_error G id = Some (Nary ab [] NMatchFirst [Nary aa [] NAnd (Fwd aE [] (Some id) :: tail); base]) ->
  plain aE -> plain aa -> plain ab ->
  (if callpre aa then (if skipws aa then skip_white s loc (white aa) else loc) else loc) = loc ->
  indep G s ans f0 base ->
  (forall c, In c tail -> indep G s ans f0 c) ->
  forall lb rb, ans base loc = Ok lb rb ->
  forall f d m1 m2, f0 <= f -> loc <= lb ->
  memo_get m1 (loc, nid aE, d) = None -> memo_get m2 (loc, nid aE, d) = None ->
  option_map fst (lr_forward (parse_lr G (S (S (S f)))) aE
                    (Nary ab [] NMatchFirst [Nary aa [] NAnd (Fwd aE [] (Some id) :: tail); base]) s loc d m1) =
  option_map fst (lr_forward (parse_lr G (S (S (S f)))) aE
                    (Nary ab [] NMatchFirst [Nary aa [] NAnd (Fwd aE [] (Some id) :: tail); base]) s loc d m2).
Proof. exact direct_capacity_independent. Qed.

(* ============================ 6. the tie to the source ============================ *)
(* Model/LR.v transcribes the text of pyparsing/util.py (LRUMemo, UnboundedMemo), of the bounded-recursion block of
   Forward.parseImpl and of reset_cache that Proofs/LRTie.v quotes (`lr_source_text`); Gen/GenMemo.v is regenerated from /repo
   on every run, so an edit of that code breaks this obligation *)
Theorem C04_source_pinned : lr_source_text.
Proof. exact lr_source_pinned. Qed.
