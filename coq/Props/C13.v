(* C13 — parse actions are called with the documented protocol.
   Statements only; every proof is `exact <lemma>` (or a closed computation on generated tables / witnesses).

   gen_* come from Gen/GenLineDiff.v, regenerated from pyparsing/core.py on every run: line numbers and LINE_DIFF of
   _trim_arity, the shape of `wrapper`, the action loop and parse_string handlers, the do_actions defaults, and the
   table of every _parse / try_parse / can_parse_next / parseImpl call inside the parse methods.

   PARTIAL as a whole: that CPython produces a traceback of depth 0 exactly for an argument-binding failure of
   each callable kind is not modelled; it is validated on the real interpreter by tools/props/c13.py.

   Where the outcome depends on the source tree the statement has the form `if <generated fact> then <property>
   else <counterexample exists>`: it is a theorem on either tree, and evidence/C13.json says which branch is live. *)
From Coq Require Import List Arith Bool String.
From PP Require Import Model.Arity Gen.GenLineDiff Proofs.ArityProofs.
Import ListNotations.
Local Open Scope string_scope.

(* ---------------------------------------------------------------------------------------------------------- *)
(* 1. the synthesised call line is the real one                                                                *)
(* ---------------------------------------------------------------------------------------------------------- *)

(* pa_call_line_synth = (file, line of the extract_stack statement + LINE_DIFF) is the line of `ret = func(...)`
   inside wrapper's loop: an edit that moves either line without updating LINE_DIFF breaks this proof. *)
Theorem C13_line_diff : gen_call_line + gen_line_diff = gen_func_line.
Proof. vm_compute. reflexivity. Qed.

(* the parts of wrapper that the model reads from the source, as they are today *)
Theorem C13_wrapper_shape :
  sh_sets_found gen_shape = true /\ sh_loop_wraps_index gen_shape = true /\
  gen_handlers = [KTypeError; KIndexError] /\ gen_max_limit = 3 /\ gen_builtin_shortcut = true /\
  gen_loop_converts_index = true /\ gen_parse_string_unwraps = true.
Proof. vm_compute. repeat split. Qed.

(* ---------------------------------------------------------------------------------------------------------- *)
(* 2. arity: for every callable written in Python, every body, every wrapper shape, every reachable state      *)
(* ---------------------------------------------------------------------------------------------------------- *)

(* `reachable V sh acc 3 3 st`: st is the wrapper state after any finite history of calls wrapper(s, loc, toks)
   (each call with its own body behaviour) starting from (found_arity=False, limit=0).
   `py_body b`: a TypeError coming out of the body has the body's frame on its traceback (depth >= 1).
   max_arity acc = the largest k <= 3 with acc k: the wrapper tries 3 arguments first (limit = 0), then 2, 1, 0.

   One call of the wrapper: the body is entered exactly once, with the trailing k of (s, loc, toks); its return value
   is returned; an exception from inside the body other than IndexError comes out as the same object, TypeError
   included (it is not taken for an arity probe: the body is not re-entered, found_arity is not touched);
   an IndexError comes out wrapped or not according to the shape (see C13_index_error_by_shape).
   With no acceptable arity the body never runs and CPython's own TypeError propagates. *)
Theorem C13_arity : forall (V : Type) sh acc st (s l t : V) b,
  reachable V sh acc 3 3 st -> py_body V b ->
  let args := [s; l; t] in
  let r := wcall V sh (mkCallable V acc b) 3 st args in
  match max_arity acc with
  | Some k =>
      k <= 3 /\ acc k = true /\ (forall j, k < j <= 3 -> acc j = false) /\
      w_trace V r = [skipn (3 - k) args] /\ limit (w_state V r) = 3 - k /\
      match b (skipn (3 - k) args) with
      | BNone => w_out V r = WReturn RNone /\ found (w_state V r) = found st || sh_sets_found sh
      | BValue v => w_out V r = WReturn (RVal v) /\ found (w_state V r) = found st || sh_sets_found sh
      | BRaise e =>
          found (w_state V r) = found st /\
          (e_kind e <> KIndexError -> w_out V r = WRaise (Raw e)) /\
          (e_kind e = KIndexError ->
             w_out V r = WRaise (wrap_index (if found st && sh_fast_path sh then sh_fast_wraps_index sh
                                             else sh_loop_wraps_index sh) e))
      end
  | None =>
      w_trace V r = [] /\ w_out V r = WRaise (Raw bind_error) /\ found (w_state V r) = false /\
      (forall j, j <= 3 -> acc j = false)
  end.
Proof. exact arity_33. Qed.

(* the same for any number of arguments and any max_limit (the least accepted limit in 0..max_limit) *)
Theorem C13_arity_general : forall (V : Type) sh acc maxl st args b,
  reachable V sh acc maxl (List.length args) st -> py_body V b ->
  let r := wcall V sh (mkCallable V acc b) maxl st args in
  match best_limit acc maxl (List.length args) with
  | Some l =>
      w_trace V r = [skipn l args] /\ limit (w_state V r) = l /\
      acc (List.length args - l) = true /\ (forall j, j < l -> acc (List.length args - j) = false) /\
      match b (skipn l args) with
      | BNone => w_out V r = WReturn RNone /\ found (w_state V r) = found st || sh_sets_found sh
      | BValue v => w_out V r = WReturn (RVal v) /\ found (w_state V r) = found st || sh_sets_found sh
      | BRaise e =>
          found (w_state V r) = found st /\
          (e_kind e <> KIndexError -> w_out V r = WRaise (Raw e)) /\
          (e_kind e = KIndexError ->
             w_out V r = WRaise (wrap_index (if found st && sh_fast_path sh then sh_fast_wraps_index sh
                                             else sh_loop_wraps_index sh) e))
      end
  | None =>
      w_trace V r = [] /\ w_out V r = WRaise (Raw bind_error) /\ found (w_state V r) = false /\
      (forall j, j <= maxl -> acc (List.length args - j) = false)
  end.
Proof. exact arity_general. Qed.

(* non-vacuity: a one-argument function (`def f(toks)`), first call: probes 3 and 2 arguments (binding fails, the body
   is not entered), then runs the body once with [toks]; state becomes (found, limit 2) *)
Example C13_arity_instance :
  let acc := fun n => Nat.eqb n 1 in
  let b := fun a : list nat => match a with [t] => BValue (t + 100) | _ => BNone end in
  let r := wcall nat gen_shape (mkCallable nat acc b) gen_max_limit w_init [10; 20; 30] in
  max_arity acc = Some 1 /\ w_out nat r = WReturn (RVal 130) /\ w_trace nat r = [[30]] /\
  w_state nat r = mkW true 2 /\ w_calls nat r = 3.
Proof. vm_compute. repeat split. Qed.

(* non-vacuity of the hypotheses: a reachable state other than the initial one, and a py_body that raises TypeError *)
Example C13_arity_reachable_instance :
  reachable nat gen_shape (fun n => Nat.eqb n 1) 3 3
    (w_state nat (wcall nat gen_shape (mkCallable nat (fun n => Nat.eqb n 1) (fun _ => BNone)) 3 w_init [10; 20; 30])) /\
  py_body nat (fun _ => BRaise (mkExn KTypeError 2 5)).
Proof.
  split.
  - apply reach_step; [constructor | reflexivity | intros a e H; discriminate].
  - intros a e H Hk. inversion H; subst. simpl. discriminate.
Qed.

(* a TypeError from a nested call with the wrong arity inside the body (depth 2) on the very first call:
   it propagates as the same object, the body ran once, the wrapper has not concluded anything (found_arity False) *)
Example C13_typeerror_inside_instance :
  let acc := fun n => Nat.eqb n 1 in
  let e := mkExn KTypeError 2 5 in
  let r := wcall nat gen_shape (mkCallable nat acc (fun _ => BRaise e)) gen_max_limit w_init [10; 20; 30] in
  w_out nat r = WRaise (Raw e) /\ w_trace nat r = [[30]] /\ w_state nat r = mkW false 2.
Proof. vm_compute. repeat split. Qed.

(* an exception from inside the body other than IndexError: same object out, body entered once, found_arity untouched *)
Theorem C13_exception_unchanged : forall (V : Type) sh acc maxl st args b l e,
  reachable V sh acc maxl (List.length args) st -> py_body V b ->
  best_limit acc maxl (List.length args) = Some l -> b (skipn l args) = BRaise e -> e_kind e <> KIndexError ->
  let r := wcall V sh (mkCallable V acc b) maxl st args in
  w_out V r = WRaise (Raw e) /\ found (w_state V r) = found st /\ limit (w_state V r) = l /\ List.length (w_trace V r) = 1.
Proof. exact exception_unchanged. Qed.

(* after the first success nothing is probed again: in every later call of every history func is evaluated once,
   the body is entered once, the state does not move *)
Theorem C13_found_sticks : forall (V : Type) sh acc maxl st args b,
  reachable V sh acc maxl (List.length args) st -> py_body V b -> found st = true ->
  let r := wcall V sh (mkCallable V acc b) maxl st args in
  w_state V r = st /\ w_calls V r = 1 /\ w_trace V r = [skipn (limit st) args].
Proof. exact found_sticks. Qed.

Theorem C13_success_sets_found : forall (V : Type) sh acc maxl st args b rr,
  reachable V sh acc maxl (List.length args) st -> py_body V b -> sh_sets_found sh = true ->
  w_out V (wcall V sh (mkCallable V acc b) maxl st args) = WReturn rr ->
  found (w_state V (wcall V sh (mkCallable V acc b) maxl st args)) = true.
Proof. exact success_sets_found. Qed.

Theorem C13_history_after_success : forall (V : Type) sh acc maxl len calls st,
  reachable V sh acc maxl len st -> found st = true ->
  Forall (fun c => List.length (fst c) = len /\ py_body V (snd c)) calls ->
  snd (whistory V sh acc maxl st calls) = st /\
  Forall (fun r => w_calls V r = 1 /\ w_state V r = st /\ List.length (w_trace V r) = 1) (fst (whistory V sh acc maxl st calls)).
Proof. exact history_after_success. Qed.

(* history: first call raises TypeError inside the body, second succeeds, third raises ValueError, fourth succeeds *)
Example C13_history_instance :
  let acc := fun n => Nat.eqb n 2 in
  let e1 := mkExn KTypeError 1 1 in let e3 := mkExn (KOther 0) 3 3 in
  let h := whistory nat gen_shape acc gen_max_limit w_init
             [([1; 2; 3], fun _ => BRaise e1); ([1; 2; 3], fun _ => BNone);
              ([4; 5; 6], fun _ => BRaise e3); ([7; 8; 9], fun a => BValue (List.length a))] in
  map (w_out nat) (fst h) = [WRaise (Raw e1); WReturn RNone; WRaise (Raw e3); WReturn (RVal 2)] /\
  map (w_trace nat) (fst h) = [[[2; 3]]; [[2; 3]]; [[5; 6]]; [[8; 9]]] /\
  map (w_calls nat) (fst h) = [2; 1; 1; 1] /\ snd h = mkW true 1.
Proof. vm_compute. repeat split. Qed.

(* the loop cannot run out of its fuel, for any callable at all (C-level ones included) *)
Theorem C13_wrapper_terminates : forall (V : Type) sh c maxl st args, w_out V (wcall V sh c maxl st args) <> WFuel.
Proof. exact wcall_no_fuel. Qed.

(* ---- what the model says about callables implemented in C: REFUTED ----
   Their body raises TypeError with no Python frame (depth 0), which the traceback test cannot tell from a binding
   failure.  Witness shaped like `int` used as a parse action: int(s, loc, toks) cannot bind, int(loc, toks) and
   int(toks) raise TypeError from C, int() returns 0.  The wrapper swallows the TypeError of the documented call
   int(toks), enters the body three times and returns 0.  (Real code: Word(nums).add_parse_action(int) -> [0].) *)
Theorem C13_c_callable_refuted :
  exists (c : callable nat) (e : exn),
    body nat c [30] = BRaise e /\ e_kind e = KTypeError /\ accepts nat c 1 = true /\
    let r := wcall nat gen_shape c gen_max_limit w_init [10; 20; 30] in
    w_out nat r = WReturn (RVal 0) /\ List.length (w_trace nat r) = 3 /\ w_state nat r = mkW true 3.
Proof.
  exists (mkCallable nat (fun n => Nat.leb n 2)
            (fun a => match a with [] => BValue 0 | _ => BRaise (mkExn KTypeError 0 (List.length a)) end)),
         (mkExn KTypeError 0 1).
  vm_compute. repeat split.
Qed.

(* ---------------------------------------------------------------------------------------------------------- *)
(* 3. the action loop: return values, the gate, exceptions                                                     *)
(* ---------------------------------------------------------------------------------------------------------- *)

(* for action lists of any length: if the loop completes, the final tokens are obtained from the original ones by
   applying the return values in order (None keeps, the same object keeps, anything else replaces by
   ParseResults(value)), and the i-th action was called with (s, loc, tokens after the first i returns) *)
Theorem C13_return : forall (V : Type) (same : V -> V -> bool) (mkres : V -> V) sh conv maxl acts s loc toks t,
  l_out V (action_loop V same mkres sh conv maxl acts s loc toks) = LOk t ->
  exists rs, List.length rs = List.length acts /\ t = apply_rets V same mkres toks rs /\
    forall i a, nth_error acts i = Some a ->
      exists r, nth_error rs i = Some r /\
        w_out V (call_action V sh maxl a [s; loc; apply_rets V same mkres toks (firstn i rs)]) = WReturn r.
Proof. exact action_loop_ok. Qed.

Theorem C13_return_none_keeps : forall (V : Type) (same : V -> V -> bool) (mkres : V -> V) sh conv maxl acts s loc toks,
  Forall (fun a => w_out V (call_action V sh maxl a [s; loc; toks]) = WReturn RNone) acts ->
  l_out V (action_loop V same mkres sh conv maxl acts s loc toks) = LOk toks /\
  List.length (l_trace V (action_loop V same mkres sh conv maxl acts s loc toks)) = List.length acts.
Proof. exact action_loop_all_none. Qed.

(* three actions: None, a replacement (0 stands for a falsy value: it still replaces), the identical object *)
Example C13_return_instance :
  let same := Nat.eqb in let mkres := fun v => v + 1000 in
  let any := fun _ : nat => true in
  let a1 := mkAction nat false (mkCallable nat any (fun _ => BNone)) w_init in
  let a2 := mkAction nat false (mkCallable nat (fun n => Nat.eqb n 0) (fun _ => BValue 0)) w_init in
  let a3 := mkAction nat false (mkCallable nat (fun n => Nat.eqb n 1) (fun a => BValue (hd 0 a))) w_init in
  let lr := run_actions nat same mkres gen_shape gen_loop_converts_index gen_max_limit true false [a1; a2; a3] 1 2 3 in
  l_out nat lr = LOk 1000 /\ l_trace nat lr = [[[1; 2; 3]]; [[]]; [[1000]]] /\
  map (fun a => a_st nat a) (l_actions nat lr) = [mkW true 0; mkW true 3; mkW true 2].
Proof. vm_compute. repeat split. Qed.

(* the gate `self.parseAction and (do_actions or self.callDuringTry)`: closed = nothing runs, nothing changes *)
Theorem C13_gate_closed : forall (V : Type) (same : V -> V -> bool) (mkres : V -> V) sh conv maxl acts s loc toks,
  run_actions V same mkres sh conv maxl false false acts s loc toks = mkL V (LOk toks) acts [].
Proof. exact gate_closed. Qed.

Theorem C13_gate_open : forall (V : Type) (same : V -> V -> bool) (mkres : V -> V) sh conv maxl d c acts s loc toks,
  d || c = true ->
  run_actions V same mkres sh conv maxl d c acts s loc toks = action_loop V same mkres sh conv maxl acts s loc toks.
Proof. exact gate_open. Qed.

(* an exception in one action ends the loop there: later actions are neither called nor is their state touched *)
Theorem C13_loop_stops_at_exception : forall (V : Type) (same : V -> V -> bool) (mkres : V -> V)
    sh conv maxl pre a post s loc toks t x,
  l_out V (action_loop V same mkres sh conv maxl pre s loc toks) = LOk t ->
  w_out V (call_action V sh maxl a [s; loc; t]) = WRaise x ->
  let lr := action_loop V same mkres sh conv maxl (pre ++ a :: post) s loc toks in
  l_out V lr = LRaise (loop_conv conv x) /\
  List.length (l_trace V lr) = List.length pre + 1 /\
  skipn (List.length pre + 1) (l_actions V lr) = post.
Proof. exact action_loop_raise. Qed.

(* a ParseException raised by an action makes just that element fail (the next alternative of a MatchFirst is
   taken); ParseFatalException, TypeError and every other kind go through the MatchFirst as the same object *)
Theorem C13_parse_exception_fails_element : forall (V : Type) (same : V -> V -> bool) (mkres : V -> V)
    sh conv maxl acc b st s loc toks l d c e o2,
  reachable V sh acc maxl 3 st -> py_body V b -> best_limit acc maxl 3 = Some l -> d || c = true ->
  b (skipn l [s; loc; toks]) = BRaise e ->
  let o := l_out V (run_actions V same mkres sh conv maxl d c [mkAction V false (mkCallable V acc b) st] s loc toks) in
  (e_kind e = KParseException -> o = LRaise (Raw e) /\ first_of V o o2 = o2) /\
  (e_kind e <> KParseException -> e_kind e <> KIndexError -> o = LRaise (Raw e) /\ first_of V o o2 = o).
Proof. exact parse_exception_fails_element. Qed.

Example C13_parse_exception_instance :
  let any := fun _ : nat => true in
  let pe := mkExn KParseException 1 1 in let fe := mkExn KParseFatal 1 2 in
  let el := fun e => l_out nat (run_actions nat Nat.eqb (fun v => v) gen_shape gen_loop_converts_index gen_max_limit true false
                                  [mkAction nat false (mkCallable nat any (fun _ => BRaise e)) w_init] 1 2 3) in
  first_of nat (el pe) (LOk 77) = LOk 77 /\ first_of nat (el fe) (LOk 77) = LRaise (Raw fe).
Proof. vm_compute. repeat split. Qed.

(* ---- IndexError raised inside an action: wrapped into _ParseActionIndexError, unwrapped by parse_string ----
   Depends on the shape of wrapper.  index_always_wrapped gen_shape = false on a tree whose fast path
   `if found_arity: return func(...)` sits outside every try: then (second branch) there is a history -- first call
   returns None, second call raises IndexError in the body -- after which the IndexError reaches the action loop
   unwrapped, is converted to ParseException("exception raised in parse action") and the element merely fails. *)
Theorem C13_index_error_by_shape : forall (V : Type) (same : V -> V -> bool) (mkres : V -> V),
  if index_always_wrapped gen_shape then
    forall conv maxl acc b st s loc toks l d c e,
      reachable V gen_shape acc maxl 3 st -> py_body V b -> best_limit acc maxl 3 = Some l -> d || c = true ->
      b (skipn l [s; loc; toks]) = BRaise e -> e_kind e = KIndexError ->
      parse_string_out V true
        (l_out V (run_actions V same mkres gen_shape conv maxl d c [mkAction V false (mkCallable V acc b) st] s loc toks))
      = LRaise (Raw e)
  else
    forall s loc toks, exists acc b st e,
      reachable V gen_shape acc 3 3 st /\ py_body V b /\ best_limit acc 3 3 = Some 0 /\
      b [s; loc; toks] = BRaise e /\ e_kind e = KIndexError /\ e_depth e = 1 /\
      parse_string_out V true
        (l_out V (run_actions V same mkres gen_shape true 3 true false [mkAction V false (mkCallable V acc b) st] s loc toks))
      = LRaise (ParseExcFrom e) /\
      is_parse_failure (ParseExcFrom e) = true.
Proof. exact (fun V same mkres => index_error_by_shape V same mkres gen_shape). Qed.

(* on every tree: a wrapper that has not yet succeeded wraps, and parse_string hands out the original object *)
Example C13_index_error_fresh_instance :
  let e := mkExn KIndexError 3 9 in
  parse_string_out nat gen_parse_string_unwraps
    (l_out nat (run_actions nat Nat.eqb (fun v => v) gen_shape gen_loop_converts_index gen_max_limit true false
                  [mkAction nat false (mkCallable nat (fun n => Nat.eqb n 0) (fun _ => BRaise e)) w_init] 1 2 3))
  = LRaise (Raw e).
Proof. vm_compute. reflexivity. Qed.

(* ---------------------------------------------------------------------------------------------------------- *)
(* 4. trial matching: the do_actions argument at every call site of the parse methods                          *)
(* ---------------------------------------------------------------------------------------------------------- *)

(* the generated table lists exactly the call sites the roles were assigned to (a new, removed or reordered call
   of _parse / try_parse / can_parse_next / parseImpl in any parse method breaks this) *)
Theorem C13_sites_complete : keys_match gen_sites expected_sites = true.
Proof. vm_compute. reflexivity. Qed.

Theorem C13_entry_points :
  gen_defaults CParse = true /\ gen_defaults CTryParse = false /\ gen_defaults CCanParseNext = false /\
  gen_try_parse_passes = AForward /\ gen_can_parse_next_passes = AForward /\ gen_loc_is_preloc = true.
Proof. vm_compute. repeat split. Qed.

(* every trial site -- Or first pass, Each ordering pass, SkipTo fail_on test / ignore scan / target scan,
   stop_on checks of OneOrMore and ZeroOrMore -- parses its element with do_actions = False whatever the caller's flag *)
Theorem C13_trials : forall s, In s gen_sites -> role_of s = RTrial ->
  forall d, eff_parse gen_defaults gen_try_parse_passes gen_can_parse_next_passes s d = false.
Proof.
  exact (trial_sites_silent gen_defaults gen_try_parse_passes gen_can_parse_next_passes gen_sites
           (eq_refl : trial_check gen_defaults gen_try_parse_passes gen_can_parse_next_passes gen_sites = true)).
Qed.

Example C13_trials_instance :
  List.length (filter (is_role RTrial) gen_sites) = 7 /\
  exists s, find_site gen_sites ("Or", "parseImpl", 0, CTryParse) = Some s /\ In s gen_sites /\ role_of s = RTrial.
Proof. split; [vm_compute; reflexivity|]. eexists. split; [vm_compute; reflexivity|]. split; [|reflexivity]. vm_compute. tauto. Qed.

(* main and lookahead sites (NotAny, FollowedBy included) hand the caller's flag on unchanged *)
Theorem C13_main_and_lookahead_forward : forall s, In s gen_sites -> role_of s = RMain \/ role_of s = RLookahead ->
  forall d, eff_parse gen_defaults gen_try_parse_passes gen_can_parse_next_passes s d = d.
Proof.
  exact (forward_sites_forward gen_defaults gen_try_parse_passes gen_can_parse_next_passes gen_sites
           (eq_refl : forward_check gen_defaults gen_try_parse_passes gen_can_parse_next_passes gen_sites = true)).
Qed.

(* everything below a trial call runs with do_actions = False: for call chains of any List.length through trial, main
   and lookahead sites (so, by C13_gate_closed, an action without call_during_try does not run there).
   PARTIAL: chains through PrecededBy, through ignore expressions (_skipIgnorables) and through the left-recursion
   machinery are excluded -- see the next two theorems. *)
Theorem C13_below_trial_silent_partial : forall pre t post d,
  In t gen_sites -> role_of t = RTrial ->
  (forall s, In s post -> In s gen_sites /\ (role_of s = RTrial \/ role_of s = RMain \/ role_of s = RLookahead)) ->
  flag_after gen_defaults gen_try_parse_passes gen_can_parse_next_passes (pre ++ t :: post) d = false.
Proof.
  exact (below_trial_silent gen_defaults gen_try_parse_passes gen_can_parse_next_passes gen_sites
           (eq_refl : trial_check gen_defaults gen_try_parse_passes gen_can_parse_next_passes gen_sites = true)
           (eq_refl : forward_check gen_defaults gen_try_parse_passes gen_can_parse_next_passes gen_sites = true)).
Qed.

(* PrecededBy (F-13), decided by the generated table: either both lookbehind sites keep a false flag false, or one of
   them re-enables actions below a trial (on the pinned tree: `self.expr._parse(instring, start)` omits do_actions,
   whose default is True) *)
Theorem C13_precededby_by_table :
  if lookbehind_silent gen_defaults gen_try_parse_passes gen_can_parse_next_passes gen_sites
  then forall s, In s gen_sites -> role_of s = RLookbehind ->
         eff_parse gen_defaults gen_try_parse_passes gen_can_parse_next_passes s false = false
  else exists s, In s gen_sites /\ role_of s = RLookbehind /\
         eff_parse gen_defaults gen_try_parse_passes gen_can_parse_next_passes s false = true.
Proof. exact (lookbehind_by_table gen_defaults gen_try_parse_passes gen_can_parse_next_passes gen_sites). Qed.

(* the chain Or-first-pass -> PrecededBy -> its element, entered with do_actions = True: the flag at the end is
   True exactly when the table check above fails *)
Example C13_precededby_chain_instance :
  exists t p, find_site gen_sites ("Or", "parseImpl", 0, CTryParse) = Some t /\
              find_site gen_sites ("PrecededBy", "parseImpl", 0, CParse) = Some p /\
              flag_after gen_defaults gen_try_parse_passes gen_can_parse_next_passes [t; p] true =
              negb (lookbehind_silent gen_defaults gen_try_parse_passes gen_can_parse_next_passes gen_sites).
Proof. eexists. eexists. split; [vm_compute; reflexivity|]. split; [vm_compute; reflexivity|]. vm_compute. reflexivity. Qed.

(* ignore expressions: `_skipIgnorables` calls e._parse(instring, loc) with the default do_actions = True, so the
   actions of an ignore expression run during trial matching too: REFUTED for that site *)
Theorem C13_ignore_refuted :
  exists s, In s gen_sites /\ role_of s = RIgnore /\
    eff_parse gen_defaults gen_try_parse_passes gen_can_parse_next_passes s false = true.
Proof.
  exists (mkSite "ParserElement" "_skipIgnorables" 0 CParse AOmitted). split; [vm_compute; tauto|]. split; reflexivity.
Qed.
