(* C08 — all parsing entry points agree with one another.  Statements only.
   PARTIAL: the equivalence `parse_string(parse_all=True) <=> (expr + StringEnd())` and the completeness of scan_string
   ("no skipped position would have matched") are decided on the implementation by the oracle of tools/props/c08.py, not
   proved here; what is proved holds for EVERY handler `rec` interpreting the `_parse` calls (plain, packrat, ...). *)
From Coq Require Import List ZArith NArith Bool String.
From PP Require Import Model.Str Model.Results Model.Prog Model.Core Model.Entry Proofs.ScanProofs Gen.GenEntry.
From PP Require Import Model.Transform Proofs.TransformProofs.
Import ListNotations.

(* the derived entry points are defined in the source as the model defines them (regenerated every run) *)
Theorem C08_definitions :
  gen_matches_calls_parse_string_with_parse_all = true /\
  gen_matches_catches = ["ParseBaseException"%string] /\
  gen_eq_str_calls_matches_parse_all_true = true /\
  gen_search_is_scan_tokens_no_always_skip = true /\
  gen_transform_forces_keeptabs = true /\
  gen_transform_slices = ["instring[lastE:]"%string; "instring[lastE:s]"%string] /\
  gen_split_uses_scan_maxsplit = true /\
  gen_split_expands_tabs_first = true /\
  gen_split_yields = ["instring[last:]"%string; "instring[last:s]"%string; "t[0]"%string] /\
  gen_parse_string_calls = ["ParserElement.reset_cache()"; "self.streamline()"; "e.streamline()"; "instring.expandtabs()";
                            "self._parse(instring, 0)"; "self.preParse(instring, loc)"; "se._parse(instring, loc)"]%string /\
  gen_scan_string_calls = ["preparseFn(instring, loc)"; "parseFn(instring, preloc, callPreParse=False)"; "preparseFn(instring, loc)"]%string.
Proof. repeat split; reflexivity. Qed.

(* matches(s) and expr == s are "parse_string(s, parse_all=True) did not raise a ParseBaseException" *)
Theorem C08_matches : forall r, matches_of r = Some true <-> exists p, r = POk p.
Proof.
  intros r; split.
  - destruct r as [p|x|]; simpl; try discriminate; [intros _; eexists; reflexivity|]. destruct (is_pbe (xk x)); discriminate.
  - intros [p ->]. reflexivity.
Qed.

(* scan_string, non-overlapping, any max_matches, with or without always_skip_whitespace, for an expression without
   ignore expressions: every reported (tokens, start, end) is exactly what a direct `_parse` begun at start (without
   pre-parse) returns; the matches come in increasing, non-overlapping order — each starts at or after the end of the
   previous one and ends after the position the search had reached; and at most max_matches are reported *)
Theorem C08_scan_sound_ordered : forall rec root keeptabs input maxm always_skip res fin,
  plainpre root ->
  drun rec (scan_string root keeptabs input maxm false always_skip) = Some (res, fin) ->
  let s := if keeptabs then input else expandtabs input in
  chain 0 res /\
  Forall (fun m => match m with (t, st, en) => rec (mkargs root s st true false) = Some (Ok en t) end) res /\
  (match maxm with Some m => (List.length res <= m)%nat | None => True end).
Proof.
  intros rec root kt input maxm al res fin Hp H. cbv zeta. unfold scan_string in H.
  apply scan_loop_spec in H; [|exact Hp]. destruct H as (new & -> & Hc & Ha & Hm). simpl.
  split; [exact Hc|]. split; [exact Ha|]. destruct maxm as [m|]; [|exact I]. simpl in Hm. exact Hm.
Qed.

(* search_string is the token column of that list *)
Theorem C08_search : forall ms, search_tokens ms = map (fun m => fst (fst m)) ms.
Proof. reflexivity. Qed.

(* split: rejoining the pieces with the text of the matched separators restores the string — when the string handed to
   split() is the string that was parsed (parse_with_tabs(), or no tab in it) and the matches are ordered inside it *)
Theorem C08_split_rejoin_partial : forall s ms, ordered_in (List.length s) 0 ms ->
  rejoin s (split_pieces s ms 0) ms = s.
Proof. exact (fun s ms H => split_rejoin s ms 0 H). Qed.

(* split() expands tabs exactly as scan_string does before slicing (regenerated fact), so the hypothesis of the previous
   theorem is met by construction; before the repair (F-08b) the original string was sliced with indices of the expanded
   copy — the witness below is kept as a statement about slicing the ORIGINAL string *)
Theorem C08_split_slicing_original_refuted : exists orig ms,
  let parsed := expandtabs orig in
  ordered_in (List.length parsed) 0 ms /\ rejoin parsed (split_pieces orig ms 0) ms <> parsed.
Proof.
  exists [97; 9; 49; 98]%N, [(pr_of_list [TStr [49%N]], 8, 9)]. cbv zeta. split.
  - vm_compute. repeat constructor.
  - vm_compute. discriminate.
Qed.

Example C08_split_instance :
  rejoin [97; 44; 98]%N (split_pieces [97; 44; 98]%N [(pr_empty, 1, 2)] 0) [(pr_empty, 1, 2)] = [97; 44; 98]%N.
Proof. reflexivity. Qed.

(* ---- transform_string (Model/Transform.v: the loop of pyparsing/core.py over scan_string's match list, keepTabs forced on) *)
(* unmatched text is kept verbatim and every match is replaced by str() of all its (flattened) tokens - for every input and
   every match list in which no token is one of the falsy non-strings 0 / False / None (empty strings and empty lists, which the
   same filter drops, print as nothing anyway) *)
Theorem C08_transform : forall orig ms,
  forallb (fun m => forallb (fun t => negb (lossy t)) (toks (fst (fst m)))) ms = true ->
  transform orig ms = transform_ref orig ms 0.
Proof. intros orig ms H. exact (transform_spec orig ms 0 H). Qed.

Theorem C08_transform_no_match : forall orig, transform orig [] = orig.
Proof. exact transform_no_match. Qed.

(* without that hypothesis the statement is false: `out = [o for o in out if o]` also drops the token 0 (finding F-08c) *)
Theorem C08_transform_falsy_refuted : exists orig ms,
  transform orig ms <> transform_ref orig ms 0 /\
  transform orig ms = [120%N; 121%N] /\ transform_ref orig ms 0 = [120%N; 48%N; 121%N].
Proof. exact transform_falsy_refuted. Qed.
