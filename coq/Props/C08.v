(* C08 — all parsing entry points agree with one another.  Statements only.
   What is proved about the drivers (parse_string / scan_string) holds for EVERY handler `rec` interpreting the `_parse` calls
   (plain, packrat, ...); the comparison with the And that `expr + StringEnd()` builds is about the plain parser
   `parse (step G) fuel`, for every fuel.
   PARTIAL: `parse_string(parse_all=True) <=> (expr + StringEnd())` is FALSE in general on the code as it is (F-08a, F-08d and
   two more members of the family, all with closed witnesses below); it is proved under the hypotheses first_stable /
   tail_stable (Proofs/EntryProofs.v), which the witnesses show to be needed.  Overlap mode: C08_scan_overlap_sound /
   _strictly_increasing / _complete (Proofs/ScanOverlap.v) and C08_scan_max_matches; scan completeness with ignore
   expressions (either mode) needs a handler whose pre-parse does not move backwards. *)
From Coq Require Import List ZArith NArith Bool String.
From PP Require Import Model.Str Model.Results Model.Prog Model.Core Model.Entry Proofs.ScanProofs Gen.GenEntry.
From PP Require Import Model.Transform Proofs.TransformProofs Model.EntryExtra Proofs.EntryProofs Proofs.ScanOverlap.
Import ListNotations.

(* the derived entry points are defined in the source as the model defines them (regenerated every run) *)
Theorem C08_definitions :
  gen_matches_calls_parse_string_with_parse_all = true /\
  gen_matches_catches = ["ParseBaseException"%string] /\
  gen_eq_str_calls_matches_parse_all_true = true /\
  gen_search_is_scan_tokens_no_always_skip = true /\
  gen_transform_forces_keeptabs = true /\
  gen_transform_slices = ["instring[lastE:]"%string; "instring[lastE:s]"%string] /\
  gen_split_uses_scan_maxsplit = true /\
  gen_split_expands_tabs_first = true /\
  gen_split_yields = ["instring[last:]"%string; "instring[last:s]"%string; "t[0]"%string] /\
  gen_parse_string_calls = ["ParserElement.reset_cache()"; "self.streamline()"; "e.streamline()"; "instring.expandtabs()";
                            "self._parse(instring, 0)"; "self.preParse(instring, loc)"; "se._parse(instring, loc)"]%string /\
  gen_scan_string_calls = ["preparseFn(instring, loc)"; "parseFn(instring, preloc, callPreParse=False)"; "preparseFn(instring, loc)"]%string.
Proof. repeat split; reflexivity. Qed.

(* matches(s) and expr == s are "parse_string(s, parse_all=True) did not raise a ParseBaseException" *)
Theorem C08_matches : forall r, matches_of r = Some true <-> exists p, r = POk p.
Proof.
  intros r; split.
  - destruct r as [p|x|]; simpl; try discriminate; [intros _; eexists; reflexivity|]. destruct (is_pbe (xk x)); discriminate.
  - intros [p ->]. reflexivity.
Qed.

(* scan_string, non-overlapping, any max_matches, with or without always_skip_whitespace, for an expression without
   ignore expressions: every reported (tokens, start, end) is exactly what a direct `_parse` begun at start (without
   pre-parse) returns; the matches come in increasing, non-overlapping order — each starts at or after the end of the
   previous one and ends after the position the search had reached; and at most max_matches are reported *)
Theorem C08_scan_sound_ordered : forall rec root keeptabs input maxm always_skip res fin,
  plainpre root ->
  drun rec (scan_string root keeptabs input maxm false always_skip) = Some (res, fin) ->
  let s := if keeptabs then input else expandtabs input in
  chain 0 res /\
  Forall (fun m => match m with (t, st, en) => rec (mkargs root s st true false) = Some (Ok en t) end) res /\
  (match maxm with Some m => (List.length res <= m)%nat | None => True end).
Proof.
  intros rec root kt input maxm al res fin Hp H. cbv zeta. unfold scan_string in H.
  apply scan_loop_spec in H; [|exact Hp]. destruct H as (new & -> & Hc & Ha & Hm). simpl.
  split; [exact Hc|]. split; [exact Ha|]. destruct maxm as [m|]; [|exact I]. simpl in Hm. exact Hm.
Qed.

(* search_string is the token column of that list *)
Theorem C08_search : forall ms, search_tokens ms = map (fun m => fst (fst m)) ms.
Proof. reflexivity. Qed.

(* split: rejoining the pieces with the text of the matched separators restores the string — when the string handed to
   split() is the string that was parsed (parse_with_tabs(), or no tab in it) and the matches are ordered inside it *)
Theorem C08_split_rejoin_partial : forall s ms, ordered_in (List.length s) 0 ms ->
  rejoin s (split_pieces s ms 0) ms = s.
Proof. exact (fun s ms H => split_rejoin s ms 0 H). Qed.

(* split() expands tabs exactly as scan_string does before slicing (regenerated fact), so the hypothesis of the previous
   theorem is met by construction; before the repair (F-08b) the original string was sliced with indices of the expanded
   copy — the witness below is kept as a statement about slicing the ORIGINAL string *)
Theorem C08_split_slicing_original_refuted : exists orig ms,
  let parsed := expandtabs orig in
  ordered_in (List.length parsed) 0 ms /\ rejoin parsed (split_pieces orig ms 0) ms <> parsed.
Proof.
  exists [97; 9; 49; 98]%N, [(pr_of_list [TStr [49%N]], 8, 9)]. cbv zeta. split.
  - vm_compute. repeat constructor.
  - vm_compute. discriminate.
Qed.

Example C08_split_instance :
  rejoin [97; 44; 98]%N (split_pieces [97; 44; 98]%N [(pr_empty, 1, 2)] 0) [(pr_empty, 1, 2)] = [97; 44; 98]%N.
Proof. reflexivity. Qed.

(* ---- transform_string (Model/Transform.v: the loop of pyparsing/core.py over scan_string's match list, keepTabs forced on) *)
(* unmatched text is kept verbatim and every match is replaced by str() of all its (flattened) tokens - for every input and
   every match list in which no token is one of the falsy non-strings 0 / False / None (empty strings and empty lists, which the
   same filter drops, print as nothing anyway) *)
Theorem C08_transform : forall orig ms,
  forallb (fun m => forallb (fun t => negb (lossy t)) (toks (fst (fst m)))) ms = true ->
  transform orig ms = transform_ref orig ms 0.
Proof. intros orig ms H. exact (transform_spec orig ms 0 H). Qed.

Theorem C08_transform_no_match : forall orig, transform orig [] = orig.
Proof. exact transform_no_match. Qed.

(* without that hypothesis the statement is false: `out = [o for o in out if o]` also drops the token 0 (finding F-08c) *)
Theorem C08_transform_falsy_refuted : exists orig ms,
  transform orig ms <> transform_ref orig ms 0 /\
  transform orig ms = [120%N; 121%N] /\ transform_ref orig ms 0 = [120%N; 48%N; 121%N].
Proof. exact transform_falsy_refuted. Qed.

(* ================================================================================================================= *)
(* parse_all                                                                                                          *)
(* ================================================================================================================= *)
(* parse_all only checks for the end of the text: a successful parse_string(parse_all=True) returns the very ParseResults
   (tokens and names) of the plain parse_string — every handler, every grammar, every input, keepTabs or not *)
Theorem C08_parse_all_tokens : forall rec dw root keeptabs input r,
  drun rec (parse_string dw root keeptabs input true) = Some (POk r) ->
  drun rec (parse_string dw root keeptabs input false) = Some (POk r).
Proof. exact parse_all_tokens. Qed.

Example C08_parse_all_tokens_instance : exists r,      (* Word("ab") + "," on "ab , " *)
  drun (parse (step []) 4) (parse_string DWS ex_and true ex_in2 true) = Some (POk r) /\
  drun (parse (step []) 4) (parse_string DWS ex_and true ex_in2 false) = Some (POk r) /\ List.length (toks r) = 2.
Proof. exact ex_parse_all_tokens. Qed.

(* and a plain parse_string that raises (or spins) makes parse_string(parse_all=True) raise the same exception *)
Theorem C08_parse_all_plain_failure : forall rec dw root keeptabs input res,
  drun rec (parse_string dw root keeptabs input false) = Some res -> (forall r, res <> POk r) ->
  drun rec (parse_string dw root keeptabs input true) = Some res.
Proof. exact parse_all_plain_failure. Qed.

Example C08_parse_all_plain_failure_instance : exists x,      (* Word("ab") + "," on " ab " *)
  drun (parse (step []) 4) (parse_string DWS ex_and true ex_in1 false) = Some (PErr x) /\
  drun (parse (step []) 4) (parse_string DWS ex_and true ex_in1 true) = Some (PErr x).
Proof. exact ex_parse_all_plain_failure. Qed.

(* parse_string(parse_all=True) succeeds exactly when `root + StringEnd()` (Model/EntryExtra.v `and_se`: the And as And.__init__
   and streamline() make it) parses the string, with the same tokens and names (and_wrap r = r with the modal flag set) -
   for the plain parser at every fuel (the And needs one level more: root sits one level deeper in it), PROVIDED
     flattenable root = false : root is not an unnamed, action-free And (that case is the next theorem);
     plainpre root            : root has no ignore expressions (and is not LineStart / GoToColumn);          [else F-08a]
     first_stable             : started where the And starts it - after the whitespace skip the And inherited, without root's
                                own pre-parse - root answers as in parse_string's own call;                  [else F-08d]
     tail_stable              : root's own whitespace skip before the end check of parse_all reaches the end of the text
                                exactly when StringEnd's default skip does.
   PARTIAL: these hypotheses are needed (see the _refuted theorems); first_stable_plain / first_stable_noskip and
   tail_stable_sub (Proofs/EntryProofs.v) give syntactic conditions - see C08_parse_all_iff_stringend_plain_partial. *)
Theorem C08_parse_all_iff_stringend_partial : forall G dw idA idE sl root (keeptabs : bool) input f,
  let s := if keeptabs then input else expandtabs input in
  flattenable root = false -> plainpre root -> first_stable G dw root s -> tail_stable dw root s ->
  (forall r, drun (parse (step G) (S (S f))) (parse_string dw root keeptabs input true) = Some (POk r) ->
     exists l, parse (step G) (S (S (S f))) (mkargs (and_se idA idE sl dw root) s 0 true true) = Some (Ok l (and_wrap r))) /\
  (forall l r', parse (step G) (S (S (S f))) (mkargs (and_se idA idE sl dw root) s 0 true true) = Some (Ok l r') ->
     exists r, drun (parse (step G) (S (S f))) (parse_string dw root keeptabs input true) = Some (POk r) /\ r' = and_wrap r).
Proof. exact parse_all_iff_and_se. Qed.

(* The general form.  The And reads exprs[0].skipWhitespace / whiteChars at the moment `+` is evaluated; for a MatchFirst / Or that
   was never streamlined these may differ from what streamline() computes later, so `and_se_gen` takes the inherited pair
   (isk, iwh) explicitly (`and_se` = the pair of the streamlined root; both constructions are compared with the real objects on
   every run).  first_stable_at: started at the position the And reaches with the inherited pair, root answers as at 0 with its
   own pre-parse. *)
Theorem C08_parse_all_iff_stringend_inherited_partial : forall G dw idA idE sl isk iwh root (keeptabs : bool) input f,
  let s := if keeptabs then input else expandtabs input in
  flattenable root = false -> plainpre root -> first_stable_at G root s (and_start_gen isk iwh s) -> tail_stable dw root s ->
  (forall r, drun (parse (step G) (S (S f))) (parse_string dw root keeptabs input true) = Some (POk r) ->
     exists l, parse (step G) (S (S (S f))) (mkargs (and_se_gen idA idE sl dw isk iwh root) s 0 true true) = Some (Ok l (and_wrap r))) /\
  (forall l r', parse (step G) (S (S (S f))) (mkargs (and_se_gen idA idE sl dw isk iwh root) s 0 true true) = Some (Ok l r') ->
     exists r, drun (parse (step G) (S (S f))) (parse_string dw root keeptabs input true) = Some (POk r) /\ r' = and_wrap r).
Proof. exact parse_all_iff_and_se_gen. Qed.

Theorem C08_parse_all_iff_stringend_inherited_flat_partial : forall G dw idA idE sl isk iwh ar c rest (keeptabs : bool) input f,
  let root := Nary ar [] NAnd (c :: rest) in
  let s := if keeptabs then input else expandtabs input in
  rsname ar = None -> acts ar = [] -> and_pl ar s 0 true = and_start_gen isk iwh s -> tail_stable dw root s ->
  (forall r, drun (parse (step G) (S (S f))) (parse_string dw root keeptabs input true) = Some (POk r) ->
     exists l, parse (step G) (S (S (S f))) (mkargs (and_se_gen idA idE sl dw isk iwh root) s 0 true true) = Some (Ok l (and_wrap r))) /\
  (forall l r', parse (step G) (S (S (S f))) (mkargs (and_se_gen idA idE sl dw isk iwh root) s 0 true true) = Some (Ok l r') ->
     exists r, drun (parse (step G) (S (S (S f)))) (parse_string dw root keeptabs input true) = Some (POk r) /\ r' = and_wrap r).
Proof. exact parse_all_iff_and_se_flat_gen. Qed.

(* the same with syntactic hypotheses: a root that pre-parses itself (callPreparse), is not a White, has no ignore expressions,
   and whose whitespace characters are among the default ones *)
Theorem C08_parse_all_iff_stringend_plain_partial : forall G dw idA idE sl root (keeptabs : bool) input f,
  let s := if keeptabs then input else expandtabs input in
  flattenable root = false -> plainpre root -> callpre (attrs_of root) = true -> is_white root = false ->
  (forall c, mem_char c (white (attrs_of root)) = true -> mem_char c dw = true) ->
  (forall r, drun (parse (step G) (S (S f))) (parse_string dw root keeptabs input true) = Some (POk r) ->
     exists l, parse (step G) (S (S (S f))) (mkargs (and_se idA idE sl dw root) s 0 true true) = Some (Ok l (and_wrap r))) /\
  (forall l r', parse (step G) (S (S (S f))) (mkargs (and_se idA idE sl dw root) s 0 true true) = Some (Ok l r') ->
     exists r, drun (parse (step G) (S (S f))) (parse_string dw root keeptabs input true) = Some (POk r) /\ r' = and_wrap r).
Proof. exact parse_all_iff_and_se_plain. Qed.

Example C08_parse_all_iff_stringend_instance : exists r l,      (* Word("ab") on " ab " *)
  drun (parse (step []) 3) (parse_string DWS (ex_word 1) true ex_in1 true) = Some (POk r) /\
  parse (step []) 4 (mkargs (and_se 100 101 20 DWS (ex_word 1)) ex_in1 0 true true) = Some (Ok l (and_wrap r)) /\
  toks r = [TStr [97; 98]%N].
Proof. exact ex_parse_all_iff. Qed.

(* a root that IS an unnamed, action-free And (without ignore expressions, pre-parsing itself as every And does): streamline()
   splices its elements into the new And; each direction moves up one level of fuel *)
Theorem C08_parse_all_iff_stringend_flat_partial : forall G dw idA idE sl ar c rest (keeptabs : bool) input f,
  let root := Nary ar [] NAnd (c :: rest) in
  let s := if keeptabs then input else expandtabs input in
  rsname ar = None -> acts ar = [] -> callpre ar = true -> tail_stable dw root s ->
  (forall r, drun (parse (step G) (S (S f))) (parse_string dw root keeptabs input true) = Some (POk r) ->
     exists l, parse (step G) (S (S (S f))) (mkargs (and_se idA idE sl dw root) s 0 true true) = Some (Ok l (and_wrap r))) /\
  (forall l r', parse (step G) (S (S (S f))) (mkargs (and_se idA idE sl dw root) s 0 true true) = Some (Ok l r') ->
     exists r, drun (parse (step G) (S (S (S f)))) (parse_string dw root keeptabs input true) = Some (POk r) /\ r' = and_wrap r).
Proof. exact parse_all_iff_and_se_flat. Qed.

Example C08_parse_all_iff_stringend_flat_instance : exists r l,      (* Word("ab") + "," on "ab , " *)
  drun (parse (step []) 3) (parse_string DWS ex_and true ex_in2 true) = Some (POk r) /\
  parse (step []) 4 (mkargs (and_se 100 101 24 DWS ex_and) ex_in2 0 true true) = Some (Ok l (and_wrap r)) /\
  and_se 100 101 24 DWS ex_and = Nary (and_attrs 100 24 DWS ex_and) [] NAnd [ex_word 2; ex_lit 3 44%N; se_tok 101 DWS].
Proof. exact ex_parse_all_iff_flat. Qed.

(* F-08a on the model: ZeroOrMore(Word("ab")).ignore("#" + Word("ab")) on "a #b " - parse_all pre-parses with root's ignore
   expressions before the end check and succeeds, the And (which has none) raises ParseException *)
Theorem C08_parse_all_iff_stringend_ignore_refuted : exists G dw root input idA idE sl f r x,
  flattenable root = false /\ ign_of root <> [] /\
  drun (parse (step G) (S (S f))) (parse_string dw root true input true) = Some (POk r) /\
  parse (step G) (S (S (S f))) (mkargs (and_se idA idE sl dw root) input 0 true true) = Some (Err x) /\ is_pe (xk x) = true.
Proof.
  exists [], DWS, f08a_root, f08a_input, 100, 101, 25, 10.
  exact f08a_witness.
Qed.

(* F-08d on the model: Or([Group(White(" ")) + "a" + "b", MatchFirst(["a", "c"])]) on " ab" - every hypothesis but
   first_stable holds: the Or does not pre-parse itself, the And skips the blank the first alternative's White needs *)
Theorem C08_parse_all_iff_stringend_nested_white_refuted : exists G dw root input idA idE sl f r x,
  flattenable root = false /\ plainpre root /\ tail_stable dw root input /\ ~ first_stable G dw root input /\
  drun (parse (step G) (S (S f))) (parse_string dw root true input true) = Some (POk r) /\
  parse (step G) (S (S (S f))) (mkargs (and_se idA idE sl dw root) input 0 true true) = Some (Err x) /\ is_pe (xk x) = true.
Proof.
  exists [], DWS, f08d_root, f08d_input, 100, 101, 52, 10.
  exact f08d_witness.
Qed.

(* same family, root = White(" ") on "\n ": the And built on a White skips nothing, parse_string's own call does *)
Theorem C08_parse_all_iff_stringend_white_root_refuted : exists G dw root input idA idE sl f r x,
  flattenable root = false /\ plainpre root /\ is_white root = true /\
  drun (parse (step G) (S (S f))) (parse_string dw root true input true) = Some (POk r) /\
  parse (step G) (S (S (S f))) (mkargs (and_se idA idE sl dw root) input 0 true true) = Some (Err x) /\ is_pe (xk x) = true.
Proof.
  exists [], DWS, ex_white_root, ex_white_input, 100, 101, 20, 10.
  exact white_root_witness.
Qed.

(* same family, root = Word("ab").set_whitespace_chars(" ,") on "ab,": every hypothesis but tail_stable holds; parse_all skips
   root's "," before its end check, StringEnd does not *)
Theorem C08_parse_all_iff_stringend_custom_white_refuted : exists G dw root input idA idE sl f r x,
  flattenable root = false /\ plainpre root /\ first_stable G dw root input /\
  drun (parse (step G) (S (S f))) (parse_string dw root true input true) = Some (POk r) /\
  parse (step G) (S (S (S f))) (mkargs (and_se idA idE sl dw root) input 0 true true) = Some (Err x) /\ is_pe (xk x) = true.
Proof.
  exists [], DWS, ex_word_ws, ex_word_ws_input, 100, 101, 20, 10.
  exact custom_white_witness.
Qed.

(* ================================================================================================================= *)
(* scan_string: completeness                                                                                          *)
(* ================================================================================================================= *)
(* `lsearch rec root s always_skip loc matches fin` (Proofs/EntryProofs.v) is the left-to-right search from loc: a position is
   passed WITHOUT a report only where the direct parse at the pre-parsed position raises ParseException (ls_skip_fail) or matches
   without getting beyond the position the search has reached (ls_skip_zero), and the search resumes one character after the
   pre-parsed position.  The non-overlapping, unlimited scan_string IS that search from 0 - for every handler, for an
   expression without ignore expressions; the loop counter never runs out (no spurious SDiv). *)
Theorem C08_scan_complete : forall rec root keeptabs input always_skip res fin,
  plainpre root ->
  drun rec (scan_string root keeptabs input None false always_skip) = Some (res, fin) ->
  lsearch rec root (if keeptabs then input else expandtabs input) always_skip 0 res fin.
Proof. exact scan_complete. Qed.

(* with ignore expressions: for every handler whose pre-parse never moves backwards *)
Theorem C08_scan_complete_ignorables_partial : forall rec root (keeptabs : bool) input always_skip res fin,
  let s := if keeptabs then input else expandtabs input in
  (forall loc preloc p0, prep rec root s always_skip loc = Some (Ok preloc p0) -> (loc <= preloc)%nat) ->
  drun rec (scan_string root keeptabs input None false always_skip) = Some (res, fin) ->
  lsearch rec root s always_skip 0 res fin.
Proof. exact scan_complete_gen. Qed.

(* the search is a function of its starting point: "exactly the matches a left-to-right search finds" *)
Theorem C08_search_deterministic : forall rec root s always_skip loc l1 f1 l2 f2,
  lsearch rec root s always_skip loc l1 f1 -> lsearch rec root s always_skip loc l2 f2 -> l1 = l2 /\ f1 = f2.
Proof. exact (fun rec root s al loc l1 f1 l2 f2 H1 H2 => lsearch_det rec root s al loc l1 f1 H1 l2 f2 H2). Qed.

Example C08_scan_complete_instance : exists res,      (* Word("ab") over "a 1 b": "1" is passed without a report *)
  drun (parse (step []) 3) (scan_string (ex_word 1) true ex_in3 None false true) = Some (res, SDone) /\
  map (fun m => (snd (fst m), snd m)) res = [(0, 1); (4, 5)] /\
  lsearch (parse (step []) 3) (ex_word 1) ex_in3 true 0 res SDone.
Proof. exact ex_scan_complete. Qed.

(* max_matches = n reports the first n matches of the unlimited scan (overlapping or not, with or without
   always_skip_whitespace, with or without ignore expressions) *)
Theorem C08_scan_max_matches : forall rec root keeptabs input overlap always_skip n res fin,
  drun rec (scan_string root keeptabs input None overlap always_skip) = Some (res, fin) ->
  exists fin', drun rec (scan_string root keeptabs input (Some n) overlap always_skip) = Some (firstn n res, fin').
Proof. exact scan_max_matches. Qed.

Example C08_scan_max_matches_instance : exists res fin',
  drun (parse (step []) 3) (scan_string (ex_word 1) true ex_in3 None false true) = Some (res, SDone) /\ List.length res = 2 /\
  drun (parse (step []) 3) (scan_string (ex_word 1) true ex_in3 (Some 1) false true) = Some (firstn 1 res, fin').
Proof. exact ex_scan_max_matches. Qed.

(* ================================================================================================================= *)
(* scan_string(overlap=True)  (Proofs/ScanOverlap.v)                                                                  *)
(* ================================================================================================================= *)
(* What the loop does in overlap mode, in the code and in Model/Entry.v: from the cursor `loc` it pre-parses to `preloc` and
   parses there; on ParseException, or when the match does not get beyond the cursor (nextLoc <= loc: a zero-width match AT
   the cursor), nothing is reported and the cursor goes to preloc + 1; otherwise (tokens, preloc, nextLoc) is reported and the
   cursor goes to loc + 1 when the match began exactly at the cursor, but to nextLoc - the END of the reported match - when
   the pre-parse skipped something in front of it (`nextloc = preparseFn(instring, loc); if nextloc > loc: loc = nextLoc`).
   So Word("ab") over "ab ab" reports (0,2) (1,2) (3,5) and not (4,5) (C08_scan_overlap_word_instance). *)

(* (1) soundness - both modes, any max_matches, with or without always_skip_whitespace, with or without ignore expressions, no
   hypothesis: every reported (tokens, start, end) is exactly what a direct `_parse` begun at start (without pre-parse)
   returns, start is the pre-parse of a cursor position inside the text and end lies strictly beyond that cursor; at most
   max_matches are reported *)
Theorem C08_scan_overlap_sound : forall rec root keeptabs input maxm overlap always_skip res fin,
  drun rec (scan_string root keeptabs input maxm overlap always_skip) = Some (res, fin) ->
  let s := if keeptabs then input else expandtabs input in
  Forall (fun m => match m with (t, st, en) =>
            rec (mkargs root s st true false) = Some (Ok en t) /\
            exists loc p0, (loc <= List.length s)%nat /\ prep rec root s always_skip loc = Some (Ok st p0) /\ (loc < en)%nat
          end) res /\
  (match maxm with Some m => (List.length res <= m)%nat | None => True end).
Proof. exact scan_overlap_sound. Qed.

(* (2) order - overlap mode, any max_matches, an expression without ignore expressions (as C08_scan_sound_ordered): the starts
   are STRICTLY increasing (`increasing_from 0 l`: l is strictly increasing; the ends need not be, see the instance: 2, 2, 5).
   This includes the zero-width case: a zero-width match behind skipped whitespace is reported once, because the cursor then
   jumps onto it and a match that does not get beyond the cursor is not reported (C08_scan_overlap_zero_width_instance). *)
Theorem C08_scan_overlap_strictly_increasing : forall rec root keeptabs input maxm always_skip res fin,
  plainpre root ->
  drun rec (scan_string root keeptabs input maxm true always_skip) = Some (res, fin) ->
  increasing_from 0 (starts res) /\
  forall i j d, (i < j)%nat -> (j < List.length res)%nat -> (nth i (starts res) d < nth j (starts res) d)%nat.
Proof.
  exact (fun rec root kt input maxm al res fin Hp H =>
           conj (scan_overlap_order rec root kt input maxm al res fin Hp H)
                (scan_overlap_order_nth rec root kt input maxm al res fin Hp H)).
Qed.

(* with ignore expressions.  PARTIAL: for a handler whose pre-parse never moves backwards and is idempotent, and whose parse
   never ends before its start *)
Theorem C08_scan_overlap_strictly_increasing_ignorables_partial : forall rec root (keeptabs : bool) input maxm always_skip res fin,
  let s := if keeptabs then input else expandtabs input in
  (forall loc preloc p0, prep rec root s always_skip loc = Some (Ok preloc p0) -> (loc <= preloc)%nat) ->
  (forall loc preloc p0, prep rec root s always_skip loc = Some (Ok preloc p0) ->
     exists p1, prep rec root s always_skip preloc = Some (Ok preloc p1)) ->
  (forall st en tk, direct rec root s st = Some (Ok en tk) -> (st <= en)%nat) ->
  drun rec (scan_string root keeptabs input maxm true always_skip) = Some (res, fin) ->
  increasing_from 0 (starts res).
Proof. exact scan_overlap_order_ign. Qed.

(* (3) completeness - overlap mode, unlimited, an expression without ignore expressions.
   `ovisit rec root s always_skip fuel loc` is the list of cursor positions the loop visits from loc: loc itself while
   loc <= len(s), then those from `onext loc`, where (Proofs/ScanOverlap.v, all in terms of the handler's answers to
   `preparseFn(s, loc)` = prep and `parseFn(s, preloc, callPreParse=False)` = direct)
     onext loc = loc + 1      after a reported match that began exactly at the cursor,
                 nextLoc      after a reported match in front of which the pre-parse skipped something,
                 preloc + 1   after a ParseException or a match with nextLoc <= loc,
                 stop         on any other exception / a spinning parser;
   `oreport loc` = Some (tokens, preloc, nextLoc) iff the direct parse at preloc = pre-parse(loc) succeeds with nextLoc > loc,
   None otherwise (C08_scan_overlap_visit_unfold states both).  The theorem: the reported list is EXACTLY the reports of the
   visited positions, in order (so a visited position is reported iff the direct parse at its pre-parsed position gets beyond
   it; between two reported starts, before the first and after the last, every visited position is one where that parse
   fails or does not get beyond the cursor); the way the scan ends is `ostop`; the visited positions are strictly increasing
   and inside the text; and the loop counter never runs out (any larger counter gives the same visit and the same ending:
   no spurious SDiv). *)
Theorem C08_scan_overlap_complete : forall rec root keeptabs input always_skip res fin,
  plainpre root ->
  drun rec (scan_string root keeptabs input None true always_skip) = Some (res, fin) ->
  let s := if keeptabs then input else expandtabs input in
  let vis := ovisit rec root s always_skip (List.length s + 2) 0 in
  res = oreports rec root s always_skip vis /\
  fin = ostop rec root s always_skip (List.length s + 2) 0 /\
  increasing_from 0 vis /\ Forall (fun p => (p <= List.length s)%nat) vis /\
  (forall k, ovisit rec root s always_skip (List.length s + 2 + k) 0 = vis /\
             ostop rec root s always_skip (List.length s + 2 + k) 0 = ostop rec root s always_skip (List.length s + 2) 0).
Proof. exact scan_overlap_complete. Qed.

(* with ignore expressions.  PARTIAL: for a handler whose pre-parse never moves backwards (as C08_scan_complete_ignorables_partial) *)
Theorem C08_scan_overlap_complete_ignorables_partial : forall rec root (keeptabs : bool) input always_skip res fin,
  let s := if keeptabs then input else expandtabs input in
  (forall loc preloc p0, prep rec root s always_skip loc = Some (Ok preloc p0) -> (loc <= preloc)%nat) ->
  drun rec (scan_string root keeptabs input None true always_skip) = Some (res, fin) ->
  let vis := ovisit rec root s always_skip (List.length s + 2) 0 in
  res = oreports rec root s always_skip vis /\
  fin = ostop rec root s always_skip (List.length s + 2) 0 /\
  increasing_from 0 vis /\ Forall (fun p => (p <= List.length s)%nat) vis /\
  (forall k, ovisit rec root s always_skip (List.length s + 2 + k) 0 = vis /\
             ostop rec root s always_skip (List.length s + 2 + k) 0 = ostop rec root s always_skip (List.length s + 2) 0).
Proof. exact scan_overlap_complete_gen. Qed.

(* with max_matches = n: the first n reports of the same visit *)
Theorem C08_scan_overlap_complete_max_matches : forall rec root keeptabs input always_skip n res fin,
  plainpre root ->
  drun rec (scan_string root keeptabs input None true always_skip) = Some (res, fin) ->
  let s := if keeptabs then input else expandtabs input in
  exists fin', drun rec (scan_string root keeptabs input (Some n) true always_skip) =
    Some (firstn n (oreports rec root s always_skip (ovisit rec root s always_skip (List.length s + 2) 0)), fin').
Proof. exact scan_overlap_complete_max. Qed.

(* "overlapping matches will be reported" does NOT mean that every position of the text is tried: refuted on the code as it is.
   Word("ab") over "ab ab": the parse at 4 matches "b" up to 5 - exactly as the reported (1,2) does inside the first word -
   but 4 is never a cursor position, because the blank skipped in front of the match at 3 made the cursor jump to its end
   (`loc = nextLoc`).  Confirmed on /repo: [(0,2), (1,2), (3,5)]. *)
Theorem C08_scan_overlap_every_position_refuted : exists res p m,
  drun (parse (step []) 3) (scan_string (ex_word 1) true ex_in_abab None true true) = Some (res, SDone) /\
  (p <= List.length ex_in_abab)%nat /\ oreport (parse (step []) 3) (ex_word 1) ex_in_abab true p = Some m /\ ~ In m res /\
  ~ In p (ovisit (parse (step []) 3) (ex_word 1) ex_in_abab true (List.length ex_in_abab + 2) 0).
Proof. exact ex_overlap_not_every_position. Qed.

(* the defining equations of the visit, of the cursor update and of the report, as the theorems above use them *)
Theorem C08_scan_overlap_visit_unfold : forall rec root s always_skip fuel loc,
  ovisit rec root s always_skip (S fuel) loc =
    (if Nat.leb loc (List.length s)
     then loc :: match onext rec root s always_skip loc with inl l' => ovisit rec root s always_skip fuel l' | inr _ => [] end
     else []) /\
  (forall m, oreport rec root s always_skip loc = Some m <->
     exists preloc p0 nl tk, prep rec root s always_skip loc = Some (Ok preloc p0) /\
       direct rec root s preloc = Some (Ok nl tk) /\ (loc < nl)%nat /\ m = (tk, preloc, nl)) /\
  (forall preloc p0 nl tk, prep rec root s always_skip loc = Some (Ok preloc p0) -> direct rec root s preloc = Some (Ok nl tk) ->
     onext rec root s always_skip loc =
       inl (if Nat.ltb loc nl then (if Nat.ltb loc preloc then nl else S loc) else S preloc)) /\
  (forall preloc p0 x, prep rec root s always_skip loc = Some (Ok preloc p0) -> direct rec root s preloc = Some (Err x) ->
     onext rec root s always_skip loc = if is_pe (xk x) then inl (S preloc) else inr (SErr x)).
Proof. exact ovisit_unfold. Qed.

(* Word("ab") over "ab ab" with overlap=True (the real scan_string gives the same: tools/props/c08.py overlap_fixed) *)
Example C08_scan_overlap_word_instance : exists res,
  drun (parse (step []) 3) (scan_string (ex_word 1) true ex_in_abab None true true) = Some (res, SDone) /\
  spans res = [(0, 2); (1, 2); (3, 5)] /\
  ovisit (parse (step []) 3) (ex_word 1) ex_in_abab true (List.length ex_in_abab + 2) 0 = [0; 1; 2; 5] /\
  Forall (reported_ok (parse (step []) 3) (ex_word 1) ex_in_abab true) res /\
  increasing_from 0 (starts res) /\
  res = oreports (parse (step []) 3) (ex_word 1) ex_in_abab true
          (ovisit (parse (step []) 3) (ex_word 1) ex_in_abab true (List.length ex_in_abab + 2) 0).
Proof. exact ex_overlap_word. Qed.

(* Empty() over "  a " with overlap=True: the zero-width matches (2,2) and (4,4), each once *)
Example C08_scan_overlap_zero_width_instance : exists res,
  drun (parse (step []) 3) (scan_string (ex_empty 1) true ex_in_sp None true true) = Some (res, SDone) /\
  spans res = [(2, 2); (4, 4)] /\
  ovisit (parse (step []) 3) (ex_empty 1) ex_in_sp true (List.length ex_in_sp + 2) 0 = [0; 2; 3; 4] /\
  increasing_from 0 (starts res) /\
  res = oreports (parse (step []) 3) (ex_empty 1) ex_in_sp true
          (ovisit (parse (step []) 3) (ex_empty 1) ex_in_sp true (List.length ex_in_sp + 2) 0).
Proof. exact ex_overlap_empty. Qed.
