(* C15 — concurrent parsing from several threads equals serial parsing.   (PARTIAL: see the comment at the end.)
   Statements only.  The interleaving model is Model/Threads.v: threads evaluating the packrat handler of Model/Prog.v
   one shared-state operation at a time (lock acquire/release, cache get/set/clear, memo get/set/del/clear), generic
   in the element semantics `step`.  Gen/GenLocks.v is regenerated from pyparsing/core.py on every run. *)
From Coq Require Import List Arith Bool String.
From PP Require Import Model.Prog Model.Threads Model.ThreadsMini Gen.GenLocks Proofs.Packrat Proofs.ThreadsProofs.
Import ListNotations.

(* ------------------------------------------------------------------------------------------------
   Tie to the source: the locking structure the model implements is the one core.py has now. *)
Theorem C15_model_matches_source :
  src_reset_cache_ops = model_reset_ops /\
  src_packrat_key = model_packrat_key /\
  src_memo_key = model_memo_key /\
  src_parsecache_all_under_lock = true /\
  src_parsecache_set_sites = ["SetOnExc_ParseBaseException"; "SetOnValue"]%string /\
  src_forward_guard_before_lock = true /\
  src_forward_memo_under_lock = true /\
  src_parse_string_resets_first = true /\
  src_scan_string_resets_first = true /\
  src_packrat_lock_users = ["ParserElement._parseCache"; "ParserElement.reset_cache"; "ParserElement.disable_memoization";
                            "ParserElement.enable_left_recursion"; "ParserElement.enable_packrat"]%string /\
  src_recursion_lock_users = ["Forward.parseImpl"]%string.
Proof. repeat split; reflexivity. Qed.

(* ------------------------------------------------------------------------------------------------
   Packrat mode and memoization off (memo_on = true / false), any cache size, any element semantics:
   for ANY number of threads, ANY thread programs (each a resumption tree of entry-point calls: parse_string,
   scan_string, ... on any inputs, shared grammar or not), ANY initial cache content satisfying the cache invariant
   (e.g. the empty one, or whatever earlier parses left) and ANY schedule: a thread that has finished returns exactly
   what the plain, cache-free, single-threaded semantics `parse` gives for its program. *)
Theorem C15_packrat_schedules :
  forall (A O : Type) (step : A -> prog A O) (A_eqb : A -> A -> bool),
    (forall a b, A_eqb a b = true -> a = b) ->
  forall (size : option nat) (entry : A -> bool) (cacheable : O -> bool) (memo_on : bool)
         (progs : list (prog A O)) (c0 : cache A O) (sched : list tid) (t : tid) (p : prog A O) (o : O),
    okm A O step c0 ->
    nth_error progs t = Some p ->
    finished (exec A O step A_eqb size entry cacheable memo_on sched (init c0 progs)) t = Some o ->
    exists f, run (parse step f) p = Some o.
Proof. exact schedules_serial. Qed.

(* the same, stated inside the model: run among other threads under any schedule, or run alone — same outcome *)
Theorem C15_concurrent_equals_alone :
  forall (A O : Type) (step : A -> prog A O) (A_eqb : A -> A -> bool),
    (forall a b, A_eqb a b = true -> a = b) ->
  forall size entry cacheable memo_on progs c0 c1 sched sched1 t p o o1,
    okm A O step c0 -> okm A O step c1 ->
    nth_error progs t = Some p ->
    finished (exec A O step A_eqb size entry cacheable memo_on sched (init c0 progs)) t = Some o ->
    finished (exec A O step A_eqb size entry cacheable memo_on sched1 (init c1 [p])) 0 = Some o1 ->
    o = o1.
Proof. exact concurrent_eq_alone. Qed.

(* the replay harness schedules at the granularity of visible operations (`vtrace`: local steps, then one lock/cache
   operation); every configuration it reaches is reached by a plain schedule, so the theorems above and below apply *)
Theorem C15_visible_schedules_are_schedules :
  forall (A O : Type) (step : A -> prog A O) (A_eqb : A -> A -> bool) size entry cacheable memo_on
         (fuel : nat) (sched : list tid) (cf : config A O),
    exists s, snd (vtrace A O step A_eqb size entry cacheable memo_on fuel sched cf)
              = exec A O step A_eqb size entry cacheable memo_on s cf.
Proof. exact vtrace_exec. Qed.

(* non-vacuity: the recursive expression grammar  expr <<= term '+' expr | term ; term <<= '(' expr ')' | num  with a
   shared Forward, packrat on (FIFO 128); thread 0 parses "1+2", thread 1 "(1)"; thread 1's reset_cache lands between
   thread 0's reset and its parse, thread 1 is then pre-empted inside its parse (holding the lock), thread 0 blocks,
   thread 1 completes, thread 0 parses against the cache thread 1 left; both finish with the serial answers *)
Definition ex_G : list node :=
  [NFwd 1; NMF [2; 3]; NAnd [3; 4; 0]; NFwd 5; NLit [43]; NMF [6; 9]; NAnd [7; 0; 8]; NLit [40]; NLit [41]; NWord [49; 50; 51; 57]].
Definition ex_jobs := [job KParseString 0 [49; 43; 50]; job KParseString 0 [40; 49; 41]].
Definition ex_sched := repeat 0 4 ++ repeat 1 9 ++ repeat 0 5 ++ repeat 1 300 ++ repeat 0 300.

Example C15_packrat_schedules_instance :
  let cf := exec args outcome (step ex_G) args_eqb (Some 128) is_entry is_cacheable true ex_sched (init [] ex_jobs) in
  finished cf 0 = Some (Ok 3 [[49]; [43]; [50]]) /\ finished cf 1 = Some (Ok 3 [[40]; [49]; [41]]) /\
  parse (step ex_G) 40 (entry_args KParseString 0 [49; 43; 50]) = Some (Ok 3 [[49]; [43]; [50]]) /\
  (forall a b, args_eqb a b = true -> a = b) /\ okm args outcome (step ex_G) [].
Proof. vm_compute. repeat split. exact args_eqb_spec. intros a o []. Qed.

(* ------------------------------------------------------------------------------------------------
   Lock discipline, packrat mode / memoization off, every reachable configuration:
   (1) a cache read, write, clear, the memo clear of reset_cache and a lock release are performed by the lock owner;
   (2) at most one thread is inside a `with packrat_cache_lock:` block;
   (3) no deadlock: either all threads have finished or an unfinished thread can take a real step;
   (4) a nested reset_cache (parse_string called from a parse action inside an outer `_parseCache`, e.g.
       common._ipv6_part.matches / strip_html_tags) runs while the thread already owns the lock (count = 1 + number of
       enclosing `_parseCache` frames), empties the cache the outer parse was filling, and leaves the global invariant
       intact — so by C15_packrat_schedules it changes no outcome;
   (5) recursion_lock / recursion_memos are never touched apart from the clear inside reset_cache: there is only one
       lock in play, hence no lock-order issue in these modes. *)
Theorem C15_lock_discipline :
  forall (A O : Type) (step : A -> prog A O) (A_eqb : A -> A -> bool),
    (forall a b, A_eqb a b = true -> a = b) ->
  forall size entry cacheable memo_on (c0 : cache A O) (progs : list (prog A O)) (cf : config A O),
    let cstep := cstep A O step A_eqb size entry cacheable memo_on in
    reachable A O step A_eqb size entry cacheable memo_on c0 progs cf ->
    (forall t, touches_cache (snd (cstep t cf)) = true -> c_owner cf = Some t) /\
    (forall t1 t2 th1 th2, nth_error (c_threads cf) t1 = Some th1 -> nth_error (c_threads cf) t2 = Some th2 ->
        holds th1 >= 1 -> holds th2 >= 1 -> t1 = t2) /\
    (all_finished cf = true \/
     exists t th, nth_error (c_threads cf) t = Some th /\ result_of th = None /\
                  snd (cstep t cf) <> EBlock /\ snd (cstep t cf) <> EDone) /\
    (okm A O step c0 -> forall t th a k, nth_error (c_threads cf) t = Some th -> t_ctl th = RstClear a k ->
        c_owner cf = Some t /\ c_count cf = S (stack_holds (t_stack th)) /\
        c_cache (fst (cstep t cf)) = [] /\ global_ok A O step progs (fst (cstep t cf))) /\
    (forall t, match snd (cstep t cf) with EAcqR | ERelR | EMGet _ | EMSet | EMDel => False | _ => True end).
Proof.
  intros A O step A_eqb Hspec size entry cacheable memo_on c0 progs cf cstep Hr.
  split; [intros t; apply (discipline_owner A O step A_eqb size entry cacheable memo_on c0 progs cf t Hr)|].
  split; [intros t1 t2 th1 th2; apply (discipline_exclusive A O step A_eqb size entry cacheable memo_on c0 progs cf t1 t2 th1 th2 Hr)|].
  split; [apply (no_deadlock A O step A_eqb size entry cacheable memo_on c0 progs cf Hr)|].
  split; [intros Hc t th a k; apply (nested_reset_harmless A O step A_eqb Hspec size entry cacheable memo_on c0 progs cf t th a k Hc Hr)|].
  intros t. apply packrat_machine_events.
Qed.

(* a configuration in which (4) really occurs: grammar with a parse action calling parse_string; thread 0 is about
   to clear the cache from inside its own outer parse, owning the lock 8 deep, with 6 entries already cached *)
Definition ex_act_G : list node :=
  [NFwd 1; NMF [2; 3]; NAnd [3; 4; 0]; NAct [97; 98] 5; NLit [44]; NAnd [6; 7]; NLit [97]; NOpt 8; NWord [97; 98]].
Example C15_nested_reset_instance :
  let cf := exec args outcome (step ex_act_G) args_eqb (Some 128) is_entry is_cacheable true (repeat 0 48)
                 (init [] [job KParseString 0 [97; 98; 44; 98]]) in
  (exists th a k, nth_error (c_threads cf) 0 = Some th /\ t_ctl th = RstClear a k) /\
  c_owner cf = Some 0 /\ c_count cf = 8 /\ List.length (c_cache cf) = 6 /\
  finished (exec args outcome (step ex_act_G) args_eqb (Some 128) is_entry is_cacheable true (repeat 0 400) cf) 0
    = Some (Ok 2 [[97; 98]]).
Proof. vm_compute. repeat split. eexists _, _, _. split; reflexivity. Qed.

(* Left-recursion mode, two locks, every reachable configuration (any element semantics `mstep`):
   each lock has at most one holder; the lock ORDER: a thread inside reset_cache's `with packrat_cache_lock:` requests
   nothing (its next operations are the two clears and the release), so recursion_lock is never awaited while holding
   packrat_cache_lock — the only nesting is recursion_lock -> packrat_cache_lock (an entry point called from a parse
   action below a Forward) and the waits-for relation cannot be cyclic; hence no deadlock.  What the owner of
   packrat_cache_lock does is disciplined; the memo clear is NOT covered by recursion_lock (see C15_lr_refuted). *)
Theorem C15_lock_discipline_lr :
  forall (A O K V : Type) (mstep : A -> mprog A O K V) (K_eqb : K -> K -> bool) (entry locked : A -> bool) (del_is_noop : bool)
         (progs : list (mprog A O K V)) (cf : lconfig A O K V),
    let lcstep := lcstep A O K V mstep K_eqb entry locked del_is_noop in
    lreachable A O K V mstep K_eqb entry locked del_is_noop progs cf ->
    (forall t1 t2 th1 th2, nth_error (l_threads cf) t1 = Some th1 -> nth_error (l_threads cf) t2 = Some th2 ->
        (lholdsP th1 >= 1 -> lholdsP th2 >= 1 -> t1 = t2) /\ (lholdsR th1 >= 1 -> lholdsR th2 >= 1 -> t1 = t2)) /\
    (forall t th, nth_error (l_threads cf) t = Some th -> lholdsP th >= 1 ->
        snd (lcstep t cf) = EClear \/ snd (lcstep t cf) = EMClear \/ snd (lcstep t cf) = ERel) /\
    (forall t, snd (lcstep t cf) = EClear \/ snd (lcstep t cf) = EMClear \/ snd (lcstep t cf) = ERel -> l_pown cf = Some t) /\
    (lall_finished cf = true \/
     exists t th, nth_error (l_threads cf) t = Some th /\ lresult_of th = None /\
                  snd (lcstep t cf) <> EBlock /\ snd (lcstep t cf) <> EDone).
Proof.
  intros A O K V mstep K_eqb entry locked del progs cf lcstep Hr.
  split; [intros t1 t2 th1 th2; apply (lr_exclusive A O K V mstep K_eqb entry locked del progs cf t1 t2 th1 th2 Hr)|].
  split; [apply (lr_lock_order A O K V mstep K_eqb entry locked del cf)|].
  split; [intros t; apply (lr_reset_by_owner A O K V mstep K_eqb entry locked del progs cf t Hr)|].
  apply (lr_no_deadlock A O K V mstep K_eqb entry locked del progs cf Hr).
Qed.

(* ------------------------------------------------------------------------------------------------
   Without memoization the threads share nothing but the briefly held lock: the cache stays empty and no
   cache read or write ever happens, under every schedule (outcomes: C15_packrat_schedules with memo_on = false). *)
Theorem C15_nomemo :
  forall (A O : Type) (step : A -> prog A O) (A_eqb : A -> A -> bool) size entry cacheable
         (progs : list (prog A O)) (sched : list tid),
    c_cache (exec A O step A_eqb size entry cacheable false sched (init [] progs)) = [] /\
    forall t e, In (t, e) (trace A O step A_eqb size entry cacheable false sched (init [] progs)) ->
                match e with EGet _ | ESet => False | _ => True end.
Proof.
  intros A O step A_eqb size entry cacheable progs sched.
  exact (nomemo_shares_nothing A O step A_eqb size entry cacheable false eq_refl progs sched).
Qed.

(* ------------------------------------------------------------------------------------------------
   Left-recursion mode violates the property (F-15).  Faithful model of Forward.parseImpl's bounded-recursion
   algorithm (Model/ThreadsMini.v) for  E <<= E '+' num | num ,  thread 0: E.parse_string("1+2+3"),
   thread 1: E.parse_string("9").
   Witness 1 (memo key (loc, Forward, do_actions) lacks the input; `del` on the UnboundedMemo is `pass`):
     schedule  t0: reset_cache ; t1: reset_cache ; t0: whole parse ; t1: whole parse
     thread 1 returns ['1','+','2','+','3'] — the tree of the OTHER call's input; alone it returns ['9'].
   Witness 2 (reset_cache clears recursion_memos holding only packrat_cache_lock): thread 1's reset lands inside
     thread 0's Forward.parseImpl, after `memo[peek_key] = seed` and before `memo[act_key] = memo[peek_key]`:
     thread 0 ends with an internal KeyError; at that moment thread 1 clears the memo while thread 0 owns recursion_lock. *)
Definition lr_G : list node := [NFwd 1; NMF [2; 4]; NAnd [0; 3; 4]; NLit [43]; NWord [49; 50; 51; 57]].
Definition lr_jobA := ljob KParseString 0 [49; 43; 50; 43; 51].
Definition lr_jobB := ljob KParseString 0 [57].
Definition lr_exec := lexec args outcome mkey mval (mstep_lr lr_G) mkey_eqb is_entry (is_locked lr_G) true.
Definition lr_cstep := lcstep args outcome mkey mval (mstep_lr lr_G) mkey_eqb is_entry (is_locked lr_G) true.

Theorem C15_lr_refuted :
  exists (sched sched_alone : list tid) (o o_alone : outcome),
    lfinished (lr_exec sched (linit [lr_jobA; lr_jobB])) 1 = Some o /\
    lfinished (lr_exec sched_alone (linit [lr_jobB])) 0 = Some o_alone /\
    o <> o_alone /\
    lfinished (lr_exec sched_alone (linit [lr_jobA])) 0 = Some o.
Proof.
  exists (repeat 0 4 ++ repeat 1 4 ++ repeat 0 120 ++ repeat 1 20), (repeat 0 120),
         (Ok 5 [[49]; [43]; [50]; [43]; [51]]), (Ok 1 [[57]]).
  vm_compute. repeat split. discriminate.
Qed.

Theorem C15_lr_keyerror_refuted :
  exists (sched : list tid),
    lfinished (lr_exec sched (linit [lr_jobA; lr_jobB])) 0 = Some KeyErr /\
    exists pre, let cf := lr_exec pre (linit [lr_jobA; lr_jobB]) in
      snd (lr_cstep 1 cf) = EMClear /\ l_rown cf = Some 0 /\ l_pown cf = Some 1.
Proof.
  exists (repeat 0 7 ++ repeat 1 4 ++ repeat 0 120). split; [vm_compute; reflexivity|].
  exists (repeat 0 7 ++ repeat 1 2). vm_compute. repeat split.
Qed.

(* PARTIAL.  Not covered by these theorems: CPython's real switch points and the atomicity of dict operations under the
   GIL (the model's atomic steps are the calls the instrumented lock/cache/memo objects of tools/props/c15.py observe);
   first-use races outside the two caches (streamline(), Each.initExprGroups, _trim_arity's arity discovery, lazily
   compiled regexes) on a grammar that was never used before the threads start; termination under fair schedules
   (only deadlock freedom is proved).  The replay of model schedules on real threads and the free-running stress of the
   check tie the model to the code. *)
