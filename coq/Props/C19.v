(* C19 — global settings are scoped as documented and fully restorable.
   Statements only; every proof is `exact <lemma>` (or vm_compute on a closed witness).

   state, ctx, gen_save, gen_restore and every gen_* setter are regenerated from pyparsing/util.py, core.py and
   testing.py on every run (Gen/GenSettings.v); Model/SettingsRun.v only says which Python call an operation is.
   THIS FILE IS ABOUT THE REPAIRED testing.py (notes/C19-fix.diff applied).  The pinned, unrepaired
   save/restore is kept as old_save / old_restore (same translator, frozen source text) for the refutation
   witnesses F-19a/b/c at the end. *)
From Coq Require Import List ZArith NArith Bool.
From PP Require Import Model.Str Model.Settings Gen.GenSettings Model.SettingsRun Proofs.SettingsProofs.
Import ListNotations.

(* ---------------------------------------------------------------------------------------------------- *)
(* C19_restore: leaving a with-block restores every setting, without raising, whatever happened inside.

   w is ANY world (state of all globals + the context objects that exist), body ANY finite operation list:
   setters (incl. enable_packrat/enable_left_recursion with force=True, failing calls), creation/copy of
   expressions, and further save/restore/copy of contexts in any order - nested with-blocks are the bodies
   that contain with_block segments.  The only hypothesis is that __enter__ itself (save) did not raise.
   `settings_of` is the whole state record with the two expression lists blanked, i.e. every field. *)
Theorem C19_restore : forall (w : world) (body : list op) (c : ctx),
  gen_save (w_st w) = COk c ->
  last_exn (with_block body w) w = None /\
  settings_of (w_st (run (with_block body w) w)) = settings_of (w_st w).
Proof. exact restore_full. Qed.

(* nested contexts spelled out: an inner block opened after b1 inside the outer block restores the settings it was
   entered with, and the outer block (whose body contains the whole inner block) restores the outer entry settings *)
Theorem C19_restore_nested : forall (w : world) (b1 b2 b3 : list op) (c c1 : ctx),
  gen_save (w_st w) = COk c ->
  let w1 := run (OSave :: b1) w in
  gen_save (w_st w1) = COk c1 ->
  let body := b1 ++ with_block b2 w1 ++ b3 in
  (last_exn (with_block b2 w1) w1 = None /\ settings_of (w_st (run (with_block b2 w1) w1)) = settings_of (w_st w1)) /\
  (last_exn (with_block body w) w = None /\ settings_of (w_st (run (with_block body w) w)) = settings_of (w_st w)).
Proof. exact restore_nested. Qed.

(* save raises only in states that the API cannot produce: from the import-time state, after any history,
   __enter__ succeeds and the block restores everything *)
Theorem C19_save_total : forall (pre : list op) (b : list expr_obj),
  exists c, gen_save (w_st (run pre (import_world b))) = COk c.
Proof. exact save_total_reachable. Qed.

Theorem C19_restore_reachable : forall (pre body : list op) (b : list expr_obj),
  let w := run pre (import_world b) in
  last_exn (with_block body w) w = None /\
  settings_of (w_st (run (with_block body w) w)) = settings_of (w_st w).
Proof. exact restore_reachable. Qed.

(* non-vacuity: entry with packrat on (FIFO 128) and non-default settings; the body switches to left recursion
   with force, opens a nested block that switches back to unbounded packrat and changes whitespace, leaves it,
   fails an enable_packrat, assigns the compat flag; inside the block the settings differ, after it they do not *)
Example C19_restore_instance :
  let pre := [OPackrat (Some 128%Z) false; OSetWs [32]%N; OVerbose true; ONew] in
  let body := [OLR (Some 5%Z) true; OSave; OSetWs [9]%N; OPackrat None true; ODiagEnable F_warn_on_assignment_to_Forward;
               ORestore 1; OPackrat None false; OCompatAssign F_collect_all_And_tokens false; OSetKw [97]%N] in
  let w := run pre (import_world [mkExpr [32; 10; 9; 13]%N true]) in
  (exists c, gen_save (w_st w) = COk c) /\
  map fst (trace (with_block body w) w) =
    [None; None; None; None; None; None; None; Some RuntimeError; None; None; None] /\
  settings_of (w_st (run (OSave :: body) w)) <> settings_of (w_st w) /\
  s_lr (w_st (run (OSave :: body) w)) = true /\
  settings_of (w_st (run (with_block body w) w)) = settings_of (w_st w).
Proof. vm_compute. repeat split; try (eexists; reflexivity); discriminate. Qed.

(* existing user expressions come out of the block as they were, unless the body called set_whitespace_chars on them *)
Theorem C19_restore_users : forall (w : world) (body : list op) (j : nat) (e : expr_obj),
  nth_error (s_users (w_st w)) j = Some e ->
  Forall (fun o => forall ch cd, o <> OSetWsOf j ch cd) body ->
  nth_error (s_users (w_st (run (with_block body w) w))) j = Some e.
Proof. exact with_block_users. Qed.

(* the whitespace of the built-in expressions is restored too, provided it followed the default on entry *)
Theorem C19_restore_builtins_partial : forall (w : world) (body : list op) (c : ctx),
  gen_save (w_st w) = COk c -> builtins_synced (w_st w) ->
  s_builtins (w_st (run (with_block body w) w)) = s_builtins (w_st w).
Proof. exact with_block_restores_builtins. Qed.

(* both together: the whole state record except the list of user expressions (those created inside remain) *)
Theorem C19_restore_whole_state_partial : forall (w : world) (body : list op) (c : ctx),
  gen_save (w_st w) = COk c -> builtins_synced (w_st w) ->
  last_exn (with_block body w) w = None /\
  set_s_users [] (w_st (run (with_block body w) w)) = set_s_users [] (w_st w).
Proof. exact restore_whole_state. Qed.

Example C19_restore_builtins_instance :
  builtins_synced (initial_state [mkExpr [32; 10; 9; 13]%N true; mkExpr [32; 9; 13]%N false]).
Proof. reflexivity. Qed.

(* ... and is NOT restored for a built-in with copyDefaultWhiteChars whose whiteChars differ from the default on entry
   (pyparsing's own line_start: default minus newline) as soon as the body changes the default (finding F-19d) *)
Theorem C19_restore_builtins_refuted : exists (w : world) (body : list op) (c : ctx),
  gen_save (w_st w) = COk c /\
  s_builtins (w_st (run (with_block body w) w)) <> s_builtins (w_st w).
Proof.
  exists (import_world [mkExpr [32; 9; 13]%N true]), [OSetWs [32]%N]. eexists. split; [reflexivity|]. vm_compute. discriminate.
Qed.

(* ---------------------------------------------------------------------------------------------------- *)
(* C19_exclusive *)
(* no state reachable from the import-time state through any history (incl. restores) has both modes enabled *)
Theorem C19_exclusive : forall (ops : list op) (b : list expr_obj),
  let s := w_st (run ops (import_world b)) in s_packrat s && s_lr s = false.
Proof. exact exclusive_from_import. Qed.

(* more generally the invariant `good` (exclusive; packrat => a real cache object; the caching _parse is bound exactly
   when packrat is enabled) is preserved from any world whose state and saved contexts satisfy it *)
Theorem C19_exclusive_invariant : forall (ops : list op) (w : world), wgood w -> good (w_st (run ops w)).
Proof. exact exclusive_good. Qed.

Example C19_exclusive_instance : forall b, wgood (import_world b).
Proof. exact initial_good. Qed.

(* enabling one while the other is on, without force: RuntimeError, and nothing changes *)
Theorem C19_exclusive_packrat_refused : forall sz s, s_lr s = true ->
  gen_enable_packrat sz false s = Raised RuntimeError s.
Proof. exact packrat_refused. Qed.

Theorem C19_exclusive_lr_refused : forall sz s, s_packrat s = true ->
  gen_enable_left_recursion sz false s = Raised RuntimeError s.
Proof. exact lr_refused. Qed.

Example C19_exclusive_refused_instance :
  let s := result_state (gen_enable_left_recursion None false (initial_state [])) in
  s_lr s = true /\ gen_enable_packrat (Some 128%Z) false s = Raised RuntimeError s.
Proof. vm_compute. split; reflexivity. Qed.

(* with force=True the other mode is switched off first *)
Theorem C19_exclusive_packrat_forced : forall sz s, exists s', gen_enable_packrat sz true s = Ok s' /\
  s_packrat s' = true /\ s_lr s' = false /\ s_parse s' = ParseCache /\
  s_pcache s' = match sz with None => PUnbounded | Some n => PFifo n end.
Proof. exact packrat_forced. Qed.

Theorem C19_exclusive_lr_forced : forall sz s,
  let r := gen_enable_left_recursion sz true s in
  s_packrat (result_state r) = false /\ s_parse (result_state r) = ParseNoCache /\
  match sz with
  | None => r = Ok (result_state r) /\ s_lr (result_state r) = true /\ s_memo (result_state r) = MUnbounded
  | Some n => if (n >? 0)%Z then r = Ok (result_state r) /\ s_lr (result_state r) = true /\ s_memo (result_state r) = MLRU n
              else r = Raised NotImplementedError (result_state r) /\ s_lr (result_state r) = false
  end.
Proof. exact lr_forced. Qed.

(* ---------------------------------------------------------------------------------------------------- *)
(* C19_whitespace_scope *)
(* set_default_whitespace_chars(ch): the default becomes ch, every built-in with copyDefaultWhiteChars gets ch, the
   other built-ins and ALL existing user expressions are untouched, and no other setting changes *)
Theorem C19_whitespace_scope_setter : forall ch s, exists s',
  gen_set_default_whitespace_chars ch s = Ok s' /\
  s_ws s' = ch /\ s_users s' = s_users s /\ settings_of s' = settings_of (set_s_ws ch s) /\
  (forall i, nth_error (s_builtins s') i =
             option_map (fun e => if e_copydef e then mkExpr ch true else e) (nth_error (s_builtins s) i)).
Proof. exact set_ws_scope. Qed.

(* expressions created afterwards use the default in force at creation time ... *)
Theorem C19_whitespace_scope_new : forall s, gen_new_expr s = mkExpr (s_ws s) true.
Proof. exact new_expr_ws. Qed.

(* ... and so do copies of expressions that still have copyDefaultWhiteChars; other copies keep their own *)
Theorem C19_whitespace_scope_copy : forall e s,
  gen_copy_expr e s = if e_copydef e then mkExpr (s_ws s) true else e.
Proof. exact copy_expr_ws. Qed.

(* over whole histories: an existing user expression is never changed by any operation (setters, failing calls,
   save/restore of any context) other than set_whitespace_chars on that very expression *)
Theorem C19_whitespace_scope : forall (ops : list op) (w : world) (j : nat) (e : expr_obj),
  nth_error (s_users (w_st w)) j = Some e ->
  Forall (fun o => forall ch cd, o <> OSetWsOf j ch cd) ops ->
  nth_error (s_users (w_st (run ops w))) j = Some e.
Proof. exact run_user_kept. Qed.

(* over whole histories: the built-ins are either all as before or exactly resynchronised to the current default *)
Theorem C19_whitespace_scope_builtins : forall (ops : list op) (w : world),
  let s' := w_st (run ops w) in
  s_builtins s' = s_builtins (w_st w) \/ s_builtins s' = bsync (s_ws s') (s_builtins (w_st w)).
Proof. exact builtins_scope. Qed.

Example C19_whitespace_scope_instance :
  let w := run [ONew; OSetWsOf 0 [120]%N false; ONew] (import_world [mkExpr [32; 10]%N true; mkExpr [9]%N false]) in
  let w' := run [OSetWs [32]%N; ONew; OCopy 0; OCopy 1; OCopyBuiltin 1] w in
  s_users (w_st w) = [mkExpr [120]%N false; mkExpr [32; 10; 9; 13]%N true] /\
  s_users (w_st w') = [mkExpr [120]%N false; mkExpr [32; 10; 9; 13]%N true;
                       mkExpr [32]%N true; mkExpr [120]%N false; mkExpr [32]%N true; mkExpr [9]%N false] /\
  s_builtins (w_st w') = [mkExpr [32]%N true; mkExpr [9]%N false].
Proof. vm_compute. repeat split. Qed.

(* ---------------------------------------------------------------------------------------------------- *)
(* The pinned, unrepaired restore() of pyparsing 3.2.4 (old_save / old_restore, translated from the frozen
   source text): C19_restore is REFUTED for it by three independent closed witnesses, and what it does restore
   is proved for all states.  old_with body s = "with reset_pyparsing_context(): body" started in s. *)

(* F-19a: every restore assigns the saved *dict* to __compat__.collect_all_And_tokens (empty body, import state) *)
Example C19_old_restore_compat_refuted : exists s',
  old_with (fun s => s) (initial_state []) = Some (Ok s') /\
  getattr_compat F_collect_all_And_tokens (initial_state []) = PVBool true /\
  getattr_compat F_collect_all_And_tokens s' = PVDict [(flag_key F_collect_all_And_tokens, PVBool true)].
Proof. eexists. vm_compute. repeat split. Qed.

(* F-19b: entry with packrat on, body = enable_left_recursion(force=True): __exit__ raises RuntimeError and leaves
   packrat off / left recursion on *)
Example C19_old_restore_raises_refuted :
  let s := result_state (gen_enable_packrat (Some 128%Z) false (initial_state [])) in
  exists s', old_with (fun s => result_state (gen_enable_left_recursion None true s)) s = Some (Raised RuntimeError s') /\
             good s /\ s_packrat s = true /\ s_lr s = false /\ s_packrat s' = false /\ s_lr s' = true.
Proof. eexists. vm_compute. repeat split; discriminate. Qed.

(* F-19c: the memo capacity (entry LRU 5, body enable_left_recursion(10, force=True)) and the packrat cache object
   (entry none, body enable_packrat()) are not restored *)
Example C19_old_restore_memo_refuted :
  let s := result_state (gen_enable_left_recursion (Some 5%Z) false (initial_state [])) in
  exists s', old_with (fun s => result_state (gen_enable_left_recursion (Some 10%Z) true s)) s = Some (Ok s') /\
             s_memo s = MLRU 5 /\ s_memo s' = MLRU 10.
Proof. eexists. vm_compute. repeat split. Qed.

Example C19_old_restore_cache_refuted :
  exists s', old_with (fun s => result_state (gen_enable_packrat (Some 128%Z) false s)) (initial_state []) = Some (Ok s') /\
             s_pcache (initial_state []) = PNull /\ s_pcache s' = PFifo 128 /\ s_packrat s' = false.
Proof. eexists. vm_compute. repeat split. Qed.

(* what the unrepaired restore does restore, from every entry state and whatever state the body leaves:
   default whitespace, keyword characters, literal class, verbose_stacktrace, every __diag__ flag *)
Theorem C19_old_restore_partial : forall s c s', old_save s = COk c ->
  let s'' := result_state (old_restore c s') in
  s_ws s'' = s_ws s /\ s_kw s'' = s_kw s /\ s_lit s'' = s_lit s /\ s_verbose s'' = s_verbose s /\
  (forall n, getattr_diag n s'' = getattr_diag n s) /\ s_users s'' = s_users s'.
Proof. exact old_restore_partial. Qed.
