(* C03 — enabling left-recursion support is transparent for ordinary grammars.
   Statements only.  `parse_lr` (Model/LR.v) is `Forward.parseImpl` with `_left_recursion_enabled` over the memo tables
   UnboundedMemo (m_cap = None) / LRUMemo c (m_cap = Some c); `parse_lr_t` (Model/LRT.v) is the same handler returning, in
   addition, six flags that observe the mechanisms by which the bounded-recursion algorithm can answer differently from
   the plain `Forward.parseImpl`.  On the unchanged tree the property as worded ("no left recursion => same outcomes") is
   REFUTED four times over (`C03_*_refuted`, all confirmed on the implementation: F-03b..F-03e in notes/C03-proofs.md);
   what is TRUE, and proved here for every grammar environment, input, fuel, capacity and starting memo satisfying the
   invariant, is: whenever none of the six mechanisms fires, the answer is the plain parser's. *)
From Coq Require Import List Bool ZArith NArith Arith.
From PP Require Import Model.Str Model.Results Model.Prog Model.Core Model.Entry Model.LR Model.LRT.
From PP Require Import Proofs.LRProofs Proofs.LRTie Proofs.LRComplete.
Import ListNotations.

(* 1. erasure: the instrumented handler computes exactly the outcome and the memo of Model/LR.v's handler *)
Theorem C03_erasure : forall (G : env) fuel (m : memo) (a : args),
  option_map fst (parse_lr_t G fuel m a) = parse_lr G fuel m a.
Proof. exact lr_erasure. Qed.

Theorem C03_erasure_entry : forall (G : env) (R : Type) (p : dprog R) fuel (m : memo),
  option_map fst (drunm_t (parse_lr_t G fuel) m p) = drunm (parse_lr G fuel) m p.
Proof. exact (fun G R p fuel m => drunm_er G p fuel m). Qed.

(* 2. transparency.  `memo_ok G tbl s m`: every entry of m (active or retired) that is not a seed is what the plain
      parser answers for that Forward's body at that location with that do_actions, on the string s (the memo key does
      not contain the string).  `fw tbl e`: every Forward node in e agrees with the table nid -> index of its body in G.
      No flag raised (`fl0`)  ==>  the plain parser gives the same outcome, and the invariant is kept.
      The capacity is `m_cap m`: None and every Some c are covered by quantifying over m. *)
Theorem C03_transparent : forall (G : env) (tbl : nat -> option nat) (s : str) fuel (m : memo) (a : args) o m',
  forallb (fw tbl) G = true -> fw tbl (a_e a) = true -> a_s a = s ->
  memo_ok G tbl s m ->
  parse_lr_t G fuel m a = Some (o, m', fl0) ->
  (exists f, parse (step G) f a = Some o) /\ memo_ok G tbl s m'.
Proof. exact lr_transparent. Qed.

(* the same, read on Model/LR.v's own handler *)
Theorem C03_transparent_handler : forall (G : env) (tbl : nat -> option nat) (s : str) fuel (m : memo) (a : args) o m' fl,
  forallb (fw tbl) G = true -> fw tbl (a_e a) = true -> a_s a = s ->
  memo_ok G tbl s m ->
  parse_lr_t G fuel m a = Some (o, m', fl) -> fl_clean fl = true ->
  parse_lr G fuel m a = Some (o, m') /\ (exists f, parse (step G) f a = Some o) /\ memo_ok G tbl s m'.
Proof. exact lr_transparent_lr. Qed.

Theorem C03_invariant_initial : forall (G : env) tbl s cap, memo_ok G tbl s (memo_empty cap).
Proof. exact memo_ok_empty. Qed.

(* 3. entry points, from the empty memo, every capacity *)
Theorem C03_entry_point : forall (G : env) tl dw root keeptabs input parse_all (cap : option nat) fuel r m' fl,
  ids_consistent tl G root = true ->
  drunm_t (parse_lr_t G fuel) (memo_empty cap) (parse_string dw root keeptabs input parse_all) = Some (r, m', fl) ->
  fl_clean fl = true ->
  drunm (parse_lr G fuel) (memo_empty cap) (parse_string dw root keeptabs input parse_all) = Some (r, m') /\
  exists f, drun (parse (step G) f) (parse_string dw root keeptabs input parse_all) = Some r.
Proof. exact lr_parse_string. Qed.

Theorem C03_scan_string : forall (G : env) tl root keeptabs input maxm overlap always_skip (cap : option nat) fuel r m' fl,
  ids_consistent tl G root = true ->
  drunm_t (parse_lr_t G fuel) (memo_empty cap) (scan_string root keeptabs input maxm overlap always_skip) = Some (r, m', fl) ->
  fl_clean fl = true ->
  drunm (parse_lr G fuel) (memo_empty cap) (scan_string root keeptabs input maxm overlap always_skip) = Some (r, m') /\
  exists f, drun (parse (step G) f) (scan_string root keeptabs input maxm overlap always_skip) = Some r.
Proof. exact lr_scan_string. Qed.

(* 4. non-vacuity.  F <<= Word("ab"); (F + 'b' + 'c') | (F + 'b') on "a b" (the shared Forward is re-entered at the same
      location after backtracking: the memo is hit): no flag, for UnboundedMemo, LRUMemo 1 and LRUMemo 2; the hypotheses of
      C03_transparent / C03_entry_point hold, the answers coincide *)
Example C03_instance :
  let at_ id cp sv mi := {| nid := id; rsname := None; modalr := true; aslist := sv; skipws := true; white := [32%N];
               callpre := cp; mayidx := mi; custom := false; hasmsg := true; acts := []; calltry := false; slen := 3 |} in
  let lit c id := Tok (at_ id true false false) [] (KLit [c]) in
  let word id := Tok (at_ id true false false) [] (KWord [97;98]%N [97;98]%N 1 None false false false) in
  let seq id es := Nary (at_ id true true true) [] NAnd es in
  let alt id es := Nary (at_ id false false true) [] NMatchFirst es in
  let F := Fwd (at_ 20 true false false) [] (Some 0) in
  let G := [word 21] in
  let root := alt 10 [seq 11 [F; lit 98%N 2; lit 99%N 3]; seq 12 [F; lit 98%N 2]] in
  let ar := mkargs root [97; 32; 98]%N 0 true true in
  let ps := parse_string [32%N] root false [97; 32; 98]%N false in
  ids_consistent [(20, 0)] G root = true /\
  (exists l r, parse (step G) 20 ar = Some (Ok l r)) /\
  (forall cap, In cap [None; Some 1; Some 2] ->
     option_map (fun x => (fst (fst x), snd x)) (parse_lr_t G 20 (memo_empty cap) ar)
       = option_map (fun o => (o, fl0)) (parse (step G) 20 ar) /\
     option_map (fun x => (fst (fst x), snd x)) (drunm_t (parse_lr_t G 20) (memo_empty cap) ps)
       = option_map (fun o => (o, fl0)) (drun (parse (step G) 20) ps)).
Proof.
  intros. split; [vm_compute; reflexivity|]. split; [vm_compute; eexists; eexists; reflexivity|].
  intros cap [<-|[<-|[<-|[]]]]; vm_compute; split; reflexivity.
Qed.

(* ... and the flag discriminates: E <<= E + '+' + N | N on "1+2+3" reads its seed (the hypothesis of C03_transparent is
   not met; the plain parser diverges on this grammar: out of fuel for every fuel, here 30) *)
Example C03_flag_discriminates :
  let at_ id cp sv mi := {| nid := id; rsname := None; modalr := true; aslist := sv; skipws := true; white := [32%N];
               callpre := cp; mayidx := mi; custom := false; hasmsg := true; acts := []; calltry := false; slen := 3 |} in
  let lit c id := Tok (at_ id true false false) [] (KLit [c]) in
  let num id := Tok (at_ id true false false) [] (KWord [49;50;51]%N [49;50;51]%N 1 None false false false) in
  let seq id es := Nary (at_ id true true true) [] NAnd es in
  let alt id es := Nary (at_ id false false true) [] NMatchFirst es in
  let E := Fwd (at_ 30 true false false) [] (Some 0) in
  let G := [alt 31 [seq 32 [E; lit 43%N 33; num 34]; num 35]] in
  let ar := mkargs E [49;43;50;43;51]%N 0 true true in
  ids_consistent [(30, 0)] G E = true /\
  parse (step G) 30 ar = None /\
  exists r m' fl, parse_lr_t G 30 (memo_empty None) ar = Some (Ok 5 r, m', fl) /\ seed_read fl = true.
Proof. intros. vm_compute. split; [reflexivity|]. split; [reflexivity|]. do 3 eexists. split; reflexivity. Qed.

(* 5. the property as worded is refuted by the faithful model: four mechanisms, each on a grammar WITHOUT left recursion
      (the only Forward's body contains no Forward), each raising exactly one flag, each confirmed on the implementation.
      They show that none of the corresponding hypotheses of C03_transparent can be dropped. *)

(* F-03b, stale seed: the `raise` taken when the body fails before any match leaves the seed in the memo; the next parse
   of the same Forward at the same location raises "Forward recursion without base case".  Opt(F) + F on "zz". *)
Theorem C03_stale_seed_refuted :
  let at_ id cp sv mi := {| nid := id; rsname := None; modalr := true; aslist := sv; skipws := true; white := [32%N];
               callpre := cp; mayidx := mi; custom := false; hasmsg := true; acts := []; calltry := false; slen := 3 |} in
  let word id := Tok (at_ id true false false) [] (KWord [97;98]%N [97;98]%N 1 None false false false) in
  let seq id es := Nary (at_ id true true true) [] NAnd es in
  let opt id e := Enh (at_ id true false false) [] (EOpt None) e in
  let F := Fwd (at_ 20 true false false) [] (Some 0) in
  let G := [word 21] in
  let root := seq 40 [opt 41 F; F] in
  let ar := mkargs root [122;122]%N 0 true true in
  ids_consistent [(20, 0)] G root = true /\
  forall cap, In cap [None; Some 1] ->
  exists o1 o2 m' fl,
    parse (step G) 20 ar = Some o1 /\ parse_lr_t G 20 (memo_empty cap) ar = Some (o2, m', fl) /\ o1 <> o2 /\
    fl = Build_flags true false false false false false.
Proof.
  intros. split; [vm_compute; reflexivity|].
  intros cap [<-|[<-|[]]]; vm_compute; do 4 eexists; (split; [reflexivity|]); (split; [reflexivity|]);
    (split; [discriminate|reflexivity]).
Qed.

(* F-03c, the failed action pass overwrites the do_actions=False entry: F <<= Word("ab").add_condition(false);
   F | SkipTo(F) on "ab": plain [''], left-recursion mode ['a'] *)
Theorem C03_peek_taint_refuted :
  let at_ id cp sv mi ac := {| nid := id; rsname := None; modalr := true; aslist := sv; skipws := true; white := [32%N];
               callpre := cp; mayidx := mi; custom := false; hasmsg := true; acts := ac; calltry := false; slen := 3 |} in
  let wordc id := Tok (at_ id true false false [ACond 100 false 7]) [] (KWord [97;98]%N [97;98]%N 1 None false false false) in
  let alt id es := Nary (at_ id false false true []) [] NMatchFirst es in
  let skipto id e := Skip (at_ id true false false []) [] e false [] None in
  let F := Fwd (at_ 20 true false false []) [] (Some 0) in
  let G := [wordc 21] in
  let root := alt 10 [F; skipto 11 F] in
  let ar := mkargs root [97; 98]%N 0 true true in
  ids_consistent [(20, 0)] G root = true /\
  forall cap, In cap [None; Some 1] ->
  exists o1 o2 m' fl,
    parse (step G) 20 ar = Some o1 /\ parse_lr_t G 20 (memo_empty cap) ar = Some (o2, m', fl) /\ o1 <> o2 /\
    fl = Build_flags false false true false false false.
Proof.
  intros. split; [vm_compute; reflexivity|].
  intros cap [<-|[<-|[]]]; vm_compute; do 4 eexists; (split; [reflexivity|]); (split; [reflexivity|]);
    (split; [discriminate|reflexivity]).
Qed.

(* F-03d, the normal do_actions=True exit replaces the do_actions=False entry by the action-pass answer:
   W = Word("ab"); F <<= (W.add_condition(false) + 'x') | W; (F + 'q') | Or([F + 'x', W]) on "ab x":
   plain ['ab'], left-recursion mode ['ab', 'x'] *)
Theorem C03_peek_replaced_refuted :
  let at_ id cp sv mi ac := {| nid := id; rsname := None; modalr := true; aslist := sv; skipws := true; white := [32%N];
               callpre := cp; mayidx := mi; custom := false; hasmsg := true; acts := ac; calltry := false; slen := 3 |} in
  let lit c id := Tok (at_ id true false false []) [] (KLit [c]) in
  let word id := Tok (at_ id true false false []) [] (KWord [97;98]%N [97;98]%N 1 None false false false) in
  let wordc id := Tok (at_ id true false false [ACond 100 false 7]) [] (KWord [97;98]%N [97;98]%N 1 None false false false) in
  let seq id es := Nary (at_ id true true true []) [] NAnd es in
  let alt id es := Nary (at_ id false false true []) [] NMatchFirst es in
  let orr id es := Nary (at_ id false false true []) [] NOr es in
  let F := Fwd (at_ 20 true false false []) [] (Some 0) in
  let G := [alt 22 [seq 23 [wordc 21; lit 120%N 24]; word 25]] in
  let root := alt 10 [seq 11 [F; lit 113%N 12]; orr 13 [seq 14 [F; lit 120%N 15]; word 16]] in
  let ar := mkargs root [97; 98; 32; 120]%N 0 true true in
  ids_consistent [(20, 0)] G root = true /\
  forall cap, In cap [None; Some 1] ->
  exists o1 o2 m' fl,
    parse (step G) 20 ar = Some o1 /\ parse_lr_t G 20 (memo_empty cap) ar = Some (o2, m', fl) /\ o1 <> o2 /\
    fl = Build_flags false false false true false false.
Proof.
  intros. split; [vm_compute; reflexivity|].
  intros cap [<-|[<-|[]]]; vm_compute; do 4 eexists; (split; [reflexivity|]); (split; [reflexivity|]);
    (split; [discriminate|reflexivity]).
Qed.

(* F-03e, the exception of the do_actions=False pass is re-raised to a do_actions=True caller:
   F <<= Word("ab").add_condition(false, message="nope") + 'x' on "ab y": plain "nope" at 0, left-recursion mode
   "Expected 'x'" at 3 *)
Theorem C03_peek_error_refuted :
  let at_ id cp sv mi ac := {| nid := id; rsname := None; modalr := true; aslist := sv; skipws := true; white := [32%N];
               callpre := cp; mayidx := mi; custom := false; hasmsg := true; acts := ac; calltry := false; slen := 3 |} in
  let lit c id := Tok (at_ id true false false []) [] (KLit [c]) in
  let wordc id := Tok (at_ id true false false [ACond 100 false 7]) [] (KWord [97;98]%N [97;98]%N 1 None false false false) in
  let seq id es := Nary (at_ id true true true []) [] NAnd es in
  let F := Fwd (at_ 20 true false false []) [] (Some 0) in
  let G := [seq 23 [wordc 21; lit 120%N 24]] in
  let ar := mkargs F [97; 98; 32; 121]%N 0 true true in
  ids_consistent [(20, 0)] G F = true /\
  forall cap, In cap [None; Some 1] ->
  exists o1 o2 m' fl,
    parse (step G) 20 ar = Some o1 /\ parse_lr_t G 20 (memo_empty cap) ar = Some (o2, m', fl) /\ o1 <> o2 /\
    fl = Build_flags false false false false true false.
Proof.
  intros. split; [vm_compute; reflexivity|].
  intros cap [<-|[<-|[]]]; vm_compute; do 4 eexists; (split; [reflexivity|]); (split; [reflexivity|]);
    (split; [discriminate|reflexivity]).
Qed.

(* 6. the CONVERSE direction (Proofs/LRComplete.v): whenever the PLAIN parser answers within fuel f -- which it can only
      do when the grammar is not left-recursive on this input: a left-recursive descent exhausts every fuel -- the
      left-recursion handler, run with the same fuel (or more) from any memo satisfying the invariant, answers too, with
      the same outcome, UP TO THE FIRST FLAG.  `parse_lr_x` is `parse_lr_t` made to stop at the first sub-run that comes
      back with a flag (it re-uses the memo operations, `super_impl_t`, and the exit code verbatim); the two agree exactly
      on flag-free answers (`C03_stop_agrees`), the stopping handler is monotone in its fuel (`C03_stop_monotone`), and a
      flag it reports is genuine: no fuel gives `parse_lr_t` a flag-free answer (`C03_flag_genuine`).
      Hence the dichotomy `C03_transparent_complete_partial`: same answer / same fuel / no flag, OR a flag raised while
      still on the plain parser's path; silent non-termination of the left-recursion run is excluded.
      `_partial` because (a) flag-freeness cannot be concluded (F-03b..e raise flags on grammars the plain parser
      handles), and (b) of the hypothesis `peek_total G s`: the left-recursion algorithm evaluates a Forward's body with
      do_actions=False before evaluating it with do_actions=True, which the plain Forward.parseImpl never does, so the
      plain parser's termination on the do_actions=True call says nothing about that extra pass; `peek_total` says the
      do_actions=False pass of every Forward body answers (same fuel) wherever its do_actions=True pass does.  It is
      proved here only for Forward bodies that are tokens (`C03_peek_total_tokens`); it holds for action-free bodies (both
      passes make the same calls) but that is not proved.
      Which flag can be the first one on a call the plain parser answers: never `key_error` (unconditionally, 7 below),
      and never `seed_returned` provided the Forward bodies are location-monotone (`loc_mono G s`: a do_actions=False
      match of a body never ends before its start; a hypothesis, the framework only has upper bounds on locations);
      `seed_read`, `peek_tainted`, `peek_replaced`, `peek_error` can (F-03b..e). *)
Theorem C03_complete_upto_flag_partial : forall (G : env) (tbl : nat -> option nat) (s : str) f fuel (m : memo) (a : args) o,
  forallb (fw tbl) G = true -> fw tbl (a_e a) = true -> a_s a = s ->
  memo_ok G tbl s m -> peek_total G s ->
  parse (step G) f a = Some o -> f <= fuel ->
  exists o' m' fl, parse_lr_x G fuel m a = Some (o', m', fl) /\
    key_error fl = false /\ (loc_mono G s -> seed_returned fl = false) /\
    (fl_clean fl = true ->
       o' = o /\ memo_ok G tbl s m' /\ parse_lr_t G fuel m a = Some (o, m', fl0) /\ parse_lr G fuel m a = Some (o, m')).
Proof. exact lr_complete_x. Qed.

Theorem C03_transparent_complete_partial : forall (G : env) (tbl : nat -> option nat) (s : str) f fuel (m : memo) (a : args) o,
  forallb (fw tbl) G = true -> fw tbl (a_e a) = true -> a_s a = s ->
  memo_ok G tbl s m -> peek_total G s ->
  parse (step G) f a = Some o -> f <= fuel ->
  (exists m', parse_lr_t G fuel m a = Some (o, m', fl0) /\ parse_lr G fuel m a = Some (o, m') /\ memo_ok G tbl s m')
  \/
  (exists o' m' fl, parse_lr_x G fuel m a = Some (o', m', fl) /\ fl_clean fl = false /\
     key_error fl = false /\ (loc_mono G s -> seed_returned fl = false) /\
     forall fuel' o'' m'', parse_lr_t G fuel' m a <> Some (o'', m'', fl0)).
Proof. exact lr_complete. Qed.

(* if ANY fuel gives a flag-free left-recursion run, the plain parser's own fuel already does, with the plain answer *)
Theorem C03_complete_clean_partial : forall (G : env) (tbl : nat -> option nat) (s : str) f fuel fuel0 (m : memo) (a : args) o o0 m0,
  forallb (fw tbl) G = true -> fw tbl (a_e a) = true -> a_s a = s ->
  memo_ok G tbl s m -> peek_total G s ->
  parse (step G) f a = Some o -> f <= fuel ->
  parse_lr_t G fuel0 m a = Some (o0, m0, fl0) ->
  exists m', parse_lr_t G fuel m a = Some (o, m', fl0) /\ parse_lr G fuel m a = Some (o, m') /\ memo_ok G tbl s m'.
Proof. exact lr_complete_clean. Qed.

(* through parse_string, from the empty memo, every capacity *)
Theorem C03_complete_entry_point_partial : forall (G : env) tl dw root (keeptabs : bool) input parse_all (cap : option nat) f fuel r,
  ids_consistent tl G root = true ->
  peek_total G (if keeptabs then input else expandtabs input) ->
  drun (parse (step G) f) (parse_string dw root keeptabs input parse_all) = Some r -> f <= fuel ->
  exists r' m' fl, drunm_x (parse_lr_x G fuel) (memo_empty cap) (parse_string dw root keeptabs input parse_all) = Some (r', m', fl) /\
    (fl_clean fl = true ->
       r' = Some r /\
       drunm_t (parse_lr_t G fuel) (memo_empty cap) (parse_string dw root keeptabs input parse_all) = Some (r, m', fl0) /\
       drunm (parse_lr G fuel) (memo_empty cap) (parse_string dw root keeptabs input parse_all) = Some (r, m')).
Proof. exact lr_complete_parse_string. Qed.

(* the stopping handler against Model/LRT.v's: same flag-free answers at every fuel; monotone; its flags are genuine *)
Theorem C03_stop_agrees : forall (G : env) fuel (m : memo) (a : args) o m',
  parse_lr_x G fuel m a = Some (o, m', fl0) <-> parse_lr_t G fuel m a = Some (o, m', fl0).
Proof. exact (fun G fuel m a o m' => conj (x_clean_t G fuel m a o m') (t_clean_x G fuel m a o m')). Qed.

Theorem C03_stop_monotone : forall (G : env) fuel fuel' (m : memo) (a : args) r,
  parse_lr_x G fuel m a = Some r -> fuel <= fuel' -> parse_lr_x G fuel' m a = Some r.
Proof. exact x_mono. Qed.

Theorem C03_flag_genuine : forall (G : env) fuel (m : memo) (a : args) o m' fl,
  parse_lr_x G fuel m a = Some (o, m', fl) -> fl_clean fl = false ->
  forall fuel' o' m'', parse_lr_t G fuel' m a <> Some (o', m'', fl0).
Proof. exact x_flag_genuine. Qed.

Theorem C03_peek_total_tokens : forall (G : env) (s : str), forallb is_tok G = true -> peek_total G s.
Proof. exact peek_total_tokens. Qed.

(* 7. `key_error` is NEVER raised: for every grammar, memo (whatever its content and capacity), fuel and call, the
      `memo[act_key]` lookup of the do_actions=True exit finds its key.  (A (location, Forward) pair whose two keys are in
      the active table keeps them through any run: either key hits, and every other Forward only sets / deletes its own
      keys; the loop sets both keys before each iteration.)  Unconditional: no hypothesis on the grammar or the memo. *)
Theorem C03_key_error_never : forall (G : env) fuel (m : memo) (a : args) o m' fl,
  parse_lr_t G fuel m a = Some (o, m', fl) -> key_error fl = false.
Proof. exact lr_key_error_never. Qed.

Theorem C03_key_error_never_entry : forall (G : env) (R : Type) (p : dprog R) fuel (m : memo) r m' fl,
  drunm_t (parse_lr_t G fuel) m p = Some (r, m', fl) -> key_error fl = false.
Proof. exact (fun G R p fuel => lr_key_error_never_entry G p fuel). Qed.

(* non-vacuity of 6, first alternative: the grammar of C03_instance meets every hypothesis (its only Forward body is a
   token, so peek_total holds for every string), the plain parser answers with fuel 20, and the left-recursion handler
   answers the same with the same fuel and no flag, for UnboundedMemo, LRUMemo 1, LRUMemo 2, also through parse_string *)
Example C03_complete_instance :
  let at_ id cp sv mi := {| nid := id; rsname := None; modalr := true; aslist := sv; skipws := true; white := [32%N];
               callpre := cp; mayidx := mi; custom := false; hasmsg := true; acts := []; calltry := false; slen := 3 |} in
  let lit c id := Tok (at_ id true false false) [] (KLit [c]) in
  let word id := Tok (at_ id true false false) [] (KWord [97;98]%N [97;98]%N 1 None false false false) in
  let seq id es := Nary (at_ id true true true) [] NAnd es in
  let alt id es := Nary (at_ id false false true) [] NMatchFirst es in
  let F := Fwd (at_ 20 true false false) [] (Some 0) in
  let G := [word 21] in
  let root := alt 10 [seq 11 [F; lit 98%N 2; lit 99%N 3]; seq 12 [F; lit 98%N 2]] in
  let s := [97; 32; 98]%N in
  let ar := mkargs root s 0 true true in
  let ps := parse_string [32%N] root false s false in
  (forall s', peek_total G s') /\
  ids_consistent [(20, 0)] G root = true /\
  (exists l r, parse (step G) 20 ar = Some (Ok l r)) /\
  (forall cap, In cap [None; Some 1; Some 2] ->
     option_map (fun x => (fst (fst x), snd x)) (parse_lr_x G 20 (memo_empty cap) ar)
       = option_map (fun o => (o, fl0)) (parse (step G) 20 ar) /\
     option_map (fun x => (fst (fst x), snd x)) (drunm_x (parse_lr_x G 20) (memo_empty cap) ps)
       = option_map (fun r => (Some r, fl0)) (drun (parse (step G) 20) ps)).
Proof.
  intros. split; [intros s'; apply peek_total_tokens; reflexivity|].
  split; [vm_compute; reflexivity|]. split; [vm_compute; eexists; eexists; reflexivity|].
  intros cap [<-|[<-|[<-|[]]]]; vm_compute; split; reflexivity.
Qed.

(* ... second alternative: Opt(F) + F on "zz" (F-03b): every hypothesis holds, the plain parser answers, the stopping
   handler stops with exactly `seed_read` (the stale seed), so by C03_flag_genuine no fuel gives a flag-free run *)
Example C03_complete_flagged_instance :
  let at_ id cp sv mi := {| nid := id; rsname := None; modalr := true; aslist := sv; skipws := true; white := [32%N];
               callpre := cp; mayidx := mi; custom := false; hasmsg := true; acts := []; calltry := false; slen := 3 |} in
  let word id := Tok (at_ id true false false) [] (KWord [97;98]%N [97;98]%N 1 None false false false) in
  let seq id es := Nary (at_ id true true true) [] NAnd es in
  let opt id e := Enh (at_ id true false false) [] (EOpt None) e in
  let F := Fwd (at_ 20 true false false) [] (Some 0) in
  let G := [word 21] in
  let root := seq 40 [opt 41 F; F] in
  let ar := mkargs root [122;122]%N 0 true true in
  (forall s', peek_total G s') /\
  ids_consistent [(20, 0)] G root = true /\
  (exists o, parse (step G) 20 ar = Some o) /\
  forall cap, In cap [None; Some 1] ->
    exists o' m', parse_lr_x G 20 (memo_empty cap) ar = Some (o', m', Build_flags true false false false false false).
Proof.
  intros. split; [intros s'; apply peek_total_tokens; reflexivity|].
  split; [vm_compute; reflexivity|]. split; [vm_compute; eexists; reflexivity|].
  intros cap [<-|[<-|[]]]; vm_compute; eexists; eexists; reflexivity.
Qed.

(* the tie to the source: Model/LR.v transcribes the text of pyparsing/util.py (LRUMemo, UnboundedMemo), of the bounded-recursion
   block of Forward.parseImpl and of reset_cache quoted in Proofs/LRTie.v; Gen/GenMemo.v is regenerated from /repo on every run *)
Theorem C03_source_pinned : lr_source_text.
Proof. exact lr_source_pinned. Qed.
