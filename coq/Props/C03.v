(* C03 — enabling left-recursion support is transparent for ordinary grammars.
   Statements only.  `parse_lr` (Model/LR.v) is `Forward.parseImpl` with `_left_recursion_enabled` over the memo tables
   UnboundedMemo (m_cap = None) / LRUMemo c (m_cap = Some c); `parse_lr_t` (Model/LRT.v) is the same handler returning, in
   addition, six flags that observe the mechanisms by which the bounded-recursion algorithm can answer differently from
   the plain `Forward.parseImpl`.  On the unchanged tree the property as worded ("no left recursion => same outcomes") is
   REFUTED four times over (`C03_*_refuted`, all confirmed on the implementation: F-03b..F-03e in notes/C03-proofs.md);
   what is TRUE, and proved here for every grammar environment, input, fuel, capacity and starting memo satisfying the
   invariant, is: whenever none of the six mechanisms fires, the answer is the plain parser's. *)
From Coq Require Import List Bool ZArith NArith Arith.
From PP Require Import Model.Str Model.Results Model.Prog Model.Core Model.Entry Model.LR Model.LRT.
From PP Require Import Proofs.LRProofs Proofs.LRTie.
Import ListNotations.

(* 1. erasure: the instrumented handler computes exactly the outcome and the memo of Model/LR.v's handler *)
Theorem C03_erasure : forall (G : env) fuel (m : memo) (a : args),
  option_map fst (parse_lr_t G fuel m a) = parse_lr G fuel m a.
Proof. exact lr_erasure. Qed.

Theorem C03_erasure_entry : forall (G : env) (R : Type) (p : dprog R) fuel (m : memo),
  option_map fst (drunm_t (parse_lr_t G fuel) m p) = drunm (parse_lr G fuel) m p.
Proof. exact (fun G R p fuel m => drunm_er G p fuel m). Qed.

(* 2. transparency.  `memo_ok G tbl s m`: every entry of m (active or retired) that is not a seed is what the plain
      parser answers for that Forward's body at that location with that do_actions, on the string s (the memo key does
      not contain the string).  `fw tbl e`: every Forward node in e agrees with the table nid -> index of its body in G.
      No flag raised (`fl0`)  ==>  the plain parser gives the same outcome, and the invariant is kept.
      The capacity is `m_cap m`: None and every Some c are covered by quantifying over m. *)
Theorem C03_transparent : forall (G : env) (tbl : nat -> option nat) (s : str) fuel (m : memo) (a : args) o m',
  forallb (fw tbl) G = true -> fw tbl (a_e a) = true -> a_s a = s ->
  memo_ok G tbl s m ->
  parse_lr_t G fuel m a = Some (o, m', fl0) ->
  (exists f, parse (step G) f a = Some o) /\ memo_ok G tbl s m'.
Proof. exact lr_transparent. Qed.

(* the same, read on Model/LR.v's own handler *)
Theorem C03_transparent_handler : forall (G : env) (tbl : nat -> option nat) (s : str) fuel (m : memo) (a : args) o m' fl,
  forallb (fw tbl) G = true -> fw tbl (a_e a) = true -> a_s a = s ->
  memo_ok G tbl s m ->
  parse_lr_t G fuel m a = Some (o, m', fl) -> fl_clean fl = true ->
  parse_lr G fuel m a = Some (o, m') /\ (exists f, parse (step G) f a = Some o) /\ memo_ok G tbl s m'.
Proof. exact lr_transparent_lr. Qed.

Theorem C03_invariant_initial : forall (G : env) tbl s cap, memo_ok G tbl s (memo_empty cap).
Proof. exact memo_ok_empty. Qed.

(* 3. entry points, from the empty memo, every capacity *)
Theorem C03_entry_point : forall (G : env) tl dw root keeptabs input parse_all (cap : option nat) fuel r m' fl,
  ids_consistent tl G root = true ->
  drunm_t (parse_lr_t G fuel) (memo_empty cap) (parse_string dw root keeptabs input parse_all) = Some (r, m', fl) ->
  fl_clean fl = true ->
  drunm (parse_lr G fuel) (memo_empty cap) (parse_string dw root keeptabs input parse_all) = Some (r, m') /\
  exists f, drun (parse (step G) f) (parse_string dw root keeptabs input parse_all) = Some r.
Proof. exact lr_parse_string. Qed.

Theorem C03_scan_string : forall (G : env) tl root keeptabs input maxm overlap always_skip (cap : option nat) fuel r m' fl,
  ids_consistent tl G root = true ->
  drunm_t (parse_lr_t G fuel) (memo_empty cap) (scan_string root keeptabs input maxm overlap always_skip) = Some (r, m', fl) ->
  fl_clean fl = true ->
  drunm (parse_lr G fuel) (memo_empty cap) (scan_string root keeptabs input maxm overlap always_skip) = Some (r, m') /\
  exists f, drun (parse (step G) f) (scan_string root keeptabs input maxm overlap always_skip) = Some r.
Proof. exact lr_scan_string. Qed.

(* 4. non-vacuity.  F <<= Word("ab"); (F + 'b' + 'c') | (F + 'b') on "a b" (the shared Forward is re-entered at the same
      location after backtracking: the memo is hit): no flag, for UnboundedMemo, LRUMemo 1 and LRUMemo 2; the hypotheses of
      C03_transparent / C03_entry_point hold, the answers coincide *)
Example C03_instance :
  let at_ id cp sv mi := {| nid := id; rsname := None; modalr := true; aslist := sv; skipws := true; white := [32%N];
               callpre := cp; mayidx := mi; custom := false; hasmsg := true; acts := []; calltry := false; slen := 3 |} in
  let lit c id := Tok (at_ id true false false) [] (KLit [c]) in
  let word id := Tok (at_ id true false false) [] (KWord [97;98]%N [97;98]%N 1 None false false false) in
  let seq id es := Nary (at_ id true true true) [] NAnd es in
  let alt id es := Nary (at_ id false false true) [] NMatchFirst es in
  let F := Fwd (at_ 20 true false false) [] (Some 0) in
  let G := [word 21] in
  let root := alt 10 [seq 11 [F; lit 98%N 2; lit 99%N 3]; seq 12 [F; lit 98%N 2]] in
  let ar := mkargs root [97; 32; 98]%N 0 true true in
  let ps := parse_string [32%N] root false [97; 32; 98]%N false in
  ids_consistent [(20, 0)] G root = true /\
  (exists l r, parse (step G) 20 ar = Some (Ok l r)) /\
  (forall cap, In cap [None; Some 1; Some 2] ->
     option_map (fun x => (fst (fst x), snd x)) (parse_lr_t G 20 (memo_empty cap) ar)
       = option_map (fun o => (o, fl0)) (parse (step G) 20 ar) /\
     option_map (fun x => (fst (fst x), snd x)) (drunm_t (parse_lr_t G 20) (memo_empty cap) ps)
       = option_map (fun o => (o, fl0)) (drun (parse (step G) 20) ps)).
Proof.
  intros. split; [vm_compute; reflexivity|]. split; [vm_compute; eexists; eexists; reflexivity|].
  intros cap [<-|[<-|[<-|[]]]]; vm_compute; split; reflexivity.
Qed.

(* ... and the flag discriminates: E <<= E + '+' + N | N on "1+2+3" reads its seed (the hypothesis of C03_transparent is
   not met; the plain parser diverges on this grammar: out of fuel for every fuel, here 30) *)
Example C03_flag_discriminates :
  let at_ id cp sv mi := {| nid := id; rsname := None; modalr := true; aslist := sv; skipws := true; white := [32%N];
               callpre := cp; mayidx := mi; custom := false; hasmsg := true; acts := []; calltry := false; slen := 3 |} in
  let lit c id := Tok (at_ id true false false) [] (KLit [c]) in
  let num id := Tok (at_ id true false false) [] (KWord [49;50;51]%N [49;50;51]%N 1 None false false false) in
  let seq id es := Nary (at_ id true true true) [] NAnd es in
  let alt id es := Nary (at_ id false false true) [] NMatchFirst es in
  let E := Fwd (at_ 30 true false false) [] (Some 0) in
  let G := [alt 31 [seq 32 [E; lit 43%N 33; num 34]; num 35]] in
  let ar := mkargs E [49;43;50;43;51]%N 0 true true in
  ids_consistent [(30, 0)] G E = true /\
  parse (step G) 30 ar = None /\
  exists r m' fl, parse_lr_t G 30 (memo_empty None) ar = Some (Ok 5 r, m', fl) /\ seed_read fl = true.
Proof. intros. vm_compute. split; [reflexivity|]. split; [reflexivity|]. do 3 eexists. split; reflexivity. Qed.

(* 5. the property as worded is refuted by the faithful model: four mechanisms, each on a grammar WITHOUT left recursion
      (the only Forward's body contains no Forward), each raising exactly one flag, each confirmed on the implementation.
      They show that none of the corresponding hypotheses of C03_transparent can be dropped. *)

(* F-03b, stale seed: the `raise` taken when the body fails before any match leaves the seed in the memo; the next parse
   of the same Forward at the same location raises "Forward recursion without base case".  Opt(F) + F on "zz". *)
Theorem C03_stale_seed_refuted :
  let at_ id cp sv mi := {| nid := id; rsname := None; modalr := true; aslist := sv; skipws := true; white := [32%N];
               callpre := cp; mayidx := mi; custom := false; hasmsg := true; acts := []; calltry := false; slen := 3 |} in
  let word id := Tok (at_ id true false false) [] (KWord [97;98]%N [97;98]%N 1 None false false false) in
  let seq id es := Nary (at_ id true true true) [] NAnd es in
  let opt id e := Enh (at_ id true false false) [] (EOpt None) e in
  let F := Fwd (at_ 20 true false false) [] (Some 0) in
  let G := [word 21] in
  let root := seq 40 [opt 41 F; F] in
  let ar := mkargs root [122;122]%N 0 true true in
  ids_consistent [(20, 0)] G root = true /\
  forall cap, In cap [None; Some 1] ->
  exists o1 o2 m' fl,
    parse (step G) 20 ar = Some o1 /\ parse_lr_t G 20 (memo_empty cap) ar = Some (o2, m', fl) /\ o1 <> o2 /\
    fl = Build_flags true false false false false false.
Proof.
  intros. split; [vm_compute; reflexivity|].
  intros cap [<-|[<-|[]]]; vm_compute; do 4 eexists; (split; [reflexivity|]); (split; [reflexivity|]);
    (split; [discriminate|reflexivity]).
Qed.

(* F-03c, the failed action pass overwrites the do_actions=False entry: F <<= Word("ab").add_condition(false);
   F | SkipTo(F) on "ab": plain [''], left-recursion mode ['a'] *)
Theorem C03_peek_taint_refuted :
  let at_ id cp sv mi ac := {| nid := id; rsname := None; modalr := true; aslist := sv; skipws := true; white := [32%N];
               callpre := cp; mayidx := mi; custom := false; hasmsg := true; acts := ac; calltry := false; slen := 3 |} in
  let wordc id := Tok (at_ id true false false [ACond 100 false 7]) [] (KWord [97;98]%N [97;98]%N 1 None false false false) in
  let alt id es := Nary (at_ id false false true []) [] NMatchFirst es in
  let skipto id e := Skip (at_ id true false false []) [] e false [] None in
  let F := Fwd (at_ 20 true false false []) [] (Some 0) in
  let G := [wordc 21] in
  let root := alt 10 [F; skipto 11 F] in
  let ar := mkargs root [97; 98]%N 0 true true in
  ids_consistent [(20, 0)] G root = true /\
  forall cap, In cap [None; Some 1] ->
  exists o1 o2 m' fl,
    parse (step G) 20 ar = Some o1 /\ parse_lr_t G 20 (memo_empty cap) ar = Some (o2, m', fl) /\ o1 <> o2 /\
    fl = Build_flags false false true false false false.
Proof.
  intros. split; [vm_compute; reflexivity|].
  intros cap [<-|[<-|[]]]; vm_compute; do 4 eexists; (split; [reflexivity|]); (split; [reflexivity|]);
    (split; [discriminate|reflexivity]).
Qed.

(* F-03d, the normal do_actions=True exit replaces the do_actions=False entry by the action-pass answer:
   W = Word("ab"); F <<= (W.add_condition(false) + 'x') | W; (F + 'q') | Or([F + 'x', W]) on "ab x":
   plain ['ab'], left-recursion mode ['ab', 'x'] *)
Theorem C03_peek_replaced_refuted :
  let at_ id cp sv mi ac := {| nid := id; rsname := None; modalr := true; aslist := sv; skipws := true; white := [32%N];
               callpre := cp; mayidx := mi; custom := false; hasmsg := true; acts := ac; calltry := false; slen := 3 |} in
  let lit c id := Tok (at_ id true false false []) [] (KLit [c]) in
  let word id := Tok (at_ id true false false []) [] (KWord [97;98]%N [97;98]%N 1 None false false false) in
  let wordc id := Tok (at_ id true false false [ACond 100 false 7]) [] (KWord [97;98]%N [97;98]%N 1 None false false false) in
  let seq id es := Nary (at_ id true true true []) [] NAnd es in
  let alt id es := Nary (at_ id false false true []) [] NMatchFirst es in
  let orr id es := Nary (at_ id false false true []) [] NOr es in
  let F := Fwd (at_ 20 true false false []) [] (Some 0) in
  let G := [alt 22 [seq 23 [wordc 21; lit 120%N 24]; word 25]] in
  let root := alt 10 [seq 11 [F; lit 113%N 12]; orr 13 [seq 14 [F; lit 120%N 15]; word 16]] in
  let ar := mkargs root [97; 98; 32; 120]%N 0 true true in
  ids_consistent [(20, 0)] G root = true /\
  forall cap, In cap [None; Some 1] ->
  exists o1 o2 m' fl,
    parse (step G) 20 ar = Some o1 /\ parse_lr_t G 20 (memo_empty cap) ar = Some (o2, m', fl) /\ o1 <> o2 /\
    fl = Build_flags false false false true false false.
Proof.
  intros. split; [vm_compute; reflexivity|].
  intros cap [<-|[<-|[]]]; vm_compute; do 4 eexists; (split; [reflexivity|]); (split; [reflexivity|]);
    (split; [discriminate|reflexivity]).
Qed.

(* F-03e, the exception of the do_actions=False pass is re-raised to a do_actions=True caller:
   F <<= Word("ab").add_condition(false, message="nope") + 'x' on "ab y": plain "nope" at 0, left-recursion mode
   "Expected 'x'" at 3 *)
Theorem C03_peek_error_refuted :
  let at_ id cp sv mi ac := {| nid := id; rsname := None; modalr := true; aslist := sv; skipws := true; white := [32%N];
               callpre := cp; mayidx := mi; custom := false; hasmsg := true; acts := ac; calltry := false; slen := 3 |} in
  let lit c id := Tok (at_ id true false false []) [] (KLit [c]) in
  let wordc id := Tok (at_ id true false false [ACond 100 false 7]) [] (KWord [97;98]%N [97;98]%N 1 None false false false) in
  let seq id es := Nary (at_ id true true true []) [] NAnd es in
  let F := Fwd (at_ 20 true false false []) [] (Some 0) in
  let G := [seq 23 [wordc 21; lit 120%N 24]] in
  let ar := mkargs F [97; 98; 32; 121]%N 0 true true in
  ids_consistent [(20, 0)] G F = true /\
  forall cap, In cap [None; Some 1] ->
  exists o1 o2 m' fl,
    parse (step G) 20 ar = Some o1 /\ parse_lr_t G 20 (memo_empty cap) ar = Some (o2, m', fl) /\ o1 <> o2 /\
    fl = Build_flags false false false false true false.
Proof.
  intros. split; [vm_compute; reflexivity|].
  intros cap [<-|[<-|[]]]; vm_compute; do 4 eexists; (split; [reflexivity|]); (split; [reflexivity|]);
    (split; [discriminate|reflexivity]).
Qed.

(* the tie to the source: Model/LR.v transcribes the text of pyparsing/util.py (LRUMemo, UnboundedMemo), of the bounded-recursion
   block of Forward.parseImpl and of reset_cache quoted in Proofs/LRTie.v; Gen/GenMemo.v is regenerated from /repo on every run *)
Theorem C03_source_pinned : lr_source_text.
Proof. exact lr_source_pinned. Qed.
