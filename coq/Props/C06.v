(* C06 — parsing is total: only ParseBaseException escapes, with sane diagnostics.
   Statements only.  `wf K` is the boolean well-formedness of a grammar relative to the set K of exception kinds that its
   parse actions are allowed to raise: it also demands that an empty And has mayIndexError set (as the constructor does)
   and excludes the one construct the model does not implement (non-exact PrecededBy).  Each ('&') is covered. *)
From Coq Require Import List ZArith NArith Bool.
From PP Require Import Model.Str Model.Results Model.Prog Model.Core Model.Entry Gen.GenLoc Proofs.LocProofs Proofs.Total Proofs.LocBound.
Import ListNotations.

Definition not_index (k : xkind) : bool := negb (is_index k).

(* No internal IndexError ever escapes a `_parse` call, whatever the grammar's actions raise (an IndexError raised by an
   action travels as _ParseActionIndexError and is unwrapped only by parse_string): every out-of-range `instring[loc]`
   inside a parseImpl sits under the `mayIndexError or pre_loc >= len` guard or an `except IndexError`. *)
Theorem C06_no_internal_index : forall (G : env),
  forallb (wf not_index) G = true ->
  forall fuel a o, wf not_index (a_e a) = true ->
  parse (step G) fuel a = Some o ->
  match o with Err x => xk x <> XIndex | _ => True end.
Proof.
  intros G HG fuel a o Hw H.
  pose proof (parse_kinds not_index eq_refl eq_refl eq_refl G HG fuel a o Hw H) as Hk.
  destruct o as [l r|x|]; try exact I. unfold okK, not_index in Hk. intros E. rewrite E in Hk. discriminate.
Qed.

(* If the parse actions raise nothing but ParseException / ParseFatalException / ParseSyntaxException, nothing else
   escapes: in particular no IndexError, KeyError, TypeError, AttributeError. *)
Theorem C06_only_pbe : forall (G : env),
  forallb (wf is_pbe) G = true ->
  forall fuel a o, wf is_pbe (a_e a) = true ->
  parse (step G) fuel a = Some o ->
  match o with Err x => is_pbe (xk x) = true | _ => True end.
Proof. exact (fun G HG fuel a o Hw H => parse_kinds is_pbe eq_refl eq_refl eq_refl G HG fuel a o Hw H). Qed.

(* parse_string (parse_all = False): what it raises is what the root's `_parse` raised, with an action's wrapped
   IndexError unwrapped; hence a ParseBaseException unless a user action raised something else *)
Theorem C06_parse_string : forall (G : env) dw root keeptabs input fuel x,
  forallb (wf is_pbe) G = true -> wf is_pbe root = true ->
  drun (parse (step G) fuel) (parse_string dw root keeptabs input false) = Some (PErr x) ->
  is_pbe (xk x) = true.
Proof.
  intros G dw root kt input fuel x HG Hw H. unfold parse_string in H. cbn [drun] in H.
  destruct (parse (step G) fuel _) as [o|] eqn:E; [|discriminate].
  assert (Hk : okK is_pbe o).
  { eapply (parse_kinds is_pbe eq_refl eq_refl eq_refl G HG fuel); [|exact E]. exact Hw. }
  destruct o as [l r|y|]; simpl in H; try discriminate. injection H as <-.
  simpl in Hk. unfold unwrap. destruct (xk y) eqn:Ek; simpl in *; rewrite ?Ek; try discriminate; reflexivity.
Qed.

(* diagnostics: for every location inside the parsed string, lineno / col / line evaluate and agree with the string
   (C14_consistent, re-exported here because exception.lineno/col/line are exactly these functions of exception.loc) *)
Theorem C06_diagnostics_total : forall (s : str) (loc : Z), (0 <= loc <= zlen s)%Z ->
  (1 <= gen_lineno loc s <= Z.of_nat (length (lines s)))%Z /\
  nth (Z.to_nat (gen_lineno loc s - 1)) (lines s) [] = gen_line loc s /\
  (1 <= gen_col loc s <= zlen (gen_line loc s) + 1)%Z.
Proof.
  intros s loc H. destruct (loc_consistent s loc H) as (A & B & C & _). repeat split; try apply A; try exact B; apply C.
Qed.

(* non-vacuity: a grammar with a fatal condition is well-formed for is_pbe only without conditions; with not_index always *)
Example C06_instance :
  let a_ := {| nid := 1; rsname := None; modalr := true; aslist := false; skipws := true; white := [32%N]; callpre := true;
               mayidx := false; custom := false; hasmsg := true; acts := [ARaise XIndex 1]; calltry := false; slen := 3 |} in
  let g := Tok a_ [] (KLit [97%N]) in
  wf not_index g = true /\ wf is_pbe g = false /\
  parse (step []) 3 (mkargs g [97%N] 0 true true) = Some (Err (mkx XActIndex 0 (MUser 1) None)).
Proof. vm_compute. repeat split. Qed.

(* ---- the location bound: 0 <= loc <= len(parsed string) + 1 ---------------------------------------------------------
   `lb` (Proofs/LocBound.v) is the boolean class of grammars for which the bound is proved.  It is restricted (hence
   `_partial`); what it excludes, anywhere in the grammar (children, ignore expressions, stop_on / fail_on operands,
   SkipTo's ignorer, Forward bodies):
     * GoToColumn — it genuinely violates the bound (F-06, C06_loc_bound_gotocolumn_refuted below);
     * non-exact PrecededBy — not implemented by the model;
     * a caseless Keyword whose dumped `caselessmatch` is shorter than `match` (never the case for `match.upper()`).
   Everything else of the model is inside: all other tokens, And (with '-'), MatchFirst, Or, Each, every enhancement
   (Located, exact PrecededBy, FollowedBy, NotAny, Opt, ...), ZeroOrMore / OneOrMore with stop_on, SkipTo with ignore and
   fail_on, Forward recursion, ignore expressions, and parse actions (the model's action language raises at the location
   the action is called with; an action that constructs an exception with a location of its own choice is not in it).
   The bound is proved for exceptions of EVERY kind, not only ParseBaseExceptions.  The "+ 1" cannot be dropped:
   StringEnd / LineEnd return len + 1 at loc = len. *)
Theorem C06_loc_bound_partial : forall (G : env),
  forallb lb G = true ->
  forall fuel a o, lb (a_e a) = true -> (a_loc a <= length (a_s a) + 1)%nat ->
  parse (step G) fuel a = Some o ->
  match o with
  | Ok l _ => (l <= length (a_s a) + 1)%nat
  | Err x => (0 <= xloc x <= Z.of_nat (length (a_s a)) + 1)%Z
  | Div => True
  end.
Proof. exact parse_loc_bound. Qed.

(* the entry point, parse_all or not: `loc` of whatever parse_string raises indexes the string that was parsed
   (tab-expanded unless parse_with_tabs) *)
Theorem C06_parse_string_loc_bound_partial : forall (G : env) dw root keeptabs input parse_all fuel x,
  forallb lb G = true -> lb root = true ->
  drun (parse (step G) fuel) (parse_string dw root keeptabs input parse_all) = Some (PErr x) ->
  (0 <= xloc x <= Z.of_nat (length (if keeptabs then input else expandtabs input)) + 1)%Z.
Proof. exact parse_string_loc_bound. Qed.

(* non-vacuity: a recursive grammar (Forward, Or, MatchFirst, And, ZeroOrMore, Opt, Word, Literal, Keyword; dump of
     expr = Forward(); atom = Word("ab") | "(" + expr + ")"; expr <<= atom + ZeroOrMore(Opt(",") + atom);
     root = expr ^ Keyword("end", ident_chars="den"))
   is in the class, and parse_string(parse_all=True) on "(a,b" and on "(a b) x" raises ParseException at 4 = len and at
   6 = len - 1 ("Expected ')'" / "Expected end of text"), as the implementation does *)
Example C06_loc_bound_instance :
  forallb lb ex_G = true /\ lb ex_root = true /\
  drun (parse (step ex_G) 30) (parse_string DEFAULT_WHITE ex_root false [40;97;44;98]%N true)
    = Some (PErr (mkx XParse 4 (MNode 9 0) (Some 9%nat))) /\
  drun (parse (step ex_G) 30) (parse_string DEFAULT_WHITE ex_root false [40;97;32;98;41;32;120]%N true)
    = Some (PErr (mkx XParse 6 (MNode ID_SE_END 0) (Some ID_SE_END))).
Proof. vm_compute. repeat split. Qed.

(* F-06 on the model: (GoToColumn(3) + Word("ab")).parse_string("") raises ParseException("Expected W:(ab)") with
   loc = 2 > len + 1 = 1: GoToColumn.parseImpl returns loc + col - thiscol without looking at the end of the string.
   The grammar fails `lb` only because of its GoToColumn. *)
Theorem C06_loc_bound_gotocolumn_refuted : exists (G : env) root input fuel x,
  lb root = false /\
  drun (parse (step G) fuel) (parse_string DEFAULT_WHITE root false input false) = Some (PErr x) /\
  is_pbe (xk x) = true /\
  (Z.of_nat (length (expandtabs input)) + 1 < xloc x)%Z.
Proof.
  exists [], gotocol_root, [], 5%nat, (mkx XParse 2 (MNode 3 0) (Some 3%nat)). vm_compute. repeat split.
Qed.
