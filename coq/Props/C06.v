(* C06 — parsing is total: only ParseBaseException escapes, with sane diagnostics.
   Statements only.  `wf K` is the boolean well-formedness of a grammar relative to the set K of exception kinds that its
   parse actions are allowed to raise: it also demands that an empty And has mayIndexError set (as the constructor does)
   and excludes the one construct the model does not implement (non-exact PrecededBy).  Each ('&') is covered. *)
From Coq Require Import List ZArith NArith Bool.
From PP Require Import Model.Str Model.Results Model.Prog Model.Core Model.Entry Gen.GenLoc Proofs.LocProofs Proofs.Total.
Import ListNotations.

Definition not_index (k : xkind) : bool := negb (is_index k).

(* No internal IndexError ever escapes a `_parse` call, whatever the grammar's actions raise (an IndexError raised by an
   action travels as _ParseActionIndexError and is unwrapped only by parse_string): every out-of-range `instring[loc]`
   inside a parseImpl sits under the `mayIndexError or pre_loc >= len` guard or an `except IndexError`. *)
Theorem C06_no_internal_index : forall (G : env),
  forallb (wf not_index) G = true ->
  forall fuel a o, wf not_index (a_e a) = true ->
  parse (step G) fuel a = Some o ->
  match o with Err x => xk x <> XIndex | _ => True end.
Proof.
  intros G HG fuel a o Hw H.
  pose proof (parse_kinds not_index eq_refl eq_refl eq_refl G HG fuel a o Hw H) as Hk.
  destruct o as [l r|x|]; try exact I. unfold okK, not_index in Hk. intros E. rewrite E in Hk. discriminate.
Qed.

(* If the parse actions raise nothing but ParseException / ParseFatalException / ParseSyntaxException, nothing else
   escapes: in particular no IndexError, KeyError, TypeError, AttributeError. *)
Theorem C06_only_pbe : forall (G : env),
  forallb (wf is_pbe) G = true ->
  forall fuel a o, wf is_pbe (a_e a) = true ->
  parse (step G) fuel a = Some o ->
  match o with Err x => is_pbe (xk x) = true | _ => True end.
Proof. exact (fun G HG fuel a o Hw H => parse_kinds is_pbe eq_refl eq_refl eq_refl G HG fuel a o Hw H). Qed.

(* parse_string (parse_all = False): what it raises is what the root's `_parse` raised, with an action's wrapped
   IndexError unwrapped; hence a ParseBaseException unless a user action raised something else *)
Theorem C06_parse_string : forall (G : env) dw root keeptabs input fuel x,
  forallb (wf is_pbe) G = true -> wf is_pbe root = true ->
  drun (parse (step G) fuel) (parse_string dw root keeptabs input false) = Some (PErr x) ->
  is_pbe (xk x) = true.
Proof.
  intros G dw root kt input fuel x HG Hw H. unfold parse_string in H. cbn [drun] in H.
  destruct (parse (step G) fuel _) as [o|] eqn:E; [|discriminate].
  assert (Hk : okK is_pbe o).
  { eapply (parse_kinds is_pbe eq_refl eq_refl eq_refl G HG fuel); [|exact E]. exact Hw. }
  destruct o as [l r|y|]; simpl in H; try discriminate. injection H as <-.
  simpl in Hk. unfold unwrap. destruct (xk y) eqn:Ek; simpl in *; rewrite ?Ek; try discriminate; reflexivity.
Qed.

(* diagnostics: for every location inside the parsed string, lineno / col / line evaluate and agree with the string
   (C14_consistent, re-exported here because exception.lineno/col/line are exactly these functions of exception.loc) *)
Theorem C06_diagnostics_total : forall (s : str) (loc : Z), (0 <= loc <= zlen s)%Z ->
  (1 <= gen_lineno loc s <= Z.of_nat (length (lines s)))%Z /\
  nth (Z.to_nat (gen_lineno loc s - 1)) (lines s) [] = gen_line loc s /\
  (1 <= gen_col loc s <= zlen (gen_line loc s) + 1)%Z.
Proof.
  intros s loc H. destruct (loc_consistent s loc H) as (A & B & C & _). repeat split; try apply A; try exact B; apply C.
Qed.

(* non-vacuity: a grammar with a fatal condition is well-formed for is_pbe only without conditions; with not_index always *)
Example C06_instance :
  let a_ := {| nid := 1; rsname := None; modalr := true; aslist := false; skipws := true; white := [32%N]; callpre := true;
               mayidx := false; custom := false; hasmsg := true; acts := [ARaise XIndex 1]; calltry := false; slen := 3 |} in
  let g := Tok a_ [] (KLit [97%N]) in
  wf not_index g = true /\ wf is_pbe g = false /\
  parse (step []) 3 (mkargs g [97%N] 0 true true) = Some (Err (mkx XActIndex 0 (MUser 1) None)).
Proof. vm_compute. repeat split. Qed.
