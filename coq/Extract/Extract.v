(* Extraction of the executable model for the correspondence driver: ExtrOcamlBasic only; nat, N, Z, positive stay
   Coq datatypes; no Extract Constant / Extract Inductive beyond that file's (bool, option, unit, list, prod, sumbool). *)
From Coq Require Import ExtrOcamlBasic List ZArith NArith.
From PP Require Import Model.Str Model.Results Model.Prog Model.Core Model.Entry Model.Peg Model.LR Model.LRT Model.Transform Proofs.EqDec.
Extraction Language OCaml.
Set Extraction Output Directory ".".
Extraction "model.ml" Prog.parse Prog.parsec Core.step Entry.parse_string Entry.scan_string Entry.drun Entry.drunc
  EqDec.args_eqb Str.expandtabs Results.pr_as_list Peg.peg Peg.in_class Peg.env_in_class Peg.in_ref_class Peg.env_in_ref_class LR.parse_lr LR.drunm LR.memo_empty LRT.parse_lr_t LRT.drunm_t Transform.transform.
