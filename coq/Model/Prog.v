(* The central device (DESIGN 2.2): one-level semantics as resumption trees, generic in the argument type A
   (what `_parse` is called with) and the outcome type O (value or exception).  `step` says what ONE element does with
   its arguments, as a tree whose `Call` nodes are the recursive `_parse` calls together with the code after them.
   Handlers give `Call` a meaning: `parse` (plain recursion on fuel) and `parsec` (packrat cache in front of it). *)
From Coq Require Import List Arith Bool.
Import ListNotations.

Section Prog.
  Variables A O : Type.

  Inductive prog := Ret (o : O) | Call (a : A) (k : O -> prog).

  (* None = out of fuel; short-circuits so that continuations never see it *)
  Fixpoint run (rec : A -> option O) (p : prog) : option O :=
    match p with
    | Ret o => Some o
    | Call a k => match rec a with None => None | Some o => run rec (k o) end
    end.

  Variable step : A -> prog.

  Fixpoint parse (fuel : nat) (a : A) : option O :=
    match fuel with 0 => None | S f => run (parse f) (step a) end.

  (* ---------------- packrat: `_parseCache` in front of `_parseNoCache` ---------------- *)
  Variable A_eqb : A -> A -> bool.

  Definition cache := list (A * O).            (* insertion-ordered dict *)

  Fixpoint lookup (c : cache) (a : A) : option O :=
    match c with [] => None | (b, o) :: c' => if A_eqb b a then Some o else lookup c' a end.

  (* _FifoCache.set_: store, then `while len(cache) > size: pop oldest` *)
  Fixpoint trim (n : nat) (c : cache) (sz : nat) : cache :=
    match n with 0 => c | S n' => if Nat.ltb sz (length c) then trim n' (tl c) sz else c end.

  Definition cset (size : option nat) (c : cache) (a : A) (o : O) : cache :=
    let c1 := match lookup c a with
              | Some _ => map (fun p => if A_eqb (fst p) a then (fst p, o) else p) c
              | None => c ++ [(a, o)]
              end in
    match size with None => c1 | Some n => trim (length c1) c1 n end.

  Variable size : option nat.                  (* None = _UnboundedCache, Some n = _FifoCache(n) *)

  Fixpoint runc (rec : cache -> A -> cache * option O) (c : cache) (p : prog) : cache * option O :=
    match p with
    | Ret o => (c, Some o)
    | Call a k => let '(c', r) := rec c a in
                  match r with None => (c', None) | Some o => runc rec c' (k o) end
    end.

  Fixpoint parsec (fuel : nat) (c : cache) (a : A) : cache * option O :=
    match fuel with
    | 0 => (c, None)
    | S f =>
      match lookup c a with
      | Some o => (c, Some o)                                   (* HIT *)
      | None => let '(c', r) := runc (parsec f) c (step a) in   (* MISS *)
                match r with
                | None => (c', None)
                | Some o => (cset size c' a o, Some o)
                end
      end
    end.
End Prog.

Arguments Ret {A O}.
Arguments Call {A O}.
Arguments run {A O}.
Arguments parse {A O}.
Arguments lookup {A O}.
Arguments trim {A O}.
Arguments cset {A O}.
Arguments runc {A O}.
Arguments parsec {A O}.
