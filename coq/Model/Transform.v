(* transform_string (pyparsing/core.py), as the documented function of scan_string's match list:
     out = []; lastE = 0
     for t, s, e in scan_string(instring):        (with keepTabs forced on)
         if s > lastE: out.append(instring[lastE:s])
         lastE = e
         if not t: continue
         out += t.as_list()
     out.append(instring[lastE:])
     out = [o for o in out if o]
     return "".join(str(s) for s in _flatten(out))
   Executable definitions only. *)
From Coq Require Import List ZArith NArith Bool Arith.
From PP Require Import Model.Str Model.Results.
Import ListNotations.

Definition sub (s : str) (a b : nat) : str := firstn (b - a) (skipn a s).

(* one entry of `out`: a piece of the input, or one item of some match's t.as_list() *)
Inductive item := IText (s : str) | ITok (t : tok).

(* bool(t) for a ParseResults: `not not (self._toklist or self._tokdict)` *)
Definition pr_truthy (r : pres) : bool :=
  match toks r, dict r with [], [] => false | _, _ => true end.

Fixpoint out_items (orig : str) (ms : list (pres * nat * nat)) (last : nat) : list item :=
  match ms with
  | [] => [IText (skipn last orig)]
  | (t, s, e) :: rest =>
    (if Nat.ltb last s then [IText (sub orig last s)] else []) ++
    (if pr_truthy t then map ITok (toks t) else []) ++
    out_items orig rest e
  end.

(* `if o` on an entry of out: '' , 0, False, None, [] and an empty nested result (as_list gives []) are dropped *)
Definition tok_truthy (t : tok) : bool :=
  match t with
  | TStr [] => false | TStr _ => true
  | TInt z => negb (Z.eqb z 0)
  | TBool b => b
  | TNone => false
  | TList [] => false | TList _ => true
  | TPR r => match toks r with [] => false | _ => true end
  end.
Definition item_truthy (i : item) : bool :=
  match i with IText [] => false | IText _ => true | ITok t => tok_truthy t end.

(* str(x) for every leaf of _flatten(item): nested lists / results are flattened, leaves keep their own str() *)
Fixpoint leaf_strs (t : tok) : list str :=
  match t with
  | TStr s => [s]
  | TInt z => [str_of_Z z]
  | TBool b => [if b then str_True else str_False]
  | TNone => [str_None]
  | TList l => flat_map leaf_strs l
  | TPR r => flat_map leaf_strs (toks r)
  end.
Definition item_strs (i : item) : list str := match i with IText s => [s] | ITok t => leaf_strs t end.

Definition transform (orig : str) (ms : list (pres * nat * nat)) : str :=
  concat (flat_map item_strs (filter item_truthy (out_items orig ms 0))).

(* the reading of the property: unmatched text verbatim, each match replaced by the str() of all its tokens *)
Fixpoint transform_ref (orig : str) (ms : list (pres * nat * nat)) (last : nat) : str :=
  match ms with
  | [] => skipn last orig
  | (t, s, e) :: rest => sub orig last s ++ concat (flat_map leaf_strs (toks t)) ++ transform_ref orig rest e
  end.
