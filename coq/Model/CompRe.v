(* Model of pyparsing.util.make_compressed_re.
   max_level = 0: the non-recursive fallback (an alternation of the escaped words, longest escaped text first, or one
   character class when every word is a single character) — `compressed0`.
   max_level >= 1: the recursive grouping by first character — `comp_go`, `compressed_re`.
   Also `re.escape` at the text level (`re_escape`) and a reader of escaped literal text (`read_lit`).
   Executable definitions only. *)
From Coq Require Import List NArith Arith Bool Lia.
From PP Require Import Model.Str Model.Regex.
Import ListNotations.

(* re.escape escapes exactly these (re._special_chars_map): ()[]{}?*+-|^$\.&~# \t\n\r\v\f *)
Definition re_special : list char :=
  [40; 41; 91; 93; 123; 125; 63; 42; 43; 45; 124; 94; 36; 92; 46; 38; 126; 35; 32; 9; 10; 13; 11; 12]%N.
Definition escaped_len (w : str) : nat := length w + length (filter (fun c => mem_char c re_special) w).

(* list({}.fromkeys(word_list)) : first occurrences, in order *)
Fixpoint dedup (l : list str) : list str :=
  match l with
  | [] => []
  | x :: t => x :: filter (fun y => negb (str_eqb x y)) (dedup t)
  end.

(* sorted(..., key=len, reverse=True) : stable, descending *)
Fixpoint insert_desc (key : str -> nat) (x : str) (l : list str) : list str :=
  match l with
  | [] => [x]
  | y :: t => if key x <? key y then y :: insert_desc key x t else x :: l
  end.
Definition sort_desc (key : str -> nat) (l : list str) : list str := fold_right (insert_desc key) [] l.

Definition compressed0 (words : list str) : re :=
  let ws := dedup words in
  if existsb (fun w => 1 <? length w) ws
  then ralt (map rlit (sort_desc escaped_len ws))
  else RSet false false (map CI_char (concat ws)).

(* ================================================================== max_level >= 1 : the recursive prefix grouping

   make_compressed_re(word_list, max_level, _level=1):
       word_list = list({}.fromkeys(word_list))                                   -> dedup
       for initial, suffixes in get_suffixes_from_common_prefixes(sorted(word_list)):
           itertools.groupby(namelist, key=lambda s: s[:1])                      -> group_first (sort_asc ...)
           sorted([s[1:] for s in suffixes], key=len, reverse=True)              -> sort_desc length (map (skipn 1) ..)
           (the one-word branch `yield namelist[0][0], [namelist[0][1:]]` is the same pair for a non-empty word)
           trailing = "?" if "" in suffixes; suffixes.remove("")                  -> has_empty / remove_empty
           ...                                                                    -> group_re
       "".join(ret) with sep "|"                                                  -> ralt
   `_level < max_level` is the counter `fuel = max_level - _level` (None = the last level, Some = one more recursion).
   The text is modelled at the AST level (the AST that sre_parse gives for the emitted text, modulo association of
   sequences and sre_parse's own rewriting of alternations, which the correspondence check normalises):
   `re.escape(w)` is `rlit w`, `[...]` with `_escape_regex_range_chars` is the set of the characters, `(?:X)` is
   `RGroup None X`, `X?` is `ROpt Greedy X`.  `non_capturing_groups` is fixed to its default True. *)

(* Python's str `<` : code-point lexicographic, a proper prefix is smaller *)
Fixpoint str_ltb (a b : str) : bool :=
  match a, b with
  | _, [] => false
  | [], _ :: _ => true
  | x :: a', y :: b' => N.ltb x y || (N.eqb x y && str_ltb a' b')
  end.

(* sorted(l) : stable insertion sort, ascending *)
Fixpoint insert_asc (x : str) (l : list str) : list str :=
  match l with
  | [] => [x]
  | y :: t => if str_ltb y x then y :: insert_asc x t else x :: l
  end.
Definition sort_asc (l : list str) : list str := fold_right insert_asc [] l.

(* itertools.groupby(l, key=lambda s: s[:1]) : maximal runs of consecutive words with the same s[:1] *)
Fixpoint group_first (l : list str) : list (str * list str) :=
  match l with
  | [] => []
  | w :: t =>
    match group_first t with
    | (k, g) :: rest => if str_eqb (firstn 1 w) k then (k, w :: g) :: rest else (firstn 1 w, [w]) :: (k, g) :: rest
    | [] => [(firstn 1 w, [w])]
    end
  end.

Definition is_empty_str (w : str) : bool := match w with [] => true | _ => false end.
Definition has_empty (l : list str) : bool := existsb is_empty_str l.
(* list.remove("") : the first occurrence *)
Fixpoint remove_empty (l : list str) : list str :=
  match l with
  | [] => []
  | w :: t => if is_empty_str w then t else w :: remove_empty t
  end.

(* trailing = "?" and suffixes.remove("") when "" in suffixes *)
Definition strip_empty (l : list str) : list str := if has_empty l then remove_empty l else l.

Definition all_len1 (l : list str) : bool := forallb (fun w => length w =? 1) l.
Definition opt_if (b : bool) (r : re) : re := if b then ROpt Greedy r else r.

(* one iteration of the for loop: the text appended for (initial, suffixes); `rec` is the recursive call when
   _level < max_level *)
Definition group_re (rec : option (list str -> re)) (initial : str) (suffixes0 : list str) : re :=
  let trailing := has_empty suffixes0 in
  let suffixes := strip_empty suffixes0 in
  if 1 <? length suffixes then
    if all_len1 suffixes then
      RSeq (rlit initial) (opt_if trailing (RSet false false (map CI_char (concat suffixes))))
    else
      match rec with
      | Some f => RSeq (rlit initial) (opt_if trailing (RGroup None (f (sort_asc suffixes))))
      | None => RSeq (rlit initial) (opt_if trailing (RGroup None (ralt (map rlit (sort_desc (@length char) suffixes)))))
      end
  else
    match suffixes with
    | suffix :: _ =>
        if (1 <? escaped_len suffix) && trailing
        then RSeq (rlit initial) (ROpt Greedy (RGroup None (rlit suffix)))
        else RSeq (rlit initial) (opt_if trailing (rlit suffix))
    | [] => rlit initial
    end.

(* the for loop over the groups of the (deduplicated) word list, joined with "|" *)
Definition comp_body (rec : option (list str -> re)) (ws : list str) : re :=
  ralt (map (fun g => group_re rec (fst g) (sort_desc (@length char) (map (skipn 1) (snd g))))
            (group_first (sort_asc ws))).

(* the body of make_compressed_re for max_level >= 1; fuel = max_level - _level.
   An empty word list gives "" (internal calls only; unreachable: the recursion is entered with > 1 suffixes). *)
Fixpoint comp_go (fuel : nat) (words : list str) : re :=
  match dedup words with
  | [] => REps
  | ws => comp_body (match fuel with 0 => None | S f => Some (comp_go f) end) ws
  end.

(* make_compressed_re(words, max_level) for a list argument; None = ValueError (no words / an empty word) *)
Definition compressed_re (words : list str) (max_level : nat) : option re :=
  match words with
  | [] => None
  | _ =>
    if has_empty words then None
    else Some (match max_level with 0 => compressed0 words | S f => comp_go f words end)
  end.

(* ================================================================== re.escape at the text level
   re.escape(w): a backslash before every character of re._special_chars_map; and the reading of such a text
   by the regex parser restricted to literal sequences: `\c` for a non-alphanumeric c is the literal c, an
   unescaped character outside the metacharacters is itself, anything else is refused (None). *)
Definition escape_char (c : char) : str := if mem_char c re_special then [92%N; c] else [c].
Definition re_escape (w : str) : str := flat_map escape_char w.

Definition is_alnum_ascii (c : char) : bool := is_digit_char c || is_upper_ascii c || is_lower_ascii c.
(* . ^ $ * + ? { } [ ] \ | ( ) *)
Definition re_meta : list char := [46; 94; 36; 42; 43; 63; 123; 125; 91; 93; 92; 124; 40; 41]%N.

Fixpoint read_lit (t : str) : option str :=
  match t with
  | [] => Some []
  | c :: t1 =>
    if N.eqb c 92%N then
      match t1 with
      | d :: t2 => if is_alnum_ascii d then None
                   else match read_lit t2 with Some w => Some (d :: w) | None => None end
      | [] => None
      end
    else if mem_char c re_meta then None
    else match read_lit t1 with Some w => Some (c :: w) | None => None end
  end.
