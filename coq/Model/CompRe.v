(* Model of pyparsing.util.make_compressed_re for max_level = 0 (the non-recursive fallback: an alternation of the
   escaped words, longest escaped text first, or one character class when every word is a single character).
   Executable definitions only.  The recursive levels are not modelled in Coq (correspondence only). *)
From Coq Require Import List NArith Arith Bool Lia.
From PP Require Import Model.Str Model.Regex.
Import ListNotations.

(* re.escape escapes exactly these (re._special_chars_map): ()[]{}?*+-|^$\.&~# \t\n\r\v\f *)
Definition re_special : list char :=
  [40; 41; 91; 93; 123; 125; 63; 42; 43; 45; 124; 94; 36; 92; 46; 38; 126; 35; 32; 9; 10; 13; 11; 12]%N.
Definition escaped_len (w : str) : nat := length w + length (filter (fun c => mem_char c re_special) w).

(* list({}.fromkeys(word_list)) : first occurrences, in order *)
Fixpoint dedup (l : list str) : list str :=
  match l with
  | [] => []
  | x :: t => x :: filter (fun y => negb (str_eqb x y)) (dedup t)
  end.

(* sorted(..., key=len, reverse=True) : stable, descending *)
Fixpoint insert_desc (key : str -> nat) (x : str) (l : list str) : list str :=
  match l with
  | [] => [x]
  | y :: t => if key x <? key y then y :: insert_desc key x t else x :: l
  end.
Definition sort_desc (key : str -> nat) (l : list str) : list str := fold_right (insert_desc key) [] l.

Definition compressed0 (words : list str) : re :=
  let ws := dedup words in
  if existsb (fun w => 1 <? length w) ws
  then ralt (map rlit (sort_desc escaped_len ws))
  else RSet false false (map CI_char (concat ws)).
