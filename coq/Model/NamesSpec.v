(* C05, end to end: the REFERENCE READING of results names over a derivation.
   `names_of G s fuel e loc` follows the reference PEG reading of Model/Peg.v (same matching rules, same whitespace rule)
   and carries, besides the end position, the abstract results of the element: the list of its tokens and the ordered
   multimap of its names (`aview` of Model/ResultsSpec.v: token list, name -> all values in order, set of list-all names;
   `mm_lookup` presents the last value of an ordinary name and all values of a list-all name).  The clauses are those of the
   property:
     - a name on a token gives that token (`nt_name`, `seq_value false`);
     - a name on a list-saving element (sequence, repetition, ...) gives the list of its tokens, as a results object
       without the inner names; the inner names stay visible beside it (`nt_name`, `seq_value true`);
     - a sequence / repetition concatenates the tables of its elements in order (`spec_iadd`: under every name the values of
       the later element follow those of the earlier one; Proofs/Names.v iadd_values);
     - Group: the content's tokens AND names become ONE nested token; only the group's own name is visible outside, and
       its value is that sub-result (`nt_group`);
     - alternatives: the table of the alternative that matched, nothing of the others (`nt_first`, `nt_longest`);
     - Opt: the content's table when it matched; nothing when it did not; with `default=` the default value as token, and
       under the content's name (`opt_default`);
     - lookaheads: FollowedBy keeps the names of what it saw and no token; NotAny and Suppress report nothing (Suppress
       removes its content from the results, names included);
     - Forward: the table of its body.
   Which elements are list-saving and which names are list-all is read from the dumped attributes (`aslist`, `modalr`).
   Executable definitions only. *)
From Coq Require Import List ZArith NArith Bool Arith.
From PP Require Import Model.Str Model.Results Model.ResultsAPI Model.ResultsSpec Model.Prog Model.Core Model.Peg.
Import ListNotations.

Inductive nres :=
| NOk (loc : nat) (v : aview)          (* matched up to loc, with these tokens and names *)
| NFail                                (* no match *)
| NDiv                                 (* a repetition body matched without consuming: the real parser spins *)
| NOut.                                (* recursion deeper than the fuel *)

(* what is compared: success/failure, end position, and the complete abstract view of the results (token list with the
   nested sub-results and THEIR names, name table, list-all set) *)
Definition nproj (o : option outcome) : option nres :=
  match o with
  | None => Some NOut
  | Some (Ok l r) => Some (NOk l (view r))
  | Some (Err x) => if is_pe (xk x) then Some NFail else None
  | Some Div => Some NDiv
  end.

Definition nt_empty : aview := AV [] [] [].

(* declaring name n on a table: a list-all declaration (`n*`: modal = false) records n in the list-all set *)
Definition nt_flag (a : aview) (n : str) (modal_ : bool) : aview :=
  AV (av_list a) (av_map a) (if modal_ then av_all a else names_union (av_all a) [n]).

(* binding: `val` (if any) is appended to the values of the name; no name / the empty name binds nothing *)
Definition nt_bind (a : aview) (nm : option str) (modal_ : bool) (val : option vtok) : aview :=
  match nm with
  | None => a
  | Some [] => a
  | Some n => let a2 := nt_flag a n modal_ in
              match val with Some v => mm_add a2 n v | None => a2 end
  end.

(* the value a name reports for an element that returned the tokens l: the list of the tokens (a results object without
   names) for a list-saving element, the token otherwise (nothing when there is no token) *)
Definition seq_value (asl : bool) (l : list vtok) : option vtok :=
  if asl then Some (VPR l [] []) else hd_error l.

(* the element's own name on its content's table *)
Definition nt_name (a : attrs) (v : aview) : aview :=
  nt_bind v (rsname a) (modalr a) (seq_value (aslist a) (av_list v)).
(* an element that reports nothing (unmatched Opt, NotAny, Suppress, lookahead): no token, no name; only a list-all
   declaration is recorded *)
Definition nt_silent (a : attrs) : aview := nt_bind nt_empty (rsname a) (modalr a) None.
(* Group: one nested token holding the content's tokens and names; the group's name reports that sub-result *)
Definition nt_group (a : attrs) (v : aview) : aview :=
  nt_bind (AV [vpr v] [] []) (rsname a) (modalr a) (Some (vpr v)).
(* Opt that did not match: nothing, or the default value (also under the content's name) *)
Definition opt_default (d : option tok) (content_name : option str) : aview :=
  match d with
  | None => nt_empty
  | Some v => let a0 := AV [tview v] [] [] in
              match content_name with
              | Some ((_ :: _) as n) => mm_add a0 n (tview v)
              | _ => a0
              end
  end.

Definition nwrap (a : attrs) (r : nres) : nres :=
  match r with NOk l v => NOk l (nt_name a v) | other => other end.

Section Names.
Variable G : env.
Variable s : str.

Section Level.
  Variable rec : expr -> nat -> nres.
  (* sequence: every element in order; the tables are concatenated *)
  Fixpoint nt_seq (es : list expr) (loc : nat) (acc : aview) : nres :=
    match es with
    | [] => NOk loc acc
    | e :: es' => match rec e loc with NOk l v => nt_seq es' l (spec_iadd acc v) | r => r end
    end.
  (* '|' : the first alternative that matches, and only it *)
  Fixpoint nt_first (es : list expr) (loc : nat) : nres :=
    match es with
    | [] => NFail
    | e :: es' => match rec e loc with NFail => nt_first es' loc | r => r end
    end.
  (* repetition: greedy; the tables of the rounds are concatenated in order *)
  Fixpoint nt_star (n : nat) (e : expr) (loc : nat) (acc : aview) : nres :=
    match n with
    | 0 => NDiv
    | S n' => match rec e loc with
              | NOk l v => if Nat.eqb l loc then NDiv else nt_star n' e l (spec_iadd acc v)
              | NFail => NOk loc acc
              | r => r
              end
    end.
  (* '^' : the alternative that consumes the most input, leftmost on a tie, and only it *)
  Fixpoint nt_longest (es : list expr) (loc : nat) (best : option (nat * aview)) : nres :=
    match es with
    | [] => match best with Some (l, v) => NOk l v | None => NFail end
    | e :: es' =>
      match rec e loc with
      | NOk l v => nt_longest es' loc (match best with
                                       | Some (bl, _) => if Nat.ltb bl l then Some (l, v) else best
                                       | None => Some (l, v)
                                       end)
      | NFail => nt_longest es' loc best
      | r => r
      end
    end.
End Level.

Fixpoint names_of (fuel : nat) (e : expr) (loc0 : nat) : nres :=
  match fuel with
  | 0 => NOut
  | S f =>
    let a := attrs_of e in
    let loc := eff s e loc0 in
    match e with
    | Tok _ _ t =>
      match tok_impl a t s loc with
      | IOk l r => NOk l (nt_name a (AV (map tview (toks (pr_new r))) [] []))
      | _ => NFail
      end
    | Nary _ _ NAnd (c :: rest) =>
      match names_of f c loc with
      | NOk l v => nwrap a (nt_seq (names_of f) rest l v)
      | r => r
      end
    | Nary _ _ NMatchFirst es => nwrap a (nt_first (names_of f) es loc)
    | Nary _ _ NOr es =>
      let loc1 := if forallb (fun c => callpre (attrs_of c)) es
                  then (if skipws a then skip_white s loc (white a) else loc) else loc in
      nwrap a (nt_longest (names_of f) es loc1 None)
    | Enh _ _ (EOpt d) c =>
      match names_of f c loc with
      | NFail => NOk loc (match d with
                          | None => nt_silent a
                          | Some _ => nt_name a (opt_default d (rsname (attrs_of c)))
                          end)
      | r => nwrap a r
      end
    | Enh _ _ ENot c => match names_of f c loc with NOk _ _ => NFail | NFail => NOk loc (nt_silent a) | r => r end
    | Enh _ _ EFollowedBy c =>
      match names_of f c loc with
      | NOk _ v => NOk loc (nt_name a (AV [] (av_map v) (av_all v)))
      | r => r
      end
    | Enh _ _ ELookahead c => match names_of f c loc with NOk _ _ => NOk loc (nt_silent a) | r => r end
    | Enh _ _ (EGroup false) c => match names_of f c loc with NOk l v => NOk l (nt_group a v) | r => r end
    | Enh _ _ ESuppress c => match names_of f c loc with NOk l _ => NOk l (nt_silent a) | r => r end
    | Enh _ _ EPass c => nwrap a (names_of f c loc)
    | Rep _ _ zero body None =>
      match names_of f body loc with
      | NOk l v => nwrap a (nt_star (names_of f) (length s + 3) body l v)
      | NFail => if zero then NOk loc (nt_name a nt_empty) else NFail
      | r => r
      end
    | Fwd _ _ (Some id) => match nth_error G id with Some c => nwrap a (names_of f c loc) | None => NFail end
    | _ => NFail
    end
  end.
End Names.

(* ---- the class of grammars covered by the end-to-end theorem ----
   `Peg.in_class` with results names allowed everywhere (any name, list-all or not, list-saving flag as dumped), still
   without parse actions and ignorables, and without Combine and Each.  Three restrictions concern names:
     - a token element is not list-saving (true of every Token class of pyparsing);
     - the default value of an Opt is a str, an int or a bool (`default=None` is excluded: on it Model/Results.v
       `pr_of_value` deviates from `ParseResults(None)`, which is empty — see notes/C05.md);
     - an Opt with a default value whose content carries a list-all name is EXCLUDED: there the code stores the default under
       the name without recording the list-all declaration (C05_opt_default_listall_refuted). *)
Definition names_attrs (a : attrs) : bool := match acts a with [] => true | _ => false end.
Definition no_ign (i : list expr) : bool := match i with [] => true | _ => false end.

Definition default_ok (v : tok) : bool := match v with TStr _ | TInt _ | TBool _ => true | _ => false end.
Definition opt_ok (d : option tok) (c : expr) : bool :=
  match d with
  | None => true
  | Some v => default_ok v &&
              match rsname (attrs_of c) with
              | Some (_ :: _) => modalr (attrs_of c)
              | _ => true
              end
  end.

Section ClassN.
Variable G : env.
Fixpoint in_class_n (e : expr) : bool :=
  let all := fix all (l : list expr) : bool := match l with [] => true | x :: r => in_class_n x && all r end in
  match e with
  | Tok a ign t => names_attrs a && no_ign ign && tok_in_class t && negb (aslist a)
  | Nary a ign NAnd es =>
    names_attrs a && no_ign ign && match es with [] => false | c :: _ => child_ok a c end && all es
  | Nary a ign NMatchFirst es => names_attrs a && no_ign ign && all es
  | Nary a ign NOr es => names_attrs a && no_ign ign && all es
  | Enh a ign k c =>
    names_attrs a && no_ign ign && in_class_n c &&
    match k with
    | EOpt d => child_ok a c && opt_ok d c
    | EGroup false | ESuppress | EPass => child_ok a c
    | ENot | EFollowedBy | ELookahead => true
    | _ => false
    end
  | Rep a ign _ body None => names_attrs a && no_ign ign && in_class_n body
  | Fwd a ign (Some id) =>
    names_attrs a && no_ign ign && match nth_error G id with Some c => child_ok a c | None => true end
  | _ => false
  end.
End ClassN.
Definition env_in_class_n (G : env) : bool := forallb (in_class_n G) G.

(* ---- the flag-free reading of one clause, for the record of F-05c ----
   "on a sequence the list of its tokens", decided by the STRUCTURE of the grammar instead of the dumped `saveAsList`: a
   named Forward whose body is list-saving (a sequence, a repetition, a Group ...) should report the list of all its tokens. *)
Definition fwd_reports_token_list (G : env) (e : expr) (r : pres) : Prop :=
  match e with
  | Fwd a _ (Some id) =>
    match nth_error G id, rsname a with
    | Some body, Some n => aslist (attrs_of body) = true -> mm_lookup (view r) n = Some (VPR (av_list (view r)) [] [])
    | _, _ => True
    end
  | _ => True
  end.

(* the name view the scenario table of tools/props/c05.py states: every key with r[key], nested results as plain lists *)
Definition name_view (v : aview) : list (str * vtok) :=
  map (fun k => (k, v_as_list (mm_lookup_present v k))) (map fst (av_map v)).
Definition nres_names (r : nres) : option (list (str * vtok)) :=
  match r with NOk _ v => Some (name_view v) | _ => None end.

(* as_dict-shaped flattening of a view for the correspondence harness (tuples print compactly) *)
Definition nres_obs (r : nres) :=
  match r with
  | NOk l v => (0, l, Some (av_list v, av_map v, av_all v))
  | NFail => (1, 0, None)
  | NDiv => (2, 0, None)
  | NOut => (3, 0, None)
  end.
