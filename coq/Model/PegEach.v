(* The PEG reading of '&' (Each) of C01, over the attributed grammar, relative to a reading `rec` of the operands:
   "'&' accepts its operands in any order with each required one exactly once": a plain operand exactly once, the
   content of an Opt at most once, the content of a ZeroOrMore any number of times, that of a OneOrMore at least once.
   At each point the candidates are tried in the order  required ones, optional ones, repeatable ones  (each group in
   the order written); every candidate that matches is taken, and rounds are repeated until none matches.  The tokens
   are those of the sequence of the operands in the order in which they were taken, followed by the Opt operands that
   were never taken (they contribute their default value and the whitespace in front of them).
   Unlike Each.parseImpl the reading has no second list for required operands that can match empty.
   Definitions only; the classification of the operands and their equality classes are those of Model/Core.v. *)
From Coq Require Import List ZArith NArith Bool Arith.
From PP Require Import Model.Str Model.Results Model.Prog Model.Core Model.Peg.
Import ListNotations.

Section PegEach.
Variable rec : expr -> nat -> res.
Variable es : list expr.

(* one round over the candidates; state = location, operands still required, optional operands not yet taken,
   operands taken so far, number of candidates that did not match *)
Fixpoint peg_each_round (cands : list each_ent) (loc : nat) (reqd opt : list each_ent) (mo : list expr) (nf : nat)
         (k : nat -> list each_ent -> list each_ent -> list expr -> nat -> res) : res :=
  match cands with
  | [] => k loc reqd opt mo nf
  | en :: rest =>
    match rec (ee_e en) loc with
    | POk l _ =>
      let mo' := mo ++ [each_order es en] in
      if mem_cls (ee_cls en) reqd then peg_each_round rest l (remove_cls (ee_cls en) reqd) opt mo' nf k
      else if mem_cls (ee_cls en) opt then peg_each_round rest l reqd (remove_cls (ee_cls en) opt) mo' nf k
      else peg_each_round rest l reqd opt mo' nf k
    | PFail => peg_each_round rest loc reqd opt mo (S nf) k
    | r => r
    end
  end.

Fixpoint peg_each_loop (fuel : nat) (loc : nat) (reqd opt multis : list each_ent) (mo : list expr)
         (k : list each_ent -> list each_ent -> list expr -> res) : res :=
  match fuel with
  | 0 => PDiv
  | S f =>
    let cands := reqd ++ opt ++ multis in
    peg_each_round cands loc reqd opt mo 0 (fun loc' reqd' opt' mo' nf =>
      if Nat.eqb nf (length cands) then k reqd' opt' mo'
      else if Nat.eqb loc' loc && Nat.eqb (length reqd') (length reqd) && Nat.eqb (length opt') (length opt) then PDiv
      else peg_each_loop f loc' reqd' opt' multis mo' k)
  end.

Definition peg_each (slen : nat) (info : list each_info) (loc : nat) : res :=
  let zs := each_zip es info in
  let reqd := each_req1 zs ++ each_multi true zs in
  let opt := each_opt1 zs in
  let multis := each_multi false zs in
  peg_each_loop (slen + length reqd + length opt + 3) loc reqd opt multis []
    (fun reqd' opt' mo =>
       match reqd' with
       | _ :: _ => PFail
       | [] =>
         let unmatched := flat_map (fun z : expr * each_info =>
                                      if is_opt (fst z) && mem_cls (snd (snd (snd z))) opt' then [fst z] else []) zs in
         peg_seq rec (mo ++ unmatched) loc []
       end).
End PegEach.
