(* A small concrete `step` for Model/Threads.v: used only for Examples (non-vacuity), the closed refutation witness
   of C15 and the event-trace correspondence of tools/props/c15.py (the generic theorems do not depend on it).
   Grammar = table of nodes referring to each other by index (index = object identity of the pyparsing element,
   which is what the packrat key and the recursion-memo key contain).  Inputs of the harness contain no whitespace,
   so preParse is the identity and is not modelled here; callPreParse is kept because it is a key component. *)
From Coq Require Import List Arith Bool.
From PP Require Import Model.Prog Model.Threads.
Import ListNotations.

Definition mstr := list nat.

Inductive node :=
| NLit (m : mstr)                    (* Literal(m) *)
| NWord (cs : list nat)              (* Word(cs) *)
| NAnd (es : list nat)               (* And([...]) *)
| NMF (es : list nat)                (* MatchFirst([...]) *)
| NOpt (e : nat)                     (* Opt(e) *)
| NFwd (e : nat)                     (* Forward() <<= e *)
| NAct (cs : list nat) (inner : nat). (* Word(cs) with a parse action that calls inner.parse_string(tokens[0])
                                        and raises ParseException(s, l) when that fails *)

Inductive kind := KParse | KParseString | KScanString.

Record args := { a_kind : kind; a_e : nat; a_s : mstr; a_loc : nat; a_do : bool; a_pre : bool }.

Inductive outcome :=
| Ok (loc : nat) (toks : list mstr)
| Fail (loc : nat)
| Scan (ms : list (list mstr * nat * nat))
| KeyErr.                            (* an internal KeyError escaping (left-recursion mode only) *)

Definition kind_eqb (a b : kind) : bool :=
  match a, b with KParse, KParse | KParseString, KParseString | KScanString, KScanString => true | _, _ => false end.

Fixpoint list_eqb (l1 l2 : list nat) : bool :=
  match l1, l2 with
  | [], [] => true
  | x :: l1', y :: l2' => Nat.eqb x y && list_eqb l1' l2'
  | _, _ => false
  end.

Definition args_eqb (a b : args) : bool :=
  kind_eqb (a_kind a) (a_kind b) && Nat.eqb (a_e a) (a_e b) && list_eqb (a_s a) (a_s b) &&
  Nat.eqb (a_loc a) (a_loc b) && Bool.eqb (a_do a) (a_do b) && Bool.eqb (a_pre a) (a_pre b).

Definition is_entry (a : args) : bool := match a_kind a with KParse => false | _ => true end.
Definition is_cacheable (o : outcome) : bool := match o with KeyErr => false | _ => true end.

Fixpoint startswith (s : mstr) (m : mstr) : bool :=
  match m, s with
  | [], _ => true
  | c :: m', d :: s' => Nat.eqb c d && startswith s' m'
  | _ :: _, [] => false
  end.

Fixpoint span (cs : list nat) (s : mstr) : mstr :=
  match s with
  | c :: s' => if existsb (Nat.eqb c) cs then c :: span cs s' else []
  | [] => []
  end.

Section Mini.
  Variable G : list node.

  Definition mk (e : nat) (s : mstr) (loc : nat) (da pre : bool) : args :=
    {| a_kind := KParse; a_e := e; a_s := s; a_loc := loc; a_do := da; a_pre := pre |}.

  Fixpoint and_loop (s : mstr) (da : bool) (es : list nat) (loc : nat) (acc : list mstr) (first : bool)
    : prog args outcome :=
    match es with
    | [] => Ret (Ok loc acc)
    | e :: es' => Call (mk e s loc da (negb first))
                    (fun o => match o with
                              | Ok loc' ts => and_loop s da es' loc' (acc ++ ts) false
                              | _ => Ret o end)
    end.

  (* MatchFirst: first success; otherwise the failure with the largest loc (first among equals) *)
  Fixpoint mf_loop (s : mstr) (da : bool) (es : list nat) (loc : nat) (best : option nat)
    : prog args outcome :=
    match es with
    | [] => match best with Some l => Ret (Fail l) | None => Ret (Fail loc) end
    | e :: es' => Call (mk e s loc da true)
                    (fun o => match o with
                              | Fail l => mf_loop s da es' loc
                                            (match best with
                                             | Some b => if Nat.ltb b l then Some l else Some b
                                             | None => Some l end)
                              | _ => Ret o end)
    end.

  Fixpoint scan_loop (n : nat) (e : nat) (s : mstr) (loc : nat) (acc : list (list mstr * nat * nat))
    : prog args outcome :=
    match n with
    | 0 => Ret (Scan acc)
    | S n' =>
        if Nat.leb loc (length s) then
          Call (mk e s loc true false)
            (fun o => match o with
                      | Ok nl toks => if Nat.ltb loc nl then scan_loop n' e s nl (acc ++ [(toks, loc, nl)])
                                      else scan_loop n' e s (S loc) acc
                      | Fail _ => scan_loop n' e s (S loc) acc
                      | _ => Ret o end)
        else Ret (Scan acc)
    end.

  Definition step (a : args) : prog args outcome :=
    let s := a_s a in let loc := a_loc a in let da := a_do a in
    match a_kind a with
    | KParseString => Call (mk (a_e a) s 0 true true) (fun o => Ret o)
    | KScanString => scan_loop (length s + 2) (a_e a) s 0 []
    | KParse =>
        match nth_error G (a_e a) with
        | None => Ret (Fail loc)
        | Some (NLit m) => if startswith (skipn loc s) m then Ret (Ok (loc + length m) [m]) else Ret (Fail loc)
        | Some (NWord cs) => match span cs (skipn loc s) with
                             | [] => Ret (Fail loc)
                             | w => Ret (Ok (loc + length w) [w]) end
        | Some (NAnd es) => and_loop s da es loc [] true
        | Some (NMF es) => mf_loop s da es loc None
        | Some (NOpt e) => Call (mk e s loc da false)
                             (fun o => match o with Fail _ => Ret (Ok loc []) | _ => Ret o end)
        | Some (NFwd e) => Call (mk e s loc da false) (fun o => Ret o)
        | Some (NAct cs inner) =>
            match span cs (skipn loc s) with
            | [] => Ret (Fail loc)
            | w => if da
                   then Call {| a_kind := KParseString; a_e := inner; a_s := w; a_loc := 0; a_do := true; a_pre := true |}
                          (fun o => match o with
                                    | Ok _ _ => Ret (Ok (loc + length w) [w])
                                    | Fail _ => Ret (Fail loc)
                                    | _ => Ret o end)
                   else Ret (Ok (loc + length w) [w])
            end
        end
    end.
End Mini.

Definition entry_args (k : kind) (e : nat) (s : mstr) : args :=
  {| a_kind := k; a_e := e; a_s := s; a_loc := 0; a_do := true; a_pre := true |}.

(* a thread's program: one entry-point call *)
Definition job (k : kind) (e : nat) (s : mstr) : prog args outcome := Call (entry_args k e s) (fun o => Ret o).

(* ---------------- left-recursion mode instance: Forward.parseImpl's bounded-recursion algorithm, line by line,
     over the memo operations of Model/Threads.v Part 2.  Memo key = (loc, Forward, do_actions) — no input string.
     Memo value = (prev_loc + 1, result) (prev_loc starts at loc - 1). ---------------- *)

Definition mkey := (nat * nat * bool)%type.
Definition mval := (nat * outcome)%type.
Definition mkey_eqb (a b : mkey) : bool :=
  match a, b with (l1, f1, d1), (l2, f2, d2) => Nat.eqb l1 l2 && Nat.eqb f1 f2 && Bool.eqb d1 d2 end.

Definition lprog := mprog args outcome mkey mval.

Fixpoint emb (p : prog args outcome) : lprog :=
  match p with Ret o => MRet o | Call a k => MCall a (fun o => emb (k o)) end.

(* `return prev_loc, prev_result.copy()` / `raise prev_result` *)
Definition out_of (v : mval) : outcome :=
  match snd v with Ok _ toks => Ok (fst v - 1) toks | o => o end.

Definition is_fail (o : outcome) : bool := match o with Fail _ => true | _ => false end.

Section MiniLR.
  Variable G : list node.

  Fixpoint grow (n : nat) (F body : nat) (s : mstr) (loc : nat) (da : bool) (prev : mval) : lprog :=
    let peek := (loc, F, false) in
    let act := (loc, F, true) in
    match n with
    | 0 => MRet (Fail loc)
    | S n' =>
        (* new_loc, new_peek = super().parseImpl(instring, loc, False) *)
        MCall (mk body s loc false false) (fun o =>
          let new := match o with
                     | Ok nl _ => Some (S nl, o)
                     | Fail _ => if is_fail (snd prev) then None else Some prev
                     | _ => None
                     end in
          match new with
          | None => MRet o
          | Some nw =>
              if Nat.leb (fst nw) (fst prev) then
                if da then
                  (* prev_loc, prev_result = memo[peek_key] = memo[act_key]; del memo[peek_key], memo[act_key] *)
                  MGet act (fun r => match r with
                                     | None => MRet KeyErr
                                     | Some v => MSet peek v (MDel peek (MDel act (MRet (out_of v))))
                                     end)
                else MDel peek (MRet (out_of prev))
              else
                let rest := MSet peek nw (grow n' F body s loc da nw) in
                if da then
                  (* memo[act_key] = super().parseImpl(instring, loc, True) *)
                  MCall (mk body s loc true false) (fun o2 =>
                    match o2 with
                    | Ok l2 _ => MSet act (S l2, o2) rest
                    | Fail _ => MSet peek (fst nw, o2) (MSet act (fst nw, o2) (MRet o2))
                    | _ => MRet o2
                    end)
                else rest
          end)
    end.

  Definition fwd_lr (F body : nat) (s : mstr) (loc : nat) (da : bool) : lprog :=
    let peek := (loc, F, false) in
    let act := (loc, F, true) in
    MGet (loc, F, da) (fun r =>
      match r with
      | Some v => MRet (out_of v)
      | None =>
          let seed := (loc, Fail loc) in
          MSet peek seed
            (if da
             then MGet peek (fun r2 => match r2 with
                                       | Some v => MSet act v (grow (length s + 2) F body s loc da seed)
                                       | None => MRet KeyErr end)
             else grow (length s + 2) F body s loc da seed)
      end).

  Definition is_locked (a : args) : bool :=
    match a_kind a, nth_error G (a_e a) with KParse, Some (NFwd _) => true | _, _ => false end.

  Definition mstep_lr (a : args) : lprog :=
    match a_kind a, nth_error G (a_e a) with
    | KParse, Some (NFwd body) => fwd_lr (a_e a) body (a_s a) (a_loc a) (a_do a)
    | _, _ => emb (step G a)
    end.
End MiniLR.

Definition ljob (k : kind) (e : nat) (s : mstr) : lprog := MCall (entry_args k e s) (fun o => MRet o).

(* ---------------- evaluation entry points for the correspondence harness ---------------- *)
Definition run_packrat (G : list node) (size : option nat) (memo_on : bool) (jobs : list (prog args outcome))
    (sched : list nat) : list (nat * nat) * list (option outcome) :=
  let '(tr, cf) := vtrace args outcome (step G) args_eqb size is_entry is_cacheable memo_on 5000 sched (init [] jobs) in
  (map (fun te => (fst te, ev_code (snd te))) tr, map result_of (c_threads cf)).

Definition run_lr (G : list node) (jobs : list lprog) (sched : list nat) : list (nat * nat) * list (option outcome) :=
  let '(tr, cf) := lvtrace args outcome mkey mval (mstep_lr G) mkey_eqb is_entry (is_locked G) true 5000 sched (linit jobs) in
  (map (fun te => (fst te, ev_code (snd te))) tr, map lresult_of (l_threads cf)).
