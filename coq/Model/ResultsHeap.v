(* M4: ParseResults at heap level — objects with identity, so that sharing and in-place mutation are visible.
   heap = list of objects, address = index, allocation appends.
     OList items          a Python list object that is some ParseResults' `_toklist`
     OOcc occ             an occurrence list: one value of `_tokdict` (a Python list of _ParseResultsWithOffset)
     OPR tl dict an name  a ParseResults: `_toklist` address, `_tokdict` (name -> address of its occurrence list),
                          `_all_names`, `_name`
   The dict object itself is inlined in OPR: it is never shared between two results (`copy()`, `__getstate__` and
   `__setstate__` always make or receive a fresh dict) — the occurrence lists inside it ARE shared by copy()/copy.copy,
   and `__delitem__`/`insert` rewrite them in place (DESIGN appendix C).  `_parent` and `_modal` are not represented.
   Non-ParseResults values are immutable scalars (`VS t`, t a Results.tok without TPR).
   Executable definitions only. *)
From Coq Require Import List ZArith NArith Bool Lia.
From PP Require Import Model.Str Model.Results Model.ResultsAPI.
Import ListNotations.

Definition addr := nat.
Inductive value := VS (t : tok) | VRef (a : addr).
Inductive obj :=
| OList (items : list value)
| OOcc (occ : list (value * Z))
| OPR (tl : addr) (dict : list (str * addr)) (allnames : list str) (rname : option str).
Definition heap := list obj.

Definition alloc (h : heap) (o : obj) : heap * addr := (h ++ [o], length h).
Fixpoint upd (h : heap) (a : addr) (o : obj) : heap :=
  match h, a with
  | [], _ => []
  | _ :: h', O => o :: h'
  | x :: h', S a' => x :: upd h' a' o
  end.

Definition items_of (h : heap) (t : addr) : option (list value) :=
  match nth_error h t with Some (OList l) => Some l | _ => None end.
Definition occ_of (h : heap) (a : addr) : option (list (value * Z)) :=
  match nth_error h a with Some (OOcc l) => Some l | _ => None end.

(* ---- the four ways of copying ---- *)
(* r.copy(): ParseResults(self._toklist) [a new list object], self._tokdict.copy() [a new dict, the same occurrence lists] *)
Definition h_copy (h : heap) (a : addr) : option (heap * addr) :=
  match nth_error h a with
  | Some (OPR t d an nm) =>
    match items_of h t with
    | Some l => let '(h1, t') := alloc h (OList l) in Some (alloc h1 (OPR t' d (names_union [] an) nm))
    | None => None
    end
  | _ => None
  end.
(* copy.copy(r) = __new__(cls, *__getnewargs__()) ; __setstate__(__getstate__()).
   `live` = what __getstate__ puts first in its state: the live `_toklist` object (unchanged tree, F-03/F-11: the copy then
   shares it; the list that __new__ made from the new-args is dropped) or a copy of it (repaired tree) *)
Definition h_copycopy (live : bool) (h : heap) (a : addr) : option (heap * addr) :=
  match nth_error h a with
  | Some (OPR t d an nm) =>
    match items_of h t with
    | Some l =>
      let '(h1, t0) := alloc h (OList l) in                       (* __new__: list(toklist); garbage after __setstate__ *)
      if live then Some (alloc h1 (OPR t d an nm))
      else let '(h2, t') := alloc h1 (OList l) in Some (alloc h2 (OPR t' d an nm))
    | None => None
    end
  | _ => None
  end.
(* r.deepcopy(): copy(), then every ParseResults *list item* is replaced by its own deepcopy(); the name table is not
   touched, so named values keep pointing at the original nested results (F-11b) *)
Fixpoint h_deepcopy_method (fuel : nat) (h : heap) (a : addr) : option (heap * addr) :=
  match fuel with
  | O => None
  | S f =>
    match h_copy h a with
    | Some (h1, c) =>
      match nth_error h1 c with
      | Some (OPR t' _ _ _) =>
        match items_of h1 t' with
        | Some l =>
          let step := fun (acc : heap * list value) (v : value) =>
            let '(hh, done) := acc in
            match v with
            | VRef b =>
              match nth_error hh b with
              | Some (OPR _ _ _ _) =>
                match h_deepcopy_method f hh b with
                | Some (hh', b') => (hh', done ++ [VRef b'])
                | None => (hh, done ++ [v])
                end
              | _ => (hh, done ++ [v])
              end
            | VS _ => (hh, done ++ [v])
            end in
          let '(h2, l') := fold_left step l (h1, []) in
          Some (upd h2 t' (OList l'), c)
        | None => None
        end
      | _ => None
      end
    | None => None
    end
  end.
(* copy.deepcopy(r) / pickle round trip: an isomorphic fresh copy of everything reachable (sharing inside the copy is
   preserved by the memo).  Modelled as a relocated duplicate of the whole heap: unreachable duplicates are harmless *)
Definition shift_val (n : nat) (v : value) : value := match v with VS t => VS t | VRef b => VRef (b + n) end.
Definition shift_obj (n : nat) (o : obj) : obj :=
  match o with
  | OList l => OList (map (shift_val n) l)
  | OOcc l => OOcc (map (fun vp => (shift_val n (fst vp), snd vp)) l)
  | OPR t d an nm => OPR (t + n) (map (fun kv => (fst kv, snd kv + n)) d) an nm
  end.
Definition h_deepcopy (h : heap) (a : addr) : heap * addr := (h ++ map (shift_obj (length h)) h, a + length h).

(* ---- in-place mutators of one ParseResults (target address c) ---- *)
Inductive mop :=
| MAppend (v : value)
| MExtend (vs : list value)
| MInsert (i : Z) (v : value)
| MDelItem (i : Z)
| MSetItem (i : Z) (v : value)
| MSetName (k : str) (v : value)                (* c[k] = v *)
| MDelName (k : str)
| MClear
| MIAdd (other : addr).                         (* c += other *)

(* rewrite the stored positions of every occurrence list of a name table, IN PLACE *)
Definition rewrite_positions (f : Z -> Z) (h : heap) (d : list (str * addr)) : heap :=
  fold_left (fun hh kv =>
               match occ_of hh (snd kv) with
               | Some occ => upd hh (snd kv) (OOcc (map (fun vp => (fst vp, f (snd vp))) occ))
               | None => hh
               end) d h.

(* c[k] = _ParseResultsWithOffset(v, pos):  _tokdict[k] = _tokdict.get(k, []) + [..]  — a NEW occurrence list *)
Definition h_setname (h : heap) (c : addr) (k : str) (v : value) (pos : Z) : heap :=
  match nth_error h c with
  | Some (OPR t d an nm) =>
    let old := match dict_get d k with
               | Some oa => match occ_of h oa with Some occ => occ | None => [] end
               | None => []
               end in
    let '(h1, na) := alloc h (OOcc (old ++ [(v, pos)])) in
    upd h1 c (OPR t (dict_set d k na) an nm)
  | _ => h
  end.

Definition mstep (h : heap) (c : addr) (m : mop) : heap :=
  match nth_error h c with
  | Some (OPR t d an nm) =>
    match items_of h t with
    | Some l =>
      match m with
      | MAppend v => upd h t (OList (l ++ [v]))
      | MExtend vs => upd h t (OList (l ++ vs))
      | MInsert i v =>
        rewrite_positions (fun p => if (i <? p)%Z then (p + 1)%Z else p) (upd h t (OList (py_insert l i v))) d
      | MDelItem i =>
        match py_delitem l i with
        | Some l' =>
          let i' := if (i <? 0)%Z then (i + llen l)%Z else i in
          rewrite_positions (adjust_del [i']) (upd h t (OList l')) d
        | None => h                                                      (* IndexError *)
        end
      | MSetItem i v => match py_setitem l i v with Some l' => upd h t (OList l') | None => h end
      | MSetName k v => h_setname h c k v 0
      | MDelName k => match dict_get d k with Some _ => upd h c (OPR t (dict_del d k) an nm) | None => h end
      | MClear => upd (upd h t (OList [])) c (OPR t [] an nm)
      | MIAdd other =>
        match nth_error h other with
        | Some (OPR t2 d2 an2 _) =>
          match items_of h t2 with
          | Some l2 =>
            match l2, d2 with
            | [], [] => h                                                (* `if not other: return self` *)
            | _, _ =>
              let offset := llen l in
              let addoffset := fun a : Z => if (a <? 0)%Z then offset else (a + offset)%Z in
              let entries := flat_map (fun kv => match occ_of h (snd kv) with
                                                 | Some occ => map (fun vp => (fst kv, fst vp, addoffset (snd vp))) occ
                                                 | None => []
                                                 end) d2 in
              let h1 := fold_left (fun hh (e : str * value * Z) => match e with (k, v, p) => h_setname hh c k v p end) entries h in
              match nth_error h1 c with
              | Some (OPR t' d' an' nm') =>
                upd (upd h1 t (OList (l ++ l2))) c (OPR t' d' (names_union an' an2) nm')
              | _ => h1
              end
            end
          | None => h
          end
        | _ => h
        end
      end
    | None => h
    end
  | _ => h
  end.

(* ---- views read off the heap (positions and `_name` dropped, as in Model/ResultsSpec.v) ---- *)
Inductive hview :=
| HVal (t : tok)
| HPR (l : list hview) (m : list (str * list hview)) (an : list str)
| HBad.
Fixpoint viewH (fuel : nat) (h : heap) (a : addr) : hview :=
  match fuel with
  | O => HBad
  | S f =>
    let vv := fun v => match v with VS t => HVal t | VRef b => viewH f h b end in
    match nth_error h a with
    | Some (OPR t d an _) =>
      match nth_error h t with
      | Some (OList l) =>
        HPR (map vv l)
            (map (fun kv => (fst kv, match nth_error h (snd kv) with
                                     | Some (OOcc occ) => map vv (map fst occ)
                                     | _ => [HBad]
                                     end)) d)
            an
      | _ => HBad
      end
    | _ => HBad
    end
  end.

(* ---- paths to nested results: list item i / j-th value of name k ---- *)
Inductive pstep := PIdx (i : nat) | PName (k : str) (j : nat).
Definition resolve_step (h : heap) (a : addr) (s : pstep) : option addr :=
  match nth_error h a with
  | Some (OPR t d _ _) =>
    match s with
    | PIdx i => match items_of h t with
                | Some l => match nth_error l i with Some (VRef b) => Some b | _ => None end
                | None => None
                end
    | PName k j => match dict_get d k with
                   | Some oa => match occ_of h oa with
                                | Some occ => match nth_error occ j with Some (VRef b, _) => Some b | _ => None end
                                | None => None
                                end
                   | None => None
                   end
    end
  | _ => None
  end.
Fixpoint resolve (h : heap) (a : addr) (p : list pstep) : option addr :=
  match p with
  | [] => Some a
  | s :: p' => match resolve_step h a s with Some b => resolve h b p' | None => None end
  end.
(* a mutation of the object reached from c along a path (skipped if the path does not resolve) *)
Definition mstep_at (h : heap) (c : addr) (pm : list pstep * mop) : heap :=
  match resolve h c (fst pm) with Some t => mstep h t (snd pm) | None => h end.

(* ---- alias observations used by the correspondence harness ---- *)
Definition same_toklist (h : heap) (a b : addr) : option bool :=
  match nth_error h a, nth_error h b with
  | Some (OPR t1 _ _ _), Some (OPR t2 _ _ _) => Some (Nat.eqb t1 t2)
  | _, _ => None
  end.
