(* C18, helpers: nested_expr (single-character opener/closer, default content, ignore_expr=None), DelimitedList,
   counted_array.  Executable definitions only.

   nested_expr builds      ret <<= Group(Suppress(opener) + ZeroOrMore(ret | content) + Suppress(closer))
   with                    content = Combine(Empty() + CharsNotIn(opener + closer + " \t\n\r"))   (then stripped)
   Every element skips the default white space before matching.  The model is the recursive-descent reading of
   exactly that expression (explicit fuel for the recursion through the Forward). *)
From Coq Require Import List NArith Arith Bool Lia.
From PP Require Import Model.Str Gen.GenHelpers.
Import ListNotations.

(* ---------------------------------------------------------------- nested_expr *)
Inductive ntree := NWord (w : str) | NList (l : list ntree).

Definition is_ws (c : char) : bool := N.eqb c 32%N || N.eqb c 9%N || N.eqb c 10%N || N.eqb c 13%N.

Fixpoint skip_ws (s : str) : str :=
  match s with c :: t => if is_ws c then skip_ws t else s | [] => [] end.

(* a character of the default content: not the opener, not the closer, not white space *)
Definition word_char (o c x : char) : bool := negb (N.eqb x o || N.eqb x c || is_ws x).

Fixpoint span_word (o c : char) (s : str) : str * str :=
  match s with
  | x :: t => if word_char o c x then let (w, r) := span_word o c t in (x :: w, r) else ([], s)
  | [] => ([], [])
  end.

(* parse_nested : the Forward `ret`;  parse_items : ZeroOrMore(ret | content) *)
Fixpoint parse_nested (fuel : nat) (o c : char) (s : str) : option (ntree * str) :=
  match fuel with
  | 0 => None
  | S f =>
    match skip_ws s with
    | x :: r =>
      if N.eqb x o then
        let (items, rest) := parse_items f o c r in
        match skip_ws rest with
        | y :: r' => if N.eqb y c then Some (NList items, r') else None
        | [] => None
        end
      else None
    | [] => None
    end
  end
with parse_items (fuel : nat) (o c : char) (s : str) : list ntree * str :=
  match fuel with
  | 0 => ([], s)
  | S f =>
    match parse_nested f o c s with
    | Some (t, rest) => let (ts, rest') := parse_items f o c rest in (t :: ts, rest')
    | None =>
      let (w, r) := span_word o c (skip_ws s) in
      match w with
      | [] => ([], s)
      | _ :: _ => let (ts, rest') := parse_items f o c r in (NWord w :: ts, rest')
      end
    end
  end.

(* specification side: the canonical text of a tree, its bracket skeleton and its words *)
Definition join_items (f : ntree -> str) : list ntree -> str :=
  fix items (l : list ntree) : str :=
    match l with
    | [] => []
    | t :: l' => match l' with [] => f t | _ :: _ => f t ++ 32%N :: items l' end
    end.

Fixpoint show (o c : char) (t : ntree) : str :=
  match t with
  | NWord w => w
  | NList l => o :: join_items (show o c) l ++ [c]
  end.

Fixpoint brackets (o c : char) (t : ntree) : str :=
  match t with
  | NWord _ => []
  | NList l => o :: flat_map (brackets o c) l ++ [c]
  end.

Fixpoint words (t : ntree) : list str :=
  match t with
  | NWord w => [w]
  | NList l => flat_map words l
  end.

(* well-formed trees: words are non-empty and made of content characters; the root is a list *)
Fixpoint wf_tree (o c : char) (t : ntree) : bool :=
  match t with
  | NWord w => negb (Nat.eqb (length w) 0) && forallb (word_char o c) w
  | NList l => forallb (wf_tree o c) l
  end.

(* fuel that suffices for the canonical text *)
Fixpoint tsize (t : ntree) : nat :=
  match t with
  | NWord _ => 1
  | NList l => 2 + fold_right (fun t n => tsize t + n + 1) 0 l
  end.
Definition lsize (l : list ntree) : nat := fold_right (fun t n => tsize t + n + 1) 0 l.

Definition is_bracket (o c x : char) : bool := N.eqb x o || N.eqb x c.

(* the balanced bracket words: the independent definition *)
Inductive balanced (o c : char) : str -> Prop :=
| bal_nil : balanced o c []
| bal_wrap : forall a b, balanced o c a -> balanced o c b -> balanced o c (o :: a ++ c :: b).

(* ---------------------------------------------------------------- DelimitedList
   content + (delim + content) * (dl_lo min, dl_hi max) [+ Opt(delim)]
   `content` and `delim` are arbitrary deterministic elements (white-space skipping included in them);
   `e * (lo, hi)` is And([e]*lo) + Opt(e + Opt(e + ...)) (hi - lo deep), and with hi = None  And([e]*lo) + ZeroOrMore(e). *)
Section Delimited.
  Variable A : Type.
  Variable content : str -> option (A * str).
  Variable delim : str -> option str.

  Definition pair (s : str) : option (A * str) :=
    match delim s with Some s1 => content s1 | None => None end.

  Fixpoint rep_exact (n : nat) (s : str) : option (list A * str) :=
    match n with
    | 0 => Some ([], s)
    | S m => match pair s with
             | Some (x, s1) => match rep_exact m s1 with Some (xs, s2) => Some (x :: xs, s2) | None => None end
             | None => None
             end
    end.

  (* up to k further pairs, greedily: the nested Opt's (k = hi - lo) or ZeroOrMore (k = fuel) *)
  Fixpoint rep_greedy (k : nat) (s : str) : list A * str :=
    match k with
    | 0 => ([], s)
    | S k' => match pair s with
              | Some (x, s1) => let (xs, s2) := rep_greedy k' s1 in (x :: xs, s2)
              | None => ([], s)
              end
    end.

  (* `e * (0, 0)` is And([]), whose parseImpl indexes exprs[0]: it fails on every input.  streamline() merges it
     away in  content + And([])  (a two-element And) but not once Opt(delim) has been appended (F-18i) *)
  Definition empty_and_survives (mn : nat) (mx : option nat) (trail : bool) : bool :=
    Nat.eqb (dl_lo mn) 0 && match mx with Some m => Nat.eqb (dl_hi m) 0 | None => false end && trail.

  Definition delimited_list (mn : nat) (mx : option nat) (trail : bool) (s : str) : option (list A * str) :=
    if empty_and_survives mn mx trail then None else
    match content s with
    | None => None
    | Some (x, s1) =>
      match rep_exact (dl_lo mn) s1 with
      | None => None
      | Some (xs, s2) =>
        let k := match mx with Some m => dl_hi m - dl_lo mn | None => S (length s2) end in
        let (ys, s3) := rep_greedy k s2 in
        let s4 := if trail then match delim s3 with Some s' => s' | None => s3 end else s3 in
        Some (x :: xs ++ ys, s4)
      end
    end.

  (* n consecutive (delim content) pairs lead from s to s' producing xs *)
  Inductive chain : list A -> str -> str -> Prop :=
  | chain_nil : forall s, chain [] s s
  | chain_cons : forall x xs s s1 s2, pair s = Some (x, s1) -> chain xs s1 s2 -> chain (x :: xs) s s2.

  (* ---------------------------------------------------------------- counted_array
     the count's parse action installs `expr * n` as the body of the Forward that follows;  state = that body *)
  Variable count : str -> option (nat * str).
  Variable item : str -> option (A * str).
  Variable skipw : str -> str.        (* the white space that Empty() skips before matching *)

  Fixpoint items_exact (n : nat) (s : str) : option (list A * str) :=
    match n with
    | 0 => Some ([], s)                                  (* Empty() / And([]) *)
    | S m => match item s with
             | Some (x, s1) => match items_exact m s1 with Some (xs, s2) => Some (x :: xs, s2) | None => None end
             | None => None
             end
    end.

  (* `(expr * n) if n else Empty()` *)
  Definition ca_body (n : nat) (s : str) : option (list A * str) :=
    match n with
    | 0 => Some ([], skipw s)
    | S _ => items_exact n s
    end.

  (* (tokens, rest, the body the Forward is left with) ; a Forward without body cannot be parsed *)
  Definition counted_array (body0 : option nat) (s : str) : option (list A * str) * option nat :=
    match count s with
    | None => (None, body0)
    | Some (n, s1) =>
      let body := Some (ca_items n) in                    (* array_expr <<= ... *)
      (match body with Some k => ca_body k s1 | None => None end, body)
    end.
End Delimited.
