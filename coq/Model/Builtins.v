(* C18, numeric / identifier / address built-ins.  Executable definitions only (proofs: Proofs/BuiltinsProofs.v).

   1. `rx`: extended regular expressions (with intersection and complement) over character classes, with
      Brzozowski derivatives; `rx_match` is the boolean recogniser used for every *reference grammar* below and
      `Lang` its textbook denotation.
   2. `plain : re -> option rx`: the lookaround/anchor-free fragment of the M10 regex AST as an `rx`
      (bounded repetitions are unfolded).
   3. a certificate checker for language equivalence (`equiv_check`): explores the derivative pairs, then checks
      that the explored set is a bisimulation; all characters >= B behave alike when every class constant is < B.
   4. the reference grammars: Python's own `int()` / `float()` literal syntax (ASCII digits and ASCII white space
      -- stated limit), the documented form of each pyparsing_common expression expressed *in terms of those*,
      `str.isidentifier` on ASCII / Latin-1, the dotted quad of `ipaddress`, the canonical UUID form.
   5. `int()` as a function with its value (`py_int`), and the models of `convert_to_integer`, `number`. *)
From Coq Require Import List NArith ZArith Arith Bool Lia.
From PP Require Import Model.Str Model.Regex.
Import ListNotations.

(* ------------------------------------------------------------------ 1. rx *)
Inductive cls := Cls (ic neg : bool) (items : list citem).

Definition cls_mem (p : cls) (c : char) : bool :=
  match p with Cls ic neg items => cset_mem ic neg items c end.

Inductive rx :=
| XZero                       (* no string *)
| XEps                        (* the empty string *)
| XCls (p : cls)              (* one character of a class *)
| XCat (a b : rx)
| XAlt (a b : rx)
| XAnd (a b : rx)             (* intersection *)
| XNot (a : rx)               (* complement *)
| XStar (a : rx).

(* denotation *)
Fixpoint Lang (r : rx) (w : str) : Prop :=
  match r with
  | XZero => False
  | XEps => w = []
  | XCls p => exists c, w = [c] /\ cls_mem p c = true
  | XCat a b => exists u v, w = u ++ v /\ Lang a u /\ Lang b v
  | XAlt a b => Lang a w \/ Lang b w
  | XAnd a b => Lang a w /\ Lang b w
  | XNot a => ~ Lang a w
  | XStar a => exists ws, w = concat ws /\ Forall (Lang a) ws
  end.

Fixpoint nullable (r : rx) : bool :=
  match r with
  | XZero => false
  | XEps => true
  | XCls _ => false
  | XCat a b => nullable a && nullable b
  | XAlt a b => nullable a || nullable b
  | XAnd a b => nullable a && nullable b
  | XNot a => negb (nullable a)
  | XStar _ => true
  end.

(* syntactic equality *)
Definition ccat_eqb (a b : ccat) : bool :=
  match a, b with
  | CatDigit, CatDigit | CatWord, CatWord | CatSpace, CatSpace => true
  | _, _ => false
  end.

Definition citem_eqb (a b : citem) : bool :=
  match a, b with
  | CI_char c, CI_char d => N.eqb c d
  | CI_range l h, CI_range l' h' => N.eqb l l' && N.eqb h h'
  | CI_cat n k, CI_cat n' k' => Bool.eqb n n' && ccat_eqb k k'
  | _, _ => false
  end.

Fixpoint items_eqb (a b : list citem) : bool :=
  match a, b with
  | [], [] => true
  | x :: a', y :: b' => citem_eqb x y && items_eqb a' b'
  | _, _ => false
  end.

Definition cls_eqb (p q : cls) : bool :=
  match p, q with
  | Cls i n l, Cls i' n' l' => Bool.eqb i i' && Bool.eqb n n' && items_eqb l l'
  end.

Fixpoint rx_eqb (a b : rx) : bool :=
  match a, b with
  | XZero, XZero => true
  | XEps, XEps => true
  | XCls p, XCls q => cls_eqb p q
  | XCat a1 a2, XCat b1 b2 => rx_eqb a1 b1 && rx_eqb a2 b2
  | XAlt a1 a2, XAlt b1 b2 => rx_eqb a1 b1 && rx_eqb a2 b2
  | XAnd a1 a2, XAnd b1 b2 => rx_eqb a1 b1 && rx_eqb a2 b2
  | XNot a1, XNot b1 => rx_eqb a1 b1
  | XStar a1, XStar b1 => rx_eqb a1 b1
  | _, _ => false
  end.

(* smart constructors: language-preserving normalisation that keeps the set of derivatives small *)
Definition is_zero (r : rx) : bool := match r with XZero => true | _ => false end.
Definition is_eps (r : rx) : bool := match r with XEps => true | _ => false end.
Definition is_top (r : rx) : bool := match r with XNot XZero => true | _ => false end.

Definition mkCat (a b : rx) : rx :=
  if is_zero a || is_zero b then XZero
  else if is_eps a then b
  else if is_eps b then a
  else XCat a b.

Fixpoint alts (r : rx) : list rx :=
  match r with
  | XAlt a b => alts a ++ alts b
  | XZero => []
  | _ => [r]
  end.

Definition add_new (acc : list rx) (x : rx) : list rx :=
  if existsb (rx_eqb x) acc then acc else acc ++ [x].

Definition dedupe (l : list rx) : list rx := fold_left add_new l [].

Fixpoint big_alt (l : list rx) : rx :=
  match l with
  | [] => XZero
  | [x] => x
  | x :: t => XAlt x (big_alt t)
  end.

Definition mkAlt (a b : rx) : rx := big_alt (dedupe (alts a ++ alts b)).

Definition mkAnd (a b : rx) : rx :=
  if is_zero a || is_zero b then XZero
  else if is_top a then b
  else if is_top b then a
  else if rx_eqb a b then a
  else XAnd a b.

Fixpoint deriv (c : char) (r : rx) : rx :=
  match r with
  | XZero => XZero
  | XEps => XZero
  | XCls p => if cls_mem p c then XEps else XZero
  | XCat a b => if nullable a then mkAlt (mkCat (deriv c a) b) (deriv c b) else mkCat (deriv c a) b
  | XAlt a b => mkAlt (deriv c a) (deriv c b)
  | XAnd a b => mkAnd (deriv c a) (deriv c b)
  | XNot a => XNot (deriv c a)
  | XStar a => mkCat (deriv c a) (XStar a)
  end.

Fixpoint rx_match (r : rx) (s : str) : bool :=
  match s with
  | [] => nullable r
  | c :: t => rx_match (deriv c r) t
  end.

(* ------------------------------------------------------------------ 2. re -> rx *)
Fixpoint xpow (n : nat) (x : rx) : rx :=
  match n with 0 => XEps | S m => XCat x (xpow m x) end.

(* between 0 and n copies: (x (x (...)?)?)? *)
Fixpoint xoptpow (n : nat) (x : rx) : rx :=
  match n with 0 => XEps | S m => XAlt XEps (XCat x (xoptpow m x)) end.

Fixpoint plain (r : re) : option rx :=
  match r with
  | REps => Some XEps
  | RSet ic neg items => Some (XCls (Cls ic neg items))
  | RAny d => Some (XCls (Cls false true (if d then [] else [CI_char NL])))
  | RSeq a b => match plain a, plain b with Some x, Some y => Some (XCat x y) | _, _ => None end
  | RAlt a b => match plain a, plain b with Some x, Some y => Some (XAlt x y) | _, _ => None end
  | RRep _ lo hi a =>
      match plain a with
      | Some x => Some (XCat (xpow lo x) (match hi with None => XStar x | Some h => xoptpow (h - lo) x end))
      | None => None
      end
  | RGroup _ a => plain a
  | RLook _ _ => None
  | RAt _ => None
  end.

(* ------------------------------------------------------------------ 3. equivalence by bisimulation *)
Fixpoint classes (r : rx) : list cls :=
  match r with
  | XZero | XEps => []
  | XCls p => [p]
  | XCat a b | XAlt a b | XAnd a b => classes a ++ classes b
  | XNot a | XStar a => classes a
  end.

Definition item_bounded (B : N) (it : citem) : bool :=
  match it with
  | CI_char d => N.ltb d B
  | CI_range _ hi => N.ltb hi B
  | CI_cat _ _ => true
  end.

(* every constant of the class is below B, and B is beyond ASCII (categories and case folding are ASCII-only) *)
Definition cls_bounded (B : N) (p : cls) : bool :=
  match p with Cls _ _ items => N.leb 128 B && forallb (item_bounded B) items end.

Definition pair_eqb (x y : rx * rx) : bool := rx_eqb (fst x) (fst y) && rx_eqb (snd x) (snd y).
Definition memp (x : rx * rx) (l : list (rx * rx)) : bool := existsb (pair_eqb x) l.

Definition cls_in (p : cls) (P : list cls) : bool := existsb (cls_eqb p) P.
Definition classes_within (r : rx) (P : list cls) : bool := forallb (fun p => cls_in p P) (classes r).

Definition pair_ok (P : list cls) (reps : list char) (St : list (rx * rx)) (ab : rx * rx) : bool :=
  Bool.eqb (nullable (fst ab)) (nullable (snd ab))
  && classes_within (fst ab) P && classes_within (snd ab) P
  && forallb (fun c => memp (deriv c (fst ab), deriv c (snd ab)) St) reps.

Definition is_bisim (P : list cls) (reps : list char) (St : list (rx * rx)) : bool :=
  forallb (pair_ok P reps St) St.

(* the (unverified) search that produces the candidate set *)
Fixpoint explore (fuel : nat) (reps : list char) (todo seen : list (rx * rx)) : option (list (rx * rx)) :=
  match fuel with
  | 0 => None
  | S f =>
    match todo with
    | [] => Some seen
    | ab :: rest =>
      if memp ab seen then explore f reps rest seen
      else explore f reps (map (fun c => (deriv c (fst ab), deriv c (snd ab))) reps ++ rest) (ab :: seen)
    end
  end.

(* 0, 1, ..., n *)
Fixpoint nrange (n : nat) : list char :=
  match n with 0 => [0%N] | S m => nrange m ++ [N.of_nat (S m)] end.

Definition equiv_check (B : nat) (a b : rx) : bool :=
  let P := classes a ++ classes b in
  let reps := nrange B in
  forallb (cls_bounded (N.of_nat B)) P &&
  match explore (400 * 500) reps [(a, b)] [] with
  | Some St => memp (a, b) St && is_bisim P reps St
  | None => false
  end.

(* L(a) included in L(b) *)
Definition incl_check (B : nat) (a b : rx) : bool := equiv_check B (XAnd a (XNot b)) XZero.

(* ------------------------------------------------------------------ 4. grammar combinators and references *)
Definition ch (c : char) : rx := XCls (Cls false false [CI_char c]).
Definition chs (l : list char) : rx := XCls (Cls false false (map CI_char l)).
Definition rng (lo hi : char) : rx := XCls (Cls false false [CI_range lo hi]).
Definition ch_ci (c : char) : rx := XCls (Cls true false [CI_char c]).       (* either case (ASCII) *)
Definition xany : rx := XCls (Cls false true []).                            (* any character *)
Definition xall : rx := XStar xany.                                          (* any string *)
Definition xopt (a : rx) : rx := XAlt XEps a.
Definition xplus (a : rx) : rx := XCat a (XStar a).
Fixpoint xseq (l : list rx) : rx := match l with [] => XEps | [a] => a | a :: t => XCat a (xseq t) end.
Fixpoint xalt (l : list rx) : rx := match l with [] => XZero | [a] => a | a :: t => XAlt a (xalt t) end.
Fixpoint xand (l : list rx) : rx := match l with [] => xall | [a] => a | a :: t => XAnd a (xand t) end.
Definition lit (w : str) : rx := xseq (map ch w).
Definition lit_ci (w : str) : rx := xseq (map ch_ci w).
Definition over (p : cls) : rx := XStar (XCls p).                            (* strings over an alphabet *)
Definition contains (a : rx) : rx := xseq [xall; a; xall].
Definition starts_with (a : rx) : rx := XCat a xall.

Definition digit : rx := rng 48%N 57%N.
Definition sign : rx := chs [43; 45]%N.                                      (* + - *)
Definition dot : rx := ch 46%N.
Definition underscore : rx := ch 95%N.
Definition expo_e : rx := chs [101; 69]%N.                                   (* e E *)
Definition hexdigit : rx := XCls (Cls false false [CI_range 48%N 57%N; CI_range 97%N 102%N; CI_range 65%N 70%N]).
(* the ASCII white space that float() / int() strip: \t \n \v \f \r and space (NOT \x1c-\x1f, although str.isspace) *)
Definition wspace : rx := XCls (Cls false false [CI_range 9%N 13%N; CI_char 32%N]).

(* --- Python's float(): library reference, "float" (ASCII digits)
     sign ::= "+" | "-"       infinity ::= "Infinity" | "inf"      nan ::= "nan"
     digitpart ::= digit (["_"] digit)*
     number ::= [digitpart] "." digitpart | digitpart ["."]
     exponent ::= ("e" | "E") [sign] digitpart
     floatnumber ::= number [exponent]
     absfloatvalue ::= floatnumber | infinity | nan          floatvalue ::= [sign] absfloatvalue
   case is not significant for inf/nan; leading and trailing white space is removed *)
Definition digitpart : rx := XCat digit (XStar (XCat (xopt underscore) digit)).
Definition py_number : rx := XAlt (xseq [xopt digitpart; dot; digitpart]) (XCat digitpart (xopt dot)).
Definition py_exponent : rx := xseq [expo_e; xopt sign; digitpart].
Definition py_floatnumber : rx := XCat py_number (xopt py_exponent).
Definition py_infinity : rx := XAlt (lit_ci [105; 110; 102; 105; 110; 105; 116; 121]%N) (lit_ci [105; 110; 102]%N).
Definition py_nan : rx := lit_ci [110; 97; 110]%N.
Definition py_floatvalue : rx := XCat (xopt sign) (xalt [py_floatnumber; py_infinity; py_nan]).
Definition g_py_float : rx := xseq [XStar wspace; py_floatvalue; XStar wspace].

(* --- Python's int(x, base): optional white space, optional sign, digits of the base with single underscores
   between digits; for base 16 an optional 0x / 0X prefix, after which one underscore may follow *)
Definition g_py_int10 : rx := xseq [XStar wspace; xopt sign; digitpart; XStar wspace].
Definition hexpart : rx := XCat hexdigit (XStar (XCat (xopt underscore) hexdigit)).
Definition g_py_int16 : rx :=
  xseq [XStar wspace; xopt sign;
        XAlt (xseq [ch 48%N; chs [120; 88]%N; xopt underscore; hexpart]) hexpart;
        XStar wspace].

Definition py_float_literal (s : str) : bool := rx_match g_py_float s.      (* float(s) does not raise *)
Definition py_int_literal (s : str) : bool := rx_match g_py_int10 s.        (* int(s) does not raise *)
Definition py_int16_literal (s : str) : bool := rx_match g_py_int16 s.      (* int(s, 16) does not raise *)

(* alphabets *)
Definition alpha_int : cls := Cls false false [CI_char 43%N; CI_char 45%N; CI_range 48%N 57%N].            (* + - 0-9 *)
Definition alpha_digits : cls := Cls false false [CI_range 48%N 57%N].
Definition alpha_real : cls := Cls false false [CI_char 43%N; CI_char 45%N; CI_char 46%N; CI_range 48%N 57%N]. (* + - . 0-9 *)
Definition alpha_sci : cls :=
  Cls false false [CI_char 43%N; CI_char 45%N; CI_char 46%N; CI_range 48%N 57%N; CI_char 101%N; CI_char 69%N].
Definition alpha_hex : cls := Cls false false [CI_range 48%N 57%N; CI_range 97%N 102%N; CI_range 65%N 70%N].
Definition alpha_no_ws_us : cls := Cls false true [CI_range 9%N 13%N; CI_char 32%N; CI_char 95%N].    (* not space, not _ *)
Definition alpha_ascii : cls := Cls false false [CI_range 0%N 127%N].

Definition leading_dot : rx := starts_with (XCat (xopt sign) dot).          (* [sign] "." ... *)

(* --- the documented forms, as restrictions of Python's own literal syntax *)
(* integer: "an unsigned integer" = the int() literals written with digits only *)
Definition g_integer : rx := XAnd g_py_int10 (over alpha_digits).
(* signed_integer: "an integer with optional leading sign" = the int() literals written with sign and digits only *)
Definition g_signed_integer : rx := XAnd g_py_int10 (over alpha_int).
(* hex_integer: "a hexadecimal integer" = the int(.,16) literals written with hex digits only *)
Definition g_hex_integer : rx := XAnd g_py_int16 (over alpha_hex).
(* real: "a floating point number" = the float() literals over sign, digits and the point, that contain a point *)
Definition g_real : rx := xand [g_py_float; over alpha_real; contains dot].
(* sci_real: "floating point number with optional scientific notation" = the float() literals over sign, digits,
   point, e/E that are not plain integers (contain a point or an exponent) *)
Definition g_sci_real : rx := xand [g_py_float; over alpha_sci; XAlt (contains dot) (contains expo_e)].
(* number: any of the above numeric literals *)
Definition g_number : rx := XAnd g_py_float (over alpha_sci).
(* fnumber: "any int or real number": the float() literals over sign, digits, point, e/E -- EXCEPT that the
   pattern requires a digit before the point (F-18c) *)
Definition g_fnumber : rx := xand [g_py_float; over alpha_sci; XNot leading_dot].
Definition g_fnumber_documented : rx := XAnd g_py_float (over alpha_sci).
(* ieee_float: "any floating-point literal (int, real number, infinity, or NaN)": every float() literal without
   surrounding white space and without underscores -- EXCEPT those with a leading point (F-18c) *)
Definition g_ieee_float : rx := xand [g_py_float; over alpha_no_ws_us; XNot leading_dot].
Definition g_ieee_float_documented : rx := XAnd g_py_float (over alpha_no_ws_us).

Definition ref_integer (s : str) : bool := rx_match g_integer s.
Definition ref_signed_integer (s : str) : bool := rx_match g_signed_integer s.
Definition ref_hex_integer (s : str) : bool := rx_match g_hex_integer s.
Definition ref_real (s : str) : bool := rx_match g_real s.
Definition ref_sci_real (s : str) : bool := rx_match g_sci_real s.
Definition ref_number (s : str) : bool := rx_match g_number s.
Definition ref_fnumber (s : str) : bool := rx_match g_fnumber s.
Definition ref_ieee_float (s : str) : bool := rx_match g_ieee_float s.

(* --- identifiers: str.isidentifier = XID_Start XID_Continue*, restricted to ASCII / to Latin-1 *)
Definition id_start_ascii : cls := Cls false false [CI_range 65%N 90%N; CI_char 95%N; CI_range 97%N 122%N].
Definition id_cont_ascii : cls := Cls false false [CI_range 48%N 57%N; CI_range 65%N 90%N; CI_char 95%N; CI_range 97%N 122%N].
Definition g_identifier_ascii : rx := XCat (XCls id_start_ascii) (XStar (XCls id_cont_ascii)).
(* Latin-1 letters with XID_Start: U+00AA U+00B5 U+00BA U+00C0-D6 U+00D8-F6 U+00F8-FF; XID_Continue adds U+00B7 *)
Definition id_start_latin1 : cls :=
  Cls false false [CI_range 65%N 90%N; CI_char 95%N; CI_range 97%N 122%N; CI_char 170%N; CI_char 181%N; CI_char 186%N;
                   CI_range 192%N 214%N; CI_range 216%N 246%N; CI_range 248%N 255%N].
Definition id_cont_latin1 : cls :=
  Cls false false [CI_range 48%N 57%N; CI_range 65%N 90%N; CI_char 95%N; CI_range 97%N 122%N; CI_char 170%N; CI_char 181%N;
                   CI_char 183%N; CI_char 186%N; CI_range 192%N 214%N; CI_range 216%N 246%N; CI_range 248%N 255%N].
Definition g_identifier_latin1 : rx := XCat (XCls id_start_latin1) (XStar (XCls id_cont_latin1)).
Definition ref_identifier (s : str) : bool := rx_match g_identifier_ascii s.
Definition is_ascii (s : str) : bool := forallb (fun c => N.ltb c 128) s.

(* --- ipaddress.IPv4Address: four decimal octets 0..255 without leading zeros *)
Definition nonzero_digit : rx := rng 49%N 57%N.
Definition octet_strict : rx :=
  xalt [digit;                                               (* 0-9 *)
        XCat nonzero_digit digit;                            (* 10-99 *)
        xseq [ch 49%N; digit; digit];                        (* 100-199 *)
        xseq [ch 50%N; rng 48%N 52%N; digit];                (* 200-249 *)
        xseq [ch 50%N; ch 53%N; rng 48%N 53%N]].             (* 250-255 *)
Definition g_ipv4_strict : rx := xseq [octet_strict; dot; octet_strict; dot; octet_strict; dot; octet_strict].
(* what the pattern accepts: two-digit octets may start with 0 *)
Definition octet_lenient : rx := XAlt octet_strict (XCat (ch 48%N) digit).
Definition g_ipv4_lenient : rx := xseq [octet_lenient; dot; octet_lenient; dot; octet_lenient; dot; octet_lenient].

(* --- canonical UUID text: 8-4-4-4-12 hex digits *)
Definition g_uuid : rx :=
  xseq [xpow 8 hexdigit; ch 45%N; xpow 4 hexdigit; ch 45%N; xpow 4 hexdigit; ch 45%N; xpow 4 hexdigit; ch 45%N; xpow 12 hexdigit].

(* --- ISO 8601 calendar date shapes yyyy, yyyy-mm, yyyy-mm-dd and the date-time shape of the doc string *)
Definition dd : rx := XCat digit digit.
Definition g_iso_date : rx :=
  XCat (xpow 4 digit) (xopt (xseq [ch 45%N; dd; xopt (XCat (ch 45%N) dd)])).
(* yyyy-mm-dd(T| )hh:mm[:ss[.f*]][Z|(+|-)hh[:]mm]  -- plus, as the pattern is written, an empty seconds field
   after the second colon ("hh:mm:") *)
Definition g_iso_tz : rx := XAlt (ch 90%N) (xseq [sign; dd; xopt (ch 58%N); dd]).
Definition g_iso_datetime_documented : rx :=
  xseq [xpow 4 digit; ch 45%N; dd; ch 45%N; dd; chs [84; 32]%N; dd; ch 58%N; dd;
        xopt (xseq [ch 58%N; dd; xopt (XCat dot (XStar digit))]); xopt g_iso_tz].
Definition g_iso_datetime_actual : rx :=
  xseq [xpow 4 digit; ch 45%N; dd; ch 45%N; dd; chs [84; 32]%N; dd; ch 58%N; dd;
        xopt (XCat (ch 58%N) (xopt (XCat dd (xopt (XCat dot (XStar digit)))))); xopt g_iso_tz].

(* ------------------------------------------------------------------ 5. int() with its value *)
Local Open Scope Z_scope.

Definition digit_val (c : char) : option Z :=
  if in_range 48%N 57%N c then Some (Z.of_N c - 48)
  else if in_range 97%N 102%N c then Some (Z.of_N c - 87)
  else if in_range 65%N 70%N c then Some (Z.of_N c - 55)
  else None.

(* Horner evaluation of a digit string in `base`; underscores are skipped (their placement is checked by the
   literal grammar); None on a character that is not a digit of the base *)
Fixpoint horner (base : Z) (acc : Z) (s : str) : option Z :=
  match s with
  | [] => Some acc
  | c :: t =>
    if N.eqb c 95%N then horner base acc t
    else match digit_val c with
         | Some d => if d <? base then horner base (base * acc + d) t else None
         | None => None
         end
  end.

Definition is_pyspace (c : char) : bool := in_range 9%N 13%N c || N.eqb c 32%N.
Fixpoint strip_left (s : str) : str :=
  match s with c :: t => if is_pyspace c then strip_left t else s | [] => [] end.
Definition strip (s : str) : str := rev (strip_left (rev (strip_left s))).

Definition drop_hex_prefix (s : str) : str :=
  match s with
  | z :: x :: t => if N.eqb z 48%N && (N.eqb x 120%N || N.eqb x 88%N) then t else s
  | _ => s
  end.

(* (negative?, text after the sign) *)
Definition split_sign (t : str) : bool * str :=
  match t with
  | c :: r => if N.eqb c 45%N then (true, r) else if N.eqb c 43%N then (false, r) else (false, t)
  | [] => (false, t)
  end.

(* int(s) / int(s, 16): None models ValueError *)
Definition py_int (base : nat) (s : str) : option Z :=
  let ok := match base with 10%nat => py_int_literal s | 16%nat => py_int16_literal s | _ => false end in
  if ok then
    let nb := split_sign (strip s) in
    let body := match base with 16%nat => drop_hex_prefix (snd nb) | _ => snd nb end in
    match horner (Z.of_nat base) 0 body with
    | Some v => Some (if fst nb then - v else v)
    | None => None
    end
  else None.

(* the value of a plain digit string, most significant digit first (specification side) *)
Fixpoint digits_value (base : Z) (ds : list Z) : Z :=
  match ds with
  | [] => 0
  | d :: t => d * base ^ Z.of_nat (length t) + digits_value base t
  end.

(* the integer denoted by sign? digits+ : positional value of the digits, negated after a minus sign *)
Definition dval (c : char) : Z := Z.of_N c - 48.
Definition int_value (s : str) : Z :=
  match s with
  | c :: r => if N.eqb c 45%N then - digits_value 10 (map dval r)
              else if N.eqb c 43%N then digits_value 10 (map dval r)
              else digits_value 10 (map dval s)
  | [] => 0
  end.
Definition hexval (c : char) : Z := match digit_val c with Some d => d | None => 0 end.
Definition hex_value (s : str) : Z := digits_value 16 (map hexval s).

Local Close Scope Z_scope.

(* ------------------------------------------------------------------ number = sci_real | real | signed_integer
   MatchFirst at position 0 followed by the end-of-string test of parse_all: the first alternative whose
   pattern matches a prefix decides; the parse succeeds when that prefix is the whole string. *)
Fixpoint first_match {C} (alts : list (re * C)) (s : str) : option (nat * C) :=
  match alts with
  | [] => None
  | (r, cv) :: t => match re_match r s 0 with Some e => Some (e, cv) | None => first_match t s end
  end.

Definition match_first_all {C} (alts : list (re * C)) (s : str) : option C :=
  match first_match alts s with
  | Some (e, cv) => if Nat.eqb e (length s) then Some cv else None
  | None => None
  end.
