(* Model of pyparsing.helpers.one_of: the reordering loop, first-match over the reordered symbols
   (MatchFirst of Literal / CaselessLiteral / Keyword / CaselessKeyword), and the regex it builds.
   Executable definitions only.

   The loop
        i = 0
        while i < len(symbols) - 1:
            cur = symbols[i]
            for j, other in enumerate(symbols[i + 1:]):
                if is_equal(other, cur):   del symbols[i + j + 1]; break
                if len(other) > len(cur) and masks(cur, other):
                                           del symbols[i + j + 1]; symbols.insert(i, other); break
            else: i += 1
   is modelled twice: `reorder_ix` works on the list and the index exactly as written (nth / delete / insert),
   `reorder` on the split  symbols = rev done ++ cur :: rest  (i = length done).  OneOfProofs.reorder_ix_eq shows
   they compute the same list; both run on explicit fuel and OneOfProofs.reorder_terminates shows the fuel
   `reorder_fuel` always suffices.  Case folding is ASCII (Model/Regex.v). *)
From Coq Require Import List NArith Arith Bool Lia.
From PP Require Import Model.Str Model.Regex Model.ReGen.
Import ListNotations.

Definition fold_case (cl : bool) (w : str) : str := if cl then str_upper w else w.

(* is_equal(a, b) *)
Definition sym_eq (cl : bool) (a b : str) : bool := str_eqb (fold_case cl a) (fold_case cl b).
(* masks(a, b) : b.startswith(a), after folding when caseless *)
Definition masks (cl : bool) (a b : str) : bool := prefix_of (fold_case cl a) (fold_case cl b).
(* len(other) > len(cur) and masks(cur, other) *)
Definition pmask (cl : bool) (cur other : str) : bool := (length cur <? length other) && masks cl cur other.

(* ---------------------------------------------------------------- the inner for loop *)
Inductive hit := HDel (j : nat) | HMove (j : nat) (other : str).

Fixpoint scan_ix (cl : bool) (cur : str) (rest : list str) (j : nat) : option hit :=
  match rest with
  | [] => None
  | o :: t =>
    if sym_eq cl o cur then Some (HDel j)
    else if pmask cl cur o then Some (HMove j o)
    else scan_ix cl cur t (S j)
  end.

Fixpoint delete_at {A} (n : nat) (l : list A) : list A :=
  match n, l with
  | _, [] => []
  | 0, _ :: t => t
  | S n', x :: t => x :: delete_at n' t
  end.

Fixpoint insert_at {A} (n : nat) (x : A) (l : list A) : list A :=
  match n, l with
  | 0, _ => x :: l
  | S n', y :: t => y :: insert_at n' x t
  | S _, [] => [x]
  end.

(* index-level model: None = out of fuel *)
Fixpoint reorder_ix (cl : bool) (fuel : nat) (syms : list str) (i : nat) : option (list str) :=
  match fuel with
  | 0 => None
  | S f =>
    if S i <? length syms then
      match nth_error syms i with
      | None => None
      | Some cur =>
        match scan_ix cl cur (skipn (S i) syms) 0 with
        | Some (HDel j) => reorder_ix cl f (delete_at (i + j + 1) syms) i
        | Some (HMove j o) => reorder_ix cl f (insert_at i o (delete_at (i + j + 1) syms)) i
        | None => reorder_ix cl f syms (S i)
        end
      end
    else Some syms
  end.

(* split-level model *)
Inductive shit := SDel (rest' : list str) | SMove (other : str) (rest' : list str).

Fixpoint scan (cl : bool) (cur : str) (rest : list str) : option shit :=
  match rest with
  | [] => None
  | o :: t =>
    if sym_eq cl o cur then Some (SDel t)
    else if pmask cl cur o then Some (SMove o t)
    else match scan cl cur t with
         | Some (SDel t') => Some (SDel (o :: t'))
         | Some (SMove x t') => Some (SMove x (o :: t'))
         | None => None
         end
  end.

Fixpoint reorder_go (cl : bool) (fuel : nat) (done : list str) (cur : str) (rest : list str) : option (list str) :=
  match fuel with
  | 0 => None
  | S f =>
    match rest with
    | [] => Some (rev done ++ [cur])
    | r :: rest1 =>
      match scan cl cur rest with
      | Some (SDel rest') => reorder_go cl f done cur rest'
      | Some (SMove o rest') => reorder_go cl f done o (cur :: rest')
      | None => reorder_go cl f (cur :: done) r rest1
      end
    end
  end.

Definition max_sym_len (syms : list str) : nat := fold_right (fun w m => Nat.max (length w) m) 0 syms.
Definition reorder_fuel (syms : list str) : nat := S (length syms) * S (max_sym_len syms).

(* the symbols after the loop; [] for an empty argument (one_of returns NoMatch) *)
Definition reorder (cl : bool) (syms : list str) : option (list str) :=
  match syms with
  | [] => Some []
  | c :: t => reorder_go cl (reorder_fuel syms) [] c t
  end.

(* ---------------------------------------------------------------- matching *)
(* Literal(sym) / CaselessLiteral(sym) at loc: instring[loc:loc+len].upper() == sym.upper() *)
Definition sym_match (cl : bool) (s : str) (loc : nat) (w : str) : bool :=
  starts_at (fold_case cl s) loc (fold_case cl w).

(* MatchFirst([Literal(sym) for sym in symbols]) : the first listed symbol that matches; result = the symbol *)
Definition match_first (cl : bool) (syms : list str) (s : str) (loc : nat) : option str :=
  find (sym_match cl s loc) syms.

(* the property's reading: a longest listed symbol that matches at loc *)
Definition is_longest_match (cl : bool) (syms : list str) (s : str) (loc : nat) (w : str) : Prop :=
  In w syms /\ sym_match cl s loc w = true /\
  forall v, In v syms -> sym_match cl s loc v = true -> length v <= length w.

(* ---------------------------------------------------------------- the regex *)
Definition all_single (syms : list str) : bool := forallb (fun w => length w =? 1) syms.

Definition oneof_alt (cl : bool) (syms : list str) : re :=
  if all_single syms then RSet cl false (map CI_char (concat syms))
  else ralt (map (if cl then rlit_i else rlit) syms).

(* \b(?:...)\b when as_keyword *)
Definition oneof_regex (cl kw : bool) (syms : list str) : re :=
  if kw then RSeq (RAt AtBoundary) (RSeq (RGroup None (oneof_alt cl syms)) (RAt AtBoundary))
  else oneof_alt cl syms.

(* Regex path: end position; the token is the matched text (caseless: mapped back to the listed symbol) *)
Definition oneof_regex_path (cl kw : bool) (syms : list str) (s : str) (loc : nat) : option nat :=
  re_match (oneof_regex cl kw syms) s loc.

(* the listed symbol the caseless parse action returns for the matched text: symbol_map[t.lower()] *)
Definition symbol_for (cl : bool) (syms : list str) (text : str) : option str :=
  find (fun w => str_eqb (if cl then str_lower w else w) (if cl then str_lower text else text)) (rev syms).

(* ---------------------------------------------------------------- Keyword / CaselessKeyword (as_keyword without regex) *)
Definition ident_chars : str :=            (* Keyword.DEFAULT_KEYWORD_CHARS = alphanums + "_$" *)
  map N.of_nat (seq 97 26) ++ map N.of_nat (seq 65 26) ++ map N.of_nat (seq 48 10) ++ [95%N; 36%N].

Definition ident_at (cl : bool) (s : str) (i : nat) : bool :=
  match char_at s i with
  | Some c => mem_char (if cl then ascii_upper c else c) (if cl then str_upper ident_chars else ident_chars)
  | None => false
  end.

Definition keyword_match (cl : bool) (s : str) (loc : nat) (w : str) : bool :=
  sym_match cl s loc w && (loc <? length s) &&
  ((loc =? 0) || negb (ident_at cl s (loc - 1))) &&
  negb (ident_at cl s (loc + length w)).

Definition match_first_kw (cl : bool) (syms : list str) (s : str) (loc : nat) : option str :=
  find (keyword_match cl s loc) syms.
