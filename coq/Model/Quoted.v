(* C18, QuotedString (pyparsing/core.py): the pattern built by __init__, parseImpl with its unquote post-processing,
   and the canonical way a user quotes arbitrary content.  Executable definitions only.

   Stated restrictions of the model: esc_char is one character (the doc calls it a character; the code accepts
   any string); quote / end-quote strings are given already stripped (the constructor strips white space and
   rejects the empty string); results are `str`. *)
From Coq Require Import List NArith ZArith Arith Bool Lia.
From PP Require Import Model.Str Model.Regex Model.Builtins Gen.GenRegex.
Import ListNotations.

Record qcfg := {
  q_quote : str;                 (* quote_char (non-empty, stripped) *)
  q_end : str;                   (* end_quote_char (defaults to quote_char) *)
  q_esc : option char;           (* esc_char *)
  q_escq : option str;           (* esc_quote (None also stands for "") *)
  q_multiline : bool;
  q_unquote : bool;              (* unquote_results *)
  q_cws : bool                   (* convert_whitespace_escapes *)
}.

Definition BS : char := 92%N.    (* backslash *)

Definition end0 (cfg : qcfg) : char := hd 0%N (q_end cfg).

(* ---------------------------------------------------------------- __init__: the pattern
   The AST is the one sre_parse builds for the pattern string: non-capturing groups without flags are inlined.
   (For an end quote of three or more characters sre_parse additionally factors the common first character out of
   the look-ahead alternatives; the model keeps them unfactored -- same language, compared behaviourally.) *)
(* (?:<end[:i]>(?!<end[i:]>))  for i = len-1 downto 1 *)
Definition prefix_alt (e : str) (i : nat) : re :=
  rseq (map RChr (firstn i e) ++ [RLook false (rlit (skipn i e))]).

Fixpoint countdown (n : nat) : list nat :=       (* n, n-1, ..., 1 *)
  match n with 0 => [] | S m => S m :: countdown m end.

Definition prefix_alts (e : str) : re :=
  ralt (map (prefix_alt e) (countdown (length e - 1))).

(* [^<end[0]>\n\r<esc>]   (\n\r only when not multiline) *)
Definition body_set (cfg : qcfg) : re :=
  RSet false true ([CI_char (end0 cfg)]
                   ++ (if q_multiline cfg then [] else [CI_char NL; CI_char CR])
                   ++ (match q_esc cfg with Some e => [CI_char e] | None => [] end)).

Definition qs_inner (cfg : qcfg) : list re :=
  (match q_escq cfg with Some eq => [rlit eq] | None => [] end)
  ++ (match q_esc cfg with Some e => [RSeq (RChr e) (RAny (q_multiline cfg))] | None => [] end)
  ++ (if 1 <? length (q_end cfg) then [prefix_alts (q_end cfg)] else [])
  ++ [body_set cfg].

Definition qs_pattern (cfg : qcfg) : re :=
  rseq (map RChr (q_quote cfg) ++ [RRep Greedy 0 None (ralt (qs_inner cfg))] ++ map RChr (q_end cfg)).

(* ---------------------------------------------------------------- parseImpl: the unquote scanner *)
(* first entry of ws_map whose key is a prefix of t  (alternation order = dict order) *)
Fixpoint ws_lookup (m : list (str * str)) (t : str) : option (str * str) :=
  match m with
  | [] => None
  | (k, v) :: m' => if prefix_of k t then Some (v, skipn (length k) t) else ws_lookup m' t
  end.

Definition is_digit_str (s : str) : bool := forallb is_digit_char s.

Definition chr_of_Z (z : Z) : char := Z.to_N z.

(* convert_escaped_numerics(s), s = the group-2 match without its backslash.
   int(.., 8) / int(.., 16) cannot fail on what the scanner's second alternative matches; a failing conversion is
   modelled as the empty output (never reached, see QuotedProofs). *)
Definition convert_escaped_numerics (s : str) : str :=
  if str_eqb s [48%N] then [0%N]
  else if is_digit_str s && Nat.eqb (length s) 3 then
    match horner 8 0 s with Some v => [chr_of_Z v] | None => [] end
  else match s with
       | c :: r => if N.eqb c 117%N || N.eqb c 120%N then
                     match horner 16 0 r with Some v => [chr_of_Z v] | None => [] end
                   else s
       | [] => s
       end.

(* `.` under the flags of the scanner *)
Definition dot_ok (cfg : qcfg) (c : char) : bool := q_multiline cfg || negb (N.eqb c NL).

(* one step of unquote_scan_re.finditer at the head of t: (emitted text, rest) *)
Definition scan_step (cfg : qcfg) (t : str) : option (str * str) :=
  match t with
  | [] => None
  | c :: r =>
    let esc_pair :=      (* ({re.escape(esc_char)}.) ; with no esc_char this is (.) *)
      match q_esc cfg with
      | Some e => match r with
                  | x :: r' => if N.eqb c e && dot_ok cfg x then Some ([x], r') else None
                  | [] => None
                  end
      | None => if dot_ok cfg c then Some ([c], r) else None
      end in
    let any := Some ([c], r) in     (* (\n|.) *)
    let tail := match esc_pair with Some o => Some o | None => any end in
    if q_cws cfg then
      match ws_lookup qs_ws_map t with
      | Some o => Some o
      | None =>
        match re_match re_qs_numeric t 0 with
        | Some e => Some (convert_escaped_numerics (skipn 1 (firstn e t)), skipn e t)
        | None => tail
        end
      end
    else tail
  end.

Fixpoint unq_scan (cfg : qcfg) (fuel : nat) (t : str) : str :=
  match fuel with
  | 0 => []
  | S f => match scan_step cfg t with
           | Some (out, rest) => out ++ unq_scan cfg f rest
           | None => []
           end
  end.

(* str.replace(old, new), old non-empty: leftmost non-overlapping occurrences *)
Fixpoint str_replace (fuel : nat) (old new s : str) : str :=
  match fuel with
  | 0 => s
  | S f => match s with
           | [] => []
           | c :: r => if prefix_of old s then new ++ str_replace f old new (skipn (length old) s)
                       else c :: str_replace f old new r
           end
  end.

Definition unquote (cfg : qcfg) (matched : str) : str :=
  let inner := firstn (length matched - length (q_quote cfg) - length (q_end cfg)) (skipn (length (q_quote cfg)) matched) in
  let scanned := unq_scan cfg (S (length inner)) inner in
  match q_escq cfg with
  | Some eq => str_replace (S (length scanned)) eq (q_end cfg) scanned
  | None => scanned
  end.

(* parseImpl at loc: None = ParseException; Some (new loc, token) *)
Definition qs_parse (cfg : qcfg) (s : str) (loc : nat) : option (nat * str) :=
  match char_at s loc with
  | None => None                                         (* IndexError -> ParseException *)
  | Some c =>
    if N.eqb c (hd 0%N (q_quote cfg)) then
      match re_match (qs_pattern cfg) s loc with
      | Some e => let m := substr s loc e in
                  Some (e, if q_unquote cfg then unquote cfg m else m)
      | None => None
      end
    else None
  end.

(* ---------------------------------------------------------------- how a user quotes content *)
(* with an esc_char: prefix it to every esc_char, every first character of the end quote, and (when white-space
   escapes are converted) every backslash; else with an esc_quote: replace the end quote by it; else: as is *)
Definition needs_escape (cfg : qcfg) (e : char) (c : char) : bool :=
  N.eqb c e || N.eqb c (end0 cfg) || (q_cws cfg && N.eqb c BS).

Definition escape_content (cfg : qcfg) (content : str) : str :=
  match q_esc cfg with
  | Some e => flat_map (fun c => if needs_escape cfg e c then [e; c] else [c]) content
  | None => match q_escq cfg with
            | Some eq => str_replace (S (length content)) (q_end cfg) eq content
            | None => content
            end
  end.

Definition quoted_source (cfg : qcfg) (content : str) : str :=
  q_quote cfg ++ escape_content cfg content ++ q_end cfg.

(* characters that may follow a backslash in the first two alternatives of the scanner (\t \n \f \r, \[0-7]., \0, \x.., \u..) *)
Definition after_backslash_special (c : char) : bool :=
  in_range 48%N 55%N c || existsb (N.eqb c) [116; 110; 102; 114; 120; 117]%N.

Definition no_newline (s : str) : bool := forallb (fun c => negb (N.eqb c NL || N.eqb c CR)) s.

(* hypotheses of the round trip in the esc_char case *)
Definition roundtrip_hyp (cfg : qcfg) (e : char) (content : str) : bool :=
  negb (Nat.eqb (length (q_quote cfg)) 0) && negb (Nat.eqb (length (q_end cfg)) 0)
  && negb (N.eqb e (end0 cfg))
  && negb (N.eqb e NL) && negb (N.eqb (end0 cfg) NL)
  && (q_multiline cfg || no_newline content)
  && negb (q_cws cfg && N.eqb e BS && after_backslash_special (end0 cfg)).

(* ---------------------------------------------------------------- hypotheses of the round trip in the other configurations
   (each of them is also evaluated in Python by tools/props/c18.py as the scope of the oracle on the implementation) *)
(* (content + end).find(end) == len(content): the end quote neither occurs in the content nor straddles the closing one *)
Fixpoint no_end_inside (eq content : str) : bool :=
  match content with
  | [] => true
  | x :: r => negb (prefix_of eq ((x :: r) ++ eq)) && no_end_inside eq r
  end.

Definition no_bs (s : str) : bool := forallb (fun c => negb (N.eqb c BS)) s.

(* w in s *)
Fixpoint occurs (w s : str) : bool :=
  match s with
  | [] => prefix_of w []
  | x :: r => prefix_of w (x :: r) || occurs w r
  end.

Definition quotes_nonempty (cfg : qcfg) : bool :=
  negb (Nat.eqb (length (q_quote cfg)) 0) && negb (Nat.eqb (length (q_end cfg)) 0).

(* the scanner's white-space / numeric alternatives are either off or cannot fire on the text between the quotes *)
Definition scan_neutral (cfg : qcfg) (inner : str) : bool :=
  negb (q_unquote cfg && q_cws cfg) || no_bs inner.

(* no esc_char, no esc_quote *)
Definition plain_hyp (cfg : qcfg) (content : str) : bool :=
  quotes_nonempty cfg
  && no_end_inside (q_end cfg) content
  && (q_multiline cfg || no_newline content)
  && scan_neutral cfg content.

(* esc_quote only: a one-character end quote, an esc_quote of at least two characters that starts with it (SQL style) *)
Definition escq_hyp (cfg : qcfg) (w : str) (content : str) : bool :=
  quotes_nonempty cfg
  && Nat.eqb (length (q_end cfg)) 1
  && prefix_of (q_end cfg) w && (1 <? length w)
  && (q_multiline cfg || no_newline content)
  && scan_neutral cfg (escape_content cfg content).

(* esc_char and esc_quote: the hypotheses of the esc_char case, and the esc_quote does not occur in the content and does
   not contain the esc_char *)
Definition both_hyp (cfg : qcfg) (e : char) (w : str) (content : str) : bool :=
  roundtrip_hyp cfg e content
  && negb (Nat.eqb (length w) 0)
  && negb (occurs w content)
  && negb (mem_char e w).

(* which round-trip theorem (if any) covers the case: 0 none, 1 esc_char only, 2 plain, 3 esc_quote only, 4 both.
   The harness compares this with its own Python evaluation of the same conditions on every model case. *)
Definition qs_scope (cfg : qcfg) (content : str) : nat :=
  match q_esc cfg, q_escq cfg with
  | Some e, None => if roundtrip_hyp cfg e content then 1 else 0
  | None, None => if plain_hyp cfg content then 2 else 0
  | None, Some w => if escq_hyp cfg w content then 3 else 0
  | Some e, Some w => if both_hyp cfg e w content then 4 else 0
  end.

(* ---------------------------------------------------------------- structural equality of patterns
   (used by the correspondence harness only: model pattern vs the sre_parse tree of the real pattern) *)
Definition opt_nat_eqb (a b : option nat) : bool :=
  match a, b with Some x, Some y => Nat.eqb x y | None, None => true | _, _ => false end.
Definition greed_eqb (a b : greed) : bool := match a, b with Greedy, Greedy | Lazy, Lazy => true | _, _ => false end.
Definition at_kind_eqb (a b : at_kind) : bool :=
  match a, b with
  | AtBegin, AtBegin | AtBeginLine, AtBeginLine | AtEnd, AtEnd | AtEndLine, AtEndLine | AtEndString, AtEndString
  | AtBoundary, AtBoundary | AtNonBoundary, AtNonBoundary => true
  | _, _ => false
  end.
Fixpoint re_eqb (a b : re) : bool :=
  match a, b with
  | REps, REps => true
  | RSet i n l, RSet i' n' l' => Bool.eqb i i' && Bool.eqb n n' && items_eqb l l'
  | RAny d, RAny d' => Bool.eqb d d'
  | RSeq a1 a2, RSeq b1 b2 => re_eqb a1 b1 && re_eqb a2 b2
  | RAlt a1 a2, RAlt b1 b2 => re_eqb a1 b1 && re_eqb a2 b2
  | RRep g lo hi x, RRep g' lo' hi' y => greed_eqb g g' && Nat.eqb lo lo' && opt_nat_eqb hi hi' && re_eqb x y
  | RGroup i x, RGroup i' y => opt_nat_eqb i i' && re_eqb x y
  | RLook p x, RLook p' y => Bool.eqb p p' && re_eqb x y
  | RAt k, RAt k' => at_kind_eqb k k'
  | _, _ => false
  end.
