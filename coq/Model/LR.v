(* Bounded-recursion ("left recursion") mode: `Forward.parseImpl` with `ParserElement._left_recursion_enabled`, the memo
   tables `UnboundedMemo` / `LRUMemo(capacity)` of pyparsing/util.py, and the handler that interprets the `_parse` calls of
   Model/Core.v's `step` while threading the memo.  Executable definitions only. *)
From Coq Require Import List ZArith NArith Bool Arith.
From PP Require Import Model.Str Model.Results Model.Prog Model.Core Model.Entry.
Import ListNotations.

Definition mkey := (nat * nat * bool)%type.            (* (loc, id(self), do_actions) : NOTE no input string (F-15) *)
Inductive mres := MOk (r : pres) | MExc (x : exn).
Definition mval := (Z * mres)%type.                    (* (prev_loc, prev_result) ; prev_loc may be loc - 1 = -1 *)

Definition mkey_eqb (a b : mkey) : bool :=
  match a, b with (l1, f1, d1), (l2, f2, d2) => Nat.eqb l1 l2 && Nat.eqb f1 f2 && Bool.eqb d1 d2 end.

Fixpoint assoc {V} (d : list (mkey * V)) (k : mkey) : option V :=
  match d with [] => None | (k', v) :: d' => if mkey_eqb k' k then Some v else assoc d' k end.
Fixpoint aset {V} (d : list (mkey * V)) (k : mkey) (v : V) : list (mkey * V) :=
  match d with
  | [] => [(k, v)]
  | (k', v') :: d' => if mkey_eqb k' k then (k', v) :: d' else (k', v') :: aset d' k v
  end.
Fixpoint aremove {V} (d : list (mkey * V)) (k : mkey) : list (mkey * V) :=
  match d with [] => [] | (k', v') :: d' => if mkey_eqb k' k then d' else (k', v') :: aremove d' k end.

Record memo := { m_active : list (mkey * mval); m_memory : list (mkey * mval); m_cap : option nat }.
Definition memo_empty (cap : option nat) : memo := {| m_active := []; m_memory := []; m_cap := cap |}.

(* memo[key] ; None = KeyError *)
Definition memo_get (m : memo) (k : mkey) : option (mval * memo) :=
  match m_cap m with
  | None => match assoc (m_active m) k with Some v => Some (v, m) | None => None end        (* UnboundedMemo: a dict *)
  | Some _ =>                                                                               (* LRUMemo.__getitem__ *)
    match assoc (m_active m) k with
    | Some v => Some (v, m)
    | None => match assoc (m_memory m) k with
              | Some v => Some (v, {| m_active := m_active m; m_memory := aremove (m_memory m) k ++ [(k, v)]; m_cap := m_cap m |})
              | None => None
              end
    end
  end.

(* memo[key] = value *)
Definition memo_set (m : memo) (k : mkey) (v : mval) : memo :=
  match m_cap m with
  | None => {| m_active := aset (m_active m) k v; m_memory := m_memory m; m_cap := None |}
  | Some c => {| m_active := aset (m_active m) k v; m_memory := aremove (m_memory m) k; m_cap := Some c |}
  end.

(* del memo[key] : UnboundedMemo.__delitem__ is `pass`; LRUMemo retires the entry into its bounded memory *)
Definition memo_del (m : memo) (k : mkey) : memo :=
  match m_cap m with
  | None => m
  | Some c =>
    match assoc (m_active m) k with
    | None => m
    | Some v =>
      let mem := m_memory m in
      let mem' := skipn (length mem - (c + 1)) mem in          (* delete list(memory)[: -(capacity + 1)] *)
      {| m_active := aremove (m_active m) k; m_memory := aremove mem' k ++ [(k, v)]; m_cap := Some c |}
    end
  end.

Section LR.
Variable G : env.

Fixpoint runm (rec : memo -> args -> option (outcome * memo)) (m : memo) (p : prg) : option (outcome * memo) :=
  match p with
  | Ret o => Some (o, m)
  | Call a k => match rec m a with None => None | Some (o, m') => runm rec m' (k o) end
  end.

(* what super().parseImpl(instring, loc, do) answers: the body's `_parse` without pre-parse, exceptions rewritten *)
Definition super_impl (rec : memo -> args -> option (outcome * memo)) (a : attrs) (body : expr) (s : str) (loc : nat) (d : bool)
           (m : memo) : option (outcome * memo) :=
  match rec m (mkargs body s loc d false) with
  | Some (Err x, m') => Some (Err (enh_rewrite a true loc x), m')
  | other => other
  end.

(* the `while True:` growth loop *)
Fixpoint lr_loop (rec : memo -> args -> option (outcome * memo)) (fuel : nat) (a : attrs) (body : expr) (s : str) (loc : nat) (d : bool)
         (prev_loc : Z) (prev_peek : mres) (m : memo) : option (outcome * memo) :=
  let fid := nid a in
  let act_key := (loc, fid, true) in
  let peek_key := (loc, fid, false) in
  match fuel with
  | 0 => Some (Div, m)
  | S f =>
    match super_impl rec a body s loc false m with
    | None => None
    | Some (o, m1) =>
      let cont (new_loc : Z) (new_peek : mres) (m1 : memo) : option (outcome * memo) :=
        if (new_loc <=? prev_loc)%Z then
          if d then
            match memo_get m1 act_key with
            | None => Some (Err (mkx XKey 0%Z MEmpty None), m1)
            | Some ((pl, pr), m2) =>
              let m3 := memo_set m2 peek_key (pl, pr) in
              let m4 := memo_del (memo_del m3 peek_key) act_key in
              match pr with
              | MOk r => Some (Ok (Z.to_nat pl) r, m4)
              | MExc x => Some (Err x, m4)            (* copy.copy of a stored exception: returned, then unpacking fails in the caller; see LRProofs *)
              end
            end
          else
            let m2 := memo_del m1 peek_key in
            match prev_peek with
            | MOk r => Some (Ok (Z.to_nat prev_loc) r, m2)
            | MExc x => Some (Err x, m2)
            end
        else
          if d then
            match super_impl rec a body s loc true m1 with
            | None => None
            | Some (Ok l r, m2) =>
              let m3 := memo_set m2 act_key (Z.of_nat l, MOk r) in
              lr_loop rec f a body s loc d new_loc new_peek (memo_set m3 peek_key (new_loc, new_peek))
            | Some (Err x, m2) =>
              if is_pe (xk x) then
                let m3 := memo_set m2 act_key (new_loc, MExc x) in
                Some (Err x, memo_set m3 peek_key (new_loc, MExc x))
              else Some (Err x, m2)
            | Some (Div, m2) => Some (Div, m2)
            end
          else lr_loop rec f a body s loc d new_loc new_peek (memo_set m1 peek_key (new_loc, new_peek)) in
      match o with
      | Ok l r => cont (Z.of_nat l) (MOk r) m1
      | Err x =>
        if is_pe (xk x) then
          match prev_peek with
          | MExc _ => Some (Err x, m1)                         (* `raise` : no base case *)
          | MOk _ => cont prev_loc prev_peek m1
          end
        else Some (Err x, m1)
      | Div => Some (Div, m1)
      end
    end
  end.

(* Forward.parseImpl with left recursion enabled *)
Definition lr_forward (rec : memo -> args -> option (outcome * memo)) (a : attrs) (body : expr) (s : str) (loc : nat) (d : bool)
           (m : memo) : option (outcome * memo) :=
  let fid := nid a in
  match memo_get m (loc, fid, d) with
  | Some ((pl, MOk r), m1) => Some (Ok (Z.to_nat pl) r, m1)                 (* hit: prev_result.copy() *)
  | Some ((_, MExc x), m1) => Some (Err x, m1)                               (* hit: raise prev_result *)
  | None =>
    let seed := MExc (mkx XParse (Z.of_nat loc) MFwdNoBase (Some fid)) in
    let pl := (Z.of_nat loc - 1)%Z in
    let m1 := memo_set m (loc, fid, false) (pl, seed) in
    let m2 := if d then memo_set m1 (loc, fid, true) (pl, seed) else m1 in
    lr_loop rec (length s + 3) a body s loc d pl seed m2
  end.

(* the handler: every element as in Model/Core.v, except that a Forward's parseImpl is the algorithm above *)
Fixpoint parse_lr (fuel : nat) (m : memo) (ar : args) : option (outcome * memo) :=
  match fuel with
  | 0 => None
  | S f =>
    match a_e ar with
    | Fwd a ign (Some id) =>
      match nth_error G id with
      | None => runm (parse_lr f) m (step G ar)
      | Some body =>
        let e := a_e ar in let s := a_s ar in let d := a_do ar in
        (* pre-parse exactly as _parseNoCache does *)
        let pre := if a_pre ar && callpre a
                   then pre_parse escape e s (a_loc ar) (fun l => Ret (Ok l pr_empty))
                   else Ret (Ok (a_loc ar) pr_empty) in
        match runm (parse_lr f) m pre with
        | None => None
        | Some (Ok pre_loc _, m1) =>
          match lr_forward (parse_lr f) a body s pre_loc d m1 with
          | None => None
          | Some (Ok l r, m2) => runm (parse_lr f) m2 (step_k e s d pre_loc (inr (l, RPR r)))
          | Some (Err x, m2) => runm (parse_lr f) m2 (step_k e s d pre_loc (inl (if is_index (xk x) then IIndexError else IExc x)))
          | Some (Div, m2) => Some (Div, m2)
          end
        | Some (o, m1) => Some (o, m1)
        end
      end
    | _ => runm (parse_lr f) m (step G ar)
    end
  end.

(* entry points thread the memo like the packrat cache *)
Fixpoint drunm {R} (rec : memo -> args -> option (outcome * memo)) (m : memo) (p : dprog R) : option (R * memo) :=
  match p with
  | DRet r => Some (r, m)
  | DCall a k => match rec m a with None => None | Some (o, m') => drunm rec m' (k o) end
  end.
End LR.
