(* M3 (core part): ParseResults at value level — the data type and the operations the parser itself performs on
   results (`__new__`/`__init__` with name binding, `__setitem__` by name, `__getitem__` by name, `__iadd__`, `copy`,
   `del r[:]`, `_asStringList`, `haskeys`, `__bool__`), mirroring pyparsing/results.py statement by statement.
   The remaining public API (C10/C11) lives in Model/ResultsAPI.v.  Object identity, `_parent` and the weak
   references are not represented at this level (see Level H). *)
From Coq Require Import List ZArith NArith Bool.
From PP Require Import Model.Str.
Import ListNotations.

Record pres_ (T : Type) := PR {
  toks : list T;                                (* _toklist *)
  dict : list (str * list (T * Z));             (* _tokdict : name -> [_ParseResultsWithOffset(value, position)], insertion ordered *)
  allnames : list str;                          (* _all_names (a set; only membership is observable) *)
  rname : option str;                           (* _name *)
  modal : bool                                  (* _modal *)
}.
Arguments PR {T}. Arguments toks {T}. Arguments dict {T}. Arguments allnames {T}.
Arguments rname {T}. Arguments modal {T}.

Inductive tok :=
| TStr (s : str)
| TInt (z : Z)
| TBool (b : bool)
| TNone
| TList (l : list tok)            (* a plain Python list (Group(aslist=True), values returned by actions) *)
| TPR (r : pres_ tok).            (* a nested ParseResults *)

Definition pres := pres_ tok.

Definition pr_empty : pres := PR [] [] [] None true.
(* ParseResults(list) : `__new__` copies the list; `__init__` without a name only sets _modal *)
Definition pr_of_list (l : list tok) : pres := PR l [] [] None true.

Definition name_in (n : str) (ns : list str) : bool := existsb (str_eqb n) ns.
Definition names_union (a b : list str) : list str :=
  a ++ filter (fun n => negb (name_in n a)) b.

(* ---- the ordered dict ---- *)
Fixpoint dict_get {V} (d : list (str * V)) (k : str) : option V :=
  match d with [] => None | (k', v) :: d' => if str_eqb k' k then Some v else dict_get d' k end.
Fixpoint dict_set {V} (d : list (str * V)) (k : str) (v : V) : list (str * V) :=
  match d with
  | [] => [(k, v)]
  | (k', v') :: d' => if str_eqb k' k then (k', v) :: d' else (k', v') :: dict_set d' k v
  end.
Fixpoint dict_del {V} (d : list (str * V)) (k : str) : list (str * V) :=
  match d with [] => [] | (k', v') :: d' => if str_eqb k' k then d' else (k', v') :: dict_del d' k end.

(* self[k] = _ParseResultsWithOffset(v, pos)  /  self[k] = v  (str key):  _tokdict[k] = _tokdict.get(k, []) + [..] *)
Definition pr_setname (r : pres) (k : str) (v : tok) (pos : Z) : pres :=
  let old := match dict_get (dict r) k with Some l => l | None => [] end in
  PR (toks r) (dict_set (dict r) k (old ++ [(v, pos)])) (allnames r) (rname r) (modal r).

(* self[k] for a str key; None models KeyError *)
Definition pr_getname (r : pres) (k : str) : option tok :=
  match dict_get (dict r) k with
  | None => None
  | Some occ =>
    if name_in k (allnames r) then Some (TPR (pr_of_list (map fst occ)))
    else match rev occ with
         | (v, _) :: _ => Some v
         | [] => None       (* IndexError on [-1]: cannot happen, occurrence lists are never empty *)
         end
  end.

Definition set_rname (r : pres) (n : option str) : pres :=
  PR (toks r) (dict r) (allnames r) n (modal r).

(* `self[name]._name = name` right after `self[name] = _ParseResultsWithOffset(x, 0)`:
   for a modal name this writes through to the stored object, for a list-all name `self[name]` is a fresh
   temporary and the write is lost *)
Definition set_last_value_name (r : pres) (k : str) : pres :=
  if name_in k (allnames r) then r
  else match dict_get (dict r) k with
       | Some occ =>
         match rev occ with
         | (TPR v, p) :: rest => PR (toks r) (dict_set (dict r) k (rev rest ++ [(TPR (set_rname v (Some k)), p)]))
                                   (allnames r) (rname r) (modal r)
         | _ => r
         end
       | None => r
       end.

(* What `parseImpl`/`postParse`/an action hands to `ParseResults(tokens, name, asList, modal)` *)
Inductive raw :=
| RStr (s : str)                 (* a str *)
| RVal (v : tok)                 (* any other scalar (int, bool, None) or a ParseResults.List as a single value *)
| RList (l : list tok)           (* a Python list *)
| RPR (r : pres).                (* a ParseResults: `__new__` returns that same object and `__init__` runs on it again *)

(* ParseResults(x) for a single stored value x, as in `ParseResults(toklist[0])` *)
Definition pr_of_value (v : tok) : pres :=
  match v with
  | TPR r => r                    (* isinstance(toklist, ParseResults): the same object *)
  | TList l => pr_of_list l       (* list(toklist) *)
  | TNone => pr_empty             (* ParseResults(None): `__new__` starts from [] when toklist is None *)
  | other => pr_of_list [other]   (* [toklist] *)
  end.

(* `__new__` *)
Definition pr_new (x : raw) : pres :=
  match x with
  | RStr s => pr_of_list [TStr s]
  | RVal TNone => pr_empty                       (* toklist is None *)
  | RVal v => pr_of_list [v]
  | RList l => pr_of_list l
  | RPR r => r
  end.

(* `toklist in self._null_values` with _null_values = (None, [], ()) : == comparison; a ParseResults is never equal *)
Definition raw_is_null (x : raw) : bool :=
  match x with
  | RVal TNone => true
  | RVal (TList []) => true                      (* an empty ParseResults.List == [] *)
  | RList [] => true
  | _ => false
  end.

(* write-through of `self[name]._name = name` when the named value is the very object that also sits in the token
   list (`ParseResults(toklist[0])` returns toklist[0] itself when it is a ParseResults: Group -> r['g'] is r[0]) *)
Definition rename_tok (n : str) (t : tok) : tok :=
  match t with TPR v => TPR (set_rname v (Some n)) | other => other end.
Definition rename_head (n : str) (l : list tok) : list tok :=
  match l with t :: rest => rename_tok n t :: rest | [] => [] end.

(* `__init__(self, toklist, name, asList, modal)` running on self = pr_new toklist.
   add_name = true : the repaired tree (notes/C11-fix.diff, F-05): `self._all_names.add(name)` for a non-modal name;
   add_name = false: the pinned 3.2.4 tree: `self._all_names = {name}` — on an already populated result (x = RPR r) this
   REPLACES the set, so the list-all names collected from the children are forgotten *)
Definition pr_init_gen (add_name : bool) (x : raw) (name : option str) (asList modal_ : bool) : pres :=
  let self0 := pr_new x in
  let self1 := PR (toks self0) (dict self0) (allnames self0) (rname self0) modal_ in
  match name with
  | None => self1
  | Some [] => self1                                       (* name == '' *)
  | Some n =>
    let self2 := PR (toks self1) (dict self1)
                    (if modal_ then allnames self1
                     else if add_name then names_union (allnames self1) [n] else [n]) (Some n) modal_ in
    if raw_is_null x then self2
    else
      if asList then
        let inner := match x with
                     | RPR r => pr_of_list (toks r)                      (* ParseResults(toklist._toklist) *)
                     | RStr s => pr_of_list [TStr s]                     (* toklist = [toklist]; ParseResults(toklist[0]) *)
                     | RVal (TList l) => match l with v :: _ => pr_of_value v | [] => pr_empty end   (* a ParseResults.List: toklist[0] *)
                     | RVal v => pr_of_value v                           (* Python raises TypeError here (scalar[0]); not reachable from the parser; see pr_init_raises in ResultsAPI.v *)
                     | RList l => match l with v :: _ => pr_of_value v | [] => pr_empty end
                     end in
        let self3 := set_last_value_name (pr_setname self2 n (TPR inner) 0) n in
        (* for a modal name the `_name` write lands on toklist[0] itself when that is a ParseResults *)
        if name_in n (allnames self2) then self3
        else match x with
             | RList _ => PR (rename_head n (toks self3)) (dict self3) (allnames self3) (rname self3) (modal self3)
             | RVal (TList _) =>
               PR (match toks self3 with TList l :: rest => TList (rename_head n l) :: rest | other => other end)
                  (dict self3) (allnames self3) (rname self3) (modal self3)
             | _ => self3
             end
      else
        match x with
        | RStr s => pr_setname self2 n (TStr s) 0
        | RVal (TList l) => match l with v :: _ => pr_setname self2 n v 0 | [] => self2 end   (* a ParseResults.List: toklist[0] *)
        | RVal v => pr_setname self2 n v 0                               (* TypeError path: self[name] = toklist *)
        | RList l => match l with v :: _ => pr_setname self2 n v 0 | [] => self2 end
        | RPR r => match toks r with
                   | v :: _ => pr_setname self2 n v 0                    (* self[name] = toklist[0] *)
                   | [] => self2                                         (* IndexError, toklist is self: self._name = name *)
                   end
        end
  end.

Definition pr_init := pr_init_gen true.          (* the repaired `__init__` *)
Definition pr_init_old := pr_init_gen false.     (* the pinned 3.2.4 `__init__` (F-05) *)

(* `__bool__` *)
Definition pr_bool (r : pres) : bool :=
  negb (match toks r with [] => true | _ => false end) || negb (match dict r with [] => true | _ => false end).
Definition pr_haskeys (r : pres) : bool := negb (match dict r with [] => true | _ => false end).

(* `__iadd__` *)
Definition pr_iadd (self other : pres) : pres :=
  if negb (pr_bool other) then self
  else
    let offset := Z.of_nat (length (toks self)) in
    let addoffset := fun a : Z => if (a <? 0)%Z then offset else (a + offset)%Z in
    let items := flat_map (fun kv => map (fun vp => (fst kv, fst vp, addoffset (snd vp))) (snd kv)) (dict other) in
    let self1 := fold_left (fun acc kvp => match kvp with (k, v, p) => pr_setname acc k v p end) items self in
    PR (toks self1 ++ toks other) (dict self1) (names_union (allnames self1) (allnames other)) (rname self1) (modal self1).

(* `copy()` : ParseResults(self._toklist) ; dict shallow copy ; names ; _name  (note: _modal is reset to True) *)
Definition pr_copy (r : pres) : pres :=
  PR (toks r) (dict r) (names_union [] (allnames r)) (rname r) true.

(* `del r[:]` : the token list is emptied; every stored position p becomes p - #{removed j : p > j} *)
Definition pr_del_all (r : pres) : pres :=
  let n := length (toks r) in
  let adjust := fun p : Z =>
    fold_left (fun q j => if (Z.of_nat j <? q)%Z then (q - 1)%Z else q) (rev (seq 0 n)) p in
  PR [] (map (fun kv => (fst kv, map (fun vp => (fst vp, adjust (snd vp))) (snd kv))) (dict r))
     (allnames r) (rname r) (modal r).

(* views *)
Fixpoint tok_as_list (t : tok) : tok :=
  match t with
  | TPR r => TList (map tok_as_list (toks r))
  | other => other
  end.
Definition pr_as_list (r : pres) : list tok := map tok_as_list (toks r).

(* `_asStringList(sep)` : strings of all leaves, the separator between top-level items only *)
Fixpoint int_digits_go (fuel : nat) (n : N) (acc : str) : str :=
  match fuel with
  | O => acc
  | S f => let acc' := (48 + N.modulo n 10)%N :: acc in
           if N.ltb n 10 then acc' else int_digits_go f (N.div n 10) acc'
  end.
Definition str_of_Z (z : Z) : str :=
  match z with
  | Z0 => [48%N]
  | Zpos p => int_digits_go (S (Pos.to_nat (Pos.size p)) * 1) (Npos p) []
  | Zneg p => 45%N :: int_digits_go (S (Pos.to_nat (Pos.size p)) * 1) (Npos p) []
  end.
Definition str_True : str := [84; 114; 117; 101]%N.
Definition str_False : str := [70; 97; 108; 115; 101]%N.
Definition str_None : str := [78; 111; 110; 101]%N.

Fixpoint tok_strings (t : tok) : list str :=
  match t with
  | TStr s => [s]
  | TInt z => [str_of_Z z]
  | TBool b => [if b then str_True else str_False]
  | TNone => [str_None]
  | TList l => [[91%N; 46%N; 46%N; 93%N]]          (* str(list): not produced inside Combine by modelled grammars *)
  | TPR r => flat_map tok_strings (toks r)          (* item._asStringList() with the default sep='' *)
  end.
Fixpoint as_string_list_go (sep : str) (l : list tok) (first : bool) : list str :=
  match l with
  | [] => []
  | t :: rest =>
    (if first then [] else match sep with [] => [] | _ => [sep] end) ++ tok_strings t ++ as_string_list_go sep rest false
  end.
Definition pr_as_string_list (sep : str) (r : pres) : list str :=
  (* `if out and sep` : the separator is only added when something has been emitted already *)
  let fix go (l : list tok) (out_nonempty : bool) : list str :=
    match l with
    | [] => []
    | t :: rest =>
      let pre := if out_nonempty then match sep with [] => [] | _ => [sep] end else [] in
      let body := tok_strings t in
      pre ++ body ++ go rest (out_nonempty || negb (match pre ++ body with [] => true | _ => false end))
    end in
  go (toks r) false.
