(* C16: `helpers.infix_notation` as an elaboration into the attributed grammar of Model/Core.v.

   `infix_gen true  dw ids base table lpar rpar` mirrors the loop of infix_notation statement by statement and produces
   (environment of Forward bodies, root) EXACTLY as tools/harness/dump.py dumps the real object graph after streamline():
   same nodes, same flags (computed the way the real constructors / __lshift__ / streamline compute them), same sharing,
   same numbering of the Forwards (root = Forward 0; body 0 = the outermost level's Forward; body j = the MatchFirst of
   level n-j+1).
   `infix_gen false ...` is the REFERENCE reading: the same stratified grammar without the `_FB` look-aheads
   (`Group(last + (op + last)[1, ...]) | last`, prefix unary `Group(op + this) | last`).
   `ids code` supplies (object identity, len(str(self))) for every node the function creates (code = 32*level + role);
   they are universally quantified in every theorem and instantiated from the dump by the correspondence check.
   Executable definitions only. *)
From Coq Require Import List ZArith NArith Bool Arith String.
From PP Require Import Model.Str Model.Results Model.Prog Model.Core.
Import ListNotations.

(* one entry of op_list.  (op, 1, LEFT) (op, 1, RIGHT) (op, 2, LEFT) (op, 2, RIGHT) (None, 2, LEFT) (None, 2, RIGHT)
   ((op1, op2), 3, LEFT) ((op1, op2), 3, RIGHT); pa = the optional parse action(s), given to matchExpr.set_parse_action.
   Operators are ParserElements (a str operator is converted by `_literalStringClass` before use; for arity 3 a str is
   converted afresh at every use, i.e. the harness passes elements).  A prefix operator that already is an `Opt` is used
   as it is by the real code; that case is not covered (the harness does not generate it). *)
Inductive level :=
| LPostfix (op : expr) (pa : list action)
| LPrefix (op : expr) (pa : list action)
| LBinL (op : expr) (pa : list action)
| LBinR (op : expr) (pa : list action)
| LJuxL (pa : list action)
| LJuxR (pa : list action)
| LTernL (op1 op2 : expr) (pa : list action)
| LTernR (op1 op2 : expr) (pa : list action).

Definition level_pa (lv : level) : list action :=
  match lv with
  | LPostfix _ pa | LPrefix _ pa | LBinL _ pa | LBinR _ pa | LJuxL pa | LJuxR pa | LTernL _ _ pa | LTernR _ _ pa => pa
  end.

Section Elab.
Variable la : bool.                      (* true: what infix_notation builds; false: the reference reading *)
Variable dw : list char.                 (* ParserElement.DEFAULT_WHITE_CHARS when infix_notation runs (sorted, as dumped) *)
Variable ids : nat -> nat * nat.         (* code -> (id of the object, len(str(obj))) *)

Definition code (k r : nat) : nat := 32 * k + r.

Definition mka (c : nat) (asl sk : bool) (wh : list char) (cp mi cu hm : bool) (ac : list action) : attrs :=
  {| nid := fst (ids c); rsname := None; modalr := true; aslist := asl; skipws := sk; white := wh; callpre := cp;
     mayidx := mi; custom := cu; hasmsg := hm; acts := ac; calltry := false; slen := snd (ids c) |}.

Definition is_white_tok (e : expr) : bool := match e with Tok _ _ (KWhite _ _ _) => true | _ => false end.
Definition plainb (a : attrs) : bool := match acts a, rsname a with [], None => true | _, _ => false end.
(* ParseExpression.streamline: a nested And / MatchFirst without parse action and results name is spliced in *)
Definition and_items (e : expr) : list expr :=
  match e with Nary a _ NAnd es => if plainb a then es else [e] | _ => [e] end.
Definition mf_items (e : expr) : list expr :=
  match e with Nary a _ NMatchFirst es => if plainb a then es else [e] | _ => [e] end.

(* p1 + p2 + ... (left-nested binary Ands, flattened by streamline).  Flags as And.__init__ computes them from its first
   element AT CONSTRUCTION TIME (fsk = that element's skipWhitespace then) *)
Definition mk_and (c : nat) (fsk : bool) (first : expr) (pieces : list expr) (ac : list action) : expr :=
  let sk := if is_white_tok first then false else fsk in
  let wh := if is_white_tok first then dw else white (attrs_of first) in
  Nary (mka c true sk wh true true false true ac) [] NAnd (flat_map and_items pieces).

(* a | b : MatchFirst([a, b]), flattened, flags recomputed by MatchFirst.streamline; whiteChars stay the default *)
Definition mk_mf (c : nat) (cu : bool) (alts : list expr) : expr :=
  let es := flat_map mf_items alts in
  Nary (mka c (existsb (fun e => aslist (attrs_of e)) es)
              (forallb (fun e => skipws (attrs_of e) && negb (is_white_tok e)) es)
              dw false true cu true []) [] NMatchFirst es.

(* ParseElementEnhance.__init__(child): copies mayIndexError, whiteChars, skipWhitespace, callPreparse, ignoreExprs *)
Definition mk_enh (c : nat) (k : ekind) (asl : bool) (csk : bool) (child : expr) : expr :=
  let a := attrs_of child in
  Enh (mka c asl csk (white a) (callpre a) (mayidx a) false false []) (ign_of child) k child.

(* Forward().set_name(..) <<= body : callPreparse stays True; skipWhitespace / saveAsList are those of the body when
   `<<=` runs: the body is MatchFirst([matchExpr, lastExpr]) whose saveAsList is any(...) over its alternatives since /repo
   e042d6c (computed in MatchFirst.__init__); matchExpr is always an And, so the flag is True.  whiteChars default,
   mayIndexError True *)
Definition mk_fwd (c : nat) (sk : bool) (idx : nat) : expr :=
  Fwd (mka c true sk dw true true true true []) [] (Some idx).

Definition sk_of (e : expr) : bool := skipws (attrs_of e).
Definition first_sk (first : expr) (fsk : bool) : bool := if is_white_tok first then false else fsk.

(* skipWhitespace of `thisExpr` after `thisExpr <<= (matchExpr | lastExpr)`: MatchFirst.__init__'s all(...) over
   [matchExpr; lastExpr], matchExpr's flag being that of the first piece of the look-ahead sequence *)
Definition this_skip (lsk : bool) (lv : level) : bool :=
  match lv with
  | LPrefix op _ => first_sk op (sk_of op) && lsk
  | _ => lsk
  end.

(* OneOrMore(body) / ZeroOrMore(body): _MultipleMatch.__init__ copies the child's flags; saveAsList = True.
   (bsk, bwh, bcp, bmi) = the child's skipWhitespace, whiteChars, callPreparse, mayIndexError at construction time *)
Definition mk_rep (c : nat) (zero : bool) (body : expr) (bsk : bool) (bwh : list char) (bcp bmi : bool) : expr :=
  Rep (mka c true bsk bwh bcp bmi false false []) (ign_of body) zero body None.
Definition mk_rep_of (c : nat) (zero : bool) (body : expr) (bsk : bool) : expr :=
  mk_rep c zero body bsk (white (attrs_of body)) (callpre (attrs_of body)) (mayidx (attrs_of body)).

(* roles (second argument of `code`) *)
Definition rTHIS := 0.  Definition rMF := 1.   Definition rMATCH := 2. Definition rFB := 3.   Definition rFBAND := 4.
Definition rGROUP := 5. Definition rGAND := 6. Definition rREP := 7.   Definition rRAND := 8. Definition rOPT := 9.
Definition rZERO := 10.
(* level 0 *)
Definition rRET := 0. Definition rNESTED := 1. Definition rOPERAND := 2. Definition rNGROUP := 3.

(* One level.  k = 1-based position in op_list, idx = index of this level's Forward body in the environment,
   last / lsk = lastExpr and its skipWhitespace at construction time.  Returns (thisExpr, body of thisExpr). *)
Definition mk_level (k idx : nat) (last : expr) (lsk : bool) (lv : level) : expr * expr :=
  let c := code k in
  let tsk := this_skip lsk lv in
  let this := mk_fwd (c rTHIS) tsk idx in
  (* (lookahead sequence, grouped sequence) : first piece and its skip flag, pieces *)
  let '(fb_first, fb_sk, fb_pieces, g_first, g_sk, g_pieces) :=
    match lv with
    | LPostfix op _ =>
      (last, lsk, [last; op],
       last, lsk, [last; mk_rep_of (c rREP) false op (sk_of op)])
    | LPrefix op _ =>
      let o := mk_enh (c rOPT) (EOpt None) (aslist (attrs_of op)) (sk_of op) op in
      (op, sk_of op, [op; this],
       (if la then o else op), sk_of op, [if la then o else op; this])
    | LBinL op _ =>
      (last, lsk, [last; op; last],
       last, lsk, [last; mk_rep_of (c rREP) false (mk_and (c rRAND) (sk_of op) op [op; last] []) (first_sk op (sk_of op))])
    | LBinR op _ =>
      (last, lsk, [last; op; this],
       last, lsk, [last; mk_rep_of (c rREP) false (mk_and (c rRAND) (sk_of op) op [op; this] []) (first_sk op (sk_of op))])
    | LJuxL _ =>
      (last, lsk, [last; last],
       last, lsk, [last; last; mk_rep_of (c rZERO) true last lsk])
    | LJuxR _ =>
      (* OneOrMore(thisExpr) is built while thisExpr is still an empty Forward: default flags *)
      (last, lsk, [last; this],
       last, lsk, [last; mk_rep (c rREP) false this true dw true true])
    | LTernL o1 o2 _ =>
      (last, lsk, [last; o1; last; o2; last],
       last, lsk, [last; mk_rep_of (c rREP) false (mk_and (c rRAND) (sk_of o1) o1 [o1; last; o2; last] []) (first_sk o1 (sk_of o1))])
    | LTernR o1 o2 _ =>
      (last, lsk, [last; o1; this; o2; this],
       last, lsk, [last; o1; this; o2; this])
    end in
  let g_and := mk_and (c rGAND) g_sk g_first g_pieces [] in
  let grp := mk_enh (c rGROUP) (EGroup false) true (first_sk g_first g_sk) g_and in
  let alt1 :=
    if la then
      let fb_and := mk_and (c rFBAND) fb_sk fb_first fb_pieces [] in
      let fb := mk_enh (c rFB) ELookahead true (first_sk fb_first fb_sk) fb_and in
      mk_and (c rMATCH) (first_sk fb_first fb_sk) fb [fb; grp] (level_pa lv)
    else grp in
  (this, mk_mf (c rMF) true [alt1; last]).

Fixpoint mk_levels (n k : nat) (last : expr) (lsk : bool) (table : list level) (acc : list expr) : expr * bool * list expr :=
  match table with
  | [] => (last, lsk, acc)
  | lv :: rest =>
    let '(this, body) := mk_level k (n - k + 1) last lsk lv in
    mk_levels n (S k) this (this_skip lsk lv) rest (body :: acc)
  end.

Definition is_suppress (e : expr) : bool := match e with Enh _ _ ESuppress _ => true | _ => false end.

(* lpar / rpar are given as elements (a str argument is Suppress(Literal(str)) already) *)
Definition infix_gen (base : expr) (table : list level) (lpar rpar : expr) : env * expr :=
  let n := List.length table in
  let nested_sk := first_sk lpar (sk_of lpar) in
  let sk0 := sk_of base && nested_sk in                       (* MatchFirst.__init__ of base | nested *)
  let rsk := fold_left this_skip table sk0 in                  (* ret <<= lastExpr *)
  let ret := mk_fwd (code 0 rRET) rsk 0 in
  let nested0 := mk_and (code 0 rNESTED) (sk_of lpar) lpar [lpar; ret; rpar] [] in
  let nested := match nested0 with Nary a i k es => Nary (mka (code 0 rNESTED) (aslist a) (skipws a) (white a) (callpre a) (mayidx a) true true []) i k es
                                 | other => other end in     (* .set_name(...) *)
  let operand2 := if is_suppress lpar && is_suppress rpar then nested
                  else mk_enh (code 0 rNGROUP) (EGroup false) true nested_sk nested in
  let operand := mk_mf (code 0 rOPERAND) false [base; operand2] in
  let '(last, _, bodies) := mk_levels n 1 operand sk0 table [] in
  match table with
  | [] => ([operand], ret)
  | _ => (last :: bodies, ret)
  end.
End Elab.

Definition infix_elab := infix_gen true.
Definition infix_ref := infix_gen false.

(* ------------------------------------------------------------------------------------------- *)
(* serialisation in the format of tools/harness/dump.py (for the correspondence check)          *)
(* ------------------------------------------------------------------------------------------- *)
Inductive sx := SN (n : Z) | SY (s : string) | SL (l : list sx).

Definition sx_nat (n : nat) : sx := SN (Z.of_nat n).
Definition sx_b (b : bool) : sx := SN (if b then 1 else 0)%Z.
Definition sx_chars (l : list char) : sx := SL (map (fun c => SN (Z.of_N c)) l).
Definition sx_onat (o : option nat) : sx := match o with Some n => sx_nat n | None => SY "N" end.

Definition sx_action (a : action) : sx :=
  match a with
  | AKeep => SY "keep" | AUpper => SY "upper" | AJoin => SY "join" | ALoc => SY "loc"
  | _ => SY "action"
  end.

Definition sx_attrs (a : attrs) : sx :=
  SL [SY "A"; sx_nat (nid a); match rsname a with None => SY "N" | Some s => SL (SY "S" :: map (fun c => SN (Z.of_N c)) s) end;
      sx_b (modalr a); sx_b (aslist a); sx_b (skipws a); sx_chars (white a); sx_b (callpre a); sx_b (mayidx a);
      sx_b (custom a); sx_b (hasmsg a); SL (map sx_action (acts a)); sx_b (calltry a); sx_nat (slen a)].

Definition sx_tkind (t : tkind) : sx :=
  match t with
  | KLit m => SL [SY "lit"; sx_chars m]
  | KCaselessLit um ret => SL [SY "clit"; sx_chars um; sx_chars ret]
  | KKeyword m ident cl um => SL [SY "kw"; sx_chars m; sx_chars ident; sx_b cl; sx_chars um]
  | KWord i b mn mx ms ak re => SL [SY "word"; sx_chars i; sx_chars b; sx_nat mn; sx_onat mx; sx_b ms; sx_b ak; sx_b re]
  | KNotIn nc mn mx => SL [SY "notin"; sx_chars nc; sx_nat mn; sx_onat mx]
  | KWhite ws mn mx => SL [SY "white"; sx_chars ws; sx_nat mn; sx_onat mx]
  | KEmpty => SY "empty" | KNoMatch => SY "nomatch"
  | KLineEnd => SY "lineend" | KStringStart => SY "stringstart" | KStringEnd => SY "stringend"
  | _ => SY "othertoken"
  end.

Definition sx_ekind (k : ekind) : sx :=
  match k with
  | EPass => SY "pass" | EGroup b => SL [SY "group"; sx_b b] | ESuppress => SY "suppress"
  | EOpt None => SL [SY "opt"; SY "N"] | ENot => SY "not" | EFollowedBy => SY "fb" | ELookahead => SY "lookahead"
  | _ => SY "otherenh"
  end.

Fixpoint sx_expr (e : expr) : sx :=
  let ign := fun l => SL (map sx_expr l) in
  match e with
  | Tok a i t => SL [SY "T"; sx_attrs a; ign i; sx_tkind t]
  | Nary a i k es => SL [SY "N"; sx_attrs a; ign i;
                         SY (match k with NAnd => "and" | NMatchFirst => "mf" | NOr => "or" | NEach _ => "each" end);
                         SL (map sx_expr es)]
  | Enh a i k c => SL [SY "E"; sx_attrs a; ign i; sx_ekind k; sx_expr c]
  | Rep a i z b ne => SL [SY "R"; sx_attrs a; ign i; sx_b z; sx_expr b; match ne with Some n => sx_expr n | None => SY "N" end]
  | Skip a i t _ _ _ => SL [SY "K"; sx_attrs a]
  | Fwd a i id => SL [SY "F"; sx_attrs a; ign i; sx_onat id]
  end.

Definition sx_grammar (g : env * expr) : sx := SL [sx_expr (snd g); SL (SY "env" :: map sx_expr (fst g))].

(* ------------------------------------------------------------------------------------------- *)
(* precedence climbing over TOKENS (the oracle of the property), and evaluation of result trees   *)
(* ------------------------------------------------------------------------------------------- *)
Inductive itok := INum (s : str) | IOp (s : str) | ILpar | IRpar.
Inductive ikind := IPostfix | IPrefix | IBinL | IBinR.
Definition itable := list (ikind * str).          (* tightest level first, one spelling per level *)

Definition is_op (t : option itok) (op : str) : bool :=
  match t with Some (IOp o) => str_eqb o op | _ => false end.

Section Climb.
Variable full : itable.

(* `levels` = the levels up to the current one, LOOSEST FIRST (so that recursion peels the current level off) *)
Fixpoint climb (fuel : nat) (levels : list (ikind * str)) (ts : list itok) : option (tok * list itok) :=
  match fuel with
  | 0 => None
  | S f =>
    match levels with
    | [] =>
      match ts with
      | INum n :: rest => Some (TStr n, rest)
      | ILpar :: rest =>
        match climb f (rev full) rest with
        | Some (t, IRpar :: rest') => Some (t, rest')
        | _ => None
        end
      | _ => None
      end
    | (kind, op) :: tighter =>
      let operand := climb f tighter in
      match kind with
      | IBinL =>
        match operand ts with
        | Some (x, rest) =>
          let fix loop (n : nat) (acc : list tok) (rest : list itok) : list tok * list itok :=
            match n with
            | 0 => (acc, rest)
            | S n' =>
              if is_op (hd_error rest) op then
                match operand (tl rest) with
                | Some (y, rest') => loop n' (acc ++ [TStr op; y]) rest'
                | None => (acc, rest)
                end
              else (acc, rest)
            end in
          let '(acc, rest') := loop (List.length ts) [] rest in
          match acc with [] => Some (x, rest') | _ => Some (TList (x :: acc), rest') end
        | None => None
        end
      | IBinR =>
        match operand ts with
        | Some (x, rest) =>
          if is_op (hd_error rest) op then
            match climb f levels (tl rest) with
            | Some (y, rest') => Some (TList [x; TStr op; y], rest')
            | None => Some (x, rest)
            end
          else Some (x, rest)
        | None => None
        end
      | IPrefix =>
        if is_op (hd_error ts) op then
          match climb f levels (tl ts) with
          | Some (y, rest') => Some (TList [TStr op; y], rest')
          | None => operand ts
          end
        else operand ts
      | IPostfix =>
        match operand ts with
        | Some (x, rest) =>
          let fix loop (n : nat) (acc : list tok) (rest : list itok) : list tok * list itok :=
            match n with
            | 0 => (acc, rest)
            | S n' => if is_op (hd_error rest) op then loop n' (acc ++ [TStr op]) (tl rest) else (acc, rest)
            end in
          let '(acc, rest') := loop (List.length ts) [] rest in
          match acc with [] => Some (x, rest') | _ => Some (TList (x :: acc), rest') end
        | None => None
        end
      end
    end
  end.
End Climb.

(* the whole token list must be consumed *)
Definition climb_all (table : itable) (ts : list itok) : option tok :=
  match climb table (4 * (List.length ts + 1) * (List.length table + 2)) (rev table) ts with
  | Some (t, []) => Some t
  | _ => None
  end.

(* value of a decimal numeral *)
Definition digits_val (s : str) : option Z :=
  fold_left (fun acc c => match acc with
                          | Some v => if (N.leb 48 c && N.leb c 57)%bool then Some (10 * v + Z.of_N (c - 48))%Z else None
                          | None => None end) s (Some 0%Z).

(* arithmetic meaning of the spellings + - * ** (and unary -); other spellings have no value *)
Definition bin_val (op : str) (a b : Z) : option Z :=
  match op with
  | [43%N] => Some (a + b)%Z
  | [45%N] => Some (a - b)%Z
  | [42%N] => Some (a * b)%Z
  | [42%N; 42%N] => if (0 <=? b)%Z then Some (Z.pow a b) else None
  | _ => None
  end.

Fixpoint eval_tree (fuel : nat) (t : tok) : option Z :=
  match fuel with
  | 0 => None
  | S f =>
    match t with
    | TStr s => digits_val s
    | TList [TStr [45%N]; x] => match eval_tree f x with Some v => Some (- v)%Z | None => None end
    | TList (x :: rest) =>
      (* x op y op z ... : left to right (a right-associative level has exactly one operator per group) *)
      let fix go (acc : option Z) (l : list tok) : option Z :=
        match acc, l with
        | Some a, TStr op :: y :: l' =>
          match eval_tree f y with Some b => go (bin_val op a b) l' | None => None end
        | Some a, [] => Some a
        | _, _ => None
        end in
      go (eval_tree f x) rest
    | _ => None
    end
  end.

(* ------------------------------------------------------------------------------------------- *)
(* the eight (look-ahead sequence, grouped sequence) forms, symbolically: compared with the forms  *)
(* re-read from the source of infix_notation on every run (Gen/GenInfix.v, tools/translate/gen_infix.py) *)
(* ------------------------------------------------------------------------------------------- *)
Inductive gform := GL | GO | GO2 | GT | GSeq (l : list gform) | GPlus (g : gform) | GStar (g : gform) | GOpt (g : gform) | GOther.

Fixpoint gf (e : expr) : gform :=
  match e with
  | Tok a _ _ => match nid a with 1 => GL | 2 => GO | 3 => GO2 | _ => GOther end
  | Fwd _ _ _ => GT
  | Nary _ _ NAnd es => GSeq (map gf es)
  | Rep _ _ z b None => if z then GStar (gf b) else GPlus (gf b)
  | Enh _ _ (EOpt None) c => GOpt (gf c)
  | _ => GOther
  end.

Definition forms_of (body : expr) : gform * gform :=
  match body with
  | Nary _ _ NMatchFirst (Nary _ _ NAnd [Enh _ _ ELookahead p; Enh _ _ (EGroup false) q] :: _) => (gf p, gf q)
  | _ => (GOther, GOther)
  end.

Definition marker (n : nat) : expr :=
  Tok {| nid := n; rsname := None; modalr := true; aslist := false; skipws := true; white := []; callpre := true;
         mayidx := false; custom := false; hasmsg := true; acts := []; calltry := false; slen := 0 |} [] KEmpty.

(* in the order of the source: LEFT (arity 1, 2 with operator, 2 without, 3), RIGHT (the same) *)
Definition model_forms : list (gform * gform) :=
  map (fun lv => forms_of (snd (mk_level true [] (fun c => (100 + c, 0)) 1 1 (marker 1) true lv)))
      [LPostfix (marker 2) []; LBinL (marker 2) []; LJuxL []; LTernL (marker 2) (marker 3) [];
       LPrefix (marker 2) []; LBinR (marker 2) []; LJuxR []; LTernR (marker 2) (marker 3) []].
