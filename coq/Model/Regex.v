(* M10: regular expressions — AST and a backtracking matcher with the priority order of CPython's `re`.
   Executable definitions only; lemmas are in Proofs/RegexProofs.v.

   Scope and stated limits
   * strings are `str = list N` (code points); character *categories* (\d \w \s), word boundaries and
     IGNORECASE folding are modelled for ASCII only (code points >= 128 are "not digit / not word / not space /
     no case"), CPython's `re` on `str` patterns is Unicode-aware there.
   * the AST is *flag-resolved*: DOTALL lives in `RAny dotall`, MULTILINE in the anchor kind, IGNORECASE in the
     `ic` bit of every character set (tools/regex_ast.py resolves the flags, inline scoped flags included).
   * not modelled: back-references, look-behind, possessive/atomic groups, conditional groups; the group index is
     kept in the AST and ignored by the matcher.
   * the matcher is in continuation-passing style, structurally recursive on the regex; repetition loops are
     structurally recursive on a counter.  An unbounded repetition `{lo,}` runs at most `S (length s)` optional
     iterations: every optional iteration that is retried consumes at least one character (an empty iteration
     stops the loop, exactly as sre's `ptr == last_ptr` test), so that bound is never the reason for a result
     (RegexProofs.rep_max_fuel / rep_max_set_unbounded). *)
From Coq Require Import List NArith Arith Bool Lia.
From PP Require Import Model.Str.
Import ListNotations.

(* ---------------------------------------------------------------- characters *)
Definition in_range (lo hi c : char) : bool := N.leb lo c && N.leb c hi.

Definition is_upper_ascii (c : char) : bool := in_range 65%N 90%N c.
Definition is_lower_ascii (c : char) : bool := in_range 97%N 122%N c.
Definition ascii_lower (c : char) : char := if is_upper_ascii c then (c + 32)%N else c.
Definition ascii_upper (c : char) : char := if is_lower_ascii c then (c - 32)%N else c.
Definition str_lower (s : str) : str := map ascii_lower s.
Definition str_upper (s : str) : str := map ascii_upper s.

Definition is_digit_char (c : char) : bool := in_range 48%N 57%N c.
Definition is_word_char (c : char) : bool :=
  in_range 48%N 57%N c || in_range 65%N 90%N c || in_range 97%N 122%N c || N.eqb c 95%N.
(* str.isspace below 128: \t \n \v \f \r, \x1c-\x1f, space *)
Definition is_space_char (c : char) : bool := in_range 9%N 13%N c || in_range 28%N 32%N c.

Inductive ccat := CatDigit | CatWord | CatSpace.

Definition cat_mem (k : ccat) (c : char) : bool :=
  match k with
  | CatDigit => is_digit_char c
  | CatWord => is_word_char c
  | CatSpace => is_space_char c
  end.

(* one item of a bracket expression *)
Inductive citem :=
| CI_char (c : char)
| CI_range (lo hi : char)
| CI_cat (neg : bool) (k : ccat).        (* \d \w \s  /  \D \W \S *)

Definition citem_mem (it : citem) (c : char) : bool :=
  match it with
  | CI_char d => N.eqb c d
  | CI_range lo hi => in_range lo hi c
  | CI_cat neg k => xorb neg (cat_mem k c)
  end.

Definition items_mem (items : list citem) (c : char) : bool := existsb (fun it => citem_mem it c) items.

(* membership in a (possibly negated, possibly case-insensitive) set.
   IGNORECASE (ASCII): c matches when c, lower(c) or upper(c) is in the listed items; negation is applied last. *)
Definition cset_mem (ic neg : bool) (items : list citem) (c : char) : bool :=
  xorb neg (items_mem items c || (ic && (items_mem items (ascii_lower c) || items_mem items (ascii_upper c)))).

(* ---------------------------------------------------------------- AST *)
Inductive greed := Greedy | Lazy.

Inductive at_kind :=
| AtBegin          (* ^ without MULTILINE, \A : position 0 *)
| AtBeginLine      (* ^ with MULTILINE *)
| AtEnd            (* $ without MULTILINE : at the end, or just before a final newline *)
| AtEndLine        (* $ with MULTILINE *)
| AtEndString      (* \Z *)
| AtBoundary       (* \b *)
| AtNonBoundary.   (* \B *)

Inductive re :=
| REps                                                  (* empty pattern *)
| RSet (ic neg : bool) (items : list citem)             (* one character of a set; a literal is a one-item set *)
| RAny (dotall : bool)                                  (* .  (no newline unless dotall) *)
| RSeq (a b : re)
| RAlt (a b : re)                                       (* a|b, a first *)
| RRep (g : greed) (lo : nat) (hi : option nat) (a : re)  (* a{lo,hi} ; hi = None : unbounded *)
| RGroup (idx : option nat) (a : re)                    (* ( ) with its capture index, (?: ) with None *)
| RLook (positive : bool) (a : re)                      (* (?= ) / (?! ) *)
| RAt (k : at_kind).

Definition RChr (c : char) : re := RSet false false [CI_char c].
Definition RChrI (c : char) : re := RSet true false [CI_char c].
Definition RStar (g : greed) (a : re) : re := RRep g 0 None a.
Definition RPlus (g : greed) (a : re) : re := RRep g 1 None a.
Definition ROpt (g : greed) (a : re) : re := RRep g 0 (Some 1) a.
Definition RFail : re := RSet false false [].            (* matches nothing *)

Fixpoint rseq (l : list re) : re :=
  match l with
  | [] => REps
  | [a] => a
  | a :: t => RSeq a (rseq t)
  end.

(* a|b|c as nested RAlt, right-associated; the empty alternation matches nothing *)
Fixpoint ralt (l : list re) : re :=
  match l with
  | [] => RFail
  | [a] => a
  | a :: t => RAlt a (ralt t)
  end.

Definition rlit (w : str) : re := rseq (map RChr w).
Definition rlit_i (w : str) : re := rseq (map RChrI w).

(* ---------------------------------------------------------------- position tests *)
Definition char_at (s : str) (i : nat) : option char := nth_error s i.

Definition word_at (s : str) (i : nat) : bool :=
  match char_at s i with Some c => is_word_char c | None => false end.

Definition word_before (s : str) (i : nat) : bool :=
  match i with 0 => false | S p => word_at s p end.

Definition is_boundary (s : str) (i : nat) : bool := xorb (word_before s i) (word_at s i).

Definition nl_at (s : str) (i : nat) : bool :=
  match char_at s i with Some c => N.eqb c NL | None => false end.

Definition at_ok (k : at_kind) (s : str) (i : nat) : bool :=
  match k with
  | AtBegin => Nat.eqb i 0
  | AtBeginLine => match i with 0 => true | S p => nl_at s p end
  | AtEnd => Nat.eqb i (length s) || (Nat.eqb (S i) (length s) && nl_at s i)
  | AtEndLine => Nat.eqb i (length s) || nl_at s i
  | AtEndString => Nat.eqb i (length s)
  | AtBoundary => is_boundary s i
  | AtNonBoundary => negb (is_boundary s i)
  end.

(* ---------------------------------------------------------------- the matcher *)
Definition cont := nat -> option nat.                      (* position after the match so far -> final end *)
Definition matcher := nat -> cont -> option nat.

Definition orelse (a : option nat) (b : unit -> option nat) : option nat :=
  match a with Some e => Some e | None => b tt end.

(* the mandatory iterations *)
Fixpoint rep_min (body : matcher) (c : nat) (i : nat) (k : cont) : option nat :=
  match c with
  | 0 => k i
  | S c' => body i (fun j => rep_min body c' j k)
  end.

(* up to n optional iterations, greedy: try one more, then the tail.  An iteration that consumed nothing
   goes straight to the tail (sre: MAX_UNTIL with ptr == last_ptr). *)
Fixpoint rep_max (body : matcher) (k : cont) (n : nat) (i : nat) : option nat :=
  match n with
  | 0 => k i
  | S n' => orelse (body i (fun j => if Nat.eqb j i then k j else rep_max body k n' j)) (fun _ => k i)
  end.

(* up to n optional iterations, lazy: the tail first, then one more.  `last` = position of the previous
   lazy test (sre: MIN_UNTIL fails when ptr == last_ptr). *)
Fixpoint rep_lazy (body : matcher) (k : cont) (n : nat) (last : option nat) (i : nat) : option nat :=
  orelse (k i) (fun _ =>
    match n with
    | 0 => None
    | S n' =>
      if match last with Some l => Nat.eqb l i | None => false end then None
      else body i (fun j => rep_lazy body k n' (Some i) j)
    end).

Section Matcher.
  Variable s : str.

  Definition set_step (ic neg : bool) (items : list citem) : matcher := fun i k =>
    match char_at s i with
    | Some c => if cset_mem ic neg items c then k (S i) else None
    | None => None
    end.

  Definition any_step (dotall : bool) : matcher := fun i k =>
    match char_at s i with
    | Some c => if dotall || negb (N.eqb c NL) then k (S i) else None
    | None => None
    end.

  (* number of optional iterations of a{lo,hi} *)
  Definition rep_extra (lo : nat) (hi : option nat) : nat :=
    match hi with Some h => h - lo | None => S (length s) end.

  Fixpoint rm (r : re) : matcher :=
    match r with
    | REps => fun i k => k i
    | RSet ic neg items => set_step ic neg items
    | RAny d => any_step d
    | RSeq a b => fun i k => rm a i (fun j => rm b j k)
    | RAlt a b => fun i k => orelse (rm a i k) (fun _ => rm b i k)
    | RRep g lo hi a => fun i k =>
        rep_min (rm a) lo i (fun j =>
          match g with
          | Greedy => rep_max (rm a) k (rep_extra lo hi) j
          | Lazy => rep_lazy (rm a) k (rep_extra lo hi) None j
          end)
    | RGroup _ a => rm a
    | RLook pos a => fun i k =>
        match rm a i (fun j => Some j) with
        | Some _ => if pos then k i else None
        | None => if pos then None else k i
        end
    | RAt kd => fun i k => if at_ok kd s i then k i else None
    end.
End Matcher.

(* pattern.match(s, loc) : end position of the match that CPython's backtracking order finds first *)
Definition re_match (r : re) (s : str) (loc : nat) : option nat := rm s r loc (fun j => Some j).

(* pattern.fullmatch(s) (as a boolean) and its end-anchored form from a position *)
Definition re_fullmatch_at (r : re) (s : str) (loc : nat) : option nat :=
  rm s r loc (fun j => if Nat.eqb j (length s) then Some j else None).
Definition re_fullmatch (r : re) (s : str) : bool :=
  match re_fullmatch_at r s 0 with Some _ => true | None => false end.

(* pattern.search(s, loc) : (start, end) of the leftmost match *)
Fixpoint re_search_from (r : re) (s : str) (n : nat) (loc : nat) : option (nat * nat) :=
  match re_match r s loc with
  | Some e => Some (loc, e)
  | None => match n with 0 => None | S n' => re_search_from r s n' (S loc) end
  end.
Definition re_search (r : re) (s : str) (loc : nat) : option (nat * nat) :=
  re_search_from r s (length s - loc) loc.

(* matched text *)
Definition substr (s : str) (i j : nat) : str := firstn (j - i) (skipn i s).

(* ---------------------------------------------------------------- specification helpers *)
(* length of the maximal run of characters satisfying p at the head of l / from position i of s *)
Fixpoint run_from (p : char -> bool) (l : str) : nat :=
  match l with
  | c :: t => if p c then S (run_from p t) else 0
  | [] => 0
  end.
Definition run_len (p : char -> bool) (s : str) (i : nat) : nat := run_from p (skipn i s).

(* s.startswith(w, i) for 0 <= i *)
Fixpoint prefix_of (w l : str) : bool :=
  match w, l with
  | [], _ => true
  | a :: w', b :: l' => N.eqb a b && prefix_of w' l'
  | _ :: _, [] => false
  end.
Definition starts_at (s : str) (i : nat) (w : str) : bool := prefix_of w (skipn i s).

(* ---------------------------------------------------------------- denotation (specification side)
   den r s i j : r can match s[i:j] in the context of s (any priority).  Used by soundness/completeness lemmas. *)
Fixpoint iter_rel (R : nat -> nat -> Prop) (n : nat) (i j : nat) : Prop :=
  match n with
  | 0 => i = j
  | S n' => exists m, R i m /\ iter_rel R n' m j
  end.

Fixpoint den (r : re) (s : str) (i j : nat) : Prop :=
  match r with
  | REps => i = j
  | RSet ic neg items => exists c, char_at s i = Some c /\ cset_mem ic neg items c = true /\ j = S i
  | RAny d => exists c, char_at s i = Some c /\ (d || negb (N.eqb c NL)) = true /\ j = S i
  | RSeq a b => exists m, den a s i m /\ den b s m j
  | RAlt a b => den a s i j \/ den b s i j
  | RRep _ lo hi a =>
      exists n, lo <= n /\ (match hi with Some h => n <= h | None => True end) /\ iter_rel (den a s) n i j
  | RGroup _ a => den a s i j
  | RLook pos a => i = j /\ (if pos then exists e, den a s i e else ~ exists e, den a s i e)
  | RAt k => i = j /\ at_ok k s i = true
  end.

(* syntactic class: every match consumes at least one character *)
Fixpoint consuming (r : re) : bool :=
  match r with
  | REps => false
  | RSet _ _ _ => true
  | RAny _ => true
  | RSeq a b => consuming a || consuming b
  | RAlt a b => consuming a && consuming b
  | RRep _ lo _ a => (0 <? lo) && consuming a
  | RGroup _ a => consuming a
  | RLook _ _ => false
  | RAt _ => false
  end.

(* syntactic class for which the matcher is sound and complete w.r.t. `den` (RegexProofs.rm_correct):
   every repetition body consumes and bounds are ordered (lookahead and anchors are allowed) *)
Fixpoint rep_ok (r : re) : bool :=
  match r with
  | REps | RSet _ _ _ | RAny _ | RAt _ => true
  | RSeq a b | RAlt a b => rep_ok a && rep_ok b
  | RRep _ lo hi a => rep_ok a && consuming a && match hi with Some h => lo <=? h | None => true end
  | RGroup _ a => rep_ok a
  | RLook _ a => rep_ok a
  end.
