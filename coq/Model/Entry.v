(* M7: the public entry points as "driver trees": like Prog.prog, but the final answer has its own type.
   Every DCall is a top-level `self._parse(instring, loc, ...)`; handlers (plain / packrat) interpret them. *)
From Coq Require Import List ZArith NArith Bool Arith.
From PP Require Import Model.Str Model.Results Model.Prog Model.Core.
Import ListNotations.

Inductive dprog (R : Type) :=
| DRet (r : R)
| DCall (a : args) (k : outcome -> dprog R).
Arguments DRet {R}. Arguments DCall {R}.

Fixpoint drun {R} (rec : args -> option outcome) (p : dprog R) : option R :=
  match p with
  | DRet r => Some r
  | DCall a k => match rec a with None => None | Some o => drun rec (k o) end
  end.

(* the same driver against the packrat handler, threading the cache *)
Fixpoint drunc {R} (rec : cache args outcome -> args -> cache args outcome * option outcome)
         (c : cache args outcome) (p : dprog R) : cache args outcome * option R :=
  match p with
  | DRet r => (c, Some r)
  | DCall a k => let '(c', r) := rec c a in
                 match r with None => (c', None) | Some o => drunc rec c' (k o) end
  end.

(* embed an element-level tree (used for the preParse calls the drivers make) *)
Fixpoint lift {R} (p : prg) (k : outcome -> dprog R) : dprog R :=
  match p with
  | Ret o => k o
  | Call a k' => DCall a (fun o => lift (k' o) k)
  end.

(* ---- the `Empty() + StringEnd()` that parse_string(parse_all=True) builds on the fly ---- *)
Definition DEFAULT_WHITE : list char := [SP; NL; TAB; CR].
Definition ID_SE_AND : nat := 4001.
Definition ID_SE_EMPTY : nat := 4002.
Definition ID_SE_END : nat := 4003.      (* its errmsg is "Expected end of text" *)
Definition se_attrs (id : nat) (savel : bool) (mi : bool) : attrs :=
  {| nid := id; rsname := None; modalr := true; aslist := savel; skipws := true; white := DEFAULT_WHITE;
     callpre := true; mayidx := mi; custom := false; hasmsg := true; acts := []; calltry := false; slen := 0 |}.
Definition se_expr (dw : list char) : expr :=
  let at_ id sv mi := {| nid := id; rsname := None; modalr := true; aslist := sv; skipws := true; white := dw;
                         callpre := true; mayidx := mi; custom := false; hasmsg := true; acts := []; calltry := false; slen := 0 |} in
  Nary (at_ ID_SE_AND true true) [] NAnd
       [Tok (at_ ID_SE_EMPTY false false) [] KEmpty; Tok (at_ ID_SE_END false false) [] KStringEnd].

Section Entry.
Variable G : env.
Variable dw : list char.          (* ParserElement.DEFAULT_WHITE_CHARS at the time of the call *)

(* what parse_string hands back *)
Inductive presult :=
| POk (r : pres)
| PErr (x : exn)
| PDiv.

(* parse_string(instring, parse_all) ; `_ParseActionIndexError` is unwrapped into the action's IndexError *)
Definition unwrap (x : exn) : exn :=
  match xk x with XActIndex => mkx XIndex (xloc x) (xmsg x) (xel x) | _ => x end.

Definition parse_string (root : expr) (keeptabs : bool) (input : str) (parse_all : bool) : dprog presult :=
  let s := if keeptabs then input else expandtabs input in
  DCall (mkargs root s 0 true true) (fun o =>
    match o with
    | Ok loc r =>
      if parse_all then
        lift (pre_parse escape root s loc (fun loc' => Ret (Ok loc' r))) (fun o1 =>
          match o1 with
          | Ok loc' _ =>
            DCall (mkargs (se_expr dw) s loc' true true) (fun o2 =>
              match o2 with
              | Ok _ _ => DRet (POk r)
              | Err x => DRet (PErr (unwrap x))
              | Div => DRet PDiv
              end)
          | Err x => DRet (PErr (unwrap x))
          | Div => DRet PDiv
          end)
      else DRet (POk r)
    | Err x => DRet (PErr (unwrap x))
    | Div => DRet PDiv
    end).

(* scan_string : the list of (tokens, start, end) produced before the generator stops, and how it stops *)
Inductive scan_end := SDone | SErr (x : exn) | SDiv.

Definition preparser (root : expr) : expr :=
  (* preparser = Empty(); .ignoreExprs = self.ignoreExprs; .whiteChars = self.whiteChars *)
  Tok {| nid := 4004; rsname := None; modalr := true; aslist := false; skipws := true; white := white (attrs_of root);
         callpre := true; mayidx := false; custom := false; hasmsg := true; acts := []; calltry := false; slen := 0 |}
      (ign_of root) KEmpty.

Fixpoint scan_loop (fuel : nat) (root : expr) (s : str) (always_skip overlap : bool) (maxm : option nat)
         (loc matches : nat) (acc : list (pres * nat * nat)) : dprog (list (pres * nat * nat) * scan_end) :=
  match fuel with
  | 0 => DRet (acc, SDiv)
  | S f =>
    let more := match maxm with Some m => Nat.ltb matches m | None => true end in
    if Nat.leb loc (length s) && more then
      let pp := if always_skip then preparser root else root in
      lift (pre_parse escape pp s loc (fun l => Ret (Ok l pr_empty))) (fun o0 =>
        match o0 with
        | Ok preloc _ =>
          DCall (mkargs root s preloc true false) (fun o =>
            match o with
            | Err x => if is_pe (xk x) then scan_loop f root s always_skip overlap maxm (S preloc) matches acc
                       else DRet (acc, SErr x)
            | Div => DRet (acc, SDiv)
            | Ok nextloc tk =>
              if Nat.ltb loc nextloc then
                let acc' := acc ++ [(tk, preloc, nextloc)] in
                if overlap then
                  lift (pre_parse escape pp s loc (fun l => Ret (Ok l pr_empty))) (fun o1 =>
                    match o1 with
                    | Ok nl _ => scan_loop f root s always_skip overlap maxm (if Nat.ltb loc nl then nextloc else S loc) (S matches) acc'
                    | Err x => DRet (acc', SErr x)
                    | Div => DRet (acc', SDiv)
                    end)
                else scan_loop f root s always_skip overlap maxm nextloc (S matches) acc'
              else scan_loop f root s always_skip overlap maxm (S preloc) matches acc
            end)
        | Err x => DRet (acc, SErr x)       (* an ignore expression raised something other than ParseException *)
        | Div => DRet (acc, SDiv)
        end)
    else DRet (acc, SDone)
  end.

Definition scan_string (root : expr) (keeptabs : bool) (input : str) (maxm : option nat) (overlap always_skip : bool)
  : dprog (list (pres * nat * nat) * scan_end) :=
  let s := if keeptabs then input else expandtabs input in
  scan_loop (length s + 2) root s always_skip overlap maxm 0 0 [].

End Entry.

(* ---- the derived entry points, as the documented functions of parse_string / scan_string ---- *)
(* matches(s) / expr == s : parse_string(s, parse_all=True) succeeded; None = something other than a ParseBaseException escaped *)
Definition matches_of (r : presult) : option bool :=
  match r with
  | POk _ => Some true
  | PErr x => if is_pbe (xk x) then Some false else None
  | PDiv => None
  end.

(* search_string : the tokens of scan_string(always_skip_whitespace=False) *)
Definition search_tokens (ms : list (pres * nat * nat)) : list pres := map (fun m => fst (fst m)) ms.

(* split : `instring[last:s]` for every match, then `instring[last:]` — sliced from the string handed to split() *)
Fixpoint split_pieces (orig : str) (ms : list (pres * nat * nat)) (last : nat) : list str :=
  match ms with
  | [] => [skipn last orig]
  | (_, st, en) :: rest => slice_ orig last st :: split_pieces orig rest en
  end.

(* pieces interleaved with the text of the matched separators *)
Fixpoint rejoin (parsed : str) (pieces : list str) (ms : list (pres * nat * nat)) : str :=
  match pieces, ms with
  | p :: ps, (_, st, en) :: rest => p ++ slice_ parsed st en ++ rejoin parsed ps rest
  | p :: _, [] => p
  | [], _ => []
  end.
