(* M13 — the parse-action calling protocol of pyparsing/core.py as executable definitions (no proofs here).

   Part 1: `_trim_arity`'s `wrapper` as a state machine over an abstract callable.
   Part 2: the action loop of `ParserElement._parseNoCache`, `parse_string`'s unwrapping of
           `_ParseActionIndexError`, a two-alternative MatchFirst to say what "the element fails" means.
   Part 3: the table type for the call sites of `_parse` / `try_parse` / `can_parse_next` (filled by
           Gen/GenLineDiff.v from the source) and the propagation of the `do_actions` flag along call chains.

   What stands for what (the trusted reading, validated by tools/props/c13.py on the real code every run):
   * an exception carries its *origin depth*: 0 = raised by the call `func( *args[limit:] )` itself with no Python
     frame of the callee on the traceback (argument binding failed, or the callee is implemented in C and raised
     from its C body); >= 1 = raised inside a Python frame of the callee or deeper.  The traceback test
     `traceback.extract_tb(tb, limit=2)[-1][:2] == pa_call_line_synth` of the TypeError handler is modelled as
     `e_depth e = 0` (given C13_line_diff: pa_call_line_synth is the real line of the call).
   * e_id stands for the identity of the exception object ("propagates unchanged" = same e_id, kind, depth). *)
From Coq Require Import List Arith Bool String.
Import ListNotations.

(* ------------------------------------------------------------------------------------------------------ *)
(* Part 1: the wrapper                                                                                      *)
(* ------------------------------------------------------------------------------------------------------ *)

(* which `except` clause an exception object is caught by: isinstance(e, TypeError), isinstance(e, IndexError),
   ParseException (and subclasses), ParseFatalException (and ParseSyntaxException), anything else (KeyError, ValueError, ...) *)
Inductive exn_kind := KTypeError | KIndexError | KParseException | KParseFatal | KOther (n : nat).

Definition exn_kind_eqb (a b : exn_kind) : bool :=
  match a, b with
  | KTypeError, KTypeError | KIndexError, KIndexError | KParseException, KParseException | KParseFatal, KParseFatal => true
  | KOther n, KOther m => Nat.eqb n m
  | _, _ => false
  end.

Record exn := mkExn { e_kind : exn_kind; e_depth : nat; e_id : nat }.

(* what leaves the wrapper / the element: the exception object itself, or `_ParseActionIndexError(msg, e)`
   holding e in `.exc`, or (action loop only) `ParseException("exception raised in parse action")` raised `from e` *)
Inductive raised := Raw (e : exn) | PAIndexError (e : exn) | ParseExcFrom (e : exn).

(* the TypeError CPython raises when the arguments cannot be bound: a fresh object, depth 0 *)
Definition bind_error : exn := mkExn KTypeError 0 0.

(* shape of `wrapper` as read from the source by the translator *)
Record wshape := {
  sh_fast_path : bool;          (* `if found_arity: return func( *args[limit:] )` precedes the loop *)
  sh_fast_wraps_index : bool;   (* ... and that return sits in try/except IndexError -> _ParseActionIndexError *)
  sh_sets_found : bool;         (* `found_arity = True` after a successful call inside the loop *)
  sh_loop_wraps_index : bool    (* the loop's try has `except IndexError` -> _ParseActionIndexError *)
}.

Record wstate := mkW { found : bool; limit : nat }.
Definition w_init : wstate := mkW false 0.

Section Wrapper.
  Variable V : Type.            (* Python values *)

  Inductive body_result := BNone | BValue (v : V) | BRaise (e : exn).

  (* accepts n : can be called with n positional arguments.  body: what the callable does once its arguments are bound
     (a function of the arguments: one wrapper call passes different argument lists on each probe). *)
  Record callable := mkCallable { accepts : nat -> bool; body : list V -> body_result }.

  Inductive ret := RNone | RVal (v : V).
  Inductive woutcome := WReturn (r : ret) | WRaise (x : raised) | WFuel.
  (* w_trace: the argument lists with which the body was actually entered, in order;
     w_calls: how many times the expression `func( *args[limit:] )` was evaluated (probes included) *)
  Record wresult := mkR { w_out : woutcome; w_state : wstate; w_trace : list (list V); w_calls : nat }.

  (* the expression `func( *a )`: result, and the body executions it caused *)
  Definition invoke (c : callable) (a : list V) : body_result * list (list V) :=
    if accepts c (List.length a) then (body c a, [a]) else (BRaise bind_error, []).

  Definition wrap_index (wraps : bool) (e : exn) : raised := if wraps then PAIndexError e else Raw e.

  (* the `while 1:` loop; fuel counts iterations *)
  Fixpoint wloop (sh : wshape) (fuel : nat) (c : callable) (maxl : nat) (fnd : bool) (lim : nat)
                 (args : list V) (tr : list (list V)) (n : nat) : wresult :=
    match fuel with
    | O => mkR WFuel (mkW fnd lim) tr n
    | S fuel' =>
      let (r, t) := invoke c (skipn lim args) in
      let tr' := tr ++ t in
      match r with
      | BNone => mkR (WReturn RNone) (mkW (fnd || sh_sets_found sh) lim) tr' (S n)
      | BValue v => mkR (WReturn (RVal v)) (mkW (fnd || sh_sets_found sh) lim) tr' (S n)
      | BRaise e =>
        match e_kind e with
        | KTypeError =>
            if fnd then mkR (WRaise (Raw e)) (mkW fnd lim) tr' (S n)
            else if (e_depth e =? 0) && (lim <? maxl)
                 then wloop sh fuel' c maxl fnd (S lim) args tr' (S n)
                 else mkR (WRaise (Raw e)) (mkW fnd lim) tr' (S n)
        | KIndexError => mkR (WRaise (wrap_index (sh_loop_wraps_index sh) e)) (mkW fnd lim) tr' (S n)
        | _ => mkR (WRaise (Raw e)) (mkW fnd lim) tr' (S n)
        end
      end
    end.

  (* one call `wrapper( *args )` *)
  Definition wcall (sh : wshape) (c : callable) (maxl : nat) (st : wstate) (args : list V) : wresult :=
    if found st && sh_fast_path sh then
      let (r, t) := invoke c (skipn (limit st) args) in
      match r with
      | BNone => mkR (WReturn RNone) st t 1
      | BValue v => mkR (WReturn (RVal v)) st t 1
      | BRaise e =>
        match e_kind e with
        | KIndexError => mkR (WRaise (wrap_index (sh_fast_wraps_index sh) e)) st t 1
        | _ => mkR (WRaise (Raw e)) st t 1
        end
      end
    else wloop sh (maxl + 2) c maxl (found st) (limit st) args [] 0.

  (* a history: the same callable object (same signature) called again and again; what its body does may differ
     from call to call (it may read mutable state), so each call brings its own body *)
  Fixpoint whistory (sh : wshape) (acc : nat -> bool) (maxl : nat) (st : wstate)
                    (calls : list (list V * (list V -> body_result))) : list wresult * wstate :=
    match calls with
    | [] => ([], st)
    | (args, b) :: rest =>
        let r := wcall sh (mkCallable acc b) maxl st args in
        let (rs, st') := whistory sh acc maxl (w_state r) rest in
        (r :: rs, st')
    end.

  (* the `_single_arg_builtins` shortcut: `lambda s, l, t: func(t)`; no wrapper, no state, nothing caught *)
  Definition builtin_call (c : callable) (args : list V) : wresult :=
    match args with
    | [_; _; t] =>
        let (r, tr) := invoke c [t] in
        match r with
        | BNone => mkR (WReturn RNone) w_init tr 1
        | BValue v => mkR (WReturn (RVal v)) w_init tr 1
        | BRaise e => mkR (WRaise (Raw e)) w_init tr 1
        end
    | _ => mkR (WRaise (Raw bind_error)) w_init [] 0   (* the lambda itself takes exactly three arguments *)
    end.

  (* ---------------------------------------------------------------------------------------------------- *)
  (* Part 2: the action loop of _parseNoCache                                                              *)
  (* ---------------------------------------------------------------------------------------------------- *)

  Variable same : V -> V -> bool.     (* `tokens is ret_tokens` *)
  Variable mkres : V -> V.            (* `ParseResults(tokens, self.resultsName, asList=..., modal=...)` *)

  (* an entry of self.parseAction: a callable behind a wrapper with its state, or a single-arg builtin behind the lambda *)
  Record action := mkAction { a_builtin : bool; a_fn : callable; a_st : wstate }.

  Inductive loop_out := LOk (toks : V) | LRaise (x : raised).

  Record loop_result := mkL { l_out : loop_out; l_actions : list action; l_trace : list (list (list V)) }.

  Definition call_action (sh : wshape) (maxl : nat) (a : action) (args : list V) : wresult :=
    if a_builtin a then builtin_call (a_fn a) args else wcall sh (a_fn a) maxl (a_st a) args.

  (* `for fn in self.parseAction:` with ret_tokens = toks; conv = the loop has `except IndexError -> ParseException from` *)
  Fixpoint action_loop (sh : wshape) (conv : bool) (maxl : nat) (acts : list action) (s loc toks : V) : loop_result :=
    match acts with
    | [] => mkL (LOk toks) [] []
    | a :: rest =>
        let r := call_action sh maxl a [s; loc; toks] in
        let a' := if a_builtin a then a else mkAction false (a_fn a) (w_state r) in
        match w_out r with
        | WReturn RNone =>
            let lr := action_loop sh conv maxl rest s loc toks in
            mkL (l_out lr) (a' :: l_actions lr) (w_trace r :: l_trace lr)
        | WReturn (RVal v) =>
            let toks' := if same v toks then toks else mkres v in
            let lr := action_loop sh conv maxl rest s loc toks' in
            mkL (l_out lr) (a' :: l_actions lr) (w_trace r :: l_trace lr)
        | WRaise (Raw e) =>
            let x := match e_kind e with KIndexError => if conv then ParseExcFrom e else Raw e | _ => Raw e end in
            mkL (LRaise x) (a' :: rest) [w_trace r]
        | WRaise x => mkL (LRaise x) (a' :: rest) [w_trace r]
        | WFuel => mkL (LRaise (Raw bind_error)) (a' :: rest) [w_trace r]   (* unreachable, see wcall_no_fuel *)
        end
    end.

  (* `if self.parseAction and (do_actions or self.callDuringTry):` ... `return loc, ret_tokens` *)
  Definition run_actions (sh : wshape) (conv : bool) (maxl : nat) (do_actions call_during_try : bool)
                         (acts : list action) (s loc toks : V) : loop_result :=
    if do_actions || call_during_try then action_loop sh conv maxl acts s loc toks
    else mkL (LOk toks) acts [].

  (* which exception the *caller* of the element sees, as caught by `except ParseException` (an element that "fails") *)
  Definition is_parse_failure (x : raised) : bool :=
    match x with
    | Raw e => exn_kind_eqb (e_kind e) KParseException
    | ParseExcFrom _ => true
    | PAIndexError _ => false
    end.

  (* MatchFirst over two alternatives whose outcomes are already computed: `except ParseFatalException: raise`,
     `except ParseException: next alternative`; everything else propagates *)
  Definition first_of (o1 : loop_out) (o2 : loop_out) : loop_out :=
    match o1 with
    | LOk t => LOk t
    | LRaise x => if is_parse_failure x then o2 else LRaise x
    end.

  (* parse_string: `except _ParseActionIndexError as pa_exc: raise pa_exc.exc`; unwraps = that handler is present *)
  Definition parse_string_out (unwraps : bool) (o : loop_out) : loop_out :=
    match o with
    | LRaise (PAIndexError e) => if unwraps then LRaise (Raw e) else o
    | _ => o
    end.

End Wrapper.

Arguments BNone {V}.
Arguments BValue {V}.
Arguments BRaise {V}.
Arguments RNone {V}.
Arguments RVal {V}.
Arguments WReturn {V}.
Arguments WRaise {V}.
Arguments WFuel {V}.
Arguments LOk {V}.
Arguments LRaise {V}.

(* ------------------------------------------------------------------------------------------------------ *)
(* Part 3: call sites and the do_actions flag                                                               *)
(* ------------------------------------------------------------------------------------------------------ *)

Inductive callee := CParse | CTryParse | CCanParseNext | CImpl.
Inductive argkind := AOmitted | AConst (b : bool) | AForward.

Record site := mkSite { s_class : string; s_method : string; s_ord : nat; s_callee : callee; s_arg : argkind }.

(* value of do_actions received by the callee when the calling method runs with do_actions = d *)
Definition eff (defaults : callee -> bool) (s : site) (d : bool) : bool :=
  match s_arg s with
  | AOmitted => defaults (s_callee s)
  | AConst b => b
  | AForward => d
  end.

(* try_parse and can_parse_next hand their own do_actions on to _parse / try_parse: `how` is what they pass *)
Definition pass (how : argkind) (dflt : bool) (d : bool) : bool :=
  match how with AOmitted => dflt | AConst b => b | AForward => d end.

(* value of do_actions that reaches `_parseNoCache` of the element parsed through site s (its action gate) *)
Definition eff_parse (defaults : callee -> bool) (try_passes can_passes : argkind) (s : site) (d : bool) : bool :=
  let d1 := eff defaults s d in
  match s_callee s with
  | CParse | CImpl => d1
  | CTryParse => pass try_passes (defaults CParse) d1
  | CCanParseNext => pass try_passes (defaults CParse) (pass can_passes (defaults CTryParse) d1)
  end.

(* the flag at the end of a chain of nested calls entered with flag d *)
Definition flag_after (defaults : callee -> bool) (try_passes can_passes : argkind) (chain : list site) (d : bool) : bool :=
  fold_left (fun f s => eff_parse defaults try_passes can_passes s f) chain d.

(* what each site is *for* (hand-written from reading the methods; C13_sites_complete pins the generated table to it) *)
Inductive role :=
| RTrial        (* trial matching named by the property: must be silent whatever the caller's flag *)
| RMain         (* delivers (part of) the returned match: the caller's flag is handed on *)
| RLookahead    (* NotAny / FollowedBy: the caller's flag is handed on (documented lookahead behaviour) *)
| RLookbehind   (* PrecededBy *)
| RIgnore       (* ParserElement._skipIgnorables *)
| ROther.       (* left-recursion machinery of Forward, IndentedBlock: not modelled *)

Definition role_eqb (a b : role) : bool :=
  match a, b with
  | RTrial, RTrial | RMain, RMain | RLookahead, RLookahead | RLookbehind, RLookbehind | RIgnore, RIgnore | ROther, ROther => true
  | _, _ => false
  end.

Definition callee_eqb (a b : callee) : bool :=
  match a, b with
  | CParse, CParse | CTryParse, CTryParse | CCanParseNext, CCanParseNext | CImpl, CImpl => true
  | _, _ => false
  end.

Local Open Scope string_scope.

Definition expected_sites : list (string * string * nat * callee * role) := [
  ("ParserElement", "_skipIgnorables", 0, CParse, RIgnore);
  ("ParserElement", "_parseNoCache", 0, CImpl, RMain);
  ("ParserElement", "_parseNoCache", 1, CImpl, RMain);
  ("ParserElement", "_parseNoCache", 2, CImpl, RMain);
  ("ParserElement", "_parseNoCache", 3, CImpl, RMain);
  ("ParserElement", "_parseCache", 0, CParse, RMain);
  ("And", "parseImpl", 0, CParse, RMain);
  ("And", "parseImpl", 1, CParse, RMain);
  ("And", "parseImpl", 2, CParse, RMain);
  ("Or", "parseImpl", 0, CTryParse, RTrial);          (* first pass *)
  ("Or", "parseImpl", 1, CParse, RMain);              (* not do_actions: best match *)
  ("Or", "parseImpl", 2, CParse, RMain);              (* second pass, longest first *)
  ("MatchFirst", "parseImpl", 0, CParse, RMain);
  ("Each", "parseImpl", 0, CTryParse, RTrial);        (* ordering pass *)
  ("Each", "parseImpl", 1, CParse, RMain);
  ("ParseElementEnhance", "parseImpl", 0, CParse, RMain);
  ("IndentedBlock", "parseImpl", 0, CTryParse, ROther);
  ("IndentedBlock", "parseImpl", 1, CImpl, ROther);
  ("AtStringStart", "parseImpl", 0, CImpl, RMain);
  ("AtLineStart", "parseImpl", 0, CImpl, RMain);
  ("FollowedBy", "parseImpl", 0, CParse, RLookahead);
  ("PrecededBy", "parseImpl", 0, CParse, RLookbehind);
  ("PrecededBy", "parseImpl", 1, CParse, RLookbehind);
  ("Located", "parseImpl", 0, CParse, RMain);
  ("NotAny", "parseImpl", 0, CCanParseNext, RLookahead);
  ("_MultipleMatch", "parseImpl", 0, CTryParse, RTrial);  (* stop_on check before the first repetition *)
  ("_MultipleMatch", "parseImpl", 1, CParse, RMain);
  ("_MultipleMatch", "parseImpl", 2, CTryParse, RTrial);  (* stop_on check inside the loop *)
  ("_MultipleMatch", "parseImpl", 3, CParse, RMain);
  ("ZeroOrMore", "parseImpl", 0, CImpl, RMain);
  ("Opt", "parseImpl", 0, CParse, RMain);
  ("SkipTo", "parseImpl", 0, CCanParseNext, RTrial);      (* fail_on test *)
  ("SkipTo", "parseImpl", 1, CTryParse, RTrial);          (* ignore expressions while scanning *)
  ("SkipTo", "parseImpl", 2, CParse, RTrial);             (* the scan for the target *)
  ("SkipTo", "parseImpl", 3, CParse, RMain);              (* include=True: the target, for real *)
  ("Forward", "parseImpl", 0, CImpl, RMain);              (* not left-recursive / memo disabled *)
  ("Forward", "parseImpl", 1, CImpl, ROther);
  ("Forward", "parseImpl", 2, CImpl, ROther)
].

Definition site_key (s : site) : string * string * nat * callee := (s_class s, s_method s, s_ord s, s_callee s).

Definition key_eqb (a b : string * string * nat * callee) : bool :=
  match a, b with
  | (c1, m1, k1, e1), (c2, m2, k2, e2) => String.eqb c1 c2 && String.eqb m1 m2 && Nat.eqb k1 k2 && callee_eqb e1 e2
  end.

Fixpoint role_of_key (tbl : list (string * string * nat * callee * role)) (k : string * string * nat * callee) : role :=
  match tbl with
  | [] => ROther
  | (c, m, n, e, r) :: rest => if key_eqb (c, m, n, e) k then r else role_of_key rest k
  end.

Definition role_of (s : site) : role := role_of_key expected_sites (site_key s).

(* the generated table has exactly the expected sites, in the same order *)
Fixpoint keys_match (ss : list site) (tbl : list (string * string * nat * callee * role)) : bool :=
  match ss, tbl with
  | [], [] => true
  | s :: ss', (c, m, n, e, _) :: tbl' => key_eqb (site_key s) (c, m, n, e) && keys_match ss' tbl'
  | _, _ => false
  end.

Fixpoint find_site (ss : list site) (k : string * string * nat * callee) : option site :=
  match ss with
  | [] => None
  | s :: rest => if key_eqb (site_key s) k then Some s else find_site rest k
  end.

(* checks evaluated on the generated table (each is lifted to a quantified statement in Proofs/ArityProofs.v) *)
Definition is_role (r : role) (s : site) : bool := role_eqb (role_of s) r.

(* every trial site is silent whatever the caller's flag *)
Definition trial_check (defaults : callee -> bool) (tp cp : argkind) (ss : list site) : bool :=
  forallb (fun s => if is_role RTrial s
                    then negb (eff_parse defaults tp cp s true) && negb (eff_parse defaults tp cp s false) else true) ss.

(* every main / lookahead site hands the caller's flag on unchanged *)
Definition forward_check (defaults : callee -> bool) (tp cp : argkind) (ss : list site) : bool :=
  forallb (fun s => if is_role RMain s || is_role RLookahead s
                    then eff_parse defaults tp cp s true && negb (eff_parse defaults tp cp s false) else true) ss.

(* the lookbehind sites keep a false flag false *)
Definition lookbehind_silent (defaults : callee -> bool) (tp cp : argkind) (ss : list site) : bool :=
  forallb (fun s => if is_role RLookbehind s then negb (eff_parse defaults tp cp s false) else true) ss.
