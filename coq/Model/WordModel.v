(* Model of pyparsing.core.Word: constructor decisions, the character-loop parseImpl, the generated regex, and
   the property's reading (word_spec); Literal / _SingleCharLiteral / Empty dispatch.
   Executable definitions only.

   Two facts about the source are *parameters* of the model and are regenerated from /repo on every run
   (Gen/GenC17.v):  strict — does Word.parseImpl still contain the clause
   `elif self.maxSpecified and loc < instrlen and instring[loc] in body_chars` (F-17a);
   guard — is the regex construction guarded by a non-empty initChars (F-17c). *)
From Coq Require Import List NArith Arith Bool Lia.
From PP Require Import Model.Str Model.Regex Model.ReGen.
Import ListNotations.

(* constructor arguments; "" and None are the same to the constructor (Python truthiness), so plain strings *)
Record wargs := {
  w_init : str;          (* init_chars *)
  w_body : str;          (* body_chars ; [] = not given *)
  w_min : nat;
  w_max : nat;           (* 0 = not given *)
  w_exact : nat;         (* 0 = not given *)
  w_kw : bool;           (* as_keyword *)
  w_excl : str           (* exclude_chars ; [] = not given *)
}.

(* the constructor raises ValueError otherwise *)
Definition w_valid (a : wargs) : bool :=
  negb (match w_init a with [] => true | _ => false end) &&
  (1 <=? w_min a) &&
  ((w_max a =? 0) || (w_min a <=? w_max a)).

Definition remove_chars (excl l : str) : str := filter (fun c => negb (mem_char c excl)) l.

(* self.initChars / self.bodyChars as lists standing for sets *)
Definition init_set (a : wargs) : str := remove_chars (w_excl a) (w_init a).
Definition body_set (a : wargs) : str :=
  match remove_chars (w_excl a) (w_body a) with
  | [] => init_set a
  | b => b
  end.

Definition min_len (a : wargs) : nat := if 0 <? w_exact a then w_exact a else w_min a.
Definition max_len (a : wargs) : option nat :=          (* None = _MAX_INT *)
  if 0 <? w_exact a then Some (w_exact a) else if 0 <? w_max a then Some (w_max a) else None.
Definition max_specified (a : wargs) : bool := 0 <? w_max a.     (* not changed by exact *)
(* the local variables min / max after `if exact > 0: min = max = exact` *)
Definition loc_min (a : wargs) : nat := min_len a.
Definition loc_max (a : wargs) : nat := if 0 <? w_exact a then w_exact a else w_max a.

Definition in_init (a : wargs) (c : char) : bool := mem_char c (init_set a).
Definition in_body (a : wargs) (c : char) : bool := mem_char c (body_set a).

(* ---------------------------------------------------------------- the character loop (Word.parseImpl) *)
(* while loc < maxloc and instring[loc] in body_chars: loc += 1      with n = maxloc - loc *)
Fixpoint scan_body (p : char -> bool) (s : str) (n : nat) (i : nat) : nat :=
  match n with
  | 0 => i
  | S n' => match char_at s i with
            | Some c => if p c then scan_body p s n' (S i) else i
            | None => i
            end
  end.

Definition body_at (a : wargs) (s : str) (i : nat) : bool :=
  match char_at s i with Some c => in_body a c | None => false end.

(* result = new loc (the token is s[start:loc]); None = ParseException.
   At loc >= len(s) `instring[loc]` raises IndexError, which _parseNoCache turns into ParseException. *)
Definition word_loop (strict : bool) (a : wargs) (s : str) (start : nat) : option nat :=
  match char_at s start with
  | None => None
  | Some c =>
    if negb (in_init a c) then None
    else
      let instrlen := length s in
      let maxloc := match max_len a with Some m => Nat.min (start + m) instrlen | None => instrlen end in
      let loc := scan_body (in_body a) s (maxloc - S start) (S start) in
      if loc - start <? min_len a then None
      else if strict && max_specified a && (loc <? instrlen) && body_at a s loc then None
      else if w_kw a && ((0 <? start) && body_at a s (start - 1) || (loc <? instrlen) && body_at a s loc) then None
      else Some loc
  end.

(* ---------------------------------------------------------------- the regex built by Word.__init__ *)
Definition set_eqb (x y : str) : bool :=
  forallb (fun c => mem_char c y) x && forallb (fun c => mem_char c x) y.

Definition class_re (cs : str) : re := RSet false false (collapse_items cs).

(* re.escape(c) for one character parses back to the literal c *)
Definition leading_fragment (a : wargs) : re :=
  match sort_uniq (init_set a) with
  | [c] => RChr c
  | _ => class_re (init_set a)
  end.

Definition opt_pred (o : option nat) : option nat := match o with Some m => Some (m - 1) | None => None end.

Definition kw_wrap (kw : bool) (r : re) : re :=
  if kw then RSeq (RAt AtBoundary) (RSeq r (RAt AtBoundary)) else r.

(* None: no regex, Word.parseImpl (the loop) stays in place *)
Definition word_regex (guard : bool) (a : wargs) : option re :=
  if mem_char SP (init_set a ++ body_set a) then None
  else
    match init_set a with
    | [] =>
      (* only reachable when exclude_chars removed every init char.  With the guard: no regex.  Without it the
         text is "[]" + ... : alone it does not compile (no regex); followed by "[body]" it compiles as ONE class
         that starts with the literals ] and [ *)
      if guard then None
      else match remove_chars (w_excl a) (w_body a) with
           | [] => None
           | b =>
             if loc_max a =? 1 then None
             else
               let cls := RSet false false (CI_char RBRK :: CI_char LBRK :: collapse_items b) in
               let r :=
                 if (loc_max a =? 0) && (min_len a =? 1) then RRep Greedy 0 None cls
                 else if loc_max a =? 2 then (if loc_min a <=? 1 then RRep Greedy 0 (Some 1) cls else cls)
                 else if negb (loc_min a =? loc_max a)
                      then RRep Greedy (loc_min a - 1) (if 0 <? loc_max a then Some (loc_max a - 1) else None) cls
                      else RRep Greedy (loc_min a - 1) (Some (loc_min a - 1)) cls in
               Some (kw_wrap (w_kw a) r)
           end
    | _ =>
      let lead := leading_fragment a in
      let r :=
        if set_eqb (body_set a) (init_set a) then
          if (loc_max a =? 0) && (min_len a =? 1) then RRep Greedy 1 None lead
          else if loc_max a =? 1 then lead
          else if negb (match max_len a with Some m => min_len a =? m | None => false end)
               then RRep Greedy (min_len a) (max_len a) lead
               else RRep Greedy (min_len a) (Some (min_len a)) lead
        else
          if loc_max a =? 1 then lead
          else
            let bodyf := class_re (body_set a) in
            if (loc_max a =? 0) && (min_len a =? 1) then RSeq lead (RRep Greedy 0 None bodyf)
            else if loc_max a =? 2 then (if loc_min a <=? 1 then RSeq lead (RRep Greedy 0 (Some 1) bodyf) else RSeq lead bodyf)
            else if negb (loc_min a =? loc_max a)
                 then RSeq lead (RRep Greedy (loc_min a - 1) (if 0 <? loc_max a then Some (loc_max a - 1) else None) bodyf)
                 else RSeq lead (RRep Greedy (loc_min a - 1) (Some (loc_min a - 1)) bodyf) in
      Some (kw_wrap (w_kw a) r)
    end.

(* Word.parseImpl_regex: result.end() *)
Definition word_regex_path (r : re) (s : str) (loc : nat) : option nat := re_match r s loc.

(* what Word._parse does at loc, whichever implementation __init__ installed *)
Definition word_parse (strict guard : bool) (a : wargs) (s : str) (loc : nat) : option nat :=
  match word_regex guard a with
  | Some r => word_regex_path r s loc
  | None => word_loop strict a s loc
  end.

(* ---------------------------------------------------------------- the property's reading *)
(* "the longest run of an initial character followed by body characters, capped at max and failing below min" *)
Definition word_spec (a : wargs) (s : str) (loc : nat) : option nat :=
  match char_at s loc with
  | None => None
  | Some c =>
    if in_init a c then
      let run := run_len (in_body a) s (S loc) in
      let n := S (match max_len a with Some m => Nat.min (m - 1) run | None => run end) in
      if min_len a <=? n then Some (loc + n) else None
    else None
  end.

(* ---------------------------------------------------------------- Literal.__new__ dispatch *)
Inductive lit_class := LEmpty | LSingle | LGeneral.
Definition literal_class (w : str) : lit_class :=
  match w with [] => LEmpty | [_] => LSingle | _ => LGeneral end.

(* parseImpl of the selected class at loc; instring[loc] with loc >= len is an IndexError, which _parseNoCache
   turns into ParseException (None here); Empty.parseImpl does not index and returns loc. *)
Definition literal_parse (w : str) (s : str) (loc : nat) : option nat :=
  match literal_class w with
  | LEmpty => Some loc
  | LSingle =>
    match char_at s loc, w with
    | Some c, f :: _ => if N.eqb c f then Some (loc + 1) else None
    | _, _ => None
    end
  | LGeneral =>
    match char_at s loc, w with
    | Some c, f :: _ => if N.eqb c f && starts_at s loc w then Some (loc + length w) else None
    | _, _ => None
    end
  end.
