(* Models of pyparsing's regex-fragment generators (util.py, core.srange) on top of Model/Regex.v.
   Executable definitions only.

   _collapse_string_to_ranges(chars)   ->  collapse_items : the list of bracket-expression items that the returned
                                           string denotes once placed between [ ] (checked on every run: the real string is
                                           parsed by sre_parse and compared item by item), and collapse_str : the string itself
   _escape_regex_range_chars           ->  esc_range_char / escape_range_str
   srange                              ->  expand_items on the notation AST (list citem without categories)
   make_compressed_re                  ->  Model/CompRe.v *)
From Coq Require Import List NArith Arith Bool Lia.
From PP Require Import Model.Str Model.Regex Gen.GenC17.
Import ListNotations.

(* ---------------------------------------------------------------- sorted(set(s)) *)
Fixpoint insert_uniq (c : char) (l : list char) : list char :=
  match l with
  | [] => [c]
  | d :: t => if N.ltb c d then c :: l else if N.eqb c d then l else d :: insert_uniq c t
  end.
Definition sort_uniq (l : list char) : list char := fold_right insert_uniq [] l.

(* ---------------------------------------------------------------- itertools.groupby(..., _GroupConsecutive()) on a sorted
   list of distinct code points: maximal runs of consecutive code points, as (first, last) *)
Fixpoint runs_acc (first last : char) (l : list char) : list (char * char) :=
  match l with
  | [] => [(first, last)]
  | c :: t => if N.eqb c (last + 1) then runs_acc first c t else (first, last) :: runs_acc c c t
  end.
Definition runs (l : list char) : list (char * char) :=
  match l with [] => [] | c :: t => runs_acc c c t end.

(* one group: single char, two chars, or first-last *)
Definition run_items (r : char * char) : list citem :=
  let (f, l) := r in
  if N.eqb f l then [CI_char f]
  else if N.eqb l (f + 1) then [CI_char f; CI_char l]
  else [CI_range f l].

Definition collapse_items (cs : list char) : list citem :=
  let sc := sort_uniq cs in
  if 2 <? length sc then flat_map run_items (runs sc) else map CI_char sc.

(* ---------------------------------------------------------------- the text level: which characters get a backslash *)
Definition BSL : char := 92%N.      (* \ *)
Definition CARET : char := 94%N.    (* ^ *)
Definition DASH : char := 45%N.     (* - *)
Definition RBRK : char := 93%N.     (* ] *)
Definition LBRK : char := 91%N.     (* [ *)

(* escape_re_range_char of _collapse_string_to_ranges: c in r"\^-][" — the set is regenerated from the source *)
Definition needs_range_escape (c : char) : bool := mem_char c gen_collapse_escapes.
(* the characters that must be escaped for the class reader below to read them back as literals *)
Definition class_special (c : char) : bool := mem_char c [BSL; CARET; DASH; RBRK; LBRK].
Definition esc_range_char (c : char) : str := if needs_range_escape c then [BSL; c] else [c].

Definition run_str (r : char * char) : str :=
  let (f, l) := r in
  if N.eqb f l then esc_range_char f
  else if N.eqb l (f + 1) then esc_range_char f ++ esc_range_char l
  else esc_range_char f ++ [DASH] ++ esc_range_char l.

Definition collapse_str (cs : list char) : str :=
  let sc := sort_uniq cs in
  if 2 <? length sc then flat_map run_str (runs sc) else flat_map esc_range_char sc.

(* _escape_regex_range_chars(s): backslash before \ ^ - [ ] ; newline -> \n, tab -> \t (as two characters) *)
Definition escape_range_one (c : char) : str :=
  if mem_char c gen_range_escapes then [BSL; c]
  else if N.eqb c NL then [BSL; 110%N]
  else if N.eqb c TAB then [BSL; 116%N]
  else [c].
Definition escape_range_str (s : str) : str := flat_map escape_range_one s.

(* A reader for the body of a bracket expression as the generators above write it (the fragment of sre_parse's
   class syntax they use): `\c` is the literal c (for the punctuation they escape; \n and \t are newline and tab),
   `x-y` is a range, anything else a literal.  None = text outside that fragment.
   fuel = length of the text. *)
Definition unescape (c : char) : char :=
  if N.eqb c 110%N then NL else if N.eqb c 116%N then TAB else c.

(* read one class atom: (code point, rest) *)
Definition read_atom (t : str) : option (char * str) :=
  match t with
  | [] => None
  | c :: r =>
    if N.eqb c BSL then
      match r with
      | d :: r' => if class_special d || N.eqb d 110%N || N.eqb d 116%N then Some (unescape d, r') else None
      | [] => None
      end
    else if N.eqb c RBRK then None                     (* an unescaped ] would close the class *)
    else Some (c, r)
  end.

Fixpoint read_class (fuel : nat) (t : str) : option (list citem) :=
  match fuel with
  | 0 => match t with [] => Some [] | _ => None end
  | S f =>
    match t with
    | [] => Some []
    | _ =>
      match read_atom t with
      | None => None
      | Some (a, r) =>
        match r with
        | d :: r2 =>
          if N.eqb d DASH then
            match read_atom r2 with
            | Some (b, r3) =>
              if N.leb a b then
                match read_class f r3 with Some l => Some (CI_range a b :: l) | None => None end
              else None                                  (* bad range *)
            | None =>
              match r2 with
              | [] => Some [CI_char a; CI_char DASH]      (* trailing - is a literal *)
              | _ => None
              end
            end
          else match read_class f r with Some l => Some (CI_char a :: l) | None => None end
        | [] => Some [CI_char a]
        end
      end
    end
  end.

(* ---------------------------------------------------------------- srange: expand the notation *)
Definition expand_range (lo hi : char) : list char :=
  map (fun k => (lo + N.of_nat k)%N) (seq 0 (N.to_nat (hi + 1 - lo))).

Definition expand_item (it : citem) : list char :=
  match it with
  | CI_char c => [c]
  | CI_range lo hi => expand_range lo hi
  | CI_cat _ _ => []                 (* not part of srange's notation *)
  end.
Definition expand_items (items : list citem) : list char := flat_map expand_item items.

Definition no_cat (it : citem) : bool := match it with CI_cat _ _ => false | _ => true end.
