(* M5 + M6: the grammar type (attributed, as dumped from the real objects after streamline()) and
   `step`, the one-level semantics of `ParserElement._parseNoCache` as a resumption tree (Model/Prog.v).
   Every `Call` is a `<child>._parse(instring, loc, do_actions, callPreParse)`.
   Executable definitions only. *)
From Coq Require Import List ZArith NArith Bool Arith.
From PP Require Import Model.Str Model.Results Model.Prog.
Import ListNotations.

(* ------------------------------------------------------------------------------------------- *)
(* exceptions and outcomes                                                                      *)
(* ------------------------------------------------------------------------------------------- *)
Inductive xkind :=
| XParse        (* ParseException *)
| XFatal        (* ParseFatalException *)
| XSyntax       (* ParseSyntaxException  (subclass of ParseFatalException) *)
| XIndex        (* IndexError (internal, or raised by a parse action before wrapping) *)
| XActIndex     (* _ParseActionIndexError wrapping an action's IndexError *)
| XType | XValue | XKey | XAttr | XOther.

Definition is_fatal (k : xkind) : bool := match k with XFatal | XSyntax => true | _ => false end.
Definition is_pe (k : xkind) : bool := match k with XParse => true | _ => false end.
Definition is_pbe (k : xkind) : bool := match k with XParse | XFatal | XSyntax => true | _ => false end.

(* which message an exception carries: the `errmsg` of a grammar node (plus a variant suffix), or a fixed text *)
Inductive msg :=
| MNode (id : nat) (sfx : nat)     (* errmsg of node id ; sfx 0 = plain, 1.. = Keyword variants *)
| MNoAlt                           (* "no defined alternatives to match" *)
| MNoExpr                          (* "No expression defined" *)
| MNotStringStart | MNotLineStart  (* AtStringStart / AtLineStart *)
| MTextCol                         (* GoToColumn: "Text not in expected column" *)
| MActIndex                        (* "exception raised in parse action" (debug path only) *)
| MMissing (ids : list nat)        (* Each: "Missing one or more required elements (...)" *)
| MFwdNoBase                       (* "Forward recursion without base case" *)
| MUser (id : nat)                 (* message chosen by a parse action / condition *)
| MEmpty.                          (* '' *)

Record exn := { xk : xkind; xloc : Z; xmsg : msg; xel : option nat }.
Definition mkx k (loc : Z) m el := {| xk := k; xloc := loc; xmsg := m; xel := el |}.

Inductive outcome :=
| Ok (loc : nat) (r : pres)
| Err (x : exn)
| Div.                              (* the real parser would loop forever (a repetition whose body matches without consuming) *)

(* ------------------------------------------------------------------------------------------- *)
(* grammar                                                                                      *)
(* ------------------------------------------------------------------------------------------- *)
(* a small closed language of parse actions (already wrapped by _trim_arity: see Model/Arity.v for that layer) *)
Inductive action :=
| AKeep                                  (* returns None *)
| AConst (v : list tok)                  (* returns a list : replaces the tokens *)
| AConstStr (s : str)                    (* returns a str *)
| AUpper                                 (* lambda t: [x.upper() for x in t] on str tokens (ASCII) *)
| AJoin                                  (* lambda t: ''.join(t) *)
| ALoc                                   (* lambda s,l,t: [l] *)
| AAppend (v : tok)                      (* t.append(v) ; returns None : mutates the results object in place *)
| ADelAll                                (* del t[:] (PrecededBy's own action) *)
| ASetName (k : str) (v : tok)           (* t[k] = v  (Tag) *)
| ARaise (k : xkind) (id : nat)          (* raises an exception of that class, message MUser id, at the action's loc *)
| ACond (minlen : nat) (fatal : bool) (id : nat).   (* condition_as_parse_action(lambda t: len(t[0]) >= minlen, fatal=..) *)

Record attrs := {
  nid : nat;                 (* identity of the Python object *)
  rsname : option str;       (* resultsName *)
  modalr : bool;             (* modalResults *)
  aslist : bool;             (* saveAsList *)
  skipws : bool;             (* skipWhitespace *)
  white : list char;         (* whiteChars *)
  callpre : bool;            (* callPreparse *)
  mayidx : bool;             (* mayIndexError *)
  custom : bool;             (* customName is not None *)
  hasmsg : bool;             (* errmsg is truthy *)
  acts : list action;        (* parseAction *)
  calltry : bool;            (* callDuringTry *)
  slen : nat                 (* len(str(self)) : only used by Or/Each to order simultaneous fatal errors *)
}.

Inductive tkind :=
| KLit (m : str)                                   (* Literal / _SingleCharLiteral *)
| KCaselessLit (upper_m : str) (ret : str)         (* CaselessLiteral *)
| KKeyword (m : str) (ident : list char) (caseless : bool) (upper_m : str)
| KWord (init body : list char) (minl : nat) (maxl : option nat) (maxspec : bool) (askw : bool) (use_re : bool)
| KNotIn (notchars : list char) (minl : nat) (maxl : option nat)
| KWhite (ws : list char) (minl : nat) (maxl : option nat)
| KEmpty | KNoMatch
| KLineStart (orig_has_nl : bool) (skipper_white : list char)
| KLineEnd | KStringStart | KStringEnd
| KWordStart (wc : list char) | KWordEnd (wc : list char)
| KGoToCol (c : nat)
| KErrorStop.                                      (* And._ErrorStop *)

(* Each carries, per child (in the order of `exprs`), what `Each.parseImpl` reads from the real objects beyond the
   dumped structure: the child's `mayReturnEmpty`, and two equality classes under `ParserElement.__eq__`
   (`vars(self) == vars(other)`, what `e in tmpReqd` / `tmpOpt.remove(e)` use): the class of the child object itself and
   the class of the operand derived from it (`e.expr` of an Opt; `e.expr.set_results_name(e.resultsName, True)` of a
   ZeroOrMore/OneOrMore; the child itself otherwise).  Equal numbers = `==` holds (identical objects included). *)
Definition each_info := (bool * (nat * nat))%type.
Inductive nkind := NAnd | NMatchFirst | NOr | NEach (info : list each_info).

Inductive ekind :=
| EPass                     (* ParseElementEnhance.parseImpl unchanged: Forward is separate; DelimitedList, TokenConverter *)
| EGroup (aspy : bool) | ESuppress
| ECombine (join : str)
| EDict
| EOpt (default : option tok)
| ENot | EFollowedBy
| ELookahead                (* infix_notation's _FB: `self.expr.try_parse(instring, loc); return loc, []` *)
| ELocated
| EAtStringStart | EAtLineStart
| EPrecededBy (exact : bool) (retreat : nat).

Inductive expr :=
| Tok  (a : attrs) (ign : list expr) (t : tkind)
| Nary (a : attrs) (ign : list expr) (k : nkind) (es : list expr)
| Enh  (a : attrs) (ign : list expr) (k : ekind) (e : expr)
| Rep  (a : attrs) (ign : list expr) (zero : bool) (e : expr) (notender : option expr)   (* ZeroOrMore / OneOrMore ; notender = ~stop_on *)
| Skip (a : attrs) (ign : list expr) (e : expr) (incl : bool) (ignorer_ign : list expr) (failon : option expr)
| Fwd  (a : attrs) (ign : list expr) (id : option nat).        (* body = G[id] ; None: no expression attached *)

Definition attrs_of (e : expr) : attrs :=
  match e with
  | Tok a _ _ | Nary a _ _ _ | Enh a _ _ _ | Rep a _ _ _ _ | Skip a _ _ _ _ _ | Fwd a _ _ => a
  end.
Definition ign_of (e : expr) : list expr :=
  match e with
  | Tok _ i _ | Nary _ i _ _ | Enh _ i _ _ | Rep _ i _ _ _ | Skip _ i _ _ _ _ | Fwd _ i _ => i
  end.

Definition env := list expr.          (* Forward bodies *)

Record args := { a_e : expr; a_s : str; a_loc : nat; a_do : bool; a_pre : bool }.
Definition mkargs e s loc d p := {| a_e := e; a_s := s; a_loc := loc; a_do := d; a_pre := p |}.

Definition prg := prog args outcome.

(* ------------------------------------------------------------------------------------------- *)
(* helpers over strings                                                                         *)
(* ------------------------------------------------------------------------------------------- *)
Definition at_ (s : str) (i : nat) : option char := nth_error s i.
Definition slice_ (s : str) (a b : nat) : str := firstn (b - a) (skipn a s).

Fixpoint startswith_at (s : str) (loc : nat) (m : str) : bool :=
  match m with
  | [] => true
  | c :: m' => match at_ s loc with Some d => N.eqb c d && startswith_at s (S loc) m' | None => false end
  end.

Definition upper_c (c : char) : char := if (N.leb 97 c && N.leb c 122)%bool then (c - 32)%N else c.
Definition upper_s (s : str) : str := map upper_c s.

(* while loc < len and s[loc] in set: loc += 1, bounded by maxloc *)
Fixpoint run_while (fuel : nat) (s : str) (loc maxloc : nat) (p : char -> bool) : nat :=
  match fuel with
  | 0 => loc
  | S f => if Nat.ltb loc maxloc then
             match at_ s loc with
             | Some c => if p c then run_while f s (S loc) maxloc p else loc
             | None => loc
             end
           else loc
  end.

Definition skip_white (s : str) (loc : nat) (wc : list char) : nat :=
  run_while (length s) s loc (length s) (fun c => mem_char c wc).

Definition col_at (s : str) (loc : nat) : nat :=
  (* util.col on 0 <= loc : loc - rfind('\n', 0, loc)  (the special case is subsumed, Proofs/LocProofs.v) *)
  let pre := firstn loc s in
  match rfind_acc NL pre 0 None with Some p => loc - p | None => S loc end.

(* ------------------------------------------------------------------------------------------- *)
(* parseImpl of the token classes                                                               *)
(* ------------------------------------------------------------------------------------------- *)
Inductive impl_res :=
| IOk (loc : nat) (r : raw)
| IExc (x : exn)
| IIndexError.

Definition pexc (a : attrs) (loc : nat) : impl_res := IExc (mkx XParse (Z.of_nat loc) (MNode (nid a) 0) (Some (nid a))).
Definition pexc_sfx (a : attrs) (loc : Z) (sfx : nat) : impl_res := IExc (mkx XParse loc (MNode (nid a) sfx) (Some (nid a))).

Definition len_cap (start : nat) (maxl : option nat) (len : nat) : nat :=
  match maxl with Some m => Nat.min (start + m) len | None => len end.

Definition tok_impl (a : attrs) (t : tkind) (s : str) (loc : nat) : impl_res :=
  let len := length s in
  match t with
  | KLit m =>
    match m with
    | [c] => (* _SingleCharLiteral: instring[loc] == firstMatchChar *)
      match at_ s loc with
      | None => IIndexError
      | Some d => if N.eqb d c then IOk (S loc) (RStr m) else pexc a loc
      end
    | _ => (* instring[loc] == firstMatchChar and startswith *)
      match at_ s loc with
      | None => IIndexError
      | Some d => if startswith_at s loc m then IOk (loc + length m) (RStr m) else pexc a loc
      end
    end
  | KCaselessLit um ret =>
    if str_eqb (upper_s (slice_ s loc (loc + length um))) um then IOk (loc + length um) (RStr ret) else pexc a loc
  | KKeyword m ident caseless um =>
    let ml := length m in
    let chk (c : char) := mem_char (if caseless then upper_c c else c) ident in
    let head_ok :=
      if caseless then Some (str_eqb (upper_s (slice_ s loc (loc + ml))) um)
      else match ml with
           | 1 => match at_ s loc with
                  | None => None                                  (* IndexError on instring[loc] *)
                  | Some d => Some (match m with c :: _ => N.eqb d c | [] => false end || startswith_at s loc m)
                  end
           | _ => match at_ s loc with
                  | None => None
                  | Some d => Some (startswith_at s loc m)        (* first disjunct false when matchLen <> 1 *)
                  end
           end in
    match head_ok with
    | None => IIndexError
    | Some false => pexc a loc
    | Some true =>
      let before_ok := match loc with 0 => true | S p => match at_ s p with Some c => negb (chk c) | None => true end end in
      if before_ok then
        (* loc >= len(instring) - matchLen  (Python ints: may be negative on the right) *)
        if (Z.of_nat len - Z.of_nat ml <=? Z.of_nat loc)%Z then IOk (loc + ml) (RStr m)
        else match at_ s (loc + ml) with
             | Some c => if negb (chk c) then IOk (loc + ml) (RStr m)
                         else pexc_sfx a (Z.of_nat (loc + ml)) (if caseless then 1 else 2)
             | None => IIndexError
             end
      else pexc_sfx a (Z.of_nat loc - 1) 3
    end
  | KWord init body minl maxl maxspec askw use_re =>
    match at_ s loc with
    | None => if use_re then pexc a loc else IIndexError      (* re.match at/after the end simply fails *)
    | Some c0 =>
      let isbody := fun c => mem_char c body in
      if use_re then
        (* parseImpl_regex: [init][body]{min-1,max-1} greedy, optionally \b...\b *)
        let wordch := fun c : char => (N.leb 48 c && N.leb c 57) || (N.leb 65 c && N.leb c 90) || (N.leb 97 c && N.leb c 122) || N.eqb c 95 || N.leb 128 c in
        let bnd (i : nat) : bool :=      (* \b at position i *)
          let l := match i with 0 => false | S p => match at_ s p with Some c => wordch c | None => false end end in
          let r := match at_ s i with Some c => wordch c | None => false end in
          xorb l r in
        if negb (mem_char c0 init) then pexc a loc
        else if askw && negb (bnd loc) then pexc a loc
        else
          let e := run_while len s (S loc) (len_cap loc maxl len) isbody in
          (* with \b at the end the regex engine backtracks to shorter runs *)
          let fix back (fuel : nat) (e : nat) : option nat :=
            match fuel with
            | 0 => None
            | S f => if Nat.ltb (e - loc) minl then None
                     else if negb askw || bnd e then Some e
                     else match e with 0 => None | S e' => if Nat.ltb loc e' then back f e' else None end
            end in
          match back (S (e - loc)) e with
          | Some e' => IOk e' (RStr (slice_ s loc e'))
          | None => pexc a loc
          end
      else
        if negb (mem_char c0 init) then pexc a loc
        else
          let e := run_while len s (S loc) (len_cap loc maxl len) isbody in
          let follows := match at_ s e with Some c => isbody c | None => false end in
          let precedes := match loc with 0 => false | S p => match at_ s p with Some c => isbody c | None => false end end in
          if Nat.ltb (e - loc) minl then pexc a e
          else if askw && (precedes || follows) then pexc a e
          else IOk e (RStr (slice_ s loc e))
    end
  | KNotIn nc minl maxl =>
    match at_ s loc with
    | None => IIndexError
    | Some c0 =>
      if mem_char c0 nc then pexc a loc
      else let e := run_while len s (S loc) (len_cap loc maxl len) (fun c => negb (mem_char c nc)) in
           if Nat.ltb (e - loc) minl then pexc a e else IOk e (RStr (slice_ s loc e))
    end
  | KWhite ws minl maxl =>
    match at_ s loc with
    | None => IIndexError
    | Some c0 =>
      if negb (mem_char c0 ws) then pexc a loc
      else let e := run_while len s (S loc) (len_cap loc maxl len) (fun c => mem_char c ws) in
           if Nat.ltb (e - loc) minl then pexc a e else IOk e (RStr (slice_ s loc e))
    end
  | KEmpty => IOk loc (RList [])
  | KNoMatch => pexc a loc
  | KLineStart _ _ => if Nat.eqb (col_at s loc) 1 then IOk loc (RList []) else pexc a loc
  | KLineEnd =>
    if Nat.ltb loc len then
      match at_ s loc with
      | Some c => if N.eqb c NL then IOk (S loc) (RStr [NL]) else pexc a loc
      | None => pexc a loc
      end
    else if Nat.eqb loc len then IOk (S loc) (RList [])
    else pexc a loc
  | KStringStart =>
    (* loc != 0 and loc != self.preParse(instring, 0) : preParse here has no ignorables in the modelled grammars *)
    if Nat.eqb loc 0 then IOk loc (RList [])
    else if Nat.eqb loc (if skipws a then skip_white s 0 (white a) else 0) then IOk loc (RList [])
    else pexc a loc
  | KStringEnd =>
    if Nat.ltb loc len then pexc a loc
    else if Nat.eqb loc len then IOk (S loc) (RList [])
    else IOk loc (RList [])
  | KWordStart wc =>
    match loc with
    | 0 => IOk loc (RList [])
    | S p =>
      match at_ s p, at_ s loc with
      | Some cp, Some cl => if mem_char cp wc || negb (mem_char cl wc) then pexc a loc else IOk loc (RList [])
      | Some cp, None => if mem_char cp wc then pexc a loc else IIndexError   (* `or` short-circuits before instring[loc] *)
      | None, _ => IIndexError
      end
    end
  | KWordEnd wc =>
    if Nat.ltb 0 len && Nat.ltb loc len then
      match at_ s loc with
      | Some cl =>
        if mem_char cl wc then pexc a loc
        else
          (* instring[loc-1] : at loc = 0 Python's negative index wraps to the last character *)
          let prev := match loc with 0 => at_ s (len - 1) | S p => at_ s p end in
          match prev with
          | Some cp => if negb (mem_char cp wc) then pexc a loc else IOk loc (RList [])
          | None => IIndexError
          end
      | None => IIndexError
      end
    else IOk loc (RList [])
  | KGoToCol c =>
    let thiscol := col_at s loc in
    if Nat.ltb c thiscol then IExc (mkx XParse (Z.of_nat loc) MTextCol (Some (nid a)))
    else let newloc := loc + c - thiscol in IOk newloc (RStr (slice_ s loc newloc))
  | KErrorStop => IOk loc (RList [])
  end.

(* ------------------------------------------------------------------------------------------- *)
(* parse actions                                                                                *)
(* ------------------------------------------------------------------------------------------- *)
Inductive act_res :=
| ActKeep (r : pres)          (* returned None (or the same object): keep ret_tokens, possibly mutated in place *)
| ActReplace (x : raw)        (* returned something else *)
| ActRaise (x : exn).

(* len(t[0]) : Some (inl n) | IndexError on an empty result | TypeError when t[0] has no len() *)
Definition first_len (r : pres) : option (nat + xkind) :=
  match toks r with
  | TStr s :: _ => Some (inl (length s))
  | TPR p :: _ => Some (inl (length (toks p)))
  | TList l :: _ => Some (inl (length l))
  | (TInt _ | TBool _ | TNone) :: _ => Some (inr XType)
  | [] => None
  end.

Definition run_action (ac : action) (loc : nat) (r : pres) : act_res :=
  match ac with
  | AKeep => ActKeep r
  | AConst v => ActReplace (RList v)
  | AConstStr s => ActReplace (RStr s)
  | AUpper => ActReplace (RList (map (fun t => match t with TStr s => TStr (upper_s s) | o => o end) (toks r)))
  | AJoin => ActReplace (RStr (concat (flat_map tok_strings (toks r))))
  | ALoc => ActReplace (RList [TInt (Z.of_nat loc)])
  | AAppend v => ActKeep (PR (toks r ++ [v]) (dict r) (allnames r) (rname r) (modal r))
  | ADelAll => ActKeep (pr_del_all r)
  | ASetName k v => ActKeep (pr_setname r k v 0)
  | ARaise k id => ActRaise (mkx k (Z.of_nat loc) (MUser id) None)
  | ACond minlen fatal id =>
    match first_len r with
    | Some (inl n) => if Nat.leb minlen n then ActKeep r
                      else ActRaise (mkx (if fatal then XFatal else XParse) (Z.of_nat loc) (MUser id) None)
    | Some (inr k) => ActRaise (mkx k (Z.of_nat loc) MEmpty None)  (* len() of an int / bool / None: TypeError *)
    | None => ActRaise (mkx XIndex (Z.of_nat loc) MEmpty None)     (* t[0] on an empty result: IndexError *)
    end
  end.

(* the action loop of _parseNoCache (non-debug path) *)
Fixpoint run_actions (a : attrs) (acs : list action) (loc : nat) (r : pres) : pres + exn :=
  match acs with
  | [] => inl r
  | ac :: rest =>
    match run_action ac loc r with
    | ActRaise x =>
      (* IndexError raised by a (wrapped) action arrives as _ParseActionIndexError, which is not an IndexError *)
      inr (if match xk x with XIndex => true | _ => false end then mkx XActIndex (xloc x) (xmsg x) (xel x) else x)
    | ActKeep r' => run_actions a rest loc r'
    | ActReplace x =>
      let aslist' := aslist a && match x with RPR _ | RList _ => true | _ => false end in
      run_actions a rest loc (pr_init x (rsname a) aslist' (modalr a))
    end
  end.

(* ------------------------------------------------------------------------------------------- *)
(* step                                                                                         *)
(* ------------------------------------------------------------------------------------------- *)
Section Step.
Variable G : env.

Definition call (e : expr) (s : str) (loc : nat) (d p : bool) (k : outcome -> prg) : prg :=
  Call (mkargs e s loc d p) k.

Definition is_index (k : xkind) : bool := match k with XIndex => true | _ => false end.

(* Where an exception that the current code does not handle goes: `fail x`.  Outside `parseImpl` (i.e. in
   preParse called from _parseNoCache) that is `Ret (Err x)`; inside `parseImpl` it is the IndexError guard of
   _parseNoCache followed by `Ret`. *)
Definition escape : exn -> prg := fun x => Ret (Err x).

(* _skipIgnorables, in continuation-passing style.  `fuel` bounds the number of successful ignore matches;
   exhausting it means an ignore expression matches without consuming: the real code spins. *)
Fixpoint skip_ign_inner (fail : exn -> prg) (fuel : nat) (ig : expr) (s : str) (loc : nat) (found : bool)
         (k : nat -> bool -> prg) : prg :=
  match fuel with
  | 0 => Ret Div
  | S f => call ig s loc true true (fun o =>
      match o with
      | Ok loc' _ => skip_ign_inner fail f ig s loc' true k
      | Err x => if is_pe (xk x) then k loc found else fail x
      | Div => Ret Div
      end)
  end.

Fixpoint skip_ign_pass (fail : exn -> prg) (fuel : nat) (igs : list expr) (s : str) (loc : nat) (found : bool)
         (k : nat -> bool -> prg) : prg :=
  match igs with
  | [] => k loc found
  | ig :: rest => skip_ign_inner fail fuel ig s loc found (fun loc' found' => skip_ign_pass fail fuel rest s loc' found' k)
  end.

Fixpoint skip_ignorables (fail : exn -> prg) (rounds : nat) (igs : list expr) (s : str) (loc : nat) (k : nat -> prg) : prg :=
  match igs with
  | [] => k loc
  | _ =>
    match rounds with
    | 0 => Ret Div
    | S r => skip_ign_pass fail (length s + 2) igs s loc false (fun loc' found =>
               if negb found then k loc'
               else if Nat.eqb loc' loc then k loc'
               else skip_ignorables fail r igs s loc' k)
    end
  end.

(* preParse *)
Definition pre_parse (fail : exn -> prg) (e : expr) (s : str) (loc : nat) (k : nat -> prg) : prg :=
  let a := attrs_of e in
  match e with
  | Tok _ _ (KGoToCol c) =>
    if Nat.eqb (col_at s loc) c then k loc
    else skip_ignorables fail (length s + 2) (ign_of e) s loc (fun loc1 =>
           (* while loc < len and instring[loc].isspace() and col(loc) != self.col *)
           let fix go (fuel : nat) (l : nat) : nat :=
             match fuel with
             | 0 => l
             | S f => match at_ s l with
                      | Some ch => if (mem_char ch [SP; TAB; NL; CR; 11%N; 12%N]) && negb (Nat.eqb (col_at s l) c) then go f (S l) else l
                      | None => l
                      end
             end in
           k (go (length s) loc1))
  | Tok _ _ (KLineStart orig_nl skw) =>
    match loc with
    | 0 => k loc
    | _ =>
      let ret := skip_white s loc skw in
      if orig_nl then
        let fix go (fuel : nat) (r : nat) : nat :=
          match fuel with
          | 0 => r
          | S f => match at_ s r with
                   | Some ch => if N.eqb ch NL then go f (skip_white s (S r) skw) else r
                   | None => r
                   end
          end in
        k (go (length s) ret)
      else k ret
    end
  | _ =>
    skip_ignorables fail (length s + 2) (ign_of e) s loc (fun loc1 =>
      k (if skipws a then skip_white s loc1 (white a) else loc1))
  end.

(* ParseElementEnhance.parseImpl's exception rewriting *)
Definition enh_rewrite (a : attrs) (is_forward : bool) (loc : nat) (x : exn) : exn :=
  match xk x with
  | XSyntax => x
  | XParse | XFatal =>
    let l := if (xloc x =? 0)%Z then Z.of_nat loc else xloc x in
    let el := match xel x with Some i => Some i | None => Some (nid a) end in
    let m := if negb is_forward && custom a && hasmsg a then MNode (nid a) 0 else xmsg x in
    mkx (xk x) l m el
  | _ => x
  end.

(* MatchFirst / Or: keep the exception with the greatest location *)
Definition better (best : option exn) (x : exn) : option exn :=
  match best with
  | Some b => if (xloc b <? xloc x)%Z then Some x else Some b
  | None => Some x
  end.
Definition best_loc (best : option exn) : Z := match best with Some b => xloc b | None => (-1)%Z end.

(* the tail shared by MatchFirst and Or once every alternative failed *)
Definition alt_fail (fail : exn -> prg) (e : expr) (s : str) (loc : nat) (best : option exn) : prg :=
  let a := attrs_of e in
  match best with
  | Some b =>
    pre_parse fail e s loc (fun start =>
      fail (if (xloc b =? Z.of_nat start)%Z
            then mkx (xk b) (xloc b) (if hasmsg a then MNode (nid a) 0 else MEmpty) (xel b)
            else b))
  | None => fail (mkx XParse (Z.of_nat loc) MNoAlt (Some (nid a)))
  end.

(* try_parse(raise_fatal = rf) : _parse(do_actions=d), ParseFatalException -> ParseException unless rf *)
Definition try_parse (c : expr) (s : str) (loc : nat) (d : bool) (rf : bool) (k : outcome -> prg) : prg :=
  call c s loc d true (fun o =>
    match o with
    | Err x => if is_fatal (xk x) && negb rf
               then k (Err (mkx XParse (Z.of_nat loc) (MNode (nid (attrs_of c)) 0) (Some (nid (attrs_of c)))))
               else k o
    | _ => k o
    end).

(* can_parse_next *)
Definition can_parse_next (fail : exn -> prg) (c : expr) (s : str) (loc : nat) (d : bool) (k : bool -> prg) : prg :=
  try_parse c s loc d false (fun o =>
    match o with
    | Ok _ _ => k true
    | Div => Ret Div
    | Err x => if is_pe (xk x) || is_index (xk x) then k false else fail x
    end).

(* Or.parseImpl, first pass: list of (end, alternative) in source order, fatals, best exception *)
Fixpoint or_pass1 (fail : exn -> prg) (e : expr) (es : list expr) (s : str) (loc : nat)
         (matches : list (nat * expr)) (fatals : list (exn * nat)) (best : option exn)
         (k : list (nat * expr) -> list (exn * nat) -> option exn -> prg) : prg :=
  match es with
  | [] => k matches fatals best
  | c :: rest =>
    try_parse c s loc false true (fun o =>
      match o with
      | Ok loc2 _ => or_pass1 fail e rest s loc (matches ++ [(loc2, c)]) fatals best k
      | Div => Ret Div
      | Err x =>
        if is_fatal (xk x) then
          or_pass1 fail e rest s loc matches (fatals ++ [(mkx (xk x) (xloc x) (xmsg x) (Some (nid (attrs_of c))), slen (attrs_of c))]) None k
        else if is_pe (xk x) then
          or_pass1 fail e rest s loc matches fatals (match fatals with [] => better best x | _ => best end) k
        else if is_index (xk x) then
          let len := Z.of_nat (length s) in
          or_pass1 fail e rest s loc matches fatals
            (if (best_loc best <? len)%Z then Some (mkx XParse len (MNode (nid (attrs_of c)) 0) (Some (nid (attrs_of e)))) else best) k
        else fail x
      end)
  end.

(* stable insertion sort, descending by key *)
Fixpoint insert_desc {X} (key : X -> Z) (x : X) (l : list X) : list X :=
  match l with
  | [] => [x]
  | y :: t => if (key y <? key x)%Z then x :: l else y :: insert_desc key x t
  end.
Definition sort_desc {X} (key : X -> Z) (l : list X) : list X :=
  fold_left (fun acc x => insert_desc key x acc) l [].

Definition pick_fatal (fatals : list (exn * nat)) : option exn :=
  match sort_desc (fun p => xloc (fst p)) fatals with
  | [] => None
  | [p] => Some (fst p)
  | p1 :: p2 :: rest =>
    if (xloc (fst p1) =? xloc (fst p2))%Z then
      (* re-sort by (-loc, -len(str(parser_element))) : Python's sort is stable *)
      match sort_desc (fun p => (xloc (fst p) * 1000000 + Z.of_nat (snd p))%Z) (p1 :: p2 :: rest) with
      | q :: _ => Some (fst q)
      | [] => None
      end
    else Some (fst p1)
  end.

(* `try_not_ender(instring, loc)` : None = the ender does not match here, Some o = it raised o *)
Definition check_ender (ne : option expr) (s : str) (loc : nat) (k : option outcome -> prg) : prg :=
  match ne with
  | None => k None
  | Some n => try_parse n s loc false false (fun o =>
      match o with
      | Ok _ _ => k None
      | _ => k (Some o)
      end)
  end.

(* SkipTo's scan *)
Fixpoint skipto_ign (fail : exn -> prg) (fuel : nat) (ignorer : expr) (s : str) (tmploc : nat) (k : nat -> prg) : prg :=
  match fuel with
  | 0 => k tmploc
  | S f => try_parse ignorer s tmploc false false (fun o =>
      match o with
      | Ok l _ => if Nat.eqb l tmploc then k tmploc else skipto_ign fail f ignorer s l k
      | Div => Ret Div
      | Err x => if is_pbe (xk x) then k tmploc else fail x
      end)
  end.

Fixpoint skipto_scan (fail : exn -> prg) (fuel : nat) (e : expr) (target : expr) (ignorer : option expr)
         (failon : option expr) (s : str) (loc0 tmploc : nat) (k : nat -> prg) : prg :=
  let a := attrs_of e in
  let nomatch := fail (mkx XParse (Z.of_nat loc0) (MNode (nid a) 0) (Some (nid a))) in
  match fuel with
  | 0 => nomatch
  | S f =>
    if Nat.ltb (length s) tmploc then nomatch
    else
      let after_failon :=
        (match ignorer with
         | Some ig => skipto_ign fail (length s + 2) ig s tmploc
         | None => fun k' => k' tmploc
         end) (fun tl =>
           call target s tl false false (fun o =>
             match o with
             | Ok _ _ => k tl
             | Div => Ret Div
             | Err x => if is_pe (xk x) || is_index (xk x)
                        then skipto_scan fail f e target ignorer failon s loc0 (S tl) k
                        else fail x
             end)) in
      match failon with
      | Some fo => can_parse_next fail fo s tmploc false (fun b => if b then nomatch (* the SkipTo is not a match (since /repo's fix of F-01b: `raise`, was `break`) *) else after_failon)
      | None => after_failon
      end
  end.

Definition empty_attrs : attrs :=
  {| nid := 0; rsname := None; modalr := true; aslist := false; skipws := false; white := [];
     callpre := true; mayidx := false; custom := false; hasmsg := true; acts := []; calltry := false; slen := 0 |}.

(* parseImpl.  Tokens answer through k (inl ..); containers through k (inr (loc, tokens)) on success and through
   `fail` (which is k (inl ..) as well, so that the IndexError guard of _parseNoCache sees it) on failure. *)
Definition kont := (impl_res + (nat * raw))%type.
Definition fail_of (k : kont -> prg) : exn -> prg :=
  fun x => k (inl (if is_index (xk x) then IIndexError else IExc x)).
Definition failo_of (k : kont -> prg) : outcome -> prg :=
  fun o => match o with Err x => fail_of k x | _ => Ret Div end.

(* And.parseImpl after the first element *)
Fixpoint and_go (k : kont -> prg) (a : attrs) (s : str) (d : bool) (es : list expr) (loc : nat) (acc : pres) (estop : bool) : prg :=
  match es with
  | [] => k (inr (loc, RPR acc))
  | c :: rest =>
    match c with
    | Tok _ _ KErrorStop => and_go k a s d rest loc acc true
    | _ =>
      call c s loc d true (fun o =>
        match o with
        | Ok loc' r => and_go k a s d rest loc' (pr_iadd acc r) estop
        | Div => Ret Div
        | Err x =>
          if estop then
            match xk x with
            | XSyntax => fail_of k x
            | XParse | XFatal => fail_of k (mkx XSyntax (xloc x) (xmsg x) (xel x))
            | XIndex => fail_of k (mkx XSyntax (Z.of_nat (length s)) (MNode (nid a) 0) (Some (nid a)))
            | _ => fail_of k x
            end
          else fail_of k x
        end)
    end
  end.

(* MatchFirst.parseImpl *)
Fixpoint mf_go (k : kont -> prg) (e : expr) (s : str) (loc : nat) (d : bool) (es : list expr) (best : option exn) : prg :=
  match es with
  | [] => alt_fail (fail_of k) e s loc best
  | c :: rest =>
    call c s loc d true (fun o =>
      match o with
      | Ok loc' r => k (inr (loc', RPR r))
      | Div => Ret Div
      | Err x =>
        if is_fatal (xk x) then fail_of k (mkx (xk x) (xloc x) (xmsg x) (Some (nid (attrs_of c))))
        else if is_pe (xk x) then mf_go k e s loc d rest (better best x)
        else if is_index (xk x) then
          let len := Z.of_nat (length s) in
          mf_go k e s loc d rest (if (best_loc best <? len)%Z
                   then Some (mkx XParse len (MNode (nid (attrs_of c)) 0) (Some (nid (attrs_of e)))) else best)
        else fail_of k x
      end)
  end.

(* Or.parseImpl, second pass (do_actions = True) *)
Fixpoint or_go2 (k : kont -> prg) (tail : option exn -> prg) (s : str) (loc : nat)
         (ms : list (nat * expr)) (longest : option (nat * pres)) (best : option exn) : prg :=
  match ms with
  | [] => match longest with Some (l, r) => k (inr (l, RPR r)) | None => tail best end
  | (loc1, c) :: rest =>
    let stop := match longest with Some (l, _) => Nat.leb loc1 l | None => false end in
    if stop then match longest with Some (l, r) => k (inr (l, RPR r)) | None => Ret Div end
    else call c s loc true true (fun o =>
      match o with
      | Ok loc2 r =>
        if Nat.leb loc1 loc2 then k (inr (loc2, RPR r))
        else or_go2 k tail s loc rest (match longest with
                      | Some (l, _) => if Nat.ltb l loc2 then Some (loc2, r) else longest
                      | None => Some (loc2, r)
                      end) best
      | Div => Ret Div
      | Err x => if is_pe (xk x) then or_go2 k tail s loc rest longest (better best x) else fail_of k x
      end)
  end.

(* _MultipleMatch.parseImpl: the `while 1` loop inside `try: ... except (ParseException, IndexError): pass` *)
Fixpoint rep_go (k : kont -> prg) (fail_or_empty : outcome -> prg) (e body : expr) (ne : option expr) (s : str) (d : bool)
         (fuel : nat) (loc : nat) (acc : pres) : prg :=
  match fuel with
  | 0 => Ret Div
  | S f =>
    let stop (o : outcome) : prg :=
      match o with
      | Err x => if is_pe (xk x) || is_index (xk x) then k (inr (loc, RPR acc)) else fail_or_empty o
      | _ => Ret Div
      end in
    skip_ignorables (fun x => stop (Err x)) (length s + 2) (ign_of e) s loc (fun preloc =>
      check_ender ne s preloc (fun r =>
        match r with
        | Some o => stop o
        | None =>
          call body s preloc d true (fun o =>
            match o with
            | Ok loc' r' => if Nat.eqb loc' loc then Ret Div else rep_go k fail_or_empty e body ne s d f loc' (pr_iadd acc r')
            | Div => Ret Div
            | Err _ => stop o
            end)
        end))
  end.

(* ------------------------------------------------------------------------------------------- *)
(* Each.parseImpl                                                                               *)
(* ------------------------------------------------------------------------------------------- *)
Definition set_attrs (e : expr) (a : attrs) : expr :=
  match e with
  | Tok _ i t => Tok a i t
  | Nary _ i k es => Nary a i k es
  | Enh _ i k c => Enh a i k c
  | Rep _ i z c ne => Rep a i z c ne
  | Skip _ i c incl ig fo => Skip a i c incl ig fo
  | Fwd _ i b => Fwd a i b
  end.

(* `e.set_results_name(n, list_all_matches=True)` with n not None: a copy with resultsName = n, modalResults = False.
   (The copy is a new Python object; it keeps the node id of the original here, which names its errmsg / str(); inside
   Each its identity is tracked by the `copy` flag of its entry.  Deviation: the packrat cache keys of such a copy and
   of its original are only told apart by their different attributes.) *)
Definition named_copy (e : expr) (n : str) : expr :=
  let a := attrs_of e in
  set_attrs e {| nid := nid a; rsname := Some n; modalr := false; aslist := aslist a; skipws := skipws a; white := white a;
                 callpre := callpre a; mayidx := mayidx a; custom := custom a; hasmsg := hasmsg a; acts := acts a;
                 calltry := calltry a; slen := slen a |}.

(* an element of self.required / self.optionals / self.multioptionals :
   (equality class, is a copy made by initExprGroups, the element) *)
Definition each_ent := (nat * bool * expr)%type.
Definition ee_cls (en : each_ent) : nat := fst (fst en).
Definition ee_copy (en : each_ent) : bool := snd (fst en).
Definition ee_e (en : each_ent) : expr := snd en.

Definition is_opt (e : expr) : bool := match e with Enh _ _ (EOpt _) _ => true | _ => false end.
Definition is_zom (e : expr) : bool := match e with Rep _ _ true _ _ => true | _ => false end.
Definition is_rep (e : expr) : bool := match e with Rep _ _ _ _ _ => true | _ => false end.

(* e.expr.set_results_name(e.resultsName, list_all_matches=True) : `self` when the name is None, else a copy *)
Definition rep_operand (c body : expr) : bool * expr :=
  match rsname (attrs_of c) with
  | None => (false, body)
  | Some n => (true, named_copy body n)
  end.

Definition each_zip (es : list expr) (info : list each_info) : list (expr * each_info) := combine es info.

(* opt1 = [e.expr for e in self.exprs if isinstance(e, Opt)] *)
Definition each_opt1 (zs : list (expr * each_info)) : list each_ent :=
  flat_map (fun z => match fst z with
                     | Enh _ _ (EOpt _) b => [(snd (snd (snd z)), false, b)]
                     | _ => []
                     end) zs.
(* opt2 = [e for e in self.exprs if e.mayReturnEmpty and not isinstance(e, (Opt, Regex, ZeroOrMore))] *)
Definition each_opt2 (zs : list (expr * each_info)) : list each_ent :=
  flat_map (fun z => if fst (snd z) && negb (is_opt (fst z)) && negb (is_zom (fst z))
                     then [(fst (snd (snd z)), false, fst z)] else []) zs.
(* multioptionals (only_plus = false: every _MultipleMatch) / multirequired (only_plus = true: OneOrMore) *)
Definition each_multi (only_plus : bool) (zs : list (expr * each_info)) : list each_ent :=
  flat_map (fun z => match fst z with
                     | Rep _ _ zero b _ =>
                       if only_plus && zero then []
                       else [(snd (snd (snd z)), fst (rep_operand (fst z) b), snd (rep_operand (fst z) b))]
                     | _ => []
                     end) zs.
(* [e for e in self.exprs if not isinstance(e, (Opt, ZeroOrMore, OneOrMore))] *)
Definition each_req1 (zs : list (expr * each_info)) : list each_ent :=
  flat_map (fun z => if is_opt (fst z) || is_rep (fst z) then [] else [(fst (snd (snd z)), false, fst z)]) zs.

(* `e in lst` / `lst.remove(e)` for ParserElements: the first member that is `e` or `== e` *)
Definition mem_cls (c : nat) (l : list each_ent) : bool := existsb (fun en => Nat.eqb (ee_cls en) c) l.
Fixpoint remove_cls (c : nat) (l : list each_ent) : list each_ent :=
  match l with
  | [] => []
  | en :: t => if Nat.eqb (ee_cls en) c then t else en :: remove_cls c t
  end.

(* self.opt1map.get(id(e), e) : opt1map = dict((id(e.expr), e) for e in self.exprs if isinstance(e, Opt)); later wins *)
Definition each_order (es : list expr) (en : each_ent) : expr :=
  if ee_copy en then ee_e en
  else match find (fun c => match c with
                            | Enh _ _ (EOpt _) b => Nat.eqb (nid (attrs_of b)) (nid (attrs_of (ee_e en)))
                            | _ => false
                            end) (rev es) with
       | Some c => c
       | None => ee_e en
       end.

(* one execution of `for e in tmpExprs:` ; state = tmpLoc, tmpReqd, tmpOpt, matchOrder, len(failed), fatals *)
Fixpoint each_round (fail : exn -> prg) (es : list expr) (s : str) (cands : list each_ent) (tl : nat)
         (reqd opt : list each_ent) (mo : list expr) (nf : nat) (fatals : list (exn * nat))
         (k : nat -> list each_ent -> list each_ent -> list expr -> nat -> list (exn * nat) -> prg) : prg :=
  match cands with
  | [] => k tl reqd opt mo nf fatals
  | en :: rest =>
    try_parse (ee_e en) s tl false true (fun o =>
      match o with
      | Ok tl' _ =>
        let mo' := mo ++ [each_order es en] in
        if mem_cls (ee_cls en) reqd then each_round fail es s rest tl' (remove_cls (ee_cls en) reqd) opt mo' nf fatals k
        else if mem_cls (ee_cls en) opt then each_round fail es s rest tl' reqd (remove_cls (ee_cls en) opt) mo' nf fatals k
        else each_round fail es s rest tl' reqd opt mo' nf fatals k
      | Div => Ret Div
      | Err x =>
        if is_fatal (xk x) then
          each_round fail es s rest tl reqd opt mo (S nf)
            (fatals ++ [(mkx (xk x) (xloc x) (xmsg x) (Some (nid (attrs_of (ee_e en)))), slen (attrs_of (ee_e en)))]) k
        else if is_pe (xk x) then each_round fail es s rest tl reqd opt mo (S nf) fatals k
        else fail x                       (* `except ParseException` : anything else (IndexError included) propagates *)
      end)
  end.

(* `while keepMatching:` ; a round in which something matched but neither the location nor the lists changed repeats
   itself for ever in the real code (a repeatable operand that matches without consuming): Div.  `fuel` bounds the
   number of rounds (each other round consumes input or removes an operand): see each_fuel. *)
Fixpoint each_loop (fail : exn -> prg) (es : list expr) (s : str) (fuel : nat) (tl : nat)
         (reqd opt multis : list each_ent) (mo : list expr)
         (k : list each_ent -> list each_ent -> list expr -> list (exn * nat) -> prg) : prg :=
  match fuel with
  | 0 => Ret Div
  | S f =>
    let cands := reqd ++ opt ++ multis in
    each_round fail es s cands tl reqd opt mo 0 [] (fun tl' reqd' opt' mo' nf fatals =>
      if Nat.eqb nf (length cands) then k reqd' opt' mo' fatals
      else if Nat.eqb tl' tl && Nat.eqb (length reqd') (length reqd) && Nat.eqb (length opt') (length opt) then Ret Div
      else each_loop fail es s f tl' reqd' opt' multis mo' k)
  end.

(* Bound on the number of rounds.  Every match of a candidate taken from tmpReqd / tmpOpt removes one element of these
   lists (the candidates of a round are exactly their members), so without repeatable operands there are at most
   |required| + |optionals| rounds with a match, plus the last one; a repeatable operand can add one round per character. *)
Definition each_fuel (slen : nat) (reqd opt multis : list each_ent) : nat :=
  (match multis with [] => 0 | _ :: _ => slen end) + length reqd + length opt + 3.

(* the second pass: `for e in matchOrder: loc, results = e._parse(instring, loc, do_actions); total_results += results` *)
Fixpoint each_go2 (k : kont -> prg) (s : str) (d : bool) (mo : list expr) (loc : nat) (acc : pres) : prg :=
  match mo with
  | [] => k (inr (loc, RPR acc))
  | c :: rest =>
    call c s loc d true (fun o =>
      match o with
      | Ok loc' r => each_go2 k s d rest loc' (pr_iadd acc r)
      | Div => Ret Div
      | Err x => fail_of k x
      end)
  end.

Definition each_impl (k : kont -> prg) (es : list expr) (info : list each_info) (s : str) (loc : nat) (d : bool) : prg :=
  let zs := each_zip es info in
  let reqd := each_req1 zs ++ each_multi true zs in                 (* self.required += self.multirequired *)
  let opt := each_opt1 zs ++ each_opt2 zs in
  let multis := each_multi false zs in
  each_loop (fail_of k) es s (each_fuel (length s) reqd opt multis) loc reqd opt multis []
    (fun reqd' opt' mo fatals =>
       match pick_fatal fatals with
       | Some fx => fail_of k fx
       | None =>
         match reqd' with
         | _ :: _ => fail_of k (mkx XParse (Z.of_nat loc) (MMissing (map (fun en => nid (attrs_of (ee_e en))) reqd')) None)
         | [] =>
           (* matchOrder += [e for e in self.exprs if isinstance(e, Opt) and e.expr in tmpOpt] *)
           let unmatched := flat_map (fun z => if is_opt (fst z) && mem_cls (snd (snd (snd z))) opt' then [fst z] else []) zs in
           each_go2 k s d (mo ++ unmatched) loc pr_empty
         end
       end).

Definition impl (e : expr) (s : str) (loc : nat) (d : bool) (k : kont -> prg) : prg :=
  let a := attrs_of e in
  let fail := fail_of k in
  let failo := failo_of k in
  match e with
  | Tok _ _ t => k (inl (tok_impl a t s loc))
  | Nary _ _ NAnd es =>
    match es with
    | [] => k (inl IIndexError)                      (* self.exprs[0] *)
    | c :: rest =>
      call c s loc d false (fun o =>
        match o with
        | Ok loc' r => and_go k a s d rest loc' r false
        | _ => failo o
        end)
    end
  | Nary _ _ NMatchFirst es => mf_go k e s loc d es None
  | Nary _ _ NOr es =>
    let start (loc : nat) : prg :=
      or_pass1 fail e es s loc [] [] None (fun matches fatals best =>
        let tail (best : option exn) : prg :=
          match pick_fatal fatals with
          | Some fx => fail fx
          | None => alt_fail fail e s loc best
          end in
        match matches with
        | [] => tail best
        | _ =>
          let sorted := sort_desc (fun p => Z.of_nat (fst p)) matches in
          if negb d then
            match sorted with
            | (_, c) :: _ => call c s loc false true (fun o => match o with Ok l r => k (inr (l, RPR r)) | _ => failo o end)
            | [] => tail best
            end
          else or_go2 k tail s loc sorted None best
        end) in
    if forallb (fun c => callpre (attrs_of c)) es then pre_parse fail e s loc start else start loc
  | Nary _ _ (NEach info) es => each_impl k es info s loc d
  | Enh _ _ ek c =>
    let passthrough (loc : nat) : prg :=
      call c s loc d false (fun o =>
        match o with
        | Ok l r => k (inr (l, RPR r))
        | Div => Ret Div
        | Err x => fail (enh_rewrite a false loc x)
        end) in
    match ek with
    | EPass | EGroup _ | ESuppress | ECombine _ | EDict => passthrough loc
    | EAtStringStart =>
      if negb (Nat.eqb loc 0) then fail (mkx XParse (Z.of_nat loc) MNotStringStart None) else passthrough loc
    | EAtLineStart =>
      if negb (Nat.eqb (col_at s loc) 1) then fail (mkx XParse (Z.of_nat loc) MNotLineStart None) else passthrough loc
    | EOpt dflt =>
      call c s loc d false (fun o =>
        match o with
        | Ok l r => k (inr (l, RPR r))
        | Div => Ret Div
        | Err x =>
          if is_pe (xk x) || is_index (xk x) then
            match dflt with
            | Some v =>
              match rsname (attrs_of c) with
              | Some ((_ :: _) as n) => k (inr (loc, RPR (pr_setname (pr_of_list [v]) n v 0)))
              | _ => k (inr (loc, RList [v]))
              end
            | None => k (inr (loc, RList []))
            end
          else fail x
        end)
    | ENot =>
      can_parse_next fail c s loc d (fun b =>
        if b then fail (mkx XParse (Z.of_nat loc) (MNode (nid a) 0) (Some (nid a))) else k (inr (loc, RList [])))
    | EFollowedBy =>
      call c s loc d true (fun o =>
        match o with
        | Ok _ r => k (inr (loc, RPR (pr_del_all r)))
        | _ => failo o
        end)
    | ELookahead =>
      try_parse c s loc false false (fun o =>
        match o with
        | Ok _ _ => k (inr (loc, RList []))
        | _ => failo o
        end)
    | ELocated =>
      call c s loc d false (fun o =>
        match o with
        | Ok l r =>
          let rt := pr_of_list [TInt (Z.of_nat loc); TPR r; TInt (Z.of_nat l)] in
          let rt := pr_setname rt [108;111;99;110;95;115;116;97;114;116]%N (TInt (Z.of_nat loc)) 0 in
          let rt := pr_setname rt [118;97;108;117;101]%N (TPR r) 0 in
          let rt := pr_setname rt [108;111;99;110;95;101;110;100]%N (TInt (Z.of_nat l)) 0 in
          match rsname a with
          | Some (_ :: _) => k (inr (l, RList [TPR rt]))
          | _ => k (inr (l, RPR rt))
          end
        | _ => failo o
        end)
    | EPrecededBy exact retreat =>
      if exact then
        if Nat.ltb loc retreat then fail (mkx XParse (Z.of_nat loc) (MNode (nid a) 0) (Some (nid a)))
        else call c s (loc - retreat) d true (fun o =>
               match o with Ok _ r => k (inr (loc, RPR r)) | _ => failo o end)
      else fail (mkx XOther 0%Z MEmpty None)              (* non-exact look-behind: not modelled *)
    end
  | Rep _ _ zero body ne =>
    let fail_or_empty (o : outcome) : prg :=
      match o with
      | Err x => if zero && (is_pe (xk x) || is_index (xk x))
                 then k (inr (loc, RPR (pr_init (RList []) (rsname a) true true)))   (* ParseResults([], name=self.resultsName) *)
                 else fail x
      | _ => Ret Div
      end in
    check_ender ne s loc (fun r =>
      match r with
      | Some o => fail_or_empty o
      | None =>
        call body s loc d true (fun o =>
          match o with
          | Ok loc1 r1 => rep_go k fail_or_empty e body ne s d (length s + 3) loc1 r1
          | Div => Ret Div
          | Err _ => fail_or_empty o
          end)
      end)
  | Skip _ _ target incl ignorer_igs failon =>
    let ignorer := match ignorer_igs with
                   | [] => None
                   | _ => Some (Tok empty_attrs ignorer_igs KEmpty)     (* self.ignorer = Empty().leave_whitespace() + ignores *)
                   end in
    skipto_scan fail (length s + 2) e target ignorer failon s loc loc (fun tl =>
      let skipres := pr_of_list [TStr (slice_ s loc tl)] in
      if incl then
        call target s tl d false (fun o =>
          match o with
          | Ok l r => k (inr (l, RPR (pr_iadd skipres r)))
          | _ => failo o
          end)
      else k (inr (tl, RPR skipres)))
  | Fwd _ _ body =>
    match body with
    | None => fail (mkx XParse (Z.of_nat loc) MNoExpr (Some (nid a)))
    | Some id =>
      match nth_error G id with
      | None => fail (mkx XParse (Z.of_nat loc) MNoExpr (Some (nid a)))
      | Some c =>
        call c s loc d false (fun o =>
          match o with
          | Ok l r => k (inr (l, RPR r))
          | Div => Ret Div
          | Err x => fail (enh_rewrite a true loc x)
          end)
      end
    end
  end.

(* postParse *)
Definition post_parse (e : expr) (r : raw) : raw :=
  let a := attrs_of e in
  match e with
  | Enh _ _ (EGroup aspy) _ =>
    match r with
    | RPR p => if aspy then RVal (TList (pr_as_list p))     (* ParseResults.List(...) : stored as one list value *)
               else RList [TPR p]
    | other => other
    end
  | Enh _ _ ESuppress _ => RList []
  | Enh _ _ (ECombine join) _ =>
    match r with
    | RPR p =>
      let joined := pr_of_list [TStr (concat (pr_as_string_list join p))] in
      let rt := pr_iadd (pr_del_all (pr_copy p)) (PR (toks joined) [] [] None (modalr a)) in
      match rsname a with
      | Some (_ :: _) => if pr_haskeys rt then RList [TPR rt] else RPR rt
      | _ => RPR rt
      end
    | other => other
    end
  | _ => r
  end.

(* the code of _parseNoCache after parseImpl returned: postParse, the ParseResults wrap, the action loop *)
Definition finish (e : expr) (d : bool) (pre_loc loc : nat) (r : raw) : prg :=
  let a := attrs_of e in
  let r1 := post_parse e r in
  let rt := pr_init r1 (rsname a) (aslist a) (modalr a) in
  match acts a with
  | [] => Ret (Ok loc rt)
  | acs => if d || calltry a then
             match run_actions a acs pre_loc rt with
             | inl rt' => Ret (Ok loc rt')
             | inr x => Ret (Err x)
             end
           else Ret (Ok loc rt)
  end.

(* what _parseNoCache does with the answer of parseImpl (incl. the IndexError guard) *)
Definition step_k (e : expr) (s : str) (d : bool) (pre_loc : nat) : kont -> prg :=
  fun res =>
    let a := attrs_of e in
    match res with
    | inl (IOk loc r) => finish e d pre_loc loc r
    | inl (IExc x) => Ret (Err x)
    | inl IIndexError =>
      if mayidx a || Nat.leb (length s) pre_loc
      then Ret (Err (mkx XParse (Z.of_nat (length s)) (MNode (nid a) 0) (Some (nid a))))
      else Ret (Err (mkx XIndex (Z.of_nat pre_loc) MEmpty None))
    | inr (loc, r) => finish e d pre_loc loc r
    end.

Definition step (ar : args) : prg :=
  let e := a_e ar in let s := a_s ar in let d := a_do ar in
  let a := attrs_of e in
  let with_pre (k : nat -> prg) : prg :=
    if a_pre ar && callpre a then pre_parse escape e s (a_loc ar) k else k (a_loc ar) in
  with_pre (fun pre_loc => impl e s pre_loc d (step_k e s d pre_loc)).

End Step.
