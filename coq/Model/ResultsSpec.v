(* C10: the abstract specification — a plain Python list plus an ordered multimap of names (plus the set of
   list-all names, which decides how a lookup presents the values) — and the operations of the public API on it.
   No stored positions, no `_name`, no `_modal`.  `view` maps a ParseResults to this abstraction (nested results are
   abstracted recursively).  Also here: str / repr / dump, which read only the public views and are therefore defined
   on the view (string formatting: repr of a str is '...' — valid for strings without quote, backslash and
   non-printable characters; dump with its default arguments).
   Executable definitions only. *)
From Coq Require Import String Ascii.
From Coq Require Import List ZArith NArith Bool.
From PP Require Import Model.Str Model.Results Model.ResultsAPI.
Import ListNotations.
Local Open Scope Z_scope.

Inductive vtok :=
| VStr (s : str) | VInt (z : Z) | VBool (b : bool) | VNone
| VList (l : list vtok)                                                  (* a plain Python list value *)
| VPR (l : list vtok) (m : list (str * list vtok)) (an : list str).      (* a nested result: its own three views *)

Record aview := AV {
  av_list : list vtok;                     (* the Python list *)
  av_map : list (str * list vtok);         (* the ordered multimap: name -> all values, in insertion order *)
  av_all : list str                        (* names whose lookups present all values (list-all) *)
}.
Definition vpr (a : aview) : vtok := VPR (av_list a) (av_map a) (av_all a).

Fixpoint tview (t : tok) : vtok :=
  match t with
  | TStr s => VStr s
  | TInt z => VInt z
  | TBool b => VBool b
  | TNone => VNone
  | TList l => VList (map tview l)
  | TPR r => VPR (map tview (toks r))
                 (map (fun kv => (fst kv, map (fun vp => tview (fst vp)) (snd kv))) (dict r))
                 (allnames r)
  end.
Definition view (r : pres) : aview :=
  AV (map tview (toks r))
     (map (fun kv => (fst kv, map (fun vp => tview (fst vp)) (snd kv))) (dict r))
     (allnames r).

(* ---- multimap operations ---- *)
Definition mm_values (a : aview) (k : str) : list vtok :=
  match dict_get (av_map a) k with Some vs => vs | None => [] end.
Definition mm_contains (a : aview) (k : str) : bool :=
  match dict_get (av_map a) k with Some _ => true | None => false end.
(* r[k] : all values for a list-all name, the last value otherwise; None = KeyError *)
Definition mm_lookup (a : aview) (k : str) : option vtok :=
  match dict_get (av_map a) k with
  | None => None
  | Some vs =>
    if name_in k (av_all a) then Some (VPR vs [] [])
    else match rev vs with v :: _ => Some v | [] => None end
  end.
Definition mm_lookup_present (a : aview) (k : str) : vtok :=
  match mm_lookup a k with Some v => v | None => VNone end.
Definition mm_add (a : aview) (k : str) (v : vtok) : aview :=
  AV (av_list a) (dict_set (av_map a) k (mm_values a k ++ [v])) (av_all a).
Definition mm_del (a : aview) (k : str) : aview :=
  AV (av_list a) (dict_del (av_map a) k) (av_all a).
Definition with_list (a : aview) (l : list vtok) : aview := AV l (av_map a) (av_all a).

Definition spec_bool (a : aview) : bool :=
  negb (match av_list a with [] => true | _ => false end) || negb (match av_map a with [] => true | _ => false end).

(* concatenation: lists append, names merge (values of b after those of a, new names after a's), flags union;
   a falsy right operand is skipped entirely (`if not other: return self`) *)
Definition spec_iadd (a b : aview) : aview :=
  if negb (spec_bool b) then a
  else
    let items := flat_map (fun kv => map (fun v => (fst kv, v)) (snd kv)) (av_map b) in
    let a1 := fold_left (fun acc kv => mm_add acc (fst kv) (snd kv)) items a in
    AV (av_list a1 ++ av_list b) (av_map a1) (names_union (av_all a1) (av_all b)).
Definition spec_copy (a : aview) : aview := AV (av_list a) (av_map a) (names_union [] (av_all a)).
Definition spec_add (a b : aview) : aview := spec_iadd (spec_copy a) b.

(* as_list / as_dict on views *)
Fixpoint v_as_list (t : vtok) : vtok :=
  match t with
  | VPR l _ _ => VList (map v_as_list l)
  | other => other
  end.
Inductive vdval := VDTok (t : vtok) | VDList (l : list vdval) | VDDict (d : list (str * vdval)).
Fixpoint v_to_item (t : vtok) : vdval :=
  match t with
  | VPR l m an =>
    match m with
    | [] => VDList (map v_to_item l)
    | _ => VDDict (map (fun kv =>
                         let vs := map v_to_item (snd kv) in
                         (fst kv, if name_in (fst kv) an then VDList vs else last vs (VDTok VNone)))
                       m)
    end
  | other => VDTok other
  end.
Definition spec_as_dict (a : aview) : list (str * vdval) :=
  map (fun kv =>
         let vs := map v_to_item (snd kv) in
         (fst kv, if name_in (fst kv) (av_all a) then VDList vs else last vs (VDTok VNone)))
      (av_map a).

Inductive vresult :=
| VRNone | VRTok (t : vtok) | VRToks (l : list vtok) | VRBool (b : bool) | VRInt (z : Z) | VRKeys (l : list str)
| VRItems (l : list (str * vtok)) | VRDict (d : list (str * vdval)) | VRPres (a : aview) | VROptStr (s : option str)
| VRExc (e : exn).

Fixpoint dview (d : dval) : vdval :=
  match d with
  | DTok t => VDTok (tview t)
  | DList l => VDList (map dview l)
  | DDict m => VDDict (map (fun kv => (fst kv, dview (snd kv))) m)
  end.
Definition result_view (r : result) : vresult :=
  match r with
  | RNone => VRNone
  | RTok t => VRTok (tview t)
  | RToks l => VRToks (map tview l)
  | RBoolR b => VRBool b
  | RIntR z => VRInt z
  | RKeys l => VRKeys l
  | RItems l => VRItems (map (fun kv => (fst kv, tview (snd kv))) l)
  | RDict d => VRDict (map (fun kv => (fst kv, dview (snd kv))) d)
  | RPres p => VRPres (view p)
  | ROptStr s => VROptStr s
  | RExc e => VRExc e
  end.

(* ---- the specification of every operation: a Python list and a multimap put through the same operation ---- *)
Definition sp_state (a : aview) (o : option (list vtok)) (e : exn) : aview * vresult :=
  match o with Some l => (with_list a l, VRNone) | None => (a, VRExc e) end.
Definition sp_tok (a : aview) (o : option vtok) (e : exn) : aview * vresult :=
  match o with Some v => (a, VRTok v) | None => (a, VRExc e) end.

Definition spec_pop (a : aview) (a0 : option popkey) (extra : list vtok) (kwdefault : option vtok) (badkw : bool)
  : aview * vresult :=
  let a0' := match a0 with Some x => x | None => PKInt (-1) end in
  if badkw then (a, VRExc TypeError)
  else
    let rest := match kwdefault with Some d => [d] | None => extra end in
    let list_sem := match a0' with
                    | PKInt _ => true
                    | PKName k => match rest with [] => true | _ => mm_contains a k end
                    end in
    if list_sem then
      match a0' with
      | PKInt i => match py_getitem (av_list a) i, py_delitem (av_list a) i with      (* list.pop(i) *)
                   | Some v, Some l' => (with_list a l', VRTok v)
                   | _, _ => (a, VRExc IndexError)
                   end
      | PKName k => match mm_lookup a k with                                           (* dict.pop(k) *)
                    | Some v => if mm_contains a k then (mm_del a k, VRTok v) else (a, VRExc KeyError)
                    | None => (a, VRExc KeyError)
                    end
      end
    else (a, match rest with d :: _ => VRTok d | [] => VRNone end).

Definition spec_op (a : aview) (o : op) : aview * vresult :=
  match o with
  | OGetInt i => sp_tok a (py_getitem (av_list a) i) IndexError
  | OGetSlice s => (a, match py_getslice (av_list a) s with Some l => VRToks l | None => VRExc ValueError end)
  | OGetName k => sp_tok a (mm_lookup a k) KeyError
  | OSetInt i v => sp_state a (py_setitem (av_list a) i (tview v)) IndexError
  | OSetSlice s vs => sp_state a (py_setslice (av_list a) s (map tview vs)) ValueError
  | OSetName k v => (mm_add a k (tview v), VRNone)
  | OSetNameOff k v _ => (mm_add a k (tview v), VRNone)
  | ODelInt i => sp_state a (py_delitem (av_list a) i) IndexError
  | ODelSlice s => sp_state a (py_delslice (av_list a) s) ValueError
  | ODelName k => if mm_contains a k then (mm_del a k, VRNone) else (a, VRExc KeyError)
  | OContains k => (a, VRBool (mm_contains a k))
  | OLen => (a, VRInt (llen (av_list a)))
  | OBool => (a, VRBool (spec_bool a))
  | OIter => (a, VRToks (av_list a))
  | OReversed => (a, VRToks (rev (av_list a)))
  | OKeys => (a, VRKeys (map fst (av_map a)))
  | OValues => (a, VRToks (map (mm_lookup_present a) (map fst (av_map a))))
  | OItems => (a, VRItems (map (fun k => (k, mm_lookup_present a k)) (map fst (av_map a))))
  | OHaskeys => (a, VRBool (negb (match av_map a with [] => true | _ => false end)))
  | OPop a0 extra kwd badkw => spec_pop a a0 (map tview extra) (option_map tview kwd) badkw
  | OGet k d => (a, VRTok (if mm_contains a k then mm_lookup_present a k else tview d))
  | OInsert i v => (with_list a (py_insert (av_list a) i (tview v)), VRNone)
  | OAppend v => (with_list a (av_list a ++ [tview v]), VRNone)
  | OExtendList vs => (with_list a (av_list a ++ map tview vs), VRNone)
  | OExtendPR other => (spec_iadd a (view other), VRNone)
  | OClear => (AV [] [] (av_all a), VRNone)
  | OGetAttr k => (a, match mm_lookup a k with
                      | Some v => VRTok v
                      | None => if starts_dunder k then VRExc AttributeError else VRTok (VStr [])
                      end)
  | OAdd other => (a, VRPres (spec_add a (view other)))
  | OIAdd other => (spec_iadd a (view other), VRNone)
  | ORAddZero => (a, VRPres (spec_copy a))
  | ORAddPR other => (a, VRPres (spec_add (view other) a))
  | OAsList => (a, VRToks (map v_as_list (av_list a)))
  | OAsDict => (a, VRDict (spec_as_dict a))
  | OCopy => (a, VRPres (spec_copy a))
  | ODeepcopy => (a, VRPres (spec_copy a))
  | OPickle => (a, VRPres a)
  | OGetNameM => (a, VRNone)          (* get_name() is not a function of the views: excluded from the theorems *)
  end.

Fixpoint spec_run (a : aview) (ops : list op) : list vresult * aview :=
  match ops with
  | [] => ([], a)
  | o :: rest =>
    let (a1, res) := spec_op a o in
    let (rs, af) := spec_run a1 rest in (res :: rs, af)
  end.

Definition observes_views (o : op) : bool := match o with OGetNameM => false | _ => true end.

(* ------------------------------------------------------------------------------------------------------ *)
(* str / repr / dump on views                                                                                *)
(* ------------------------------------------------------------------------------------------------------ *)
Fixpoint lit (s : string) : str :=
  match s with EmptyString => [] | String c s' => N_of_ascii c :: lit s' end.
Fixpoint join (sep : str) (l : list str) : str :=
  match l with
  | [] => []
  | [x] => x
  | x :: rest => x ++ sep ++ join sep rest
  end.
Fixpoint str_ltb (a b : str) : bool :=            (* Python's < on str: lexicographic by code point *)
  match a, b with
  | [], [] => false
  | [], _ :: _ => true
  | _ :: _, [] => false
  | x :: a', y :: b' => if N.ltb x y then true else if N.ltb y x then false else str_ltb a' b'
  end.
Fixpoint insert_sorted {V} (kv : str * V) (l : list (str * V)) : list (str * V) :=
  match l with
  | [] => [kv]
  | kv' :: rest => if str_ltb (fst kv) (fst kv') then kv :: l else kv' :: insert_sorted kv rest
  end.
Definition sort_items {V} (l : list (str * V)) : list (str * V) := fold_right insert_sorted [] l.

Definition repr_str (s : str) : str := lit "'" ++ s ++ lit "'".
Fixpoint vtok_depth (t : vtok) : nat :=
  match t with
  | VList l => S (fold_right Nat.max 0%nat (map vtok_depth l))
  | VPR l m _ => S (Nat.max (fold_right Nat.max 0%nat (map vtok_depth l))
                            (fold_right Nat.max 0%nat (map (fun kv => fold_right Nat.max 0%nat (map vtok_depth (snd kv))) m)))
  | _ => 1%nat
  end.

Fixpoint vdval_repr (rp : vtok -> str) (d : vdval) : str :=
  match d with
  | VDTok t => rp t
  | VDList l => lit "[" ++ join (lit ", ") (map (vdval_repr rp) l) ++ lit "]"
  | VDDict m => lit "{" ++ join (lit ", ") (map (fun kv => repr_str (fst kv) ++ lit ": " ++ vdval_repr rp (snd kv)) m) ++ lit "}"
  end.

(* repr(x) ; fuel = nesting depth *)
Fixpoint vrepr (fuel : nat) (t : vtok) : str :=
  match fuel with
  | O => []
  | S f =>
    match t with
    | VStr s => repr_str s
    | VInt z => str_of_Z z
    | VBool b => if b then str_True else str_False
    | VNone => str_None
    | VList l => lit "[" ++ join (lit ", ") (map (vrepr f) l) ++ lit "]"
    | VPR l m an =>
      lit "ParseResults(" ++ lit "[" ++ join (lit ", ") (map (vrepr f) l) ++ lit "]" ++ lit ", "
        ++ vdval_repr (vrepr f) (VDDict (spec_as_dict (AV l m an))) ++ lit ")"
    end
  end.
Definition fuel_of (t : vtok) : nat := S (S (vtok_depth t)).
Definition py_repr (t : vtok) : str := vrepr (fuel_of t) t.
(* str(x): a ParseResults prints as a list, its items with repr unless they are results themselves *)
Fixpoint vstr (fuel : nat) (t : vtok) : str :=
  match fuel with
  | O => []
  | S f =>
    match t with
    | VStr s => s
    | VPR l _ _ => lit "[" ++ join (lit ", ") (map (fun i => match i with VPR _ _ _ => vstr f i | _ => py_repr i end) l) ++ lit "]"
    | other => py_repr other
    end
  end.
Definition py_str (t : vtok) : str := vstr (fuel_of t) t.

Definition spaces (depth : nat) : str := concat (repeat (lit "  ") depth).
Definition is_vpr (t : vtok) : bool := match t with VPR _ _ _ => true | _ => false end.
Definition vtruthy_pr (t : vtok) : bool :=
  match t with VPR [] [] _ => false | _ => true end.
Definition nat_str (n : nat) : str := str_of_Z (Z.of_nat n).

(* r.dump() with indent='', full=True, include_list=True *)
Fixpoint vdump (fuel : nat) (depth : nat) (t : vtok) : str :=
  match fuel with
  | O => []
  | S f =>
    match t with
    | VPR l m an =>
      let a := AV l m an in
      let head := py_repr (VList (map v_as_list l)) in
      let named :=
        match m with
        | [] => []
        | _ =>
          concat (map (fun kv =>
                         lit "
" ++ spaces depth ++ lit "- " ++ fst kv ++ lit ": " ++
                         (let v := snd kv in
                          if is_vpr v then (if vtruthy_pr v then vdump f (S depth) v else py_str v)
                          else py_repr v))
                      (sort_items (map (fun k => (k, mm_lookup_present a k)) (map fst m))))
        end in
      let listed :=
        if existsb is_vpr l then
          concat (map (fun iv =>
                         lit "
" ++ spaces depth ++ lit "[" ++ nat_str (fst iv) ++ lit "]:" ++ lit "
" ++ spaces (S depth) ++
                         (if is_vpr (snd iv) then vdump f (S depth) (snd iv) else py_str (snd iv)))
                      (combine (seq 0 (length l)) l))
        else [] in
      head ++ named ++ listed
    | other => py_repr other
    end
  end.
Definition pr_dump (r : pres) : str := let t := vpr (view r) in vdump (fuel_of t) 0 t.
Definition pr_str (r : pres) : str := py_str (vpr (view r)).
Definition pr_repr (r : pres) : str := py_repr (vpr (view r)).

(* ------------------------------------------------------------------------------------------------------ *)
(* used by the correspondence harness                                                                        *)
(* ------------------------------------------------------------------------------------------------------ *)
(* long strings are handed to the harness as a 61-bit shift-add hash (printing long lists is slow); on a mismatch the
   harness re-evaluates the string itself *)
Definition shash (s : str) : N :=
  fold_left (fun acc c => N.land (N.shiftl acc 5 + acc + c + 1) 2305843009213693951%N) s 5381%N.
(* Coq prints numbers through an interpreted binary-to-decimal conversion, slow for 61-bit values: hashes are printed as
   seven 9-bit limbs *)
Definition limbs (n : N) : list N :=
  map (fun k => N.land (N.shiftr n (9 * N.of_nat k)) 511%N) (seq 0 7).
(* as_list() is the head of dump(), as_dict() and the token list are inside repr(): the three hashes cover them *)
Definition observe (r : pres) :=
  (keys r, len r, pr_bool r, pr_haskeys r, limbs (shash (pr_str r)), limbs (shash (pr_repr r)), limbs (shash (pr_dump r)), get_name r).
(* structural hash of a state (tokens, name table with positions, _name; the list-all set is printed as is) *)
Definition hmix (a b : N) : N := N.land (a * 1114129 + b + 1) 2305843009213693951%N.
Definition hash_Z (z : Z) : N := (Z.abs_N z * 2 + (if (z <? 0)%Z then 1 else 0))%N.
Fixpoint hash_tok (t : tok) : N :=
  match t with
  | TStr s => hmix 1 (shash s)
  | TInt z => hmix 2 (hash_Z z)
  | TBool b => hmix 3 (if b then 1 else 0)%N
  | TNone => 4%N
  | TList l => fold_left (fun acc x => hmix acc (hash_tok x)) l 5%N
  | TPR r =>
    let ht := fold_left (fun acc x => hmix acc (hash_tok x)) (toks r) 6%N in
    let hd := fold_left (fun acc kv =>
                           fold_left (fun acc2 vp => hmix (hmix acc2 (hash_tok (fst vp))) (hash_Z (snd vp)))
                                     (snd kv) (hmix acc (shash (fst kv))))
                        (dict r) 8%N in
    hmix (hmix ht hd) (match rname r with Some n => hmix 9 (shash n) | None => 10%N end)
  end.
Definition hash_pres (r : pres) : N := hash_tok (TPR r).
Definition observe_light (r : pres) :=
  (keys r, len r, pr_bool r, pr_haskeys r, limbs 0%N, limbs 0%N, limbs (shash (pr_dump r)), get_name r).
Fixpoint explore_hash (depth : nat) (alphabet : list op) (r : pres) :=
  match depth with
  | O => []
  | S d => flat_map (fun o => let (r1, res) := apply_op r o in
                              (res, (limbs (hash_pres r1), allnames r1), observe_light r1) :: explore_hash d alphabet r1) alphabet
  end.
(* every history of length <= depth over an alphabet, DFS pre-order: (result of the last operation, state after it,
   observation bundle of that state) *)
Fixpoint explore_obs (depth : nat) (alphabet : list op) (r : pres) :=
  match depth with
  | O => []
  | S d => flat_map (fun o => let (r1, res) := apply_op r o in (res, r1, observe r1) :: explore_obs d alphabet r1) alphabet
  end.
Fixpoint run_obs (r : pres) (ops : list op) :=
  match ops with
  | [] => []
  | o :: rest => let (r1, res) := apply_op r o in (res, r1, observe r1) :: run_obs r1 rest
  end.
