(* C12 (second half): the operator sugar of ParserElement as an elaboration into the attributed grammar of Model/Core.v.

   Every function below builds the model `expr` that the corresponding real operator builds AFTER streamline(), with the
   flags the real constructors compute (the constructor helpers `mka`, `mk_and`, `mk_mf`, `mk_enh`, `mk_rep_of` of
   Model/Infix.v are reused: they are compared field by field with dumps of real objects by C16 already).

     c_*     the class constructors as the documentation spells the expansions:  And(es), a + b, Opt(e), ZeroOrMore(e),
             OneOrMore(e), NotAny(e), SkipTo(b)("_skipped*"), MatchFirst(es)
     sg_mul / sg_times / sg_item / sg_or / sg_skip
             ParserElement.__mul__ (int), __mul__ (tuple), __getitem__, __or__ (with ''), _PendingSkip.__add__ :
             transcriptions branch by branch of the Python code (pinned by tools/translate/gen_sugar.py / Proofs/SugarTie.v)
     sg_star, sg_plus, sg_atleast, sg_range, sg_until, sg_or_empty, sg_and_left/right/flat
             the documented spellings, defined THROUGH the transcriptions above.

   Operands are model expressions as dumped from the real (streamlined) operand objects.  `ids code` supplies
   (object identity, len(str(self))) of every node the operator creates; they are universally quantified in every theorem and
   unified with the dump by the correspondence check (tools/props/c12.py sugar_elab_checks).
   Not modelled: the ValueError / TypeError / AttributeError paths of the operators (negative counts, n < m, more than two
   indices, stopOn on a non-repetition such as expr[2, ...:stop]); operands whose flags change when they are streamlined.
   Executable definitions only. *)
From Coq Require Import List ZArith NArith Bool Arith String.
From PP Require Import Model.Str Model.Results Model.Prog Model.Core Model.Infix.
Import ListNotations.

Section Sugar.
Variable dw : list char.                 (* ParserElement.DEFAULT_WHITE_CHARS (sorted, as dumped) *)
Variable ids : nat -> nat * nat.         (* code -> (id of the object, len(str(obj))) *)

(* codes of the nodes an operator creates (one operator application never uses a code twice) *)
Definition cMUL := 0.      (* And([self] * minElements) *)
Definition cREP := 1.      (* ZeroOrMore(self) / OneOrMore(self) *)
Definition cSUM := 2.      (* the `+` of  self*n + ZeroOrMore(self)  and of  <required part> + makeOptionalList(..) *)
Definition cNOT := 3.      (* ~stop_on *)
Definition cSKIP := 4.     (* SkipTo(other)("_skipped*") *)
Definition cSEQ1 := 5.     (* anchor + skipper *)
Definition cSEQ2 := 6.     (* (anchor + skipper) + other *)
Definition cIN := 7.       (* inner node of a nested binary composition *)
Definition cOUT := 8.      (* outer node *)
Definition cOPT (k : nat) := 10 + 2 * k.     (* Opt(...) made by makeOptionalList(k + 1) *)
Definition cOAND (k : nat) := 11 + 2 * k.    (* the `self + makeOptionalList(k)` inside it *)

(* ------------------------------------------------------------------------------------------- *)
(* constructors (followed by streamline)                                                        *)
(* ------------------------------------------------------------------------------------------- *)
(* And([]) : ParserElement.__init__ defaults, callPreparse = True; streamline sets errmsg = "Expected {}" *)
Definition and_nil (c : nat) : expr := Nary (mka ids c true true dw true true false true []) [] NAnd [].

(* And(es).  ParseExpression.streamline splices an unnamed action-free And only when there are EXACTLY two elements (first,
   then last); flags from the first element as And.__init__ computes them *)
Definition c_and (c : nat) (es : list expr) : expr :=
  match es with
  | [] => and_nil c
  | [x; y] => mk_and dw ids c (sk_of x) x [x; y] []
  | x :: _ => Nary (attrs_of (mk_and dw ids c (sk_of x) x [] [])) [] NAnd es
  end.
Definition c_add (c : nat) (a b : expr) : expr := c_and c [a; b].                (* a + b *)

(* MatchFirst(es), es non-empty: flags as MatchFirst.__init__ / streamline compute them (Infix.mk_mf); spliced only when there
   are exactly two alternatives *)
Definition c_mf (c : nat) (es : list expr) : expr :=
  match es with
  | [_; _] => mk_mf dw ids c false es
  | _ => Nary (mka ids c (existsb (fun e => aslist (attrs_of e)) es)
                       (forallb (fun e => skipws (attrs_of e) && negb (is_white_tok e)) es)
                       dw false true false true []) [] NMatchFirst es
  end.

Definition c_opt (c : nat) (e : expr) : expr := mk_enh ids c (EOpt None) (aslist (attrs_of e)) (sk_of e) e.   (* Opt(e) *)
Definition c_zom (c : nat) (e : expr) : expr := mk_rep_of ids c true e (sk_of e).                            (* ZeroOrMore(e) *)
Definition c_oom (c : nat) (e : expr) : expr := mk_rep_of ids c false e (sk_of e).                           (* OneOrMore(e) *)

(* NotAny(e): ParseElementEnhance.__init__ copies the child's flags; skipWhitespace = False; errmsg "Found unwanted token, .." *)
Definition c_not (c : nat) (e : expr) : expr :=
  let a := attrs_of e in
  Enh (mka ids c (aslist a) false (white a) (callpre a) (mayidx a) false true []) (ign_of e) ENot e.

(* rep.stopOn(stop) : self.not_ender = ~stop  (on a ZeroOrMore / OneOrMore; anything else has no stopOn: AttributeError) *)
Definition set_stop (r : expr) (ne : expr) : expr :=
  match r with Rep a i z b _ => Rep a i z b (Some ne) | other => other end.
Definition c_zom_stop (c cn : nat) (e stop : expr) : expr := set_stop (c_zom c e) (c_not cn stop).   (* ZeroOrMore(e, stop_on=stop) *)
Definition c_oom_stop (c cn : nat) (e stop : expr) : expr := set_stop (c_oom c e) (c_not cn stop).   (* OneOrMore(e, stop_on=stop) *)

(* SkipTo(b) [.set_name("...") when cu] ("_skipped*").
   SkipTo.__init__: flags of b through ParseElementEnhance.__init__, then mayIndexError = False, saveAsList = False, errmsg
   "No match found for .."; the results name is set on a copy(): resultsName "_skipped", modalResults False, whiteChars reset
   to the defaults when b.copyDefaultWhiteChars (`cdw`; the flag is not part of `attrs`, the check reads it off b). *)
Definition skipped_name : str := [95; 115; 107; 105; 112; 112; 101; 100]%N.
Definition c_skipto (c : nat) (cu cdw : bool) (b : expr) : expr :=
  let ab := attrs_of b in
  Skip {| nid := fst (ids c); rsname := Some skipped_name; modalr := false; aslist := false; skipws := skipws ab;
          white := if cdw then dw else white ab; callpre := callpre ab; mayidx := false; custom := cu; hasmsg := true;
          acts := []; calltry := false; slen := snd (ids c) |}
       (ign_of b) b false (ign_of b) None.

(* ------------------------------------------------------------------------------------------- *)
(* ParserElement.__mul__                                                                        *)
(* ------------------------------------------------------------------------------------------- *)
(* other an int: minElements = n, optElements = 0:
     if minElements == optElements == 0: return And([]) ; if minElements == 1: ret = self ; else ret = And([self] * minElements) *)
Definition sg_mul (n : nat) (e : expr) : expr :=
  match n with
  | 0 => and_nil cMUL
  | 1 => e
  | _ => c_and cMUL (repeat e n)
  end.

(* makeOptionalList(k + 1) :  Opt(self + makeOptionalList(k)) if k + 1 > 1 else Opt(self) *)
Fixpoint sg_optlist (k : nat) (e : expr) : expr :=
  match k with
  | 0 => c_opt (cOPT 0) e
  | S k' => c_opt (cOPT k) (c_add (cOAND k) e (sg_optlist k' e))
  end.

(* minElements = m, optElements = k *)
Definition sg_minopt (m k : nat) (e : expr) : expr :=
  match k with
  | 0 => sg_mul m e
  | S k' =>
    match m with
    | 0 => sg_optlist k' e
    | 1 => c_add cSUM e (sg_optlist k' e)
    | _ => c_add cSUM (c_and cMUL (repeat e m)) (sg_optlist k' e)
    end
  end.

(* other a tuple (lo, hi), hi = None for `...` / None.  (hi < lo raises ValueError in the real code: not modelled) *)
Definition sg_times (lo : nat) (hi : option nat) (e : expr) : expr :=
  match hi with
  | None =>
    match lo with
    | 0 => c_zom cREP e
    | 1 => c_oom cREP e
    | _ => c_add cSUM (sg_mul lo e) (c_zom cREP e)            (* self * other[0] + ZeroOrMore(self) *)
    end
  | Some h => sg_minopt lo (h - lo) e
  end.

(* ------------------------------------------------------------------------------------------- *)
(* ParserElement.__getitem__                                                                    *)
(* ------------------------------------------------------------------------------------------- *)
Inductive skey :=
| KN (n : nat)          (* expr[n]      : key = (n, n) *)
| KR (m n : nat)        (* expr[m, n] *)
| KFrom (m : nat)       (* expr[m, ...] *)
| KEll                  (* expr[...]    : key = (..., ...) -> (0, None) *)
| KUpto (n : nat).      (* expr[..., n] : (0, n) *)

Definition key_tuple (k : skey) : nat * option nat :=
  match k with
  | KN n => (n, Some n)
  | KR m n => (m, Some n)
  | KFrom m => (m, None)
  | KEll => (0, None)
  | KUpto n => (0, Some n)
  end.

(* ret = self * tuple(key[:2]) ; if stop_on_defined: ret.stopOn(stop_on) *)
Definition sg_item (k : skey) (stop : option expr) (e : expr) : expr :=
  let r := sg_times (fst (key_tuple k)) (snd (key_tuple k)) e in
  match stop with
  | None => r
  | Some st => set_stop r (c_not cNOT st)
  end.

(* ------------------------------------------------------------------------------------------- *)
(* ParserElement.__or__ , _PendingSkip.__add__                                                  *)
(* ------------------------------------------------------------------------------------------- *)
(* other = None stands for the str '' :  `if other == "": return Opt(self)` ; otherwise MatchFirst([self, other]) *)
Definition sg_or (other : option expr) (e : expr) : expr :=
  match other with
  | None => c_opt (cOPT 0) e
  | Some o => c_mf cOUT [e; o]
  end.

(* a + ... + b  =  _PendingSkip(a).__add__(b) :
     skipper = SkipTo(other).set_name("...")("_skipped*") ; return self.anchor + skipper + other *)
Definition sg_skip (cdw : bool) (a b : expr) : expr :=
  c_add cSEQ2 (c_add cSEQ1 a (c_skipto cSKIP true cdw b)) b.

(* ------------------------------------------------------------------------------------------- *)
(* the documented spellings                                                                     *)
(* ------------------------------------------------------------------------------------------- *)
Definition sg_star (e : expr) : expr := sg_item KEll None e.                       (* expr[...] *)
Definition sg_star0 (e : expr) : expr := sg_item (KFrom 0) None e.                 (* expr[0, ...] *)
Definition sg_plus (e : expr) : expr := sg_item (KFrom 1) None e.                  (* expr[1, ...] *)
Definition sg_atleast (n : nat) (e : expr) : expr := sg_item (KFrom n) None e.     (* expr[n, ...] *)
Definition sg_range (m n : nat) (e : expr) : expr := sg_item (KR m n) None e.      (* expr[m, n]   (m <= n) *)
Definition sg_until (e stop : expr) : expr := sg_item KEll (Some stop) e.          (* expr[...:stop] *)
Definition sg_or_empty (e : expr) : expr := sg_or None e.                          (* expr | '' *)
Definition sg_and_left (a b c : expr) : expr := c_add cOUT (c_add cIN a b) c.      (* (a + b) + c *)
Definition sg_and_right (a b c : expr) : expr := c_add cOUT a (c_add cIN b c).     (* a + (b + c) *)
Definition sg_and_flat (es : list expr) : expr := c_and cOUT es.                   (* And([a, b, c]) *)
Definition sg_mf_left (a b c : expr) : expr := c_mf cOUT [c_mf cIN [a; b]; c].     (* (a | b) | c *)
Definition sg_mf_right (a b c : expr) : expr := c_mf cOUT [a; c_mf cIN [b; c]].    (* a | (b | c) *)
Definition sg_mf_flat (es : list expr) : expr := c_mf cOUT es.                     (* MatchFirst([a, b, c]) *)

(* the documented expansions, built with the constructors / the binary `+` *)
(* e + e + ... + e  (n >= 1 operands, left-nested as Python evaluates it; every `+` is streamlined) *)
Fixpoint x_chain (n : nat) (e : expr) : expr :=
  match n with
  | 0 => e
  | S n' => match n' with 0 => e | _ => c_add (20 + n) (x_chain n' e) e end
  end.
Definition x_atleast (n : nat) (e : expr) : expr := c_add cSUM (sg_mul n e) (c_zom cREP e).       (* expr*n + ZeroOrMore(expr) *)
Definition x_skip (cdw : bool) (a b : expr) : expr :=                                             (* a + SkipTo(b)("_skipped*") + b *)
  c_add cSEQ2 (c_add cSEQ1 a (c_skipto cSKIP false cdw b)) b.
(* "m copies plus up to k optional ones", literally: And([e]*m + [Opt(e)]*k) *)
Definition x_range_flat (m k : nat) (e : expr) : expr :=
  c_and cSUM (repeat e m ++ map (fun j => c_opt (cOPT j) e) (seq 0 k)).
End Sugar.

(* ------------------------------------------------------------------------------------------- *)
(* serialisation in the format of tools/harness/dump.py: Infix.sx_expr, with SkipTo printed in full *)
(* ------------------------------------------------------------------------------------------- *)
Fixpoint sgx_expr (e : expr) : sx :=
  let ign := fun l => SL (map sgx_expr l) in
  match e with
  | Tok a i t => SL [SY "T"; sx_attrs a; ign i; sx_tkind t]
  | Nary a i k es => SL [SY "N"; sx_attrs a; ign i;
                         SY (match k with NAnd => "and" | NMatchFirst => "mf" | NOr => "or" | NEach _ => "each" end);
                         SL (map sgx_expr es)]
  | Enh a i k c => SL [SY "E"; sx_attrs a; ign i; sx_ekind k; sgx_expr c]
  | Rep a i z b ne => SL [SY "R"; sx_attrs a; ign i; sx_b z; sgx_expr b; match ne with Some n => sgx_expr n | None => SY "N" end]
  | Skip a i t incl ig2 fo => SL [SY "K"; sx_attrs a; ign i; sgx_expr t; sx_b incl; ign ig2;
                                  match fo with Some f => sgx_expr f | None => SY "N" end]
  | Fwd a i id => SL [SY "F"; sx_attrs a; ign i; sx_onat id]
  end.
