(* M1: strings as lists of code points, with Python's indexing/slicing/searching conventions.
   Executable definitions only; proofs live in Proofs/. *)
From Coq Require Import List ZArith NArith Bool Lia.
Import ListNotations.
Local Open Scope Z_scope.

Definition char := N.
Definition str := list char.

Definition NL : char := 10%N.
Definition TAB : char := 9%N.
Definition CR : char := 13%N.
Definition SP : char := 32%N.

Definition zlen (s : str) : Z := Z.of_nat (length s).

(* Python slice-bound normalisation: negative counts from the end, then clamp to [0, len] *)
Definition norm_idx (i len : Z) : Z :=
  if i <? 0 then Z.max 0 (i + len) else Z.min i len.

(* s[i] ; None models IndexError *)
Definition py_idx (s : str) (i : Z) : option char :=
  let j := if i <? 0 then i + zlen s else i in
  if (j <? 0) || (zlen s <=? j) then None else nth_error s (Z.to_nat j).

Definition opt_char_eqb (o : option char) (c : char) : bool :=
  match o with Some d => N.eqb d c | None => false end.

(* s[lo:hi] *)
Definition py_slice (s : str) (lo hi : Z) : str :=
  let l := norm_idx lo (zlen s) in
  let h := norm_idx hi (zlen s) in
  firstn (Z.to_nat (h - l)) (skipn (Z.to_nat l) s).

(* s[lo:] *)
Definition py_slice_from (s : str) (lo : Z) : str :=
  skipn (Z.to_nat (norm_idx lo (zlen s))) s.

(* positions (as nat offsets from the head) *)
Fixpoint find_from (c : char) (s : str) (k : nat) : option nat :=
  match s with
  | [] => None
  | d :: t => if N.eqb d c then Some k else find_from c t (S k)
  end.

Fixpoint rfind_acc (c : char) (s : str) (k : nat) (acc : option nat) : option nat :=
  match s with
  | [] => acc
  | d :: t => rfind_acc c t (S k) (if N.eqb d c then Some k else acc)
  end.

Fixpoint count_char (c : char) (s : str) : nat :=
  match s with
  | [] => 0%nat
  | d :: t => ((if N.eqb d c then 1 else 0) + count_char c t)%nat
  end.

(* s.find(c, lo)   -> index or -1 *)
Definition py_find (s : str) (c : char) (lo : Z) : Z :=
  let l := norm_idx lo (zlen s) in
  match find_from c (skipn (Z.to_nat l) s) 0 with
  | Some k => l + Z.of_nat k
  | None => -1
  end.

(* s.rfind(c, lo, hi) -> index or -1 *)
Definition py_rfind (s : str) (c : char) (lo hi : Z) : Z :=
  let l := norm_idx lo (zlen s) in
  let h := norm_idx hi (zlen s) in
  match rfind_acc c (firstn (Z.to_nat (h - l)) (skipn (Z.to_nat l) s)) 0 None with
  | Some k => l + Z.of_nat k
  | None => -1
  end.

(* s.count(c, lo, hi) *)
Definition py_count (s : str) (c : char) (lo hi : Z) : Z :=
  Z.of_nat (count_char c (py_slice s lo hi)).

(* str.expandtabs() with tabsize 8: column resets at \n and \r *)
Fixpoint expandtabs_go (s : str) (col : nat) : str :=
  match s with
  | [] => []
  | c :: t =>
    if N.eqb c TAB then
      let n := (8 - Nat.modulo col 8)%nat in
      repeat SP n ++ expandtabs_go t (col + n)
    else if N.eqb c NL || N.eqb c CR then c :: expandtabs_go t 0
    else c :: expandtabs_go t (S col)
  end.
Definition expandtabs (s : str) : str := expandtabs_go s 0.

Fixpoint str_eqb (a b : str) : bool :=
  match a, b with
  | [], [] => true
  | x :: a', y :: b' => N.eqb x y && str_eqb a' b'
  | _, _ => false
  end.

Definition mem_char (c : char) (cs : list char) : bool := existsb (N.eqb c) cs.

(* split on '\n' : the independent specification of "the lines of s" (str.split("\n")) *)
Fixpoint lines (s : str) : list str :=
  match s with
  | [] => [[]]
  | c :: t =>
    if N.eqb c NL then [] :: lines t
    else match lines t with
         | l :: ls => (c :: l) :: ls
         | [] => [[c]]
         end
  end.
