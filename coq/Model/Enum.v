(* Enumerators used by the correspondence harness (evaluated with vm_compute). *)
From Coq Require Import List NArith.
From PP Require Import Model.Str.
Import ListNotations.

Fixpoint strings_exact (alpha : list char) (n : nat) : list str :=
  match n with
  | 0 => [[]]
  | S m => flat_map (fun c => map (cons c) (strings_exact alpha m)) alpha
  end.

Fixpoint strings_upto (alpha : list char) (n : nat) : list str :=
  match n with
  | 0 => [[]]
  | S m => strings_upto alpha m ++ strings_exact alpha (S m)
  end.
