(* C20, positive side: a decidable class of grammar graphs on which the railroad converter of Model/Diagram.v is proved
   (Proofs/DiagramPos.v) to terminate and to be referentially intact, and executable/Prop readings of the property.

   The class `dag_class G o root` (a bool, evaluated by tools/props/c20.py on every dumped graph) excludes exactly the
   graph shapes of the F-20 family (known_findings.txt):
     - cycles (F-20, F-20c, F-20e and the forward-only cycles): `dag_b` -- the graph is ranked by the table `ranks G` (Kahn passes);
     - a by-passed (unnamed, non-empty Forward/Located) root (F-20b): `negb (bypass G root)`;
     - two elements with the same customName (F-20d): `names_inj_b`;
     - a customName "..." (F-20f): last conjunct of `node_ok`;
     - elements that convert to nothing -- hidden, unnamed Empty, And/Or/Each without children (F-20g, F-20h, F-20i):
       first two conjuncts of `node_ok`;
     - (model only) a one-slot container (`item=` keyword: Opt, Group, ZeroOrMore, ..., `expr*N`) whose children are not
       all the same object: the slot would be overwritten and the tokens of the earlier children lost.
   stop_on temporaries (F-20j) are not modelled at all (no graph is dumped for them).
   Executable definitions only. *)
From Coq Require Import List NArith Arith Bool.
From PP Require Import Model.Str Model.Diagram Model.DiagramEx.
Import ListNotations.
Local Open Scope nat_scope.

(* ------------------------------------------------------------------------------------------------ ranks *)
Definition lookup0 (x : id) (t : list (id * nat)) : nat := match assoc x t with Some n => n | None => 0 end.
(* one pass of Kahn's algorithm: every element that has no rank yet and whose children all have one gets
   1 + the largest rank of its children; stops as soon as a pass ranks nothing (elements on or above a cycle are never
   ranked and keep the default 0, so `dag_b` fails on them) *)
Definition kahn_pass (G : graph) (t : list (id * nat)) : list (id * nat) :=
  flat_map (fun xn =>
    match assoc (fst xn) t with
    | Some _ => []
    | None => if forallb (fun y => match assoc y t with Some _ => true | None => false end) (n_kids (snd xn))
              then [(fst xn, fold_right (fun y m => Nat.max (S (lookup0 y t)) m) 0 (n_kids (snd xn)))] else []
    end) G.
Fixpoint iter_rank (k : nat) (G : graph) (t : list (id * nat)) : list (id * nat) :=
  match k with
  | 0 => t
  | S k' => match kahn_pass G t with [] => t | new => iter_rank k' G (new ++ t) end
  end.
Definition ranks (G : graph) : list (id * nat) := iter_rank (length G) G [].
Definition rkf (G : graph) (x : id) : nat := lookup0 x (ranks G).

(* the graph is acyclic: the table ranks every edge strictly downwards, and no rank exceeds |G| *)
Definition dag_b (G : graph) : bool :=
  let t := ranks G in      (* computed once *)
  forallb (fun p => snd p <=? length G) t &&
  forallb (fun xn => forallb (fun y => lookup0 y t <? lookup0 (fst xn) t) (n_kids (snd xn))) G.

(* ------------------------------------------------------------------------------------------------ node conditions *)
Definition named_b (G : graph) (x : id) : bool := truthy (n_custom (gnode G x)).
Definition cname (G : graph) (x : id) : str := oname (n_custom (gnode G x)).
(* the EditablePartial of x has an `item=` keyword (a single slot) *)
Definition single_slot (G : graph) (o : opts) (x : id) : bool :=
  match choose G o x [] with
  | Some pn => match p_slot pn with SItem _ => true | _ => false end
  | None => false
  end.
Definition all_same (l : list id) : bool := match l with [] => false | a :: t => forallb (Nat.eqb a) t end.

Definition node_ok (G : graph) (o : opts) (x : id) : bool :=
  (n_show (gnode G x) || o_hidden o) &&
  (match choose G o x [] with Some _ => true | None => false end) &&
  (if single_slot G o x then all_same (kids G x) else true) &&
  (if bypass G x then length (kids G x) =? 1 else true) &&
  negb (str_eqb (cname G x) ELLIPSIS).

Definition named_list (G : graph) : list (id * str) :=
  flat_map (fun xn => if truthy (n_custom (snd xn)) then [(fst xn, oname (n_custom (snd xn)))] else []) G.
Definition names_inj_b (G : graph) : bool :=
  let L := named_list G in
  forallb (fun p => forallb (fun q => negb (str_eqb (snd p) (snd q)) || (fst p =? fst q)) L) L.

Definition dag_class (G : graph) (o : opts) (root : id) : bool :=
  dag_b G && forallb (fun xn => node_ok G o (fst xn)) G && names_inj_b G && negb (bypass G root).

(* ------------------------------------------------------------------------------------------------ readings *)
(* a token of the grammar, as the oracle of tools/props/c20.py counts them, and the label it is displayed with *)
Definition is_token (G : graph) (x : id) : bool :=
  match kids G x with
  | [] => match n_kind (gnode G x) with KOther | KRegex | KEmpty => true | _ => false end
  | _ => false
  end.
Definition token_label (G : graph) (x : id) : str :=
  match n_kind (gnode G x) with KRegex => n_pat (gnode G x) | _ => n_dname (gnode G x) end.

(* reachability along recurse() *)
Inductive reach (G : graph) : id -> id -> Prop :=
| reach_refl : forall x, reach G x x
| reach_step : forall x y z, In y (kids G x) -> reach G y z -> reach G x z.

(* ------------------------------------------------------------------------------------------------ a graph of the class *)
(* dag-shared-named (tools/props/c20.py enumerated_shapes; dumped from the real objects like the graphs of DiagramEx.v):
   item = (Opt('a') + word).set_name("item"), word = Word("abc").set_name("word"),
   root = (item | Group(item)[...]) + item + word
   0=And; 1=MatchFirst; 2=And:item; 3=Opt; 4=_SingleCharLiteral; 5=Word:word; 6=ZeroOrMore; 7=Group *)
Definition G_dag : graph :=
 [(0, Build_node KAnd None None true true true [65;110;100]%N [123;123;105;116;101;109;32;124;32;91;71;114;111;117;112;58;40;105;116;101;109;41;93;46;46;46;125;32;105;116;101;109;32;119;111;114;100;125]%N []%N [1;2;5]);
 (1, Build_node KOr None None true true true [77;97;116;99;104;70;105;114;115;116]%N [123;105;116;101;109;32;124;32;91;71;114;111;117;112;58;40;105;116;101;109;41;93;46;46;46;125]%N []%N [2;6]);
 (2, Build_node KAnd (Some [105;116;101;109]%N) None true true true [65;110;100]%N [123;91;39;97;39;93;32;119;111;114;100;125]%N []%N [3;5]);
 (3, Build_node KOpt None None true true false [79;112;116]%N [91;39;97;39;93]%N []%N [4]);
 (4, Build_node KOther None None true true true [95;83;105;110;103;108;101;67;104;97;114;76;105;116;101;114;97;108]%N [39;97;39]%N []%N []);
 (5, Build_node KOther (Some [119;111;114;100]%N) None true true true [87;111;114;100]%N [87;58;40;97;45;99;41]%N []%N []);
 (6, Build_node KZeroOrMore None None true true false [90;101;114;111;79;114;77;111;114;101]%N [91;71;114;111;117;112;58;40;105;116;101;109;41;93;46;46;46]%N []%N [7]);
 (7, Build_node KGroup None None true true false [71;114;111;117;112]%N [71;114;111;117;112;58;40;105;116;101;109;41]%N []%N [2])].
