(* C08: the object that `expr + StringEnd()` builds (pyparsing/core.py: ParserElement.__add__ -> And([self, other]),
   And.__init__, then ParseExpression.streamline at the first parse_string), as an attributed `expr` in the style of the
   dumped grammars.  Executable definitions only. *)
From Coq Require Import List ZArith NArith Bool Arith.
From PP Require Import Model.Str Model.Results Model.Prog Model.Core Model.Entry.
Import ListNotations.

(* StringEnd(): a position token with the default whitespace set of the moment it is created, named "end of text" *)
Definition se_tok (idE : nat) (dw : list char) : expr :=
  Tok {| nid := idE; rsname := None; modalr := true; aslist := false; skipws := true; white := dw;
         callpre := true; mayidx := false; custom := true; hasmsg := true; acts := []; calltry := false; slen := 11 |}
      [] KStringEnd.

Definition is_white (e : expr) : bool := match e with Tok _ _ (KWhite _ _ _) => true | _ => false end.

(* And.__init__: whitespace set and skip flag are those of exprs[0] (no skipping at all when exprs[0] is a White);
   callPreparse = True; saveAsList = True; mayIndexError keeps the ParserElement default; no ignore expressions *)
Definition and_attrs (idA sl : nat) (dw : list char) (first : expr) : attrs :=
  {| nid := idA; rsname := None; modalr := true; aslist := true;
     skipws := if is_white first then false else skipws (attrs_of first);
     white := if is_white first then dw else white (attrs_of first);
     callpre := true; mayidx := true; custom := false; hasmsg := true; acts := []; calltry := false; slen := sl |}.

(* ParseExpression.streamline: `And([And([a, b]), c])` becomes `And([a, b, c])` when the inner And carries neither a
   parse action nor a results name (its ignore expressions, if any, are dropped with it) *)
Definition flattenable (root : expr) : bool :=
  match root with
  | Nary a _ NAnd _ => match rsname a, acts a with None, [] => true | _, _ => false end
  | _ => false
  end.

(* `root + StringEnd()` after streamline; idA / idE are the identities of the two new objects, sl = len(str(And)) *)
Definition and_se (idA idE sl : nat) (dw : list char) (root : expr) : expr :=
  let a := and_attrs idA sl dw root in
  match root with
  | Nary _ _ NAnd es => if flattenable root then Nary a [] NAnd (es ++ [se_tok idE dw])
                        else Nary a [] NAnd [root; se_tok idE dw]
  | _ => Nary a [] NAnd [root; se_tok idE dw]
  end.

(* what And.parseImpl + _parseNoCache make of the result r of its only token-bearing element: `resultlist += exprtokens`
   into r itself, wrapped as ParseResults(r, None, asList=True, modal=True) - r with the modal flag set *)
Definition and_wrap (r : pres) : pres := PR (toks r) (dict r) (allnames r) (rname r) true.

(* where the And starts its first element: after skipping the whitespace it inherited *)
Definition and_start (dw : list char) (root : expr) (s : str) : nat :=
  if is_white root then 0
  else if skipws (attrs_of root) then skip_white s 0 (white (attrs_of root)) else 0.

(* ---- the general form: the And reads exprs[0].skipWhitespace / whiteChars when `+` is evaluated.  For a MatchFirst / Or that
   has not been streamlined yet these can differ from the values streamline() computes later (it recomputes skipWhitespace from
   the alternatives), so the general construction takes the inherited pair (isk, iwh) as it was at that moment; `and_se` is the
   case where root already had its final attributes (it was streamlined, e.g. by an earlier parse_string). ---- *)
Definition and_attrs_gen (idA sl : nat) (isk : bool) (iwh : list char) : attrs :=
  {| nid := idA; rsname := None; modalr := true; aslist := true; skipws := isk; white := iwh;
     callpre := true; mayidx := true; custom := false; hasmsg := true; acts := []; calltry := false; slen := sl |}.
Definition and_se_gen (idA idE sl : nat) (dw : list char) (isk : bool) (iwh : list char) (root : expr) : expr :=
  let a := and_attrs_gen idA sl isk iwh in
  match root with
  | Nary _ _ NAnd es => if flattenable root then Nary a [] NAnd (es ++ [se_tok idE dw])
                        else Nary a [] NAnd [root; se_tok idE dw]
  | _ => Nary a [] NAnd [root; se_tok idE dw]
  end.
Definition and_start_gen (isk : bool) (iwh : list char) (s : str) : nat := if isk then skip_white s 0 iwh else 0.
Definition isk_of (root : expr) : bool := if is_white root then false else skipws (attrs_of root).
Definition iwh_of (dw : list char) (root : expr) : list char := if is_white root then dw else white (attrs_of root).

(* ---- concrete grammars, written as tools/harness/dump.py dumps the real (streamlined) objects ---- *)
(* attrs of an unnamed, action-free element: (A nid N 1 aslist skipws white callpre mayidx custom hasmsg () 0 slen) *)
Definition A_ (n : nat) (asl sk : bool) (wh : list char) (cp mi cu hm : bool) (sl : nat) : attrs :=
  {| nid := n; rsname := None; modalr := true; aslist := asl; skipws := sk; white := wh; callpre := cp; mayidx := mi;
     custom := cu; hasmsg := hm; acts := []; calltry := false; slen := sl |}.
Definition DWS : list char := [9; 10; 13; 32]%N.                       (* sorted(ParserElement.DEFAULT_WHITE_CHARS) *)
(* whiteChars of White(' '): every whitespace character White knows except the blank *)
Definition WS_NOT_BLANK : list char :=
  [9; 10; 12; 13; 160; 5760; 6158; 8192; 8193; 8194; 8195; 8196; 8197; 8198; 8199; 8200; 8201; 8202; 8203; 8239; 8287; 12288]%N.

Definition ex_word (n : nat) : expr := Tok (A_ n false true DWS true false false true 6) [] (KWord [97; 98]%N [97; 98]%N 1 None false false true).
Definition ex_lit (n : nat) (c : char) : expr := Tok (A_ n false true DWS true false false true 3) [] (KLit [c]).
(* Word("ab") + "," *)
Definition ex_and : expr := Nary (A_ 1 true true DWS true true false true 12) [] NAnd [ex_word 2; ex_lit 3 44%N].

(* F-08a: ZeroOrMore(Word("ab")).ignore("#" + Word("ab")) on "a #b " *)
Definition f08a_ignore : expr :=
  Enh (A_ 2 false true DWS true true false false 23) [] ESuppress
      (Nary (A_ 3 true true DWS true true false false 12) [] NAnd [ex_lit 4 35%N; ex_word 5]).
Definition f08a_root : expr :=
  Rep (A_ 1 true true DWS true false false false 11) [f08a_ignore] true
      (Tok (A_ 6 false true DWS true false false true 6) [f08a_ignore] (KWord [97; 98]%N [97; 98]%N 1 None false false true)) None.
Definition f08a_input : str := [97; 32; 35; 98; 32]%N.                 (* "a #b " *)

(* F-08d: Or([Group(White(" ")) + "a" + "b", MatchFirst(["a", "c"])]) on " ab" *)
Definition f08d_root : expr :=
  Nary (A_ 1 true true DWS false true false true 38) [] NOr
    [Nary (A_ 2 true true WS_NOT_BLANK true true false true 22) [] NAnd
       [Enh (A_ 3 true true WS_NOT_BLANK true true false false 12) [] (EGroup false)
            (Tok (A_ 4 false true WS_NOT_BLANK true true false true 4) [] (KWhite [32]%N 1 None));
        ex_lit 5 97%N; ex_lit 6 98%N];
     Nary (A_ 7 false true DWS false true false true 11) [] NMatchFirst [ex_lit 5 97%N; ex_lit 8 99%N]].
Definition f08d_input : str := [32; 97; 98]%N.                         (* " ab" *)

(* two more members of the same family: a root that IS a White (the And then skips nothing, parse_string's own call skips
   the other whitespace characters), and a root with its own whitespace set (parse_all skips it before the end check) *)
Definition ex_white_root : expr := Tok (A_ 1 false true WS_NOT_BLANK true true false true 4) [] (KWhite [32]%N 1 None).   (* White(" ") *)
Definition ex_white_input : str := [10; 32]%N.                         (* "\n " *)
Definition ex_word_ws : expr :=                                        (* Word("ab").set_whitespace_chars(" ,") *)
  Tok (A_ 1 false true [32; 44]%N true false false true 6) [] (KWord [97; 98]%N [97; 98]%N 1 None false false true).
Definition ex_word_ws_input : str := [97; 98; 44]%N.                   (* "ab," *)
