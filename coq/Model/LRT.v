(* The bounded-recursion handler of Model/LR.v, instrumented: `parse_lr_t` computes exactly the outcome and the memo of
   `LR.parse_lr` (erasure lemma in Proofs/LRProofs.v) plus a record of flags, each of which observes one mechanism by
   which `Forward.parseImpl` (left-recursion mode) can answer differently from the plain `Forward.parseImpl`:

   seed_read      a memo lookup returned an entry that is still the seed `(loc - 1, ParseException("Forward recursion
                  without base case"))` installed by the same Forward at the same location: either genuine left recursion on
                  this input, or a STALE seed (F-03b: the `raise` taken when the body fails before any match leaves the seed
                  in the memo);
   seed_returned  the growth loop handed back the seed itself (first iteration, do_actions=False, body matched but ended
                  before `loc`; impossible for location-monotone bodies, observed rather than proved impossible);
   peek_tainted   F-03c: the action pass raised ParseException and `memo[peek_key] = memo[act_key] = (new_loc, e)` stored a
                  failure under the do_actions=False key although the do_actions=False pass succeeded;
   peek_replaced  F-03d: the normal do_actions=True exit `memo[peek_key] = memo[act_key]` wrote a value that differs from
                  the do_actions=False result (coarse: set when written, whether or not it is read later);
   peek_error     F-03e: with do_actions=True the first do_actions=False pass failed and its failure is re-raised, but
                  the body evaluated with do_actions=True (evaluated here on the side, its memo discarded) fails differently
                  (or could not be evaluated cleanly);
   key_error      the `memo[act_key]` lookup of the do_actions=True exit raised KeyError (believed unreachable).

   Executable definitions only (the two equality deciders are built by `decide equality`, as in Proofs/EqDec.v). *)
From Coq Require Import List ZArith NArith Bool Arith.
From PP Require Import Model.Str Model.Results Model.Prog Model.Core Model.Entry Model.LR Proofs.EqDec.
Import ListNotations.

Record flags := { seed_read : bool; seed_returned : bool; peek_tainted : bool; peek_replaced : bool; peek_error : bool;
                  key_error : bool }.
Definition fl0 : flags := Build_flags false false false false false false.
Definition fl_or (f g : flags) : flags :=
  Build_flags (seed_read f || seed_read g) (seed_returned f || seed_returned g) (peek_tainted f || peek_tainted g)
              (peek_replaced f || peek_replaced g) (peek_error f || peek_error g) (key_error f || key_error g).
Definition fl_clean (f : flags) : bool :=
  negb (seed_read f || seed_returned f || peek_tainted f || peek_replaced f || peek_error f || key_error f).

Definition res_t := option (outcome * memo * flags).
Definition with_fl (f : flags) (r : res_t) : res_t :=
  match r with None => None | Some (o, m, g) => Some (o, m, fl_or f g) end.

(* is the entry stored under key k still the seed that lr_forward installs there? *)
Definition is_seed (k : mkey) (v : mval) : bool :=
  match k, v with
  | (loc, fid, _), (pl, MExc x) =>
    (pl =? Z.of_nat loc - 1)%Z && is_pe (xk x) && (xloc x =? Z.of_nat loc)%Z &&
    match xmsg x with MFwdNoBase => true | _ => false end &&
    match xel x with Some i => Nat.eqb i fid | None => false end
  | _, _ => false
  end.

Definition pres_eq_dec : forall a b : pres, {a = b} + {a <> b} := presrec_eq_dec tok_eq_dec.
Definition msg_eq_dec : forall a b : msg, {a = b} + {a <> b}.
Proof. decide equality; try apply Nat.eq_dec. apply (list_eq_dec Nat.eq_dec). Defined.
Definition exn_eq_dec : forall a b : exn, {a = b} + {a <> b}.
Proof.
  intros [k1 l1 m1 e1] [k2 l2 m2 e2].
  destruct (xkind_eq_dec k1 k2); [|right; congruence].
  destruct (Z.eq_dec l1 l2); [|right; congruence].
  destruct (msg_eq_dec m1 m2); [|right; congruence].
  destruct (option_eq_dec Nat.eq_dec e1 e2); [|right; congruence].
  left; congruence.
Defined.

(* the value written by `memo[peek_key] = memo[act_key]` is the do_actions=False result *)
Definition mval_same (v w : mval) : bool :=
  match v, w with
  | (l1, MOk r1), (l2, MOk r2) => (l1 =? l2)%Z && (if pres_eq_dec r1 r2 then true else false)
  | _, _ => false
  end.

(* two failures are the same failure *)
Definition same_fail (o1 o2 : outcome) : bool :=
  match o1, o2 with
  | Err x, Err y => if exn_eq_dec x y then true else false
  | Div, Div => true
  | _, _ => false
  end.

(* the well-formedness hypothesis of C03: the memo is keyed by the identity of the Forward OBJECT (`nid`), the model finds
   the body through the index into the environment; `tbl` maps the one to the other, and every Forward node reachable
   from the expression (contained expressions, ignorables, stop_on / fail_on) must agree with it *)
Fixpoint fw (tbl : nat -> option nat) (e : expr) : bool :=
  let fwl := fix fwl (l : list expr) : bool := match l with [] => true | x :: r => fw tbl x && fwl r end in
  let fwo := fun o : option expr => match o with Some x => fw tbl x | None => true end in
  match e with
  | Tok a ign _ => fwl ign
  | Nary a ign k es => fwl ign && fwl es
  | Enh a ign k c => fwl ign && fw tbl c
  | Rep a ign _ b ne => fwl ign && fw tbl b && fwo ne
  | Skip a ign t _ ig fo => fwl ign && fw tbl t && fwl ig && fwo fo
  | Fwd a ign body =>
    fwl ign && match body with
               | Some id => match tbl (nid a) with Some id' => Nat.eqb id id' | None => false end
               | None => true
               end
  end.

Fixpoint tbl_get (l : list (nat * nat)) (fid : nat) : option nat :=
  match l with [] => None | (k, v) :: r => if Nat.eqb k fid then Some v else tbl_get r fid end.

(* decidable: `tbl` lists (id(Forward object), index of its body in G) *)
Definition ids_consistent (tbl : list (nat * nat)) (G : env) (root : expr) : bool :=
  fw (tbl_get tbl) root && forallb (fw (tbl_get tbl)) G.

Section LRT.
Variable G : env.

Fixpoint runm_t (rec : memo -> args -> res_t) (m : memo) (p : prg) : res_t :=
  match p with
  | Ret o => Some (o, m, fl0)
  | Call a k => match rec m a with None => None | Some (o, m', f) => with_fl f (runm_t rec m' (k o)) end
  end.

Definition super_impl_t (rec : memo -> args -> res_t) (a : attrs) (body : expr) (s : str) (loc : nat) (d : bool)
           (m : memo) : res_t :=
  match rec m (mkargs body s loc d false) with
  | Some (Err x, m', f) => Some (Err (enh_rewrite a true loc x), m', f)
  | other => other
  end.

(* F-03e observation: what the do_actions=True pass would have answered from memo m (its memo is discarded) *)
Definition peek_error_flag (rec : memo -> args -> res_t) (a : attrs) (body : expr) (s : str) (loc : nat)
           (m : memo) (o1 : outcome) : flags :=
  let bad := match super_impl_t rec a body s loc true m with
             | Some (og, _, fg) => negb (fl_clean fg && same_fail o1 og)
             | None => true
             end in
  Build_flags false false false false bad false.

Fixpoint lr_loop_t (rec : memo -> args -> res_t) (fuel : nat) (a : attrs) (body : expr) (s : str) (loc : nat) (d : bool)
         (prev_loc : Z) (prev_peek : mres) (m : memo) : res_t :=
  let fid := nid a in
  let act_key := (loc, fid, true) in
  let peek_key := (loc, fid, false) in
  match fuel with
  | 0 => Some (Div, m, fl0)
  | S f =>
    match super_impl_t rec a body s loc false m with
    | None => None
    | Some (o, m1, f1) =>
      let cont (new_loc : Z) (new_peek : mres) (m1 : memo) : res_t :=
        if (new_loc <=? prev_loc)%Z then
          if d then
            match memo_get m1 act_key with
            | None => Some (Err (mkx XKey 0%Z MEmpty None), m1, Build_flags false false false false false true)
            | Some ((pl, pr), m2) =>
              let m3 := memo_set m2 peek_key (pl, pr) in
              let m4 := memo_del (memo_del m3 peek_key) act_key in
              let sd := is_seed act_key (pl, pr) in
              let fl := Build_flags sd false false (negb sd && negb (mval_same (pl, pr) (prev_loc, prev_peek))) false false in
              match pr with
              | MOk r => Some (Ok (Z.to_nat pl) r, m4, fl)
              | MExc x => Some (Err x, m4, fl)
              end
            end
          else
            let m2 := memo_del m1 peek_key in
            let fl := Build_flags false (is_seed peek_key (prev_loc, prev_peek)) false false false false in
            match prev_peek with
            | MOk r => Some (Ok (Z.to_nat prev_loc) r, m2, fl)
            | MExc x => Some (Err x, m2, fl)
            end
        else
          if d then
            match super_impl_t rec a body s loc true m1 with
            | None => None
            | Some (Ok l r, m2, f2) =>
              let m3 := memo_set m2 act_key (Z.of_nat l, MOk r) in
              with_fl f2 (lr_loop_t rec f a body s loc d new_loc new_peek (memo_set m3 peek_key (new_loc, new_peek)))
            | Some (Err x, m2, f2) =>
              if is_pe (xk x) then
                let m3 := memo_set m2 act_key (new_loc, MExc x) in
                Some (Err x, memo_set m3 peek_key (new_loc, MExc x), fl_or f2 (Build_flags false false true false false false))
              else Some (Err x, m2, f2)
            | Some (Div, m2, f2) => Some (Div, m2, f2)
            end
          else lr_loop_t rec f a body s loc d new_loc new_peek (memo_set m1 peek_key (new_loc, new_peek)) in
      (* a failure of the do_actions=False pass that is handed to a do_actions=True caller *)
      let pe_fl (m1 : memo) : flags := if d then peek_error_flag rec a body s loc m1 o else fl0 in
      with_fl f1
        match o with
        | Ok l r => cont (Z.of_nat l) (MOk r) m1
        | Err x =>
          if is_pe (xk x) then
            match prev_peek with
            | MExc _ => Some (Err x, m1, pe_fl m1)
            | MOk _ => cont prev_loc prev_peek m1
            end
          else Some (Err x, m1, pe_fl m1)
        | Div => Some (Div, m1, pe_fl m1)
        end
    end
  end.

Definition lr_forward_t (rec : memo -> args -> res_t) (a : attrs) (body : expr) (s : str) (loc : nat) (d : bool)
           (m : memo) : res_t :=
  let fid := nid a in
  match memo_get m (loc, fid, d) with
  | Some ((pl, MOk r), m1) => Some (Ok (Z.to_nat pl) r, m1, fl0)
  | Some ((pl, MExc x), m1) =>
    Some (Err x, m1, Build_flags (is_seed (loc, fid, d) (pl, MExc x)) false false false false false)
  | None =>
    let seed := MExc (mkx XParse (Z.of_nat loc) MFwdNoBase (Some fid)) in
    let pl := (Z.of_nat loc - 1)%Z in
    let m1 := memo_set m (loc, fid, false) (pl, seed) in
    let m2 := if d then memo_set m1 (loc, fid, true) (pl, seed) else m1 in
    lr_loop_t rec (length s + 3) a body s loc d pl seed m2
  end.

Fixpoint parse_lr_t (fuel : nat) (m : memo) (ar : args) : res_t :=
  match fuel with
  | 0 => None
  | S f =>
    match a_e ar with
    | Fwd a ign (Some id) =>
      match nth_error G id with
      | None => runm_t (parse_lr_t f) m (step G ar)
      | Some body =>
        let e := a_e ar in let s := a_s ar in let d := a_do ar in
        let pre := if a_pre ar && callpre a
                   then pre_parse escape e s (a_loc ar) (fun l => Ret (Ok l pr_empty))
                   else Ret (Ok (a_loc ar) pr_empty) in
        match runm_t (parse_lr_t f) m pre with
        | None => None
        | Some (Ok pre_loc _, m1, f1) =>
          with_fl f1
            match lr_forward_t (parse_lr_t f) a body s pre_loc d m1 with
            | None => None
            | Some (Ok l r, m2, f2) => with_fl f2 (runm_t (parse_lr_t f) m2 (step_k e s d pre_loc (inr (l, RPR r))))
            | Some (Err x, m2, f2) =>
              with_fl f2 (runm_t (parse_lr_t f) m2 (step_k e s d pre_loc (inl (if is_index (xk x) then IIndexError else IExc x))))
            | Some (Div, m2, f2) => Some (Div, m2, f2)
            end
        | Some (o, m1, f1) => Some (o, m1, f1)
        end
      end
    | _ => runm_t (parse_lr_t f) m (step G ar)
    end
  end.

(* entry points: like LR.drunm, OR-ing the flags over the top-level calls *)
Fixpoint drunm_t {R} (rec : memo -> args -> res_t) (m : memo) (p : dprog R) : option (R * memo * flags) :=
  match p with
  | DRet r => Some (r, m, fl0)
  | DCall a k =>
    match rec m a with
    | None => None
    | Some (o, m', f) =>
      match drunm_t rec m' (k o) with None => None | Some (r, m'', g) => Some (r, m'', fl_or f g) end
    end
  end.
End LRT.
