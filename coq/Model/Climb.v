(* C16: the token-level SPECIFICATION of "honours precedence, associativity and arity": precedence climbing over an
   already tokenized input.  Nothing here knows about characters, whitespace or PEGs; the scannerless issue (F-16) is
   factored out into `render` (tokens joined by single spaces) and the decidable condition `no_overlapb`.

   `climb table ts` : the table lists the levels from the TIGHTEST to the LOOSEST (as op_list of infix_notation); the
   precedence parameter of the algorithm is the list of levels that may still be used, loosest first: an operand of a
   left-associative operator is parsed one level tighter (`prec + 1`), an operand on the right of a right-associative
   operator at the same level (`prec`).  Trees are in pyparsing's convention (as_list view): an operand is its string, a
   level at which no operator applies yields what the tighter level yields (no group), a left-associative chain at one
   level is ONE flat group [a, +, b, +, c], a right-associative chain nests [a, **, [b, **, c]], a postfix chain is
   [a, !, !], a prefix operator [-, [-, a]], ternary left [a, ?, b, :, c, ?, d, :, e], ternary right [a, ?, b, :, [c, ?, d, :, e]],
   juxtaposition left [a, b, c], right [a, [b, c]].  This is the convention of `oracle_parse` in tools/props/c16.py.

   The algorithm never commits: when the right operand of an operator is missing, the operator is not consumed and the
   result so far is returned with the remaining tokens (so that `climb` describes every PREFIX reading, not only whole
   inputs); `climb_all` demands that every token is used, there the difference with a committed parser disappears.
   Executable definitions only. *)
From Coq Require Import List NArith Bool Arith.
From PP Require Import Model.Str Model.Results Model.Prog Model.Core Model.Infix.
Import ListNotations.

Inductive token := TOperand (x : str) | TOp (o : str).
Definition spell (t : token) : str := match t with TOperand x => x | TOp o => o end.

(* the input string of a token list: single spaces between the tokens *)
Fixpoint render (ts : list token) : str :=
  match ts with
  | [] => []
  | t :: r => match r with [] => spell t | _ :: _ => spell t ++ SP :: render r end
  end.

(* one level of the operator table; every operator position is a finite set of spellings (one_of / MatchFirst) *)
Inductive clevel :=
| CPostfix (ops : list str)
| CPrefix (ops : list str)
| CBinL (ops : list str)
| CBinR (ops : list str)
| CJuxL
| CJuxR
| CTernL (o1 o2 : list str)
| CTernR (o1 o2 : list str).
Definition ctable := list clevel.          (* tightest level first *)

Inductive cres := COut | CFail | COk (t : tok) (rest : list token).   (* COut: not enough fuel *)

Definition mem_str (o : str) (ops : list str) : bool := existsb (str_eqb o) ops.
Definition peek_op (ops : list str) (ts : list token) : option (str * list token) :=
  match ts with
  | TOp o :: r => if mem_str o ops then Some (o, r) else None
  | _ => None
  end.

(* a level at which no operator was applied yields the operand itself, ungrouped *)
Definition group (x : tok) (acc : list tok) : tok := match acc with [] => x | _ :: _ => TList (x :: acc) end.

Fixpoint post_loop (ops : list str) (acc : list tok) (r : list token) : list tok * list token :=
  match r with
  | TOp o :: r' => if mem_str o ops then post_loop ops (acc ++ [TStr o]) r' else (acc, r)
  | _ => (acc, r)
  end.

Section Loops.
Variable operand : list token -> cres.       (* the next tighter level *)

(* x (op y)* : None = out of fuel *)
Fixpoint binl_loop (ops : list str) (n : nat) (acc : list tok) (r : list token) : option (list tok * list token) :=
  match n with
  | 0 => None
  | S n' =>
    match peek_op ops r with
    | Some (o, r1) =>
      match operand r1 with
      | COk y r2 => binl_loop ops n' (acc ++ [TStr o; y]) r2
      | CFail => Some (acc, r)
      | COut => None
      end
    | None => Some (acc, r)
    end
  end.

(* x (op1 y op2 z)* *)
Fixpoint ternl_loop (o1 o2 : list str) (n : nat) (acc : list tok) (r : list token) : option (list tok * list token) :=
  match n with
  | 0 => None
  | S n' =>
    match peek_op o1 r with
    | Some (a, r1) =>
      match operand r1 with
      | COk y r2 =>
        match peek_op o2 r2 with
        | Some (b, r3) =>
          match operand r3 with
          | COk z r4 => ternl_loop o1 o2 n' (acc ++ [TStr a; y; TStr b; z]) r4
          | CFail => Some (acc, r)
          | COut => None
          end
        | None => Some (acc, r)
        end
      | CFail => Some (acc, r)
      | COut => None
      end
    | None => Some (acc, r)
    end
  end.

(* x y* *)
Fixpoint juxl_loop (n : nat) (acc : list tok) (r : list token) : option (list tok * list token) :=
  match n with
  | 0 => None
  | S n' =>
    match operand r with
    | COk y r2 => juxl_loop n' (acc ++ [y]) r2
    | CFail => Some (acc, r)
    | COut => None
    end
  end.
End Loops.

(* `levels` : the levels that may be used, LOOSEST FIRST (the precedence parameter); [] = operands only *)
Fixpoint climb_f (fuel : nat) (levels : list clevel) (ts : list token) : cres :=
  match fuel with
  | 0 => COut
  | S f =>
    match levels with
    | [] => match ts with TOperand x :: r => COk (TStr x) r | _ => CFail end
    | lv :: tighter =>
      let operand := climb_f f tighter in      (* prec + 1 *)
      let self := climb_f f levels in          (* prec *)
      let fin := fun x (o : option (list tok * list token)) =>
                   match o with Some (acc, r') => COk (group x acc) r' | None => COut end in
      match lv with
      | CPrefix ops =>
        match peek_op ops ts with
        | Some (o, r) =>
          match self r with
          | COk y r' => COk (TList [TStr o; y]) r'
          | CFail => operand ts
          | COut => COut
          end
        | None => operand ts
        end
      | CPostfix ops =>
        match operand ts with
        | COk x r => let '(acc, r') := post_loop ops [] r in COk (group x acc) r'
        | other => other
        end
      | CBinL ops =>
        match operand ts with
        | COk x r => fin x (binl_loop operand ops f [] r)
        | other => other
        end
      | CBinR ops =>
        match operand ts with
        | COk x r =>
          match peek_op ops r with
          | Some (o, r1) =>
            match self r1 with
            | COk y r' => COk (TList [x; TStr o; y]) r'
            | CFail => COk x r
            | COut => COut
            end
          | None => COk x r
          end
        | other => other
        end
      | CJuxL =>
        match operand ts with
        | COk x r => fin x (juxl_loop operand f [] r)
        | other => other
        end
      | CJuxR =>
        match operand ts with
        | COk x r =>
          match self r with
          | COk y r' => COk (TList [x; y]) r'
          | CFail => COk x r
          | COut => COut
          end
        | other => other
        end
      | CTernL o1 o2 =>
        match operand ts with
        | COk x r => fin x (ternl_loop operand o1 o2 f [] r)
        | other => other
        end
      | CTernR o1 o2 =>
        match operand ts with
        | COk x r =>
          match peek_op o1 r with
          | Some (a, r1) =>
            match self r1 with
            | COk y r2 =>
              match peek_op o2 r2 with
              | Some (b, r3) =>
                match self r3 with
                | COk z r' => COk (TList [x; TStr a; y; TStr b; z]) r'
                | CFail => COk x r
                | COut => COut
                end
              | None => COk x r
              end
            | CFail => COk x r
            | COut => COut
            end
          | None => COk x r
          end
        | other => other
        end
      end
    end
  end.

Definition climb_fuel (table : ctable) (ts : list token) : nat := List.length table + List.length ts + 1.

(* the SPEC: tree and remaining tokens; None = no expression starts here *)
Definition climb (table : ctable) (ts : list token) : option (tok * list token) :=
  match climb_f (climb_fuel table ts) (rev table) ts with
  | COk t r => Some (t, r)
  | _ => None
  end.

Definition climb_all (table : ctable) (ts : list token) : option tok :=
  match climb table ts with Some (t, []) => Some t | _ => None end.

(* ------------------------------------------------------------------------------------------- *)
(* the lexical side condition (decidable)                                                        *)
(* ------------------------------------------------------------------------------------------- *)
Fixpoint is_prefix (m u : str) : bool :=
  match m, u with
  | [], _ => true
  | c :: m', d :: u' => N.eqb c d && is_prefix m' u'
  | _ :: _, [] => false
  end.

Definition level_ops (lv : clevel) : list str :=
  match lv with
  | CPostfix o | CPrefix o | CBinL o | CBinR o => o
  | CJuxL | CJuxR => []
  | CTernL a b | CTernR a b => a ++ b
  end.
Definition table_ops (table : ctable) : list str := flat_map level_ops table.

(* operands: the strings matched by Word(cs) : non-empty, all characters in cs *)
Definition operand_okb (cs : list char) (x : str) : bool :=
  match x with [] => false | _ :: _ => forallb (fun c => mem_char c cs) x end.

(* a spelling: non-empty, free of whitespace, does not start like an operand *)
Definition spelling_okb (dw cs : list char) (m : str) : bool :=
  match m with
  | [] => false
  | c :: _ => negb (mem_char c cs) && forallb (fun d => negb (mem_char d dw)) m
  end.

(* `no_overlapb dw cs lpar table`: whitespace dw contains the space and no operand character; every operator spelling
   (and the opening parenthesis) is a spelling in the sense above; no spelling (operator or opening parenthesis) is a
   PROPER prefix of an operator spelling.  (The F-16 keys in known_findings.txt are exactly the shapes excluded: an
   operator that is a proper prefix of another operator, F-16a..e; an operand that is a prefix of a keyword operator,
   F-16f.) *)
Definition no_overlapb (dw cs : list char) (lpar : str) (table : ctable) : bool :=
  let ops := table_ops table in
  mem_char SP dw &&
  forallb (fun c => negb (mem_char c dw)) cs &&
  forallb (spelling_okb dw cs) (lpar :: ops) &&
  forallb (fun o => negb (is_prefix lpar o)) ops &&
  forallb (fun m => forallb (fun o => negb (is_prefix m o) || str_eqb m o) ops) ops.

Definition token_okb (cs : list char) (table : ctable) (t : token) : bool :=
  match t with
  | TOperand x => operand_okb cs x
  | TOp o => mem_str o (table_ops table)
  end.

(* ------------------------------------------------------------------------------------------- *)
(* reading an operator table of Model/Infix.v (elements) as a token-level table                  *)
(* ------------------------------------------------------------------------------------------- *)
(* covered shapes: an operator is a Literal or a MatchFirst of Literals (whitespace-skipping, white characters dw); the
   operand expression is Word(cs) (no min/max/as_keyword); a parenthesis is a Literal or Suppress(Literal).
   Covered levels: postfix, prefix, binary left / right, right juxtaposition, ternary left / right (both operator positions
   readable).  LJuxL is NOT covered: its ZeroOrMore ends after the trailing whitespace, so a prefix reading of that level does
   not end at the end of its last token (the end position claimed by C16_climb_partial). *)
Definition ws_attrs (dw : list char) (cp : bool) (a : attrs) : bool :=
  Bool.eqb (callpre a) cp && skipws a && str_eqb (white a) dw.

Definition lit_spelling (dw : list char) (e : expr) : option str :=
  match e with
  | Tok a [] (KLit m) => if ws_attrs dw true a then Some m else None
  | _ => None
  end.

Fixpoint all_some {A : Type} (l : list (option A)) : option (list A) :=
  match l with
  | [] => Some []
  | None :: _ => None
  | Some x :: r => match all_some r with Some xs => Some (x :: xs) | None => None end
  end.

Definition op_spellings (dw : list char) (e : expr) : option (list str) :=
  match e with
  | Tok _ _ _ => match lit_spelling dw e with Some m => Some [m] | None => None end
  | Nary a [] NMatchFirst es => if ws_attrs dw false a then all_some (map (lit_spelling dw) es) else None
  | _ => None
  end.

(* a ternary level ((op1, op2), 3, assoc): both operator positions must be readable *)
Definition tern_spellings (mk : list str -> list str -> clevel) (a b : option (list str)) : option clevel :=
  match a, b with Some x, Some y => Some (mk x y) | _, _ => None end.

Definition clevel_of (dw : list char) (lv : level) : option clevel :=
  match lv with
  | LPostfix op _ => option_map CPostfix (op_spellings dw op)
  | LPrefix op _ => option_map CPrefix (op_spellings dw op)
  | LBinL op _ => option_map CBinL (op_spellings dw op)
  | LBinR op _ => option_map CBinR (op_spellings dw op)
  | LJuxR _ => Some CJuxR
  | LTernL o1 o2 _ => tern_spellings CTernL (op_spellings dw o1) (op_spellings dw o2)
  | LTernR o1 o2 _ => tern_spellings CTernR (op_spellings dw o1) (op_spellings dw o2)
  | LJuxL _ => None
  end.
Definition ctable_of (dw : list char) (table : list level) : option ctable := all_some (map (clevel_of dw) table).

Definition par_spelling (dw : list char) (e : expr) : option str :=
  match e with
  | Enh a [] ESuppress c => if ws_attrs dw true a then lit_spelling dw c else None
  | _ => lit_spelling dw e
  end.

Definition base_chars (dw : list char) (e : expr) : option (list char) :=
  match e with
  | Tok a [] (KWord i b 1 None false false _) => if ws_attrs dw true a && str_eqb i b then Some i else None
  | _ => None
  end.

Definition not_plain_and (e : expr) : bool :=
  match e with Nary a _ NAnd _ => negb (match acts a, rsname a with [], None => true | _, _ => false end) | _ => true end.
